(* Model/ModularitySelect.v — the DECISION STEP and the sweep loop of the deterministic-gain optimisers of
   bct/algorithms/modularity.py (modularity_finetune_und/_dir/_und_sign, modularity_louvain_und/_und_sign,
   community_louvain), exactly over Q:

       for u in rng.permutation(n):
           ma = ci[u] - 1
           dq = <gain formula, one entry per module slot 0..n-1>
           dq[ma] = 0
           max_dq = np.max(dq)
           if max_dq > 1e-10:
               mb = np.argmax(dq)             # first maximum
               <bookkeeping update>; ci[u] = mb + 1; flag = True

   inside   while flag: [it += 1; if it > 1000: raise]  flag = False; <sweep>.

   The ONLY oracle input is the list of node permutations the run draws (one per sweep, in the order of the calls of
   rng.permutation, across all levels). [thr] stands for the constant 1e-10 (the harness passes the exact rational value
   of that double), [maxit] for the constant 1000 of the `it > 1000` guard (None: the routine has no guard).
   A node index outside 0..N-1 in a permutation is skipped (rng.permutation(n) never produces one).
   Definitions only; Proofs/ModularitySelect.v. *)
From Coq Require Import QArith Qabs List Arith Bool ZArith.
From BCT Require Import Base.Mat Base.SumQ Base.ListX Model.Modularity.
Import ListNotations.
Open Scope Q_scope.

(* np.max / np.argmax of a non-empty vector: the FIRST index holding the maximum *)
Fixpoint argmax_from (i best : nat) (bv : Q) (l : list Q) : nat * Q :=
  match l with
  | [] => (best, bv)
  | x :: r => if Qltb bv x then argmax_from (S i) i x r else argmax_from (S i) best bv r
  end.
Definition argmax_first (l : list Q) : option (nat * Q) :=
  match l with [] => None | x :: r => Some (argmax_from 1 O x r) end.

(* distance of the decision from flipping (reported to the harness only; no theorem uses it): the gap between the
   maximum and the threshold, and between the maximum and the largest entry at another index *)
Definition Qmin2 (a b : Q) : Q := if Qle_bool a b then a else b.
Definition Qabs2 (a : Q) : Q := if Qle_bool 0 a then a else - a.
Fixpoint keys_eqb (a b : list Q) : bool :=
  match a, b with
  | [], [] => true
  | x :: r, y :: t => Qeq_bool x y && keys_eqb r t
  | _, _ => false
  end.
(* the largest entry among the slots whose INPUTS differ from those of the chosen slot: two slots with identical inputs
   (same node-to-module sum, same module sum) get bitwise identical float gains, so their tie is decided by first-max in
   the code exactly as in the model; only a (near-)tie with a slot of different inputs can flip under rounding *)
Fixpoint max_other (kmb : list Q) (acc : option Q) (dq : list Q) (keys : list (list Q)) : option Q :=
  match dq, keys with
  | x :: r, k :: kr =>
      let acc' := if keys_eqb k kmb then acc else match acc with None => Some x | Some a => Some (if Qltb a x then x else a) end in
      max_other kmb acc' r kr
  | _, _ => acc
  end.
Definition margin_of (thr : Q) (dq : list Q) (keys : list (list Q)) (mb : nat) (mx : Q) : Q :=
  match max_other (nth mb keys []) None dq keys with
  | None => Qred (Qabs2 (mx - thr))
  | Some sec => Qred (Qmin2 (Qabs2 (mx - thr)) (mx - sec))
  end.

Inductive sweep_out := SwDone | SwRaise | SwStreamEnd.
(* one visited node: (u, (decision, margin)) *)
Definition visit := (nat * (option nat * Q))%type.
Definition moves_of (vs : list visit) : list (nat * nat) :=
  flat_map (fun v : visit => match fst (snd v) with Some mb => [(fst v, mb)] | None => [] end) vs.
(* the accepted moves of one level = of all its sweeps, in order *)
Definition lvl_moves (vss : list (list visit)) : list (nat * nat) := concat (map moves_of vss).

Section Select.
Variable N : nat.                                   (* number of nodes = number of module slots of the level *)
Variable thr : Q.                                   (* 1e-10 *)
Variable maxit : option nat.                        (* 1000, or None when the routine has no `it` guard *)
Variable gain : state -> nat -> nat -> Q.           (* the routine's gain formula, entry mb of the vector *)
Variable move : state -> nat -> nat -> state.       (* the routine's bookkeeping update *)
Variable skey : state -> nat -> nat -> list Q.      (* the state entries slot mb's gain is computed from (margin only) *)

(* dq, after dq[ma] = 0 *)
Definition dq_vec (st : state) (u : nat) : list Q :=
  map (fun t => if Nat.eqb t (lab st u) then 0 else Qred (gain st u t)) (seq 0 N).
(* max_dq = np.max(dq); if max_dq > thr: mb = np.argmax(dq) *)
Definition decide (st : state) (u : nat) : option nat * Q :=
  let dq := dq_vec st u in
  match argmax_first dq with
  | Some (mb, mx) =>
      if Qltb thr mx
      then (Some mb, margin_of thr dq (map (fun t => if Nat.eqb t (lab st u) then [] else skey st u t) (seq 0 N)) mb mx)
      else (None, Qred (Qabs2 (mx - thr)))
  | None => (None, 0)
  end.
Definition select (st : state) (u : nat) : option nat := fst (decide st u).

(* for u in perm: ... *)
Fixpoint sweep (st : state) (perm : list nat) : list visit * state :=
  match perm with
  | [] => ([], st)
  | u :: r =>
      if Nat.ltb u N then
        let d := decide st u in
        let st' := match fst d with Some mb => move st u mb | None => st end in
        let rec := sweep st' r in
        ((u, d) :: fst rec, snd rec)
      else sweep st r
  end.

Definition over (it : nat) : bool := match maxit with Some m => Nat.ltb m it | None => false end.
(* while flag: it += 1; if it > maxit: raise; flag = False; sweep (flag = True iff the sweep moved a node).
   Result: ((visits per sweep, final state), (permutations not consumed, outcome)) *)
Fixpoint sweeps (it : nat) (st : state) (perms : list (list nat))
  : (list (list visit) * state) * (list (list nat) * sweep_out) :=
  match perms with
  | [] => (([], st), ([], SwStreamEnd))
  | p :: r =>
      if over it then (([], st), (perms, SwRaise)) else
      let sw := sweep st p in
      match moves_of (fst sw) with
      | [] => (([fst sw], snd sw), (r, SwDone))
      | _ :: _ => let rec := sweeps (S it) (snd sw) r in
                  ((fst sw :: fst (fst rec), snd (fst rec)), snd rec)
      end
  end.
End Select.

(* the inputs of slot t of the gain vector, per family *)
Definition key_und (st : state) (u t : nat) : list Q := [knm (ca st) u t; km (ca st) t].
Definition key_two (st : state) (u t : nat) : list Q := [knm (ca st) u t; km (ca st) t; knm (cb st) u t; km (cb st) t].
(* community_louvain: the node-to-module sums of the (non-integer) objective matrix are themselves rounded floats in the
   code, so equal exact inputs do NOT give bitwise equal float gains: every slot counts as different *)
Definition key_B (st : state) (u t : nat) : list Q := [inject_Z (Z.of_nat t)].

(* ---------- whole runs generated from the permutation stream ---------- *)
(* levels (each: its sweeps, each: its visits), (number of permutations left over, outcome) *)
Definition auto_t := (list (list (list visit)) * (nat * sweep_out))%type.
Definition auto_moves (a : auto_t) : list (list (nat * nat)) := map lvl_moves (fst a).

(* modularity_louvain_und: levels are executed while permutations remain (the number of levels is thereby taken from the
   stream; the q[h]-q[h-1] rule that ends the outer loop is C02's stop_rule_ok) *)
Fixpoint louvain_und_gen (fuel : nat) (thr : Q) (maxit : option nat) (g s : Q) (n : nat) (W : mat Q)
         (perms : list (list nat)) : auto_t :=
  match fuel with
  | O => ([], (length perms, SwStreamEnd))
  | S f =>
      match perms with
      | [] => ([], (O, SwDone))
      | _ :: _ =>
          let k := tabvQ n (colsum n W) in
          let st0 := mkst (tabv O n ident) (mkchan (tabQ n n W) k) chan0 in
          let r := sweeps n thr maxit (gain_und W g s k) (move_und n W k) key_und 1 st0 perms in
          let fin := snd (fst r) in
          match snd (snd r) with
          | SwDone =>
              let m0 := tabv O n (relabel0 n (zlab (lab fin))) in
              let n' := nlab n (zlab (lab fin)) in
              let W1 := tabQ n' n' (agg_upper n W m0) in
              let more := louvain_und_gen f thr maxit g s n' W1 (fst (snd r)) in
              (fst (fst r) :: fst more, snd more)
          | o => ([fst (fst r)], (length (fst (snd r)), o))
          end
      end
  end.
Definition auto_louvain_und (rows : list (list Q)) (g thr : Q) (maxit : option nat) (perms : list (list nat)) : auto_t :=
  let n := length rows in let W := tabQ n n (of_rows 0 rows) in
  louvain_und_gen (S (length perms)) thr maxit g (stot n W) n W perms.
Definition run_louvain_und_auto (rows : list (list Q)) (g thr : Q) (maxit : option nat) (perms : list (list nat)) : result_t :=
  run_louvain_und rows g (auto_moves (auto_louvain_und rows g thr maxit perms)).

(* modularity_louvain_und_sign *)
Fixpoint louvain_sign_gen (fuel : nat) (thr : Q) (maxit : option nat) (g s0 s1 d0 d1 : Q) (n : nat) (W0 W1 : mat Q)
         (perms : list (list nat)) : auto_t :=
  match fuel with
  | O => ([], (length perms, SwStreamEnd))
  | S f =>
      match perms with
      | [] => ([], (O, SwDone))
      | _ :: _ =>
          let kn0 := tabvQ n (colsum n W0) in
          let kn1 := tabvQ n (colsum n W1) in
          let st0 := mkst (tabv O n ident) (mkchan (tabQ n n W0) kn0) (mkchan (tabQ n n W1) kn1) in
          let r := sweeps n thr maxit (gain_sign W0 W1 g s0 s1 d0 d1 kn0 kn1) (move_sign n W0 W1 kn0 kn1) key_two 1 st0 perms in
          let fin := snd (fst r) in
          match snd (snd r) with
          | SwDone =>
              let m0 := tabv O n (relabel0 n (zlab (lab fin))) in
              let n' := nlab n (zlab (lab fin)) in
              let V0 := tabQ n' n' (agg_upper n W0 m0) in
              let V1 := tabQ n' n' (agg_upper n W1 m0) in
              let more := louvain_sign_gen f thr maxit g s0 s1 d0 d1 n' V0 V1 (fst (snd r)) in
              (fst (fst r) :: fst more, snd more)
          | o => ([fst (fst r)], (length (fst (snd r)), o))
          end
      end
  end.
Definition auto_louvain_sign (rows : list (list Q)) (g thr : Q) (maxit : option nat) (qt : nat) (perms : list (list nat)) : auto_t :=
  let n := length rows in let W := tabQ n n (of_rows 0 rows) in
  let p := sign_params n W (qtype_of qt) in
  louvain_sign_gen (S (length perms)) thr maxit g (ss0 p) (ss1 p) (sd0 p) (sd1 p) n (sW0 p) (sW1 p) perms.
Definition run_louvain_sign_auto (rows : list (list Q)) (g thr : Q) (maxit : option nat) (qt : nat) (perms : list (list nat)) : result_t :=
  run_louvain_sign rows g qt (auto_moves (auto_louvain_sign rows g thr maxit qt perms)).

(* community_louvain (built-in objectives) *)
Fixpoint cl_gen (fuel : nat) (thr : Q) (maxit : option nat) (first : bool) (n : nat) (B : mat Q) (lab0 : vec nat)
         (perms : list (list nat)) : auto_t :=
  match fuel with
  | O => ([], (length perms, SwStreamEnd))
  | S f =>
      match perms with
      | [] => ([], (O, SwDone))
      | _ :: _ =>
          let hnm := if first then tabQ n n (knm_of n B lab0) else tabQ n n B in
          let H := if first then tabvQ n (rowsum n hnm) else tabvQ n (colsum n B) in
          let Hm := if first then tabvQ n (colsum n hnm) else H in
          let st0 := mkst lab0 (mkchan hnm Hm) chan0 in
          let r := sweeps n thr maxit (gain_B B) (move_B n B H) key_B 1 st0 perms in
          let fin := snd (fst r) in
          match snd (snd r) with
          | SwDone =>
              let m0 := tabv O n (relabel0 n (zlab (lab fin))) in
              let n' := nlab n (zlab (lab fin)) in
              let B1 := tabQ n' n' (agg_upper n B m0) in
              let more := cl_gen f thr maxit false n' B1 (tabv O n' ident) (fst (snd r)) in
              (fst (fst r) :: fst more, snd more)
          | o => ([fst (fst r)], (length (fst (snd r)), o))
          end
      end
  end.
Definition auto_community_louvain (rows : list (list Q)) (g thr : Q) (maxit : option nat) (kind : nat) (ci : list Z)
           (perms : list (list nat)) : auto_t :=
  let n := length rows in let W := tabQ n n (of_rows 0 rows) in
  cl_gen (S (length perms)) thr maxit true n (tabQ n n (B_builtin kind n W g)) (init_lab n ci) perms.
Definition run_community_louvain_auto (rows : list (list Q)) (g thr : Q) (maxit : option nat) (kind : nat) (ci : list Z)
           (perms : list (list nat)) : result_t :=
  run_community_louvain rows g kind ci (auto_moves (auto_community_louvain rows g thr maxit kind ci perms)).

(* the finetune routines: one level *)
Definition one_level (r : (list (list visit) * state) * (list (list nat) * sweep_out)) : auto_t :=
  ([fst (fst r)], (length (fst (snd r)), snd (snd r))).
Definition finetune_moves (a : auto_t) : list (nat * nat) := concat (auto_moves a).

Definition auto_finetune_und (rows : list (list Q)) (g thr : Q) (maxit : option nat) (ci : list Z) (perms : list (list nat)) : auto_t :=
  let n := length rows in let W := of_rows 0 rows in
  let lab0 := init_lab n ci in
  let s := stot n W in
  let ik := finetune_und_init n W lab0 in
  one_level (sweeps n thr maxit (gain_und W g s (snd ik)) (move_und n W (snd ik)) key_und 1 (fst ik) perms).
Definition run_finetune_und_auto (rows : list (list Q)) (g thr : Q) (maxit : option nat) (ci : list Z) (perms : list (list nat)) : result_t :=
  run_finetune_und rows g ci (finetune_moves (auto_finetune_und rows g thr maxit ci perms)).

Definition auto_finetune_dir (rows : list (list Q)) (g thr : Q) (maxit : option nat) (ci : list Z) (perms : list (list nat)) : auto_t :=
  let n := length rows in let W := of_rows 0 rows in
  let lab0 := init_lab n ci in
  let s := stot n W in
  let ik := finetune_dir_init n W lab0 in
  let ko := fst (snd ik) in let ki := snd (snd ik) in
  one_level (sweeps n thr maxit (gain_dir W g s ko ki) (move_dir false n W ko ki) key_two 1 (fst ik) perms).
Definition run_finetune_dir_auto (rows : list (list Q)) (g thr : Q) (maxit : option nat) (ci : list Z) (perms : list (list nat)) : result_t :=
  run_finetune_dir rows g ci (finetune_moves (auto_finetune_dir rows g thr maxit ci perms)).

Definition auto_finetune_sign (rows : list (list Q)) (g thr : Q) (maxit : option nat) (qt : nat) (ci : list Z)
           (perms : list (list nat)) : auto_t :=
  let n := length rows in let W := of_rows 0 rows in
  let lab0 := init_lab n ci in
  let p := sign_params n W (qtype_of qt) in
  let ik := sign_init n p lab0 in
  let kn0 := fst (snd ik) in let kn1 := snd (snd ik) in
  one_level (sweeps n thr maxit (gain_sign (sW0 p) (sW1 p) g (ss0 p) (ss1 p) (sd0 p) (sd1 p) kn0 kn1)
                    (move_sign n (sW0 p) (sW1 p) kn0 kn1) key_two 1 (fst ik) perms).
Definition run_finetune_sign_auto (rows : list (list Q)) (g thr : Q) (maxit : option nat) (qt : nat) (ci : list Z)
           (perms : list (list nat)) : result_t :=
  run_finetune_sign rows g qt ci (finetune_moves (auto_finetune_sign rows g thr maxit qt ci perms)).

(* ---------- modularity_louvain_und(hierarchy=True): ci = np.array(ci)[1:-1], q = q[1:-1] ----------
   ci = [ci[0] = 1..n, ci[1], ..., ci[h]], q = [-1, q[1], ..., q[h]] where 1..h are the computed levels: the slice drops the
   start entry and the LAST computed level (the one that failed to raise q by 1e-10) *)
Definition run_louvain_und_hier (rows : list (list Q)) (g : Q) (lv : list (list (nat * nat))) : list (list nat) * list Q :=
  let kept := removelast (fst (run_louvain_und rows g lv)) in
  (map (fun l : level_t => fst (snd l)) kept, map (fun l : level_t => fst (snd (snd l))) kept).

(* ---------- modularity_und / modularity_dir without kci: the recursion `recur` around the numeric kernel ----------
   [asgn md] is the ORACLE: None when the leading-eigenvector split does not raise modularity (`q > 0` fails), otherwise
   Some of the final mod_asgn (true = +1) after the fine-tuning sweep. The code's own statements are modelled:
       if np.abs(np.sum(mod_asgn)) == n: modules.append(module)        # null module
       else: mod1 = module[np.where(mod_asgn == 1)]; mod2 = module[np.where(mod_asgn == -1)]; recur(mod1); recur(mod2)
   (an assignment vector of the wrong length is read with default -1 / cut, as zip would) *)
Fixpoint pick (want : bool) (md : list nat) (a : list bool) : list nat :=
  match md with
  | [] => []
  | x :: r => let b := match a with [] => false | b :: _ => b end in
              let r' := pick want r (tl a) in
              if Bool.eqb b want then x :: r' else r'
  end.
Definition spectral_split (asgn : list nat -> option (list bool)) (md : list nat) : option (list nat * list nat) :=
  match asgn md with
  | None => None
  | Some a =>
      let m1 := pick true md a in let m2 := pick false md a in
      match m1, m2 with
      | [], _ => None            (* sum(mod_asgn) = -n *)
      | _, [] => None            (* sum(mod_asgn) = +n *)
      | _, _ => Some (m1, m2)
      end
  end.
(* init_mod = arange(n); recur(init_mod); ci = ls2ci(modules); then the closing statement (given_und / given_dir) *)
Definition run_spectral (dir : bool) (rows : list (list Q)) (g : Q) (fuel : nat) (asgn : list nat -> option (list bool))
  : list nat * (Q * Q) :=
  let n := length rows in let A := of_rows 0 rows in
  let ls := bisect fuel (spectral_split asgn) (seq 0 n) in
  let ci := ls2ci ls in
  (to_list n ci, if dir then (Qred (given_dir n A g ci), Qred (Qdir n A g ci))
                 else (Qred (given_und n A g ci), Qred (Qund n A g ci))).
(* the oracle as the harness records it: a table (module, decision) looked up by module content *)
Fixpoint list_eqb (a b : list nat) : bool :=
  match a, b with
  | [], [] => true
  | x :: r, y :: s => Nat.eqb x y && list_eqb r s
  | _, _ => false
  end.
Fixpoint asgn_of_table (tb : list (list nat * option (list bool))) (md : list nat) : option (list bool) :=
  match tb with
  | [] => None
  | (m, d) :: r => if list_eqb m md then d else asgn_of_table r md
  end.
Definition run_spectral_table (dir : bool) (rows : list (list Q)) (g : Q) (tb : list (list nat * option (list bool)))
  : list nat * (Q * Q) := run_spectral dir rows g (length rows) (asgn_of_table tb).

(* the Kernighan-Lin style fine-tuning sweep of `recur` (py 1576-1595), exactly over Q. NOT run against the code (its
   comparisons are float-decided and tie-ridden); used only to WRITE the full statement of the spectral clause.
   M = modmat with zero diagonal (np.fill_diagonal), s = mod_asgn as +-1, q = s.M.s computed before the diagonal fill.
       it = ones (unmasked); s_it = s.copy()
       while any(it): q_it = qmax - 4*s_it*(M.s_it); qmax = max(q_it*it); imax = argmax(q_it*it); s_it[imax] *= -1;
                      it[imax] = masked; if qmax > q: q = qmax; s = s_it          # s ALIASES s_it from then on *)
Definition pm (b : bool) : Q := if b then 1 else - (1).
Definition flip_at (i : nat) (s : list bool) : list bool :=
  map (fun jb : nat * bool => if Nat.eqb (fst jb) i then negb (snd jb) else snd jb) (combine (seq 0 (length s)) s).
(* np.max / np.argmax of a masked array: first maximum among the unmasked entries *)
Fixpoint argmax_free (i : nat) (best : option (nat * Q)) (vals : list Q) (free : list bool) : option (nat * Q) :=
  match vals, free with
  | x :: r, b :: fr =>
      let best' := if b then match best with
                             | None => Some (i, x)
                             | Some (_, bv) => if Qltb bv x then Some (i, x) else best
                             end
                   else best in
      argmax_free (S i) best' r fr
  | _, _ => best
  end.
Fixpoint kl_loop (fuel : nat) (m : nat) (M : mat Q) (qmax q : Q) (s_it : list bool) (free : list bool)
         (s : list bool) (aliased : bool) : list bool :=
  match fuel with
  | O => if aliased then s_it else s
  | S f =>
      let sv : vec Q := fun j => pm (nth j s_it false) in
      let q_it := map (fun i => Qred (qmax - 4 * sv i * sumR (fun j => M i j * sv j) m)) (seq 0 m) in
      match argmax_free O None q_it free with
      | None => if aliased then s_it else s                      (* every entry masked: while np.any(it) ends *)
      | Some (imax, qm) =>
          let s_it' := flip_at imax s_it in
          let free' := map (fun jb : nat * bool => if Nat.eqb (fst jb) imax then false else snd jb)
                           (combine (seq 0 m) free) in
          if Qltb q qm then kl_loop f m M qm qm s_it' free' s true
          else kl_loop f m M qm q s_it' free' s aliased
      end
  end.
(* the whole decision of `recur` for one module, given the leading eigenvector's sign pattern (max_eigvec >= 0):
   modmat = B[md][:, md] - diag(column sums); q = s.modmat.s; if q > 0: fine-tune else: final *)
Definition spectral_decide (dir : bool) (n : nat) (A : mat Q) (g : Q) (md : list nat) (sgn : list bool) : option (list bool) :=
  let ki := colsum n A in let ko := if dir then rowsum n A else colsum n A in
  let mtot := sumR ki n in
  let b : mat Q := fun i j => A i j - g * (ko i * ki j) / mtot in
  let B : mat Q := if dir then (fun i j => b i j + b j i) else b in
  let m := length md in
  let sub : mat Q := fun a c => B (nth a md O) (nth c md O) in
  (* modularity_und only: modmat -= np.diag(np.sum(modmat, axis=0)) *)
  let modmat : mat Q := fun a c => if negb dir && Nat.eqb a c then sub a c - sumR (fun t => sub t c) m else sub a c in
  let sv : vec Q := fun j => pm (nth j sgn false) in
  let q := sumR (fun a => sv a * sumR (fun c => modmat a c * sv c) m) m in
  if Qltb 0 q then
    let M0 : mat Q := fun a c => if Nat.eqb a c then 0 else modmat a c in
    Some (kl_loop m m (tabQ m m M0) q q sgn (map (fun _ => true) md) sgn false)
  else None.
