(* Model/Core.v — bct/algorithms/core.py: kcore_bu, kcore_bd, score_wu;
   bct/algorithms/centrality.py: kcoreness_centrality_bu, kcoreness_centrality_bd.
   Carrier Q (degrees are counts, strengths are sums; k / s may be fractional). Definitions only. *)
From Coq Require Import QArith List Arith Bool ZArith Lia.
From BCT Require Import Base.Mat Base.SumQ Base.ListX.
Import ListNotations.
Open Scope Q_scope.

Definition qltb (a b : Q) : bool := negb (Qle_bool b a).          (* a < b *)
Definition nzq (w : Q) : Q := if Qeq_bool w 0 then 0 else 1.      (* binarize: W[W != 0] = 1 *)

(* degrees_und: np.sum(binarize(CIJ), axis=0) *)
Definition deg_und (n : nat) (M : mat Q) (j : nat) : Q := sumQ (fun i => nzq (M i j)) n.
(* degrees_dir: id = column sums, od = row sums of binarize(CIJ); deg = id + od *)
Definition deg_dir (n : nat) (M : mat Q) (j : nat) : Q :=
  sumQ (fun i => nzq (M i j)) n + sumQ (fun i => nzq (M j i)) n.
(* strengths_und: np.sum(CIJ, axis=0) *)
Definition str_und (n : nat) (M : mat Q) (j : nat) : Q := sumQ (fun i => M i j) n.

(* ff, = np.where(np.logical_and(deg < k, deg > 0))   (ascending index order) *)
Definition peel_ff (n : nat) (deg : vec Q) (k : Q) : list nat :=
  filter (fun j => qltb (deg j) k && qltb 0 (deg j)) (seq 0 n).

(* CIJkcore[ff, :] = 0 ; CIJkcore[:, ff] = 0 *)
Definition zero_rows (ff : list nat) (M : mat Q) : mat Q := fun i j => if nmem i ff then 0 else M i j.
Definition zero_cols (ff : list nat) (M : mat Q) : mat Q := fun i j => if nmem j ff then 0 else M i j.

Record peel_res := mk_peel_res {
  pr_M : mat Q;                 (* CIJkcore *)
  pr_deg : vec Q;               (* the last degree vector computed (kn = np.sum(deg > 0)) *)
  pr_iter : nat;
  pr_order : list (list nat);   (* peelorder: one index array per round *)
  pr_level : list (list nat)    (* peellevel: iter * ones(len(ff)) per round *)
}.

(* while True: deg = degrees(CIJkcore); ff = ...; if ff.size == 0: break; iter += 1; zero rows/cols; append *)
Fixpoint peel_loop (dg : nat -> mat Q -> vec Q) (fuel n : nat) (k : Q) (M : mat Q)
                   (it : nat) (po pl : list (list nat)) : option peel_res :=
  match fuel with
  | O => None
  | S f =>
    let deg := tabv 0 n (dg n M) in
    match peel_ff n deg k with
    | [] => Some (mk_peel_res M deg it po pl)
    | (_ :: _) as ff =>
      let M' := tab 0 n n (zero_cols ff (zero_rows ff M)) in
      peel_loop dg f n k M' (S it) (po ++ [ff]) (pl ++ [repeat (S it) (length ff)])
    end
  end.

Definition peel (dg : nat -> mat Q -> vec Q) (n : nat) (W : mat Q) (k : Q) : option peel_res :=
  peel_loop dg (S n) n k W 0%nat [] [].

(* kn = np.sum(deg > 0) *)
Definition pos_nodes (n : nat) (deg : vec Q) : list nat := filter (fun j => qltb 0 (deg j)) (seq 0 n).
Definition kn_of (n : nat) (deg : vec Q) : nat := length (pos_nodes n deg).

Definition kcore_bu := peel deg_und.
Definition kcore_bd := peel deg_dir.
Definition score_wu := peel str_und.

(* ---------- kcoreness_centrality_* ---------- *)
(* bu: ss = np.sum(CIJkcore, axis=0) > 0 ; bd (after fix 840ed65): (np.sum(.,axis=0) + np.sum(.,axis=1)) > 0 *)
Definition ss_bu (n : nat) (M : mat Q) (j : nat) : bool := qltb 0 (sumQ (fun i => M i j) n).
Definition ss_bd (n : nat) (M : mat Q) (j : nat) : bool :=
  qltb 0 (sumQ (fun i => M i j) n + sumQ (fun i => M j i) n).

(* for k in range(m): CIJkcore, kn[k] = kcore(CIJ, k); coreness[ss] = k *)
Fixpoint kcoreness_loop (core : Q -> option peel_res) (ss : mat Q -> nat -> bool) (n m : nat)
  : option (vec nat * list nat) :=
  match m with
  | O => Some (fun _ => 0%nat, [])
  | S m' =>
    match kcoreness_loop core ss n m', core (inject_Z (Z.of_nat m')) with
    | Some (cor, kn), Some r =>
        Some (tabv 0%nat n (fun j => if ss (pr_M r) j then m' else cor j), kn ++ [kn_of n (pr_deg r)])
    | _, _ => None
    end
  end.

(* CIJund = CIJ + CIJ.T ; if np.any(CIJund > 1): CIJ = np.array(CIJund > 0, dtype=float) *)
Definition bu_prep (n : nat) (W : mat Q) : mat Q :=
  let U := fun i j => W i j + W j i in
  if existsb (fun c => qltb 1 (U (fst c) (snd c))) (cells n)
  then tab 0 n n (fun i j => if qltb 0 (U i j) then 1 else 0) else W.

Definition kcoreness_centrality_bu (n : nat) (W : mat Q) :=
  let W1 := bu_prep n W in kcoreness_loop (kcore_bu n W1) (ss_bu n) n n.
Definition kcoreness_centrality_bd (n : nat) (W : mat Q) :=
  kcoreness_loop (kcore_bd n W) (ss_bd n) n n.

(* ---------- the `peel` argument and the two return shapes ---------- *)
(* kcore_bu / kcore_bd (CIJ, k, peel=False):
     if peel: peelorder, peellevel = ([], [])                       (the lists exist only under the flag)
     ... if peel: peelorder.append(ff) ; if peel: peellevel.append(iter * np.ones((len(ff),)))
     if peel: return CIJkcore, kn, peelorder, peellevel  else: return CIJkcore, kn
   score_wu (CIJ, s) has neither the argument nor iter: it is the flag-off loop. *)
Fixpoint peel_loop_f (pflag : bool) (dg : nat -> mat Q -> vec Q) (fuel n : nat) (k : Q) (M : mat Q)
                     (it : nat) (po pl : list (list nat)) : option peel_res :=
  match fuel with
  | O => None
  | S f =>
    let deg := tabv 0 n (dg n M) in
    match peel_ff n deg k with
    | [] => Some (mk_peel_res M deg it po pl)
    | (_ :: _) as ff =>
      let M' := tab 0 n n (zero_cols ff (zero_rows ff M)) in
      peel_loop_f pflag dg f n k M' (S it)
        (if pflag then po ++ [ff] else po) (if pflag then pl ++ [repeat (S it) (length ff)] else pl)
    end
  end.

(* what the caller receives: (CIJkcore, kn) and, only when peel is true, (peelorder, peellevel) *)
Definition kcore_ret := (mat Q * nat * option (list (list nat) * list (list nat)))%type.
Definition peel_py (dg : nat -> mat Q -> vec Q) (n : nat) (W : mat Q) (k : Q) (pflag : bool) : option kcore_ret :=
  match peel_loop_f pflag dg (S n) n k W 0%nat [] [] with
  | None => None
  | Some r => Some (pr_M r, kn_of n (pr_deg r), if pflag then Some (pr_order r, pr_level r) else None)
  end.
Definition kcore_bu_py := peel_py deg_und.
Definition kcore_bd_py := peel_py deg_dir.
Definition score_wu_py (n : nat) (W : mat Q) (s : Q) : option kcore_ret := peel_py str_und n W s false.

(* kcoreness_centrality_*: `CIJkcore, kn[k] = kcore_b?(CIJ, k)` — the DEFAULT peel=False, 2-tuple path *)
Fixpoint kcoreness_loop_py (core : Q -> option kcore_ret) (ss : mat Q -> nat -> bool) (n m : nat)
  : option (vec nat * list nat) :=
  match m with
  | O => Some (fun _ => 0%nat, [])
  | S m' =>
    match kcoreness_loop_py core ss n m', core (inject_Z (Z.of_nat m')) with
    | Some (cor, kn), Some (M, knk, _) =>
        Some (tabv 0%nat n (fun j => if ss M j then m' else cor j), kn ++ [knk])
    | _, _ => None
    end
  end.
Definition kcoreness_centrality_bu_py (n : nat) (W : mat Q) :=
  let W1 := bu_prep n W in kcoreness_loop_py (fun k => kcore_bu_py n W1 k false) (ss_bu n) n n.
Definition kcoreness_centrality_bd_py (n : nat) (W : mat Q) :=
  kcoreness_loop_py (fun k => kcore_bd_py n W k false) (ss_bd n) n n.

(* ---------- executable interface ---------- *)
Definition qred_rows (n : nat) (W : mat Q) : list (list Q) := to_rows n n (fun i j => Qred (W i j)).
Definition out_peel (n : nat) (r : option peel_res) :=
  match r with
  | None => None
  | Some r => Some (qred_rows n (pr_M r), kn_of n (pr_deg r), (pr_order r, pr_level r))
  end.
(* which: 0 = kcore_bu, 1 = kcore_bd, 2 = score_wu *)
Definition run_core (which : nat) (rows : list (list Q)) (k : Q) :=
  let n := length rows in
  let W := of_rows 0 rows in
  out_peel n (match which with O => kcore_bu n W k | S O => kcore_bd n W k | _ => score_wu n W k end).
Definition run_coreness (which : nat) (rows : list (list Q)) : option (list nat * list nat) :=
  let n := length rows in
  let W := of_rows 0 rows in
  match (match which with O => kcoreness_centrality_bu n W | _ => kcoreness_centrality_bd n W end) with
  | None => None
  | Some (cor, kn) => Some (to_list n cor, kn)
  end.
(* the routines as called: with the peel argument / through the default 2-tuple path (these are what the harness runs) *)
Definition run_core_py (which : nat) (rows : list (list Q)) (k : Q) (pflag : bool) :=
  let n := length rows in
  let W := of_rows 0 rows in
  match (match which with O => kcore_bu_py n W k pflag | S O => kcore_bd_py n W k pflag | _ => score_wu_py n W k end) with
  | None => None
  | Some (M, kn, pp) => Some (qred_rows n M, kn, pp)
  end.
Definition run_coreness_py (which : nat) (rows : list (list Q)) : option (list nat * list nat) :=
  let n := length rows in
  let W := of_rows 0 rows in
  match (match which with O => kcoreness_centrality_bu_py n W | _ => kcoreness_centrality_bd_py n W end) with
  | None => None
  | Some (cor, kn) => Some (to_list n cor, kn)
  end.
