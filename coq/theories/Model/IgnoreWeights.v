(* Model/IgnoreWeights.v — the remaining routines whose docstring says the weights are ignored / discarded (C10):
     bct/algorithms/physical_connectivity.py  density_dir (lines 32-35), density_und (lines 64-67)
     bct/algorithms/degree.py                 jdegree (lines 87-108)
     bct/algorithms/similarity.py             edge_nei_overlap_bd (lines 41-61), edge_nei_overlap_bu (lines 91-111)
   statement by statement, carrier Q for the input (so that real weights can be fed).  The other documented
   routines are modelled elsewhere: degrees_und/degrees_dir (Model/Clustering.v), assortativity_bin
   (Model/Assortativity.v), findwalks (Model/Walks.v), reachdist (Model/Distance.v); findpaths raises on every
   call (known finding) and has no model.  Definitions only. *)
From Coq Require Import QArith Qround List Arith Bool ZArith Lia.
From BCT Require Import Base.Mat Base.SumQ Base.ListX Model.Threshold Model.Clustering.
Import ListNotations.
Open Scope Q_scope.

Definition qnzb' (x : Q) : bool := negb (Qeq_bool x 0).        (* truth value of a float: x != 0 *)
Definition natq (k : nat) : Q := inject_Z (Z.of_nat k).

(* ---------- density_dir / density_und ---------- *)
(* k = np.size(np.where(CIJ.flatten()));  kden = k / (n*n - n)      [Python ints: ZeroDivisionError = None] *)
Definition density_dir (n : nat) (CIJ : mat Q) : option Q * nat :=
  let k := length (filter (fun c => qnzb' (CIJ (fst c) (snd c))) (cells n)) in
  (odiv (natq k) (natq (n * n - n)), k).
(* k = np.size(np.where(np.triu(CIJ).flatten()));  kden = k / ((n*n - n) / 2) *)
Definition density_und (n : nat) (CIJ : mat Q) : option Q * nat :=
  let k := length (filter (fun c => Nat.leb (fst c) (snd c) && qnzb' (CIJ (fst c) (snd c)))%bool (cells n)) in
  (odiv (natq k) (natq (n * n - n) / 2), k).

(* ---------- jdegree ---------- *)
Definition qnat (q : Q) : nat := Z.to_nat (Qfloor q).            (* .astype(int) of a non-negative float *)
Record jdeg := mkjd { j_sz : nat; j_J : mat Z; j_od : Z; j_id : Z; j_bl : Z }.
Definition jdegree (n : nat) (CIJ0 : mat Q) : jdeg :=
  let CIJ := binarize CIJ0 in                                     (* CIJ = binarize(CIJ, copy=True) *)
  let id := fun v => qnat (colsum n CIJ v) in                     (* np.sum(CIJ, axis=0).astype(int) *)
  let od := fun v => qnat (rowsum n CIJ v) in                     (* np.sum(CIJ, axis=1).astype(int) *)
  let szJ := S (fold_left Nat.max (map (fun v => Nat.max (id v) (od v)) (seq 0 n)) 0%nat) in   (* np.max((id, od)) + 1 *)
  let J : mat Z := fun a b => countn (fun i => Nat.eqb (id i) a && Nat.eqb (od i) b)%bool n in   (* for i: J[id[i], od[i]] += 1 *)
  mkjd szJ J
       (sumn (fun a => sumn (fun b => if Nat.ltb a b then J a b else 0%Z) szJ) szJ)      (* np.sum(np.triu(J, 1)) *)
       (sumn (fun a => sumn (fun b => if Nat.ltb b a then J a b else 0%Z) szJ) szJ)      (* np.sum(np.tril(J, -1)) *)
       (sumn (fun a => J a a) szJ).                                                       (* np.sum(np.diag(J)) *)

(* ---------- edge_nei_overlap_bd / _bu (the two bodies differ only in the degree routine) ---------- *)
(* per edge e = (ik[e], jk[e]) in np.where(CIJ) order: (edge, ec[e], degij[:, e]);  EC is inf except EC[ik, jk] = ec.
   neiik = setdiff1d(union1d(where(CIJ[i,:]), where(CIJ[:,i])), (i, j)) is the sorted list of the v with
   CIJ[i,v] or CIJ[v,i] nonzero, v not in {i, j}; likewise neijk around j. *)
Definition nei (n : nat) (CIJ : mat Q) (x i j : nat) : list nat :=
  filter (fun v => (qnzb' (CIJ x v) || qnzb' (CIJ v x)) && negb (Nat.eqb v i) && negb (Nat.eqb v j))%bool (seq 0 n).
Definition enov_edge (n : nat) (CIJ : mat Q) (deg : vec Q) (c : nat * nat) : option (nat * nat * Q * (Q * Q)) :=
  let i := fst c in let j := snd c in
  let neiik := nei n CIJ i i j in
  let neijk := nei n CIJ j i j in
  let inter := length (filter (fun v => nmem v neijk) neiik) in                       (* len(np.intersect1d(neiik, neijk)) *)
  let union := length (filter (fun v => nmem v neiik || nmem v neijk)%bool (seq 0 n)) in   (* len(np.union1d(neiik, neijk)) *)
  if Nat.eqb union 0 then None                                                        (* ZeroDivisionError *)
  else Some (c, natq inter / natq union, (deg i, deg j)).
Fixpoint all_some' {T} (l : list (option T)) : option (list T) :=
  match l with
  | [] => Some []
  | None :: _ => None
  | Some x :: r => match all_some' r with None => None | Some r' => Some (x :: r') end
  end.
Definition enov (n : nat) (CIJ : mat Q) (deg : vec Q) : option (list (nat * nat * Q * (Q * Q))) :=
  let E := filter (fun c => qnzb' (CIJ (fst c) (snd c))) (cells n) in                 (* ik, jk = np.where(CIJ) *)
  all_some' (map (enov_edge n CIJ deg) E).
Definition edge_nei_overlap_bd (n : nat) (CIJ : mat Q) := enov n CIJ (fun v => snd (degrees_dir n CIJ v)).
Definition edge_nei_overlap_bu (n : nat) (CIJ : mat Q) := enov n CIJ (degrees_und n CIJ).

(* ---------- executable interface ---------- *)
Definition run_density (rows : list (list Q)) (und : bool) : option Q * nat :=
  let n := length rows in
  let r := if und then density_und n (of_rows 0 rows) else density_dir n (of_rows 0 rows) in (qopt (fst r), snd r).
Definition run_jdegree (rows : list (list Q)) : list (list Z) * (Z * (Z * Z)) :=
  let n := length rows in let r := jdegree n (of_rows 0 rows) in
  (to_rows (j_sz r) (j_sz r) (j_J r), (j_od r, (j_id r, j_bl r))).
Definition run_enov (rows : list (list Q)) (und : bool) : option (list (nat * nat * Q * (Q * Q))) :=
  let n := length rows in
  match (if und then edge_nei_overlap_bu n (of_rows 0 rows) else edge_nei_overlap_bd n (of_rows 0 rows)) with
  | None => None
  | Some l => Some (map (fun r => (fst (fst r), Qred (snd (fst r)), (Qred (fst (snd r)), Qred (snd (snd r))))) l)
  end.
