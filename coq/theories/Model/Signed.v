(* Model/Signed.v — bct/utils/miscellaneous_utilities.py: pick_four_unique_nodes_quickly;
   bct/algorithms/reference.py: randmio_dir_signed, randmio_und_signed.
   Carrier Z (weights are only moved and sign-tested). Definitions only.

   Randomness: the recorded stream of `rng.randint(n**4)` results is the explicit argument
   [s : list Z]; a draw x is used as x mod n^4 (identity on recorded draws, total on all
   streams). Exhaustion of the stream returns the current state. *)
From Coq Require Import ZArith List Arith Lia Bool.
From BCT Require Import Base.Mat Base.ListX.
Import ListNotations.
Open Scope Z_scope.

Definition quad := (nat * nat * nat * nat)%type.

(* k = rng.randint(n**4); a = k % n; b = k // n % n; c = k // n**2 % n; d = k // n**3 % n *)
Definition digits4 (n : nat) (x : Z) : quad :=
  let N := Z.of_nat n in
  let k := x mod (N ^ 4) in
  (Z.to_nat (k mod N), Z.to_nat (k / N mod N), Z.to_nat (k / N ^ 2 mod N), Z.to_nat (k / N ^ 3 mod N)).

(* a != b and a != c and a != d and b != c and b != d and c != d *)
Definition distinct4 (q : quad) : bool :=
  let '(a, b, c, d) := q in
  (negb (Nat.eqb a b) && negb (Nat.eqb a c) && negb (Nat.eqb a d) &&
   negb (Nat.eqb b c) && negb (Nat.eqb b d) && negb (Nat.eqb c d))%bool.

(* the recursive retry `return pick_four_unique_nodes_quickly(n, rng)` = recursion on the stream *)
Fixpoint pick4 (n : nat) (s : list Z) : option (quad * list Z) :=
  match s with
  | [] => None
  | x :: r => let q := digits4 n x in if distinct4 q then Some (q, r) else pick4 n r
  end.

(* rewiring condition: np.sign(r0_ab) == np.sign(r0_cd) and np.sign(r0_ad) == np.sign(r0_cb)
   and np.sign(r0_ab) != np.sign(r0_ad) *)
Definition cond4 (R : mat Z) (q : quad) : bool :=
  let '(a, b, c, d) := q in
  (Z.eqb (Z.sgn (R a b)) (Z.sgn (R c d)) && Z.eqb (Z.sgn (R a d)) (Z.sgn (R c b)) &&
   negb (Z.eqb (Z.sgn (R a b)) (Z.sgn (R a d))))%bool.

(* randmio_dir_signed: R[a,d]=r0_ab; R[a,b]=r0_ad; R[c,b]=r0_cd; R[c,d]=r0_cb (source order) *)
Definition swap_dir (R : mat Z) (q : quad) : mat Z :=
  let '(a, b, c, d) := q in
  let r_ab := R a b in let r_cd := R c d in let r_ad := R a d in let r_cb := R c b in
  upd (upd (upd (upd R a d r_ab) a b r_ad) c b r_cd) c d r_cb.

(* randmio_und_signed: R[a,d]=R[d,a]=r0_ab; R[a,b]=R[b,a]=r0_ad; R[c,b]=R[b,c]=r0_cd; R[c,d]=R[d,c]=r0_cb
   (a chained assignment stores left to right) *)
Definition swap_und (R : mat Z) (q : quad) : mat Z :=
  let '(a, b, c, d) := q in
  let r_ab := R a b in let r_cd := R c d in let r_ad := R a d in let r_cb := R c b in
  upd (upd (upd (upd (upd (upd (upd (upd R a d r_ab) d a r_ab) a b r_ad) b a r_ad)
                 c b r_cd) b c r_cd) c d r_cb) d c r_cb.

Definition swap4 (und : bool) := if und then swap_und else swap_dir.

(* max_attempts: n (directed); int(np.round(n / 2)) (undirected; np.round is half-to-even) *)
Definition max_att (und : bool) (n : nat) : nat :=
  if und then (let h := Nat.div n 2 in if Nat.even n then h else if Nat.even h then h else S h) else n.

(* itr *= n*(n-1)   resp.   itr *= int(n*(n-1)/2) *)
Definition n_iter (und : bool) (n itr : nat) : nat :=
  if und then (itr * Nat.div (n * (n - 1)) 2)%nat else (itr * (n * (n - 1)))%nat.

(* one pass of `att = 0; while att <= max_attempts: ... att += 1` with [fuel] = attempts left *)
Inductive att_res :=
| Swapped (R' : mat Z) (q : quad) (s' : list Z)
| NoSwap (s' : list Z)
| Exhausted.

Fixpoint attempt (und : bool) (n fuel : nat) (R : mat Z) (s : list Z) : att_res :=
  match fuel with
  | O => NoSwap s
  | S f =>
    match pick4 n s with
    | None => Exhausted
    | Some (q, s') =>
      if cond4 R q then Swapped (tab 0 n n (swap4 und R q)) q s'
      else attempt und n f R s'
    end
  end.

(* `for it in range(int(itr))`; returns final matrix, unread rest of the stream, and the
   state after every accepted swap (what the 'swap' hook emits) *)
Fixpoint iterate (und : bool) (n k : nat) (R : mat Z) (s : list Z)
  : mat Z * list Z * list (quad * mat Z) :=
  match k with
  | O => (R, s, [])
  | S k' =>
    match attempt und n (S (max_att und n)) R s with
    | Exhausted => (R, [], [])
    | NoSwap s' => iterate und n k' R s'
    | Swapped R' q s' =>
      let '(Rf, sf, tr) := iterate und n k' R' s' in (Rf, sf, (q, R') :: tr)
    end
  end.

(* `if n < 4: return R, 0` (a swap needs four distinct nodes), then the loop *)
Definition randmio_signed (und : bool) (n : nat) (R : mat Z) (itr : nat) (s : list Z) :=
  if (n <? 4)%nat then (R, s, []) else iterate und n (n_iter und n itr) R s.

(* does the recorded stream end while pick_four_unique_nodes_quickly is still retrying?  On the stream of a run that
   returned this never happens; [iterate] itself is total (it returns the current state) and this flag tells the two
   situations apart (model-level "out of fuel"; for n >= 4 the code's retry ends with probability 1). *)
Fixpoint runs_out (und : bool) (n k : nat) (R : mat Z) (s : list Z) : bool :=
  match k with
  | O => false
  | S k' =>
    match attempt und n (S (max_att und n)) R s with
    | Exhausted => true
    | NoSwap s' => runs_out und n k' R s'
    | Swapped R' _ s' => runs_out und n k' R' s'
    end
  end.
Definition randmio_runs_out (und : bool) (n : nat) (R : mat Z) (itr : nat) (s : list Z) : bool :=
  (negb (n <? 4)%nat && runs_out und n (n_iter und n itr) R s)%bool.

(* the routine as the caller sees it: None = the recorded draws do not suffice *)
Definition randmio_signed_ret (und : bool) (n : nat) (R : mat Z) (itr : nat) (s : list Z)
  : option (mat Z * list Z * list (quad * mat Z)) :=
  if randmio_runs_out und n R itr s then None else Some (randmio_signed und n R itr s).

(* ---------- quantities the property speaks about ---------- *)
Definition rowsum (phi : Z -> Z) (R : mat Z) (n i : nat) : Z := sumn (fun j => phi (R i j)) n.
Definition colsum (phi : Z -> Z) (R : mat Z) (n j : nat) : Z := sumn (fun i => phi (R i j)) n.
Definition total (phi : Z -> Z) (R : mat Z) (n : nat) : Z := sum2 (fun i j => phi (R i j)) n.

Definition ipos (z : Z) : Z := b2z (0 <? z).        (* indicator of a positive entry *)
Definition ineg (z : Z) : Z := b2z (z <? 0).        (* indicator of a negative entry *)
Definition ieq (w z : Z) : Z := b2z (Z.eqb z w).    (* indicator of the value w *)

Definition pos_out (R : mat Z) n i := rowsum ipos R n i.   (* number of positive cells in row i *)
Definition neg_out (R : mat Z) n i := rowsum ineg R n i.
Definition pos_in (R : mat Z) n j := colsum ipos R n j.    (* number of positive cells in column j *)
Definition neg_in (R : mat Z) n j := colsum ineg R n j.
Definition cnt (w : Z) (R : mat Z) n := total (ieq w) R n.  (* number of cells holding the value w *)

Definition symn (n : nat) (R : mat Z) : Prop := forall i j, (i < n)%nat -> (j < n)%nat -> R i j = R j i.
Definition sgn_only (phi : Z -> Z) : Prop := forall x y, Z.sgn x = Z.sgn y -> phi x = phi y.

(* ---------- executable interface ---------- *)
Definition zrows (n : nat) (R : mat Z) : list (list Z) := to_rows n n R.
Definition quad_list (q : quad) : list nat := let '(a, b, c, d) := q in [a; b; c; d].

Definition run_pick4 (n : nat) (s : list Z) : option (list nat * nat) :=
  match pick4 n s with None => None | Some (q, r) => Some (quad_list q, length r) end.

(* result: final matrix, eff, unread draws, trace of (abcd, matrix) after every accepted swap *)
Definition run_randmio_signed (und : bool) (rows : list (list Z)) (itr : nat) (s : list Z)
  : option (list (list Z) * (nat * nat) * list (list nat * list (list Z))) :=
  let n := length rows in
  match randmio_signed_ret und n (of_rows 0 rows) itr s with
  | None => None
  | Some (Rf, sf, tr) =>
    Some (zrows n Rf, (length tr, length sf), map (fun e => (quad_list (fst e), zrows n (snd e))) tr)
  end.

(* ---------- the invariant relation between the input R and any later state R' ---------- *)
(* precondition of the undirected routine: symmetric input (the directed one has none) *)
Definition pre (und : bool) (n : nat) (R : mat Z) : Prop := und = true -> symn n R.

Definition sinv (und : bool) (n : nat) (R R' : mat Z) : Prop :=
  (* per-row counts of every sign class (phi = ipos, ineg, ...) *)
  (forall phi, sgn_only phi -> forall i, (i < n)%nat -> rowsum phi R' n i = rowsum phi R n i) /\
  (* per-column counts *)
  (forall phi, sgn_only phi -> forall j, (j < n)%nat -> colsum phi R' n j = colsum phi R n j) /\
  (* the cells are permuted: every statistic of the multiset of entries is unchanged *)
  (forall phi, total phi R' n = total phi R n) /\
  (* diagonal untouched *)
  (forall i, (i < n)%nat -> R' i i = R i i) /\
  (* symmetry kept (undirected routine) *)
  (und = true -> symn n R').

Definition goodq (n : nat) (q : quad) : Prop :=
  let '(a, b, c, d) := q in
  ((a < n /\ b < n /\ c < n /\ d < n) /\ (a <> b /\ a <> c /\ a <> d /\ b <> c /\ b <> d /\ c <> d))%nat.
