(* Model/PartitionLS.v — modularity.py: ci2ls(ci) and ls2ci(ls, zeroindexed) as whole routines:
   the early returns for empty input, the zeroindexed flag, the IndexError of ls2ci on a list that is not a list of
   indices 0..N-1 (N = total number of entries).  Model/Partition.v has the loop bodies (ci2ls, ls2ci for
   zeroindexed=False).  Definitions only. *)
From Coq Require Import QArith List Arith Bool ZArith Lia.
From BCT Require Import Base.Mat Base.SumQ Base.ListX Model.Partition.
Import ListNotations.

(* z = int(not zeroindexed); for i, x in enumerate(ls): for j, y in enumerate(ls[i]): ci[ls[i][j]] = i + z *)
Definition ls2ci_z (z : nat) (ls : list (list nat)) : vec nat :=
  fold_left (fun ci ib => fold_left (fun ci y => vupd ci y (fst ib + z)%nat) (snd ib) ci)
            (combine (seq 0 (length ls)) ls) (fun _ => 0%nat).
(* if ls is None or len(ls) == 0: return ()            -- an empty sequence
   nr_indices = sum(map(len, ls)); ci = np.zeros((nr_indices,), dtype=int); the loop; return ci
   ci[y] with y >= nr_indices raises IndexError = None (entries are indices: naturals) *)
Definition ls2ci_run (zeroindexed : bool) (ls : list (list nat)) : option (list nat) :=
  match ls with
  | [] => Some []
  | _ => let N := list_sum (map (@length nat) ls) in
         if forallb (fun y => Nat.ltb y N) (concat ls)
         then Some (to_list N (ls2ci_z (if zeroindexed then 0%nat else 1%nat) ls))
         else None
  end.
(* if not np.size(ci): return ci                        -- the empty input itself
   otherwise np.unique(return_inverse) + 1 and the two loops = Partition.ci2ls *)
Definition ci2ls_run (ci : list Z) : list (list nat) :=
  match ci with
  | [] => []
  | _ => ci2ls (length ci) (of_list 0%Z ci)
  end.

(* a block written in ascending node order (what ci2ls lists) *)
Definition sort_block (N : nat) (b : list nat) : list nat := filter (fun i => nmem i b) (seq 0 N).
(* ls is a partition of 0..N-1 in list form: every index once, N = number of entries, no empty block *)
Definition blocks_ok (ls : list (list nat)) : Prop :=
  NoDup (concat ls) /\ (forall y, In y (concat ls) -> (y < length (concat ls))%nat) /\ (forall b, In b ls -> b <> []).
