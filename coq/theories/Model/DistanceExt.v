(* Model/DistanceExt.v — statement-level models added on top of Model/Distance.v (definitions only):
   * charpath (distance.py 143-159) with its masking statements, for EVERY flag combination and for distance
     matrices that contain inf and nan entries;
   * efficiency.py's own copies of the distance loops: efficiency_bin.distance_inv (efficiency.py 35-49, a copy
     of distance_bin's loop) and efficiency_wei.distance_inv_wei (138-164, a copy of distance_wei's loop without B),
     transcribed as loops of their own, and the global efficiencies computed from them as the code does
     (np.sum over the whole matrix, zero diagonal, divided by n*n-n). *)
From Coq Require Import QArith List Arith Bool ZArith Lia.
From BCT Require Import Base.Mat Base.ListX Model.Distance.
Import ListNotations.
Open Scope Q_scope.

(* ---------- charpath ---------- *)
(* an entry of the distance matrix handed to charpath: nan, +inf or a finite number (-inf is not modelled) *)
Inductive dval := VNaN | VInf | VFin (q : Q).
Definition vnan (v : dval) : bool := match v with VNaN => true | _ => false end.
Definition vinf (v : dval) : bool := match v with VInf => true | _ => false end.
Definition vq (v : dval) : Q := match v with VFin q => q | _ => 0 end.

(* D = D.copy(); if not include_diagonal: np.fill_diagonal(D, np.nan) *)
Definition cp_diag (include_diagonal : bool) (D : mat dval) : mat dval :=
  if include_diagonal then D else fun i j => if Nat.eqb i j then VNaN else D i j.
(* if not include_infinite: D[np.isinf(D)] = np.nan *)
Definition cp_inf (include_infinite : bool) (D : mat dval) : mat dval :=
  if include_infinite then D else fun i j => if vinf (D i j) then VNaN else D i j.
(* Dv = D[np.logical_not(np.isnan(D))].ravel()   (row-major) *)
Definition cp_select (n : nat) (D : mat dval) : list dval :=
  filter (fun v => negb (vnan v)) (map (fun c => D (fst c) (snd c)) (cells n)).
(* np.mean of a nan-free vector: nan when empty (0/0), inf as soon as one entry is inf *)
Definition vmean (l : list dval) : ext :=
  match l with
  | [] => ENaN
  | _ => if existsb vinf l then EInf else EFin (qsum (map vq l) / nq (length l))
  end.
(* 1 / Dv entrywise: 1/inf = 0, 1/0 = inf *)
Definition vrecip (v : dval) : dval :=
  match v with VFin q => if Qeq_bool q 0 then VInf else VFin (1 / q) | VInf => VFin 0 | VNaN => VNaN end.

(* lambda_ = np.mean(Dv); efficiency = np.mean(1 / Dv) *)
Definition charpath_x (n : nat) (D : mat dval) (include_diagonal include_infinite : bool) : ext * ext :=
  let D1 := cp_diag include_diagonal D in
  let D2 := cp_inf include_infinite D1 in
  let Dv := cp_select n D2 in
  (vmean Dv, vmean (map vrecip Dv)).

(* ---------- efficiency_bin: distance_inv (efficiency.py 35-49) ---------- *)
Open Scope Z_scope.
(* while np.any(L): D += n*L; n += 1; nPATH = (np.dot(nPATH, g) != 0).astype(float); L = (nPATH != 0) * (D == 0)
   (clipped to the support since repo commit 3281ffb) *)
Fixpoint dinv_loop (fuel n : nat) (g : mat Z) (D : mat nat) (d : nat) (nPATH : mat Z) (Lm : mat bool)
  : option (mat nat) :=
  match fuel with
  | O => None
  | S f =>
    if anyb n Lm then
      let D' := tab 0%nat n n (fun i j => (D i j + (if Lm i j then d else 0))%nat) in
      let P := tab 0 n n (matmul n nPATH g) in
      let nP := tab 0 n n (fun i j => b2z (znz (P i j))) in
      let L' := tab false n n (fun i j => znz (nP i j) && Nat.eqb (D' i j) 0) in
      dinv_loop f n g D' (S d) nP L'
    else Some D
  end.
Close Scope Z_scope.

(* D = np.eye(len(g)); n = 1; nPATH = g.copy(); L = (nPATH != 0); loop;
   D[np.logical_not(D)] = np.inf; D = 1 / D; np.fill_diagonal(D, 0) *)
Definition distance_inv (n : nat) (g : mat Z) : option (mat Q) :=
  match dinv_loop (n + 2) n g (fun i j => if Nat.eqb i j then 1%nat else 0%nat) 1 g (fun i j => znz (g i j)) with
  | None => None
  | Some D => Some (fun i j => if Nat.eqb i j then 0
                               else if Nat.eqb (D i j) 0 then 0            (* 1 / inf *)
                               else 1 / nq (D i j))
  end.

(* np.sum(e) / (n * n - n): the sum runs over the WHOLE matrix; 0.0 / 0 = nan for n <= 1 *)
Definition sum_over_pairs (n : nat) (e : mat Q) : ext :=
  if Nat.eqb (n * n - n) 0 then ENaN
  else EFin (qsum (map (fun c => e (fst c) (snd c)) (cells n)) / nq (n * n - n)).

(* efficiency_bin(G, local=False): G = binarize(G); e = distance_inv(G); E = np.sum(e) / (n*n - n) *)
Definition efficiency_bin_x (n : nat) (A : mat Z) : option ext :=
  match distance_inv n (tab 0%Z n n (bin A)) with
  | None => None
  | Some e => Some (sum_over_pairs n e)
  end.

(* ---------- efficiency_wei: distance_inv_wei (efficiency.py 138-164) ---------- *)
(* for v in V: W, = np.where(G1[v, :]); D[u, W] = np.min([D[u, W], D[u, v] + G1[v, W]], axis=0)
   (G1[:, V] = 0 removed the in-edges of the permanent nodes: W are the still temporary neighbours) *)
Definition dinvw_relax (n : nat) (G : mat Q) (S : vec bool) (D : vec len) (v : nat) : vec len :=
  tabv None n (fun w => if (S w && negb (Qeq_bool (G v w) 0))%bool
                        then omin (D w) (oadd (D v) (Some (G v w))) else D w).

Fixpoint dinvw_loop (fuel n : nat) (G : mat Q) (S : vec bool) (D : vec len) (V : list nat) : option (vec len) :=
  match fuel with
  | O => None
  | Datatypes.S f =>
    let S1 := tabv false n (fun w => S w && negb (nmem w V))%bool in      (* S[V] = 0; G1[:, V] = 0 *)
    let D1 := fold_left (dinvw_relax n G S1) V D in
    match filter S1 (seq 0 n) with
    | [] => Some D1                                                        (* D[u, S].size == 0 *)
    | temps =>
      match fold_left omin (map D1 temps) None with                        (* minD = np.min(D[u, S]) *)
      | None => Some D1                                                    (* np.isinf(minD) *)
      | Some m => dinvw_loop f n G S1 D1 (filter (fun w => oeqb (D1 w) (Some m)) (seq 0 n))
      end
    end
  end.

Definition dinvw_row (n : nat) (G : mat Q) (u : nat) : option (vec len) :=
  dinvw_loop (n + 2) n G (fun _ => true) (vupd (fun _ => None) u (Some 0)) [u].

(* np.fill_diagonal(D, 1); D = 1 / D; np.fill_diagonal(D, 0) *)
Definition distance_inv_wei (n : nat) (G : mat Q) : option (mat Q) :=
  match all_some (map (dinvw_row n G) (seq 0 n)) with
  | None => None
  | Some rows => Some (fun i j => if Nat.eqb i j then 0 else oinv (nth i rows (fun _ => None) j))
  end.

(* efficiency_wei(Gw, local=False): Gl = invert(Gw); e = distance_inv_wei(Gl); E = np.sum(e) / (n*n - n) *)
Definition efficiency_wei_x (n : nat) (W : mat Q) : option ext :=
  match distance_inv_wei n (invertQ W) with
  | None => None
  | Some e => Some (sum_over_pairs n e)
  end.

(* ---------- executable interface ---------- *)
Definition run_charpath_x (rows : list (list dval)) (incl_diag incl_inf : bool) : ext * ext :=
  let n := length rows in
  let r := charpath_x n (of_rows VNaN rows) incl_diag incl_inf in (ext_red (fst r), ext_red (snd r)).
Definition run_effbin_x (rows : list (list Z)) : option ext :=
  match efficiency_bin_x (length rows) (of_rows 0%Z rows) with None => None | Some e => Some (ext_red e) end.
Definition run_effwei_x (rows : list (list Q)) : option ext :=
  match efficiency_wei_x (length rows) (of_rows 0 rows) with None => None | Some e => Some (ext_red e) end.
