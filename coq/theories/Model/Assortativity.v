(* Model/Assortativity.v — bct/algorithms/core.py assortativity_bin (lines 46-77) and assortativity_wei
   (lines 111-143), all five flags, statement by statement (C10).  degrees_und / degrees_dir /
   strengths_und are the models of Model/Clustering.v.  There is no square root in the code: the
   returned value is the rational expression (term1 - term2) / (term3 - term2).  Carrier Q; [None]
   stands for a non-finite float (K = 0: 0/0; term3 = term2: x/0).  Definitions only. *)
From Coq Require Import QArith List Arith Bool ZArith Lia.
From BCT Require Import Base.Mat Base.SumQ Base.ListX Model.Threshold Model.Clustering.
Import ListNotations.
Open Scope Q_scope.

Definition sumP (f : nat * nat -> Q) (l : list (nat * nat)) : Q := fold_right (fun c acc => f c + acc) 0 l.

(* assortativity_wei: i, j = np.where(np.triu(CIJ, 1) > 0)   (flag 0)      i, j = np.where(CIJ > 0)   (flags 1-4); row-major order *)
Definition edges_triu (n : nat) (CIJ : mat Q) : list (nat * nat) :=
  filter (fun c => Nat.ltb (fst c) (snd c) && Qltb 0 (CIJ (fst c) (snd c)))%bool (cells n).
Definition edges_all (n : nat) (CIJ : mat Q) : list (nat * nat) :=
  filter (fun c => Qltb 0 (CIJ (fst c) (snd c))) (cells n).

(* assortativity_bin after the repair (`!= 0` instead of `> 0`: every weight is ignored, negative ones included):
   i, j = np.where(np.triu(CIJ, 1) != 0)   (flag 0)      i, j = np.where(CIJ != 0)   (flags 1-4) *)
Definition edges_triu_nz (n : nat) (CIJ : mat Q) : list (nat * nat) :=
  filter (fun c => Nat.ltb (fst c) (snd c) && negb (Qeq_bool (CIJ (fst c) (snd c)) 0))%bool (cells n).
Definition edges_all_nz (n : nat) (CIJ : mat Q) : list (nat * nat) :=
  filter (fun c => negb (Qeq_bool (CIJ (fst c) (snd c)) 0)) (cells n).

(* # compute assortativity: the last four statements, the same text in both routines *)
Definition assort_core (E : list (nat * nat)) (di dj : vec Q) : option Q :=
  let K := inject_Z (Z.of_nat (length E)) in
  if Qeq_bool K 0 then None else
  let term1 := sumP (fun c => di (fst c) * dj (snd c)) E / K in
  let m := sumP (fun c => (1 # 2) * (di (fst c) + dj (snd c))) E / K in
  let term2 := m * m in
  let term3 := sumP (fun c => (1 # 2) * (di (fst c) * di (fst c) + dj (snd c) * dj (snd c))) E / K in
  odiv (term1 - term2) (term3 - term2).

(* the branch on flag; flags above 4 raise ValueError (None here, never used by the callers) *)
Definition assortativity_bin (n : nat) (CIJ : mat Q) (flag : nat) : option Q :=
  let deg := degrees_und n CIJ in
  let id := fun v => fst (fst (degrees_dir n CIJ v)) in
  let od := fun v => snd (fst (degrees_dir n CIJ v)) in
  match flag with
  | 0%nat => assort_core (edges_triu_nz n CIJ) deg deg
  | 1%nat => assort_core (edges_all_nz n CIJ) od id
  | 2%nat => assort_core (edges_all_nz n CIJ) id od
  | 3%nat => assort_core (edges_all_nz n CIJ) od od
  | 4%nat => assort_core (edges_all_nz n CIJ) id id
  | _ => None
  end.

Definition assortativity_wei (n : nat) (CIJ : mat Q) (flag : nat) : option Q :=
  let str := strengths_und n CIJ in
  let ist := colsum n CIJ in                      (* np.sum(CIJ, axis=0) *)
  let ost := rowsum n CIJ in                      (* np.sum(CIJ, axis=1) *)
  match flag with
  | 0%nat => assort_core (edges_triu n CIJ) str str
  | 1%nat => assort_core (edges_all n CIJ) ost ist
  | 2%nat => assort_core (edges_all n CIJ) ist ost
  | 3%nat => assort_core (edges_all n CIJ) ost ost
  | 4%nat => assort_core (edges_all n CIJ) ist ist
  | _ => None
  end.

(* ---------- executable interface ---------- *)
Definition run_assort (rows : list (list Q)) (wei : bool) (flag : nat) : option Q :=
  let n := length rows in
  qopt (if wei then assortativity_wei n (of_rows 0 rows) flag else assortativity_bin n (of_rows 0 rows) flag).
