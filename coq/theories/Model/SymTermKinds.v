(* Model/SymTermKinds.v — C04: the OUTPUT KIND of a program (0 scalar, 1 per-node vector, 2 per-pair matrix), computed
   from its syntax, and the table of kinds of the library entries.  eval_s / eval_v / eval_m read a result of another
   kind as 0, so an equivariance statement is only meaningful for the reading that matches the program's kind: the
   kinded theorems of Proofs/SymTermKinds.v select the reading by [kind_code], and the extracted [measure_kind] /
   [gen_kind] let the harness compare the kind with the shape of what the implementation returns.  Definitions only. *)
From Coq Require Import QArith List Arith.
From BCT Require Import Base.Mat Model.SymTerm Gen.SymTermGen Model.SymTermGenRun.
Import ListNotations.
Local Open Scope nat_scope.

Fixpoint kind_code (pr : prog) : nat :=
  match pr with
  | LetS _ _ r | LetV _ _ r | LetM _ _ r | IterV _ _ _ _ r | IterM _ _ _ _ r => kind_code r
  | OutS _ => 0 | OutV _ => 1 | OutM _ => 2
  end.

(* the kind of every entry of measure_by_id (it does not depend on the parameter k) *)
Definition kind_by_id (id : nat) : nat :=
  match id with
  | 0 | 1 | 2 | 3 | 4 | 5 => 1            (* degrees, strengths *)
  | 6 | 7 => 0                            (* densities *)
  | 8 | 9 => 1 | 10 | 11 => 0             (* clustering / transitivity b *)
  | 12 => 1 | 13 => 0                     (* clustering / transitivity wu *)
  | 14 | 15 | 16 | 17 | 18 => 2           (* matching index x3, edge overlap, gtom *)
  | 19 | 20 | 21 | 22 => 1                (* flow coefficient x2, participation, z-score *)
  | 23 | 24 => 2 | 25 | 26 => 0           (* distances; efficiency, lambda *)
  | 27 | 28 => 2 | 29 => 1 | 30 => 0      (* reachability, components: relation, sizes, count *)
  | 31 | 32 => 2 | 33 | 34 => 0 | 35 => 2 (* k-core matrices, sizes, s-core *)
  | 36 | 37 | 38 | 39 => 0                (* rich club per level, assortativity *)
  | 40 | 41 | 42 | 43 | 44 | 45 => 1      (* residuals, subgraph truncation, coreness x2, clustering wd *)
  | 46 | 47 => 0 | 48 | 49 => 1           (* transitivity wd, efficiency_wei; betweenness, eccentricity *)
  | 50 | 51 => 0 | 52 => 2 | 53 => 0      (* radius, diameter; walks; jdegree cell *)
  | _ => 0
  end.

Definition measure_kind (id k : nat) : nat := kind_code (measure_by_id id k).
Definition gen_kind (idx : nat) : nat := kind_code (gen_prog idx).
