(* Model/BetweenQ.v — the weighted betweenness routines and the specification with RATIONAL connection lengths.

   Model/Between.v types lengths as Z.  Here the same statements are written over Q (lengths, the distance vector D,
   `Duw = D[v] + G1[v,w]`, `Duw < D[w]`, `Duw == D[w]`, np.min(D[S]), D == min), so that "positive lengths" is literal
   and feeding the implementation M * 2^-20 while the Z model gets M is justified by a THEOREM about models
   (Proofs/BetweenRat.v: for every k > 0 with G * k = M the Q routines on G return, value for value, what the Z routines
   return on M, and the Q specification on G is the Z specification on M; every rational matrix has such k, M).
   Path counts NP, predecessors P and the queue Q/q do not hold lengths; the dependency accumulation does not read D and
   is the one of Model/Between.v (acc_n_step / acc_e_step through [erase]).  Definitions only. *)
From Coq Require Import QArith List Arith Bool ZArith Lia.
From BCT Require Import Base.Mat Base.SumQ Base.ListX Model.Between.
Import ListNotations.
Open Scope Q_scope.

(* ====================================================================================== *)
(* Part 1 — specification over Q lengths (same shape as Model/Between.v part 1)            *)
(* ====================================================================================== *)
Definition nzbQ (z : Q) : bool := negb (Qeq_bool z 0).
Definition edgeQ (G : mat Q) (u v : nat) : bool := nzbQ (G u v).
Fixpoint chainQ (G : mat Q) (a : nat) (r : list nat) : bool :=
  match r with [] => true | b :: r' => edgeQ G a b && chainQ G b r' end.
Fixpoint clenQ (G : mat Q) (a : nat) (r : list nat) : Q :=
  match r with [] => 0 | b :: r' => G a b + clenQ G b r' end.
Definition wlenQ (G : mat Q) (p : list nat) : Q :=
  match p with [] => 0 | a :: r => clenQ G a r end.
Definition wftQ (n : nat) (G : mat Q) (s t : nat) (p : list nat) : bool :=
  match p with
  | [] => false
  | a :: r => Nat.eqb a s && Nat.eqb (last p a) t && inb n p && chainQ G a r
  end.
Definition nonneg_lenQ (n : nat) (G : mat Q) : Prop := forall i j, (i < n)%nat -> (j < n)%nat -> 0 <= G i j.

Definition walks_stQ (n : nat) (G : mat Q) (s t : nat) : list (list nat) := filter (wftQ n G s t) (cands n).
(* ALL minimum-length walks s -> t *)
Definition spathsQ (n : nat) (G : mat Q) (s t : nat) : list (list nat) :=
  let W := walks_stQ n G s t in
  filter (fun p => forallb (fun q => Qle_bool (wlenQ G p) (wlenQ G q)) W) W.
Definition sigmaQ (n : nat) (G : mat Q) (s t : nat) : Z := zlen (spathsQ n G s t).
Definition sigma_throughQ (n : nat) (G : mat Q) (s t v : nat) : Z := zlen (filter (nmem v) (spathsQ n G s t)).
Definition sigma_edgeQ (n : nat) (G : mat Q) (s t x y : nat) : Z := zlen (filter (has_edge x y) (spathsQ n G s t)).
Definition BC_specQ (n : nat) (G : mat Q) (v : nat) : Q :=
  sumQ (fun s => sumQ (fun t =>
    if neb s v && neb t v then frac (sigma_throughQ n G s t v) (sigmaQ n G s t) else 0) n) n.
Definition EBC_specQ (n : nat) (G : mat Q) (x y : nat) : Q :=
  sumQ (fun s => sumQ (fun t => frac (sigma_edgeQ n G s t x y) (sigmaQ n G s t)) n) n.

(* ====================================================================================== *)
(* Part 2 — betweenness_wei / edge_betweenness_wei with Q lengths                          *)
(* ====================================================================================== *)
(* extended distances: None = np.inf; sums are kept reduced (Qred) for speed *)
Definition xaddQ (a : option Q) (z : Q) : option Q := match a with Some x => Some (Qred (x + z)) | None => None end.
Definition xltQ (a b : option Q) : bool :=
  match a, b with Some x, Some y => negb (Qle_bool y x) | Some _, None => true | None, _ => false end.
Definition xeqQ (a b : option Q) : bool :=
  match a, b with Some x, Some y => Qeq_bool x y | None, None => true | _, _ => false end.
Definition xminQ (a b : option Q) : option Q := if xltQ b a then b else a.
Definition isinfQ (a : option Q) : bool := match a with None => true | Some _ => false end.

(* X[:, V] = 0 *)
Definition zero_colsQ (n : nat) (V : list nat) (X : mat Q) : mat Q :=
  tab 0 n n (fun i j => if nmem j V then 0 else X i j).

Record sstQ := mk_sstQ {
  qD : vec (option Q);   (* tentative / permanent distance *)
  qNP : vec Z;
  qP : mat bool;
  qQ : vec nat;
  qqf : nat }.

Definition pushQ (st : sstQ) (v : nat) : sstQ :=
  mk_sstQ (qD st) (qNP st) (qP st) (vupd (qQ st) (qqf st - 1) v) (qqf st - 1).

(* body of `for w in W` *)
Definition relax_wQ (G1 : mat Q) (v : nat) (st : sstQ) (w : nat) : sstQ :=
  let D := qD st in let NP := qNP st in let P := qP st in
  let duw := xaddQ (D v) (G1 v w) in
  if xltQ duw (D w) then
    mk_sstQ (vupd D w duw) (vupd NP w (NP v))
            (fun i j => if Nat.eqb i w then Nat.eqb j v else P i j) (qQ st) (qqf st)
  else if xeqQ duw (D w) then
    mk_sstQ D (vupd NP w (NP w + NP v)%Z) (upd P w v true) (qQ st) (qqf st)
  else st.

(* body of `for v in V` *)
Definition visit_wQ (n : nat) (G1 : mat Q) (st : sstQ) (v : nat) : sstQ :=
  fold_left (relax_wQ G1 v) (wherev n (fun w => nzbQ (G1 v w))) (pushQ st v).

Definition tab_sstQ (n : nat) (st : sstQ) : sstQ :=
  mk_sstQ (tabv None n (qD st)) (tabv 0%Z n (qNP st)) (tab false n n (qP st)) (tabv O n (qQ st)) (qqf st).

(* Q[:q+1], = np.where(unreached) *)
Definition fill_frontQ (n : nat) (st : sstQ) (unreached : list nat) : option sstQ :=
  if Nat.eqb (length unreached) (qqf st) then
    Some (mk_sstQ (qD st) (qNP st) (qP st)
                  (fun i => if Nat.ltb i (qqf st) then nth i unreached O else qQ st i) (qqf st))
  else None.

Definition min_overQ (D : vec (option Q)) (sel : list nat) : option Q :=
  match sel with [] => None | a :: r => fold_left (fun m i => xminQ m (D i)) r (D a) end.

(* the `while True` loop *)
Fixpoint search_wQ (fuel : nat) (n : nat) (Sm : vec bool) (G1 : mat Q) (V : list nat) (st : sstQ) : option sstQ :=
  match fuel with
  | O => None
  | S f =>
    let S1 := tabv false n (fun i => if nmem i V then false else Sm i) in
    let G2 := zero_colsQ n V G1 in
    let st1 := tab_sstQ n (fold_left (visit_wQ n G2) V st) in
    let sel := wherev n S1 in
    match sel with
    | [] => Some st1
    | _ =>
      let m := min_overQ (qD st1) sel in
      if isinfQ m then fill_frontQ n st1 (wherev n (fun i => isinfQ (qD st1 i)))
      else search_wQ f n S1 G2 (wherev n (fun i => xeqQ (qD st1 i) m)) st1
    end
  end.

Definition init_wQ (n u : nat) : sstQ :=
  mk_sstQ (vupd (fun _ => None) u (Some 0)) (vupd (fun _ => 0%Z) u 1%Z) (fun _ _ => false) (fun _ => O) n.
Definition source_wQ (n : nat) (G : mat Q) (u : nat) : option sstQ :=
  search_wQ n n (fun _ => true) (tab 0 n n G) [u] (init_wQ n u).

(* what the accumulation loop reads: NP, P, Q (not D) *)
Definition erase (st : sstQ) : sst := mk_sst (fun _ => None) (qNP st) (qP st) (qQ st) (qqf st).

Definition betweenness_weiQ (n : nat) (G : mat Q) : option (vec Q) :=
  sources_n n (fun u => option_map erase (source_wQ n G u)).
Definition edge_betweenness_weiQ (n : nat) (G : mat Q) : option (mat Q * vec Q) :=
  match sources_e n (fun u => option_map erase (source_wQ n G u)) with
  | Some (BC, EBC) => Some (EBC, BC) | None => None end.

(* ====================================================================================== *)
(* Part 3 — executable interface                                                           *)
(* ====================================================================================== *)
Definition run_bc_weiQ (rows : list (list Q)) : option (list Q) :=
  let n := length rows in
  match betweenness_weiQ n (of_rows 0 rows) with None => None | Some BC => Some (qlist n BC) end.
Definition run_ebc_weiQ (rows : list (list Q)) : option (list (list Q) * list Q) :=
  let n := length rows in
  match edge_betweenness_weiQ n (of_rows 0 rows) with
  | None => None | Some (EBC, BC) => Some (qrows n EBC, qlist n BC) end.
