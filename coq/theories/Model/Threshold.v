(* Model/Threshold.v — bct/utils/other.py: threshold_absolute, threshold_proportional,
   binarize, normalize, invert, weight_conversion; miscellaneous_utilities.teachers_round.
   Carrier Q (exact); definitions only. *)
From Coq Require Import QArith Qabs Qround List Arith Bool ZArith Lia.
From BCT Require Import Base.Mat Base.ListX.
Import ListNotations.
Open Scope Q_scope.

Definition Qltb (a b : Q) : bool := negb (Qle_bool b a).
Definition qnz (w : Q) : bool := negb (Qeq_bool w 0).
Definition cell := (nat * nat)%type.
Definition at_ (W : mat Q) (c : cell) : Q := W (fst c) (snd c).

Definition where_nz (n : nat) (W : mat Q) : list cell := filter (fun c => qnz (at_ W c)) (cells n).

Definition clear_diag (W : mat Q) : mat Q := fun i j => if Nat.eqb i j then 0 else W i j.

(* threshold_absolute: fill_diagonal(W,0); W[W<thr]=0 *)
Definition threshold_absolute (W : mat Q) (thr : Q) : mat Q :=
  fun i j => let w := clear_diag W i j in if Qltb w thr then 0 else w.

(* binarize: W[W!=0]=1 *)
Definition binarize (W : mat Q) : mat Q := fun i j => if qnz (W i j) then 1 else W i j.

(* normalize: W /= max(abs(W)) *)
Definition Qmaxq (a b : Q) : Q := if Qle_bool a b then b else a.
Definition maxabs (n : nat) (W : mat Q) : Q :=
  fold_left (fun m c => Qmaxq m (Qabs (at_ W c))) (cells n) 0.
Definition normalize (n : nat) (W : mat Q) : mat Q := fun i j => W i j / maxabs n W.

(* invert: E=where(W); W[E]=1/W[E] *)
Definition invert (W : mat Q) : mat Q := fun i j => if qnz (W i j) then 1 / W i j else W i j.

Inductive wcm := WBinarize | WNormalize | WLengths.
Definition weight_conversion (n : nat) (W : mat Q) (m : wcm) : mat Q :=
  match m with WBinarize => binarize W | WNormalize => normalize n W | WLengths => invert W end.

(* teachers_round: .5 rounds away from zero towards +inf for x>0; x%1 is x - floor x *)
Definition frac (x : Q) : Q := x - inject_Z (Qfloor x).
Definition teachers_round (x : Q) : Z :=
  if ((Qltb 0 x && Qle_bool (1#2) (frac x)) || (Qltb x 0 && Qltb (1#2) (frac x)))%bool
  then Qceiling x else Qfloor x.

(* np.allclose(W, W.T): |a-b| <= atol + rtol*|b| with atol=1e-8, rtol=1e-5 *)
Definition close (a b : Q) : bool :=
  Qle_bool (Qabs (a - b)) ((1 # 100000000) + (1 # 100000) * Qabs b).
Definition allclose_T (n : nat) (W : mat Q) : bool :=
  forallb (fun c => close (at_ W c) (W (snd c) (fst c))) (cells n).

(* descending insertion sort on cells by value: one admissible result of argsort(...)[::-1] *)
Fixpoint insert_desc (W : mat Q) (c : cell) (l : list cell) : list cell :=
  match l with
  | [] => [c]
  | d :: r => if Qle_bool (at_ W d) (at_ W c) then c :: l else d :: insert_desc W c r
  end.
Definition sort_desc (W : mat Q) (l : list cell) : list cell := fold_right (insert_desc W) [] l.

(* threshold_proportional with the sort result [order ind] supplied by [order] *)
Definition tp_prep (n : nat) (W : mat Q) : bool * mat Q :=
  let W1 := clear_diag W in
  let symm := allclose_T n W1 in
  (symm, if symm then (fun i j => if Nat.leb j i then 0 else W1 i j) else W1).

Definition tp_en (n : nat) (p : Q) (symm : bool) : Z :=
  teachers_round (inject_Z (Z.of_nat (n * n - n)) * p / (if symm then 2 else 1)).

Definition tp_with (order : mat Q -> list cell -> list cell) (n : nat) (W : mat Q) (p : Q) : option (mat Q) :=
  if (Qltb 1 p || Qltb p 0)%bool then None else
  let '(symm, W2) := tp_prep n W in
  let ind := where_nz n W2 in
  let I := order W2 ind in
  let en := tp_en n p symm in
  let dropped := skipn (Z.to_nat en) I in
  let W3 : mat Q := fun i j => if cmem (i, j) dropped then 0 else W2 i j in
  Some (if symm then (fun i j => W3 i j + W3 j i) else W3).

Definition threshold_proportional := tp_with sort_desc.

(* the copy flag: (what the caller's array holds afterwards, what is returned, same object?) *)
Definition with_copy (copy : bool) (f : mat Q -> mat Q) (W : mat Q) : mat Q * mat Q * bool :=
  if copy then (W, f W, false) else (f W, f W, true).

(* ---------- executable interface (lists in, lists out; used by extraction and by vm_compute) ---------- *)
Definition qred_rows (n : nat) (W : mat Q) : list (list Q) := to_rows n n (fun i j => Qred (W i j)).
Definition run_ta (rows : list (list Q)) (thr : Q) : list (list Q) :=
  let n := length rows in qred_rows n (threshold_absolute (of_rows 0 rows) thr).
Definition run_tp (rows : list (list Q)) (p : Q) : option (list (list Q)) :=
  let n := length rows in
  match threshold_proportional n (of_rows 0 rows) p with
  | None => None | Some R => Some (qred_rows n R) end.
Definition run_wc (rows : list (list Q)) (m : nat) : list (list Q) :=
  let n := length rows in
  qred_rows n (weight_conversion n (of_rows 0 rows)
                 (match m with O => WBinarize | S O => WNormalize | _ => WLengths end)).
Definition run_round (x : Q) : Z := teachers_round x.
