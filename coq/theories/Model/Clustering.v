(* Model/Clustering.v — bct/algorithms/clustering.py: clustering_coef_bu/bd/wu/wd/wu_sign,
   transitivity_bu/bd/wu/wd (statement by statement, matrix-product forms as in the source),
   and the tiny degree.py routines used by C10 (degrees_und/dir, strengths_und/dir).
   Carrier Q (exact).  The cube root (bct.utils.cuberoot = sign(x)*|x|**(1/3)) is an explicit
   function argument [cbrt]; Proofs/Clustering.v constrains it by hypotheses inside a Section,
   Extract/C09.v instantiates it with [cbrt_exact] (exact on perfect cubes).  Definitions only. *)
From Coq Require Import QArith Qabs List Arith Bool ZArith Lia.
From BCT Require Import Base.Mat Base.SumQ Model.Threshold.
Import ListNotations.
Open Scope Q_scope.

(* ---------- NumPy vocabulary ---------- *)
Definition nzQ (w : Q) : Q := if Qeq_bool w 0 then 0 else 1.          (* np.logical_not(W == 0) as a number *)
Definition mT (A : mat Q) : mat Q := fun i j => A j i.                  (* A.T *)
Definition madd (A B : mat Q) : mat Q := fun i j => A i j + B i j.      (* A + B *)
Definition mmap (f : Q -> Q) (A : mat Q) : mat Q := fun i j => f (A i j).
Definition mmul (n : nat) (A B : mat Q) : mat Q := fun i j => sumQ (fun k => A i k * B k j) n.   (* np.dot *)
Definition rowsum (n : nat) (A : mat Q) (i : nat) : Q := sumQ (fun j => A i j) n.   (* np.sum(A, axis=1)[i] *)
Definition colsum (n : nat) (A : mat Q) (j : nat) : Q := sumQ (fun i => A i j) n.   (* np.sum(A, axis=0)[j] *)
Definition diag3 (n : nat) (S : mat Q) (i : nat) : Q := mmul n S (mmul n S S) i i.  (* np.diag(np.dot(S, np.dot(S, S)))[i] *)
Definition diag2 (n : nat) (A : mat Q) (i : nat) : Q := mmul n A A i i.             (* np.diag(np.dot(A, A))[i] *)
Definition sumL (f : nat -> Q) (l : list nat) : Q := fold_right (fun x acc => f x + acc) 0 l.

(* values of a float array that may hold +inf (only K / cyc2 after the masking line do) *)
Inductive xq := Fin (q : Q) | PInf.
Definition xmask (c k : Q) : xq := if Qeq_bool c 0 then PInf else Fin k.   (* K[np.where(cyc3 == 0)] = np.inf *)
Definition xkk1 (k : xq) : xq := match k with Fin q => Fin (q * (q - 1)) | PInf => PInf end.   (* K * (K - 1) *)
Definition xsub (k : xq) (d : Q) : xq := match k with Fin q => Fin (q - d) | PInf => PInf end. (* . - finite *)
Definition xdiv (c : Q) (d : xq) : Q := match d with Fin q => c / q | PInf => 0 end.           (* finite / inf = 0 *)
(* scalar quotient of two sums: None stands for a non-finite float (0/0 = nan, x/0 = inf) *)
Definition odiv (a b : Q) : option Q := if Qeq_bool b 0 then None else Some (a / b).

(* ---------- clustering_coef_bu (lines 156-166) ---------- *)
Definition cc_bu (n : nat) (G : mat Q) (u : nat) : Q :=
  let V := filter (fun v => negb (Qeq_bool (G u v) 0)) (seq 0 n) in          (* V, = np.where(G[u, :]) *)
  let k := length V in
  if (2 <=? k)%nat
  then sumL (fun a => sumL (fun b => G a b) V) V / inject_Z (Z.of_nat (k * k - k))   (* np.sum(G[np.ix_(V, V)]) / (k*k-k) *)
  else 0.

(* ---------- clustering_coef_bd (lines 128-135) ---------- *)
Definition cc_bd (n : nat) (A : mat Q) (i : nat) : Q :=
  let S := madd A (mT A) in
  let K := rowsum n S i in
  let cyc3 := diag3 n S i / 2 in
  let K' := xmask cyc3 K in
  let CYC3 := xsub (xkk1 K') (2 * diag2 n A i) in
  xdiv cyc3 CYC3.

Section WithCbrt.
Variable cbrt : Q -> Q.

(* ---------- clustering_coef_wd (lines 197-205) ---------- *)
Definition cc_wd (n : nat) (W : mat Q) (i : nat) : Q :=
  let A := mmap nzQ W in
  let S := madd (mmap cbrt W) (mmap cbrt (mT W)) in
  let K := rowsum n (madd A (mT A)) i in
  let cyc3 := diag3 n S i / 2 in
  let K' := xmask cyc3 K in
  let CYC3 := xsub (xkk1 K') (2 * diag2 n A i) in
  xdiv cyc3 CYC3.

(* ---------- clustering_coef_wu (lines 226-231) ---------- *)
Definition cc_wu (n : nat) (W : mat Q) (i : nat) : Q :=
  let K := rowsum n (mmap nzQ W) i in
  let ws := mmap cbrt W in
  let cyc3 := diag3 n ws i in
  let K' := xmask cyc3 K in
  xdiv cyc3 (xkk1 K').

(* ---------- clustering_coef_wu_sign (lines 288-350) ---------- *)
Definition pospart (W : mat Q) : mat Q := fun i j => W i j * (if Qltb 0 (W i j) then 1 else 0).     (* W * (W > 0) *)
Definition negpart (W : mat Q) : mat Q := fun i j => - W i j * (if Qltb (W i j) 0 then 1 else 0).   (* -W * (W < 0) *)
(* 'default': the six statements per sign are literally those of clustering_coef_wu *)
Definition cc_wu_sign_default (n : nat) (W : mat Q) (i : nat) : Q * Q :=
  let W0 := clear_diag W in
  (cc_wu n (pospart W0) i, cc_wu n (negpart W0) i).
End WithCbrt.

(* 'zhang' / 'costantini': the explicit triple loops *)
Definition zh_cyc3 (n : nat) (W : mat Q) (i : nat) : Q :=
  sumQ (fun j => sumQ (fun q => W j i * W i q * W j q) n) n.
Definition zh_cyc2 (n : nat) (W : mat Q) (i : nat) : Q :=
  sumQ (fun j => sumQ (fun q => if Nat.eqb j q then 0 else W j i * W i q) n) n.
Definition co_cyc2 (n : nat) (W : mat Q) (i : nat) : Q :=
  sumQ (fun j => sumQ (fun q => if Nat.eqb j q then 0 else Qabs (W j i * W i q)) n) n.
Definition cc_zhang1 (n : nat) (W : mat Q) (i : nat) : Q :=
  let c3 := zh_cyc3 n W i in xdiv c3 (xmask c3 (zh_cyc2 n W i)).
Definition cc_wu_sign_zhang (n : nat) (W : mat Q) (i : nat) : Q * Q :=
  let W0 := clear_diag W in (cc_zhang1 n (pospart W0) i, cc_zhang1 n (negpart W0) i).
Definition cc_wu_sign_costantini (n : nat) (W : mat Q) (i : nat) : Q :=
  let W0 := clear_diag W in
  let c3 := zh_cyc3 n W0 i in xdiv c3 (xmask c3 (co_cyc2 n W0 i)).

(* ---------- transitivity_bd (632-636), _bu (658-660), _wd (690-696), _wu (718-721) ---------- *)
Definition trans_bd (n : nat) (A : mat Q) : option Q :=
  let S := madd A (mT A) in
  let K := rowsum n S in
  let cyc3 := fun i => diag3 n S i / 2 in
  let CYC3 := fun i => K i * (K i - 1) - 2 * diag2 n A i in
  odiv (sumQ cyc3 n) (sumQ CYC3 n).

Definition trans_bu (n : nat) (A : mat Q) : option Q :=
  let tri3 := sumQ (diag3 n A) n in                                       (* np.trace(A.A.A) *)
  let tri2 := sum2Q (mmul n A A) n - sumQ (diag2 n A) n in                (* np.sum(A.A) - np.trace(A.A) *)
  odiv tri3 tri2.

Section WithCbrt2.
Variable cbrt : Q -> Q.
Definition trans_wd (n : nat) (W : mat Q) : option Q :=
  let A := mmap nzQ W in
  let S := madd (mmap cbrt W) (mmap cbrt (mT W)) in
  let K := rowsum n (madd A (mT A)) in
  let cyc3 := fun i => diag3 n S i / 2 in
  let CYC3 := fun i => K i * (K i - 1) - 2 * diag2 n A i in
  odiv (sumQ cyc3 n) (sumQ CYC3 n).

Definition trans_wu (n : nat) (W : mat Q) : option Q :=
  let K := rowsum n (mmap nzQ W) in
  let ws := mmap cbrt W in
  let cyc3 := diag3 n ws in
  odiv (sumQ cyc3 n) (sumQ (fun i => K i * (K i - 1)) n).
End WithCbrt2.

(* ---------- degree.py (C10) ---------- *)
Definition degrees_und (n : nat) (CIJ : mat Q) (j : nat) : Q := colsum n (binarize CIJ) j.
Definition degrees_dir (n : nat) (CIJ : mat Q) (v : nat) : Q * Q * Q :=
  let B := binarize CIJ in
  let id := colsum n B v in let od := rowsum n B v in (id, od, id + od).
Definition strengths_und (n : nat) (CIJ : mat Q) (j : nat) : Q := colsum n CIJ j.
Definition strengths_dir (n : nat) (CIJ : mat Q) (v : nat) : Q := colsum n CIJ v + rowsum n CIJ v.

(* ---------- executable cube root: exact on (quotients of) perfect cubes ---------- *)
Fixpoint bis (fuel : nat) (x lo hi : Z) : Z :=     (* invariant lo^3 <= x < hi^3 *)
  match fuel with
  | O => lo
  | S f => let mid := ((lo + hi) / 2)%Z in
           if (mid =? lo)%Z then lo
           else if (mid * mid * mid <=? x)%Z then bis f x mid hi else bis f x lo mid
  end.
Definition icbrt (x : Z) : Z := bis (2 + Z.to_nat (Z.log2 x)) x 0 (x + 1).    (* floor cube root, x >= 0 *)
Definition cbrt_exact (q : Q) : Q :=
  let r := Qred q in
  let a := icbrt (Z.abs (Qnum r)) in
  let b := icbrt (Zpos (Qden r)) in
  inject_Z (Z.sgn (Qnum r) * a) / inject_Z b.

(* ---------- bct.utils.cuberoot (miscellaneous_utilities.py:51): np.sign(x) * np.abs(x)**(1 / 3) ----------
   [pcbrt] stands for the float power y**(1/3), only ever applied to non-negative y *)
Definition Qsign (x : Q) : Q := if Qltb 0 x then 1 else if Qltb x 0 then - (1) else 0.       (* np.sign *)
Definition cuberoot (pcbrt : Q -> Q) (x : Q) : Q := Qsign x * pcbrt (Qabs x).

(* ---------- clustering_coef_wu_sign, coef_type == 'default' (lines 292-309), statement by statement ---------- *)
Section SignCode.
Variable cbrt : Q -> Q.
Definition cc_wu_sign_default_code (n : nat) (W : mat Q) (i : nat) : Q * Q :=
  let W0 := clear_diag W in                                   (* W = W.copy(); np.fill_diagonal(W, 0) *)
  let W_pos := pospart W0 in                                  (* W_pos = W * (W > 0) *)
  let K_pos := rowsum n (mmap nzQ W_pos) i in                 (* K_pos = sum(logical_not(W_pos == 0), axis=1) *)
  let ws_pos := mmap cbrt W_pos in                            (* ws_pos = cuberoot(W_pos) *)
  let cyc3_pos := diag3 n ws_pos i in                         (* cyc3_pos = diag(ws_pos.ws_pos.ws_pos) *)
  let K_pos' := xmask cyc3_pos K_pos in                       (* K_pos[np.where(cyc3_pos == 0)] = np.inf *)
  let C_pos := xdiv cyc3_pos (xkk1 K_pos') in                 (* C_pos = cyc3_pos / (K_pos * (K_pos - 1)) *)
  let W_neg := negpart W0 in                                  (* W_neg = -W * (W < 0) *)
  let K_neg := rowsum n (mmap nzQ W_neg) i in
  let ws_neg := mmap cbrt W_neg in
  let cyc3_neg := diag3 n ws_neg i in
  let K_neg' := xmask cyc3_neg K_neg in
  let C_neg := xdiv cyc3_neg (xkk1 K_neg') in
  (C_pos, C_neg).

(* the dispatch on coef_type (lines 292, 311, 337): two spellings of 'zhang' and 'costantini'; any other
   string falls through every branch and the function returns None *)
Inductive coef_type := CT_default | CT_zhang | CT_Zhang | CT_costantini | CT_Costantini | CT_other.
Inductive sign_result := SR_pair (cpos cneg : vec Q) | SR_one (c : vec Q) | SR_none.
Definition clustering_coef_wu_sign (n : nat) (W : mat Q) (ct : coef_type) : sign_result :=
  match ct with
  | CT_default => SR_pair (fun i => fst (cc_wu_sign_default_code n W i)) (fun i => snd (cc_wu_sign_default_code n W i))
  | CT_zhang | CT_Zhang => SR_pair (fun i => fst (cc_wu_sign_zhang n W i)) (fun i => snd (cc_wu_sign_zhang n W i))
  | CT_costantini | CT_Costantini => SR_one (cc_wu_sign_costantini n W)
  | CT_other => SR_none
  end.
End SignCode.

(* ---------- executable interface ---------- *)
Definition qvec (n : nat) (f : nat -> Q) : list Q := map (fun i => Qred (f i)) (seq 0 n).
Definition qopt (o : option Q) : option Q := match o with Some q => Some (Qred q) | None => None end.
Definition inp (rows : list (list Q)) : mat Q := of_rows 0 rows.
Definition run_cc_bu (rows : list (list Q)) := let n := length rows in qvec n (cc_bu n (inp rows)).
Definition run_cc_bd (rows : list (list Q)) := let n := length rows in qvec n (cc_bd n (inp rows)).
(* the cube root the runners use: the code's sign/abs decomposition around the exact root of a non-negative rational *)
Definition cuberoot_exact : Q -> Q := cuberoot cbrt_exact.
Definition run_cc_wu (rows : list (list Q)) := let n := length rows in qvec n (cc_wu cuberoot_exact n (inp rows)).
Definition run_cc_wd (rows : list (list Q)) := let n := length rows in qvec n (cc_wd cuberoot_exact n (inp rows)).
Definition ct_of_nat (ty : nat) : coef_type :=
  match ty with
  | 0%nat => CT_default | 1%nat => CT_zhang | 2%nat => CT_costantini | 3%nat => CT_Zhang | 4%nat => CT_Costantini
  | _ => CT_other end.
(* None = the Python None of the fall-through; costantini returns one vector (second list empty) *)
Definition run_cc_sign (rows : list (list Q)) (ty : nat) : option (list Q * list Q) :=
  let n := length rows in
  match clustering_coef_wu_sign cuberoot_exact n (inp rows) (ct_of_nat ty) with
  | SR_pair cp cn => Some (qvec n cp, qvec n cn)
  | SR_one c => Some (qvec n c, [])
  | SR_none => None
  end.
Definition run_trans (rows : list (list Q)) (which : nat) : option Q :=
  let n := length rows in
  qopt (match which with
        | O => trans_bu n (inp rows) | S O => trans_bd n (inp rows)
        | S (S O) => trans_wu cuberoot_exact n (inp rows) | _ => trans_wd cuberoot_exact n (inp rows) end).
Definition run_deg (rows : list (list Q)) (which : nat) : list Q :=
  let n := length rows in
  match which with
  | O => qvec n (degrees_und n (inp rows))
  | S O => qvec n (fun v => fst (fst (degrees_dir n (inp rows) v)))
  | S (S O) => qvec n (fun v => snd (fst (degrees_dir n (inp rows) v)))
  | S (S (S O)) => qvec n (fun v => snd (degrees_dir n (inp rows) v))
  | S (S (S (S O))) => qvec n (strengths_und n (inp rows))
  | _ => qvec n (strengths_dir n (inp rows))
  end.
Definition run_cbrt (q : Q) : Q := Qred (cuberoot_exact q).
