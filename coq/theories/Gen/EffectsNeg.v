(* GENERATED on every run by harness/translate_effects.py from harness/c05_corpus.py + the bct/ source tree. DO NOT EDIT.
   Negative snippets (each breaks the seeding discipline or determinism) and controls, as translated by the current translator. *)
From Coq Require Import List String Bool.
From BCT Require Import Model.EffectLang.
Import ListNotations.
Open Scope string_scope.

Definition f__c05corpus_ctl_forwarded_raw_seed_ctl_forwarded_raw_seed : cmd :=
  (Choice (Call "utils.miscellaneous_utilities.pick_four_unique_nodes_quickly" ESeed)
  Skip).
Definition f__c05corpus_ctl_plain_ctl_plain : cmd :=
  (Seq (GetRng "rng" ESeed)
  (Seq (Call "utils.miscellaneous_utilities.pick_four_unique_nodes_quickly" (EVar "rng"))
    (Seq (Loop (DrawLocal "rng"))
      (DrawLocal "rng")))).
Definition f__c05corpus_ctl_pool__task_ok : cmd :=
  (Choice (Call "_c05corpus.ctl_pool._task_ok$rest" ESeed)
  (Call "_c05corpus.ctl_pool._task_ok$rest" EComputed)).
Definition f__c05corpus_ctl_pool__task_ok_rest : cmd :=
  (Seq (GetRng "rng" ESeed)
  (DrawLocal "rng")).
Definition f__c05corpus_ctl_pool_ctl_pool : cmd :=
  (Seq (Seq (GetRng "$rng15_12" ESeed)
    (DrawLocal "$rng15_12"))
  (Loop (Call "_c05corpus.ctl_pool._task_ok" (EDrawn "$rng15_12")))).
Definition f__c05corpus_neg_aliased_bct_import_neg_aliased_bct_import : cmd :=
  (Seq (GetRng "rng" ESeed)
  (Seq (Call "utils.miscellaneous_utilities.pick_four_unique_nodes_quickly" ENone)
    (DrawLocal "rng"))).
Definition f__c05corpus_neg_caching_decorator_neg_caching_decorator : cmd :=
  (Seq DrawNpGlobal
  (Seq (GetRng "rng" ESeed)
    (DrawLocal "rng"))).
Definition f__c05corpus_neg_callable_param_neg_callable_param : cmd :=
  (Seq (GetRng "rng" ESeed)
  (Seq DrawNpGlobal
    (DrawLocal "rng"))).
Definition f__c05corpus_neg_getattr_random_neg_getattr_random : cmd :=
  (Seq (GetRng "rng" ESeed)
  (Seq (Seq (Seq DrawNpGlobal
        DrawNpGlobal)
      DrawNpGlobal)
    (DrawLocal "rng"))).
Definition f__c05corpus_neg_hash_str_neg_hash_str : cmd :=
  (Seq (GetRng "rng" ESeed)
  (Seq (DrawLocal "rng")
    NonDet)).
Definition f__c05corpus_neg_id_order_neg_id_order : cmd :=
  (Seq (GetRng "rng" ESeed)
  (Seq DrawNpGlobal
    (DrawLocal "rng"))).
Definition f__c05corpus_neg_local_alias_neg_local_alias : cmd :=
  (Seq (GetRng "rng" ESeed)
  (Seq DrawNpGlobal
    (Seq DrawNpGlobal
      (DrawLocal "rng")))).
Definition f__c05corpus_neg_matlib_rand_neg_matlib_rand : cmd :=
  (Seq (GetRng "rng" ESeed)
  (Seq (DrawLocal "rng")
    DrawNpGlobal)).
Definition f__c05corpus_neg_module_alias_neg_module_alias : cmd :=
  (Seq (GetRng "rng" ESeed)
  (Seq (DrawLocal "rng")
    DrawNpGlobal)).
Definition f__c05corpus_neg_module_level_computed_neg_module_level_computed : cmd :=
  (Seq (GetRng "rng" ESeed)
  (Seq DrawNpGlobal
    (DrawLocal "rng"))).
Definition f__c05corpus_neg_module_rng_object_neg_module_rng_object : cmd :=
  (Seq (GetRng "rng" ESeed)
  (Seq DrawNpGlobal
    (DrawLocal "rng"))).
Definition f__c05corpus_neg_np_empty_neg_np_empty : cmd :=
  (Seq (GetRng "rng" ESeed)
  (Seq NonDet
    (DrawLocal "rng"))).
Definition f__c05corpus_neg_os_urandom_neg_os_urandom : cmd :=
  (Seq (GetRng "rng" ESeed)
  (Seq (DrawLocal "rng")
    NonDet)).
Definition f__c05corpus_neg_pool_raw_seed__task_a : cmd :=
  (Seq (GetRng "rng" ESeed)
  (DrawLocal "rng")).
Definition f__c05corpus_neg_pool_raw_seed_neg_pool_raw_seed : cmd :=
  (Seq (Loop DrawNpGlobal)
  (Loop (Call "_c05corpus.neg_pool_raw_seed._task_a" ESeed))).
Definition f__c05corpus_neg_pool_unordered__task_b : cmd :=
  (Seq (GetRng "rng" ESeed)
  (DrawLocal "rng")).
Definition f__c05corpus_neg_pool_unordered_neg_pool_unordered : cmd :=
  (Seq (Seq (GetRng "$rng11_12" ESeed)
    (DrawLocal "$rng11_12"))
  (Seq (Call "_c05corpus.neg_pool_unordered._task_b" EOther)
    DrawNpGlobal)).
Definition f__c05corpus_neg_pool_untraced_seed__task_c : cmd :=
  (Seq (GetRng "rng" ESeed)
  (DrawLocal "rng")).
Definition f__c05corpus_neg_pool_untraced_seed_neg_pool_untraced_seed : cmd :=
  (Seq (GetRng "rng" ESeed)
  (Seq (Loop (Call "_c05corpus.neg_pool_untraced_seed._task_c" EOther))
    (DrawLocal "rng"))).
Definition f__c05corpus_neg_py_random_alias_neg_py_random_alias : cmd :=
  (Seq (GetRng "rng" ESeed)
  (Seq DrawPyGlobal
    (DrawLocal "rng"))).
Definition f__c05corpus_neg_raw_seed_twice_neg_raw_seed_twice : cmd :=
  (Seq (Call "utils.miscellaneous_utilities.pick_four_unique_nodes_quickly" ESeed)
  (Call "utils.miscellaneous_utilities.pick_four_unique_nodes_quickly" ESeed)).
Definition f__c05corpus_neg_reseed_in_loop_neg_reseed_in_loop : cmd :=
  (Loop (Seq (GetRng "rng" ESeed)
    (DrawLocal "rng"))).
Definition f__c05corpus_neg_rng_method_on_param_neg_rng_method_on_param : cmd :=
  (Seq (GetRng "rng" ESeed)
  (Seq DrawNpGlobal
    (DrawLocal "rng"))).
Definition f__c05corpus_neg_scipy_rvs_neg_scipy_rvs : cmd :=
  (Seq (GetRng "rng" ESeed)
  (Seq (DrawLocal "rng")
    DrawNpGlobal)).
Definition f__c05corpus_neg_seed_not_forwarded_neg_seed_not_forwarded : cmd :=
  (Seq (GetRng "rng" ESeed)
  (Seq (Call "utils.miscellaneous_utilities.pick_four_unique_nodes_quickly" ENone)
    (DrawLocal "rng"))).
Definition f__c05corpus_neg_set_order_neg_set_order : cmd :=
  (Seq (GetRng "rng" ESeed)
  (Seq NonDet
    (DrawLocal "rng"))).
Definition f__c05corpus_neg_set_pop_neg_set_pop : cmd :=
  (Seq (GetRng "rng" ESeed)
  (Seq NonDet
    (DrawLocal "rng"))).
Definition f__c05corpus_neg_star_import_neg_star_import : cmd :=
  (Seq (GetRng "rng" ESeed)
  (Seq (DrawLocal "rng")
    DrawNpGlobal)).
Definition f__c05corpus_neg_stray_np_random_neg_stray_np_random : cmd :=
  (Seq (GetRng "rng" ESeed)
  (Seq DrawNpGlobal
    (DrawLocal "rng"))).
Definition f__c05corpus_neg_task_draws_global_neg_task_draws_global : cmd :=
  (Seq (GetRng "rng" ESeed)
  (Seq (DrawLocal "rng")
    DrawNpGlobal)).
Definition f__c05corpus_neg_third_party_neg_third_party : cmd :=
  (Seq (GetRng "rng" ESeed)
  (Seq DrawNpGlobal
    (DrawLocal "rng"))).
Definition f__c05corpus_neg_time_neg_time : cmd :=
  (Seq (GetRng "rng" ESeed)
  (Seq (DrawLocal "rng")
    NonDet)).
Definition f__c05corpus_neg_unknown_global_neg_unknown_global : cmd :=
  (Seq (GetRng "rng" ESeed)
  (Seq DrawNpGlobal
    (DrawLocal "rng"))).
Definition f__c05corpus_neg_uuid_neg_uuid : cmd :=
  (Seq (GetRng "rng" ESeed)
  (Seq (DrawLocal "rng")
    NonDet)).
Definition f__c05corpus_neg_zero_arg_seed_neg_zero_arg_seed : cmd :=
  (Seq (GetRng "rng" ESeed)
  (Seq NonDet
    (DrawLocal "rng"))).
Definition f_utils_miscellaneous_utilities_pick_four_unique_nodes_quickly : cmd :=
  (Seq (GetRng "rng" ESeed)
  (Seq (DrawLocal "rng")
    (Choice Skip
      (Call "utils.miscellaneous_utilities.pick_four_unique_nodes_quickly" (EVar "rng"))))).

Definition corpus : EffectLang.program :=
  [ ("_c05corpus.ctl_forwarded_raw_seed.ctl_forwarded_raw_seed", (Seeded, f__c05corpus_ctl_forwarded_raw_seed_ctl_forwarded_raw_seed));
    ("_c05corpus.ctl_plain.ctl_plain", (Seeded, f__c05corpus_ctl_plain_ctl_plain));
    ("_c05corpus.ctl_pool._task_ok", (Seeded, f__c05corpus_ctl_pool__task_ok));
    ("_c05corpus.ctl_pool._task_ok$rest", (Seeded, f__c05corpus_ctl_pool__task_ok_rest));
    ("_c05corpus.ctl_pool.ctl_pool", (Seeded, f__c05corpus_ctl_pool_ctl_pool));
    ("_c05corpus.neg_aliased_bct_import.neg_aliased_bct_import", (Seeded, f__c05corpus_neg_aliased_bct_import_neg_aliased_bct_import));
    ("_c05corpus.neg_caching_decorator.neg_caching_decorator", (Seeded, f__c05corpus_neg_caching_decorator_neg_caching_decorator));
    ("_c05corpus.neg_callable_param.neg_callable_param", (Seeded, f__c05corpus_neg_callable_param_neg_callable_param));
    ("_c05corpus.neg_getattr_random.neg_getattr_random", (Seeded, f__c05corpus_neg_getattr_random_neg_getattr_random));
    ("_c05corpus.neg_hash_str.neg_hash_str", (Seeded, f__c05corpus_neg_hash_str_neg_hash_str));
    ("_c05corpus.neg_id_order.neg_id_order", (Seeded, f__c05corpus_neg_id_order_neg_id_order));
    ("_c05corpus.neg_local_alias.neg_local_alias", (Seeded, f__c05corpus_neg_local_alias_neg_local_alias));
    ("_c05corpus.neg_matlib_rand.neg_matlib_rand", (Seeded, f__c05corpus_neg_matlib_rand_neg_matlib_rand));
    ("_c05corpus.neg_module_alias.neg_module_alias", (Seeded, f__c05corpus_neg_module_alias_neg_module_alias));
    ("_c05corpus.neg_module_level_computed.neg_module_level_computed", (Seeded, f__c05corpus_neg_module_level_computed_neg_module_level_computed));
    ("_c05corpus.neg_module_rng_object.neg_module_rng_object", (Seeded, f__c05corpus_neg_module_rng_object_neg_module_rng_object));
    ("_c05corpus.neg_np_empty.neg_np_empty", (Seeded, f__c05corpus_neg_np_empty_neg_np_empty));
    ("_c05corpus.neg_os_urandom.neg_os_urandom", (Seeded, f__c05corpus_neg_os_urandom_neg_os_urandom));
    ("_c05corpus.neg_pool_raw_seed._task_a", (Seeded, f__c05corpus_neg_pool_raw_seed__task_a));
    ("_c05corpus.neg_pool_raw_seed.neg_pool_raw_seed", (Seeded, f__c05corpus_neg_pool_raw_seed_neg_pool_raw_seed));
    ("_c05corpus.neg_pool_unordered._task_b", (Seeded, f__c05corpus_neg_pool_unordered__task_b));
    ("_c05corpus.neg_pool_unordered.neg_pool_unordered", (Seeded, f__c05corpus_neg_pool_unordered_neg_pool_unordered));
    ("_c05corpus.neg_pool_untraced_seed._task_c", (Seeded, f__c05corpus_neg_pool_untraced_seed__task_c));
    ("_c05corpus.neg_pool_untraced_seed.neg_pool_untraced_seed", (Seeded, f__c05corpus_neg_pool_untraced_seed_neg_pool_untraced_seed));
    ("_c05corpus.neg_py_random_alias.neg_py_random_alias", (Seeded, f__c05corpus_neg_py_random_alias_neg_py_random_alias));
    ("_c05corpus.neg_raw_seed_twice.neg_raw_seed_twice", (Seeded, f__c05corpus_neg_raw_seed_twice_neg_raw_seed_twice));
    ("_c05corpus.neg_reseed_in_loop.neg_reseed_in_loop", (Seeded, f__c05corpus_neg_reseed_in_loop_neg_reseed_in_loop));
    ("_c05corpus.neg_rng_method_on_param.neg_rng_method_on_param", (Seeded, f__c05corpus_neg_rng_method_on_param_neg_rng_method_on_param));
    ("_c05corpus.neg_scipy_rvs.neg_scipy_rvs", (Seeded, f__c05corpus_neg_scipy_rvs_neg_scipy_rvs));
    ("_c05corpus.neg_seed_not_forwarded.neg_seed_not_forwarded", (Seeded, f__c05corpus_neg_seed_not_forwarded_neg_seed_not_forwarded));
    ("_c05corpus.neg_set_order.neg_set_order", (Seeded, f__c05corpus_neg_set_order_neg_set_order));
    ("_c05corpus.neg_set_pop.neg_set_pop", (Seeded, f__c05corpus_neg_set_pop_neg_set_pop));
    ("_c05corpus.neg_star_import.neg_star_import", (Seeded, f__c05corpus_neg_star_import_neg_star_import));
    ("_c05corpus.neg_stray_np_random.neg_stray_np_random", (Seeded, f__c05corpus_neg_stray_np_random_neg_stray_np_random));
    ("_c05corpus.neg_task_draws_global.neg_task_draws_global", (Seeded, f__c05corpus_neg_task_draws_global_neg_task_draws_global));
    ("_c05corpus.neg_third_party.neg_third_party", (Seeded, f__c05corpus_neg_third_party_neg_third_party));
    ("_c05corpus.neg_time.neg_time", (Seeded, f__c05corpus_neg_time_neg_time));
    ("_c05corpus.neg_unknown_global.neg_unknown_global", (Seeded, f__c05corpus_neg_unknown_global_neg_unknown_global));
    ("_c05corpus.neg_uuid.neg_uuid", (Seeded, f__c05corpus_neg_uuid_neg_uuid));
    ("_c05corpus.neg_zero_arg_seed.neg_zero_arg_seed", (Seeded, f__c05corpus_neg_zero_arg_seed_neg_zero_arg_seed));
    ("utils.miscellaneous_utilities.pick_four_unique_nodes_quickly", (Seeded, f_utils_miscellaneous_utilities_pick_four_unique_nodes_quickly)) ].

Definition negative_entry_points : list string :=
  [ "_c05corpus.neg_module_alias.neg_module_alias";
    "_c05corpus.neg_star_import.neg_star_import";
    "_c05corpus.neg_scipy_rvs.neg_scipy_rvs";
    "_c05corpus.neg_matlib_rand.neg_matlib_rand";
    "_c05corpus.neg_aliased_bct_import.neg_aliased_bct_import";
    "_c05corpus.neg_zero_arg_seed.neg_zero_arg_seed";
    "_c05corpus.neg_time.neg_time";
    "_c05corpus.neg_hash_str.neg_hash_str";
    "_c05corpus.neg_id_order.neg_id_order";
    "_c05corpus.neg_np_empty.neg_np_empty";
    "_c05corpus.neg_os_urandom.neg_os_urandom";
    "_c05corpus.neg_set_order.neg_set_order";
    "_c05corpus.neg_set_pop.neg_set_pop";
    "_c05corpus.neg_uuid.neg_uuid";
    "_c05corpus.neg_third_party.neg_third_party";
    "_c05corpus.neg_getattr_random.neg_getattr_random";
    "_c05corpus.neg_unknown_global.neg_unknown_global";
    "_c05corpus.neg_module_rng_object.neg_module_rng_object";
    "_c05corpus.neg_module_level_computed.neg_module_level_computed";
    "_c05corpus.neg_rng_method_on_param.neg_rng_method_on_param";
    "_c05corpus.neg_callable_param.neg_callable_param";
    "_c05corpus.neg_py_random_alias.neg_py_random_alias";
    "_c05corpus.neg_caching_decorator.neg_caching_decorator";
    "_c05corpus.neg_local_alias.neg_local_alias";
    "_c05corpus.neg_stray_np_random.neg_stray_np_random";
    "_c05corpus.neg_reseed_in_loop.neg_reseed_in_loop";
    "_c05corpus.neg_seed_not_forwarded.neg_seed_not_forwarded";
    "_c05corpus.neg_raw_seed_twice.neg_raw_seed_twice";
    "_c05corpus.neg_pool_raw_seed.neg_pool_raw_seed";
    "_c05corpus.neg_pool_unordered.neg_pool_unordered";
    "_c05corpus.neg_pool_untraced_seed.neg_pool_untraced_seed";
    "_c05corpus.neg_task_draws_global.neg_task_draws_global" ].

Definition control_entry_points : list string :=
  [ "_c05corpus.ctl_plain.ctl_plain";
    "_c05corpus.ctl_forwarded_raw_seed.ctl_forwarded_raw_seed";
    "_c05corpus.ctl_pool.ctl_pool" ].

Definition present (f : string) : bool := match lookup corpus f with Some _ => true | None => false end.

(* every entry point was translated (a missing one would be "rejected" for the wrong reason); every negative one is rejected
   by the checker; every control is accepted *)
Example corpus_verdicts :
  forallb present (negative_entry_points ++ control_entry_points) = true /\
  forallb (fun f => negb (seed_safe corpus f)) negative_entry_points = true /\
  forallb (seed_safe corpus) control_entry_points = true /\
  32 <= List.length negative_entry_points.
Proof. vm_compute. repeat split; try reflexivity; repeat constructor. Qed.
