(* GENERATED on every run by harness/translate_effects.py from the bct/ source tree. DO NOT EDIT.
   One EffectLang body per function that has a `seed` parameter and per function reachable from one. *)
From Coq Require Import List String.
From BCT Require Import Model.EffectLang.
Import ListNotations.
Open Scope string_scope.

Definition f_algorithms_centrality_betweenness_bin : cmd :=
  Skip.
Definition f_algorithms_clustering_agreement : cmd :=
  (Choice (Call "utils.miscellaneous_utilities.dummyvar" ENone)
  (Loop (Call "utils.miscellaneous_utilities.dummyvar" ENone))).
Definition f_algorithms_clustering_clustering_coef_bu : cmd :=
  Skip.
Definition f_algorithms_clustering_consensus_und : cmd :=
  (Seq (GetRng "rng" ESeed)
  (Choice (Loop (Choice Skip
        (Seq (Loop (Call "algorithms.modularity.modularity_louvain_und_sign" (EVar "rng")))
          (Choice (Call "algorithms.clustering.agreement" ENone)
            Skip))))
    Skip)).
Definition f_algorithms_clustering_get_components : cmd :=
  (Choice (Call "utils.other.binarize" ENone)
  Skip).
Definition f_algorithms_clustering_number_of_components : cmd :=
  (Call "algorithms.clustering.get_components" ENone).
Definition f_algorithms_core_core_periphery_dir : cmd :=
  (Seq (GetRng "rng" ESeed)
  (Seq (Choice (DrawLocal "rng")
      Skip)
    (Loop (Choice (Loop (DrawLocal "rng"))
        Skip)))).
Definition f_algorithms_generative_evaluate_generative_model : cmd :=
  (Seq (Call "algorithms.clustering.clustering_coef_bu" ENone)
  (Seq (Call "algorithms.centrality.betweenness_bin" ENone)
    (Seq (Call "algorithms.generative.generative_model" ESeed)
      (Choice (Loop (Seq (Call "algorithms.clustering.clustering_coef_bu" ENone)
            (Call "algorithms.centrality.betweenness_bin" ENone)))
        Skip)))).
Definition f_algorithms_generative_generate_fc : cmd :=
  (GetRng "rng" ESeed).
Definition f_algorithms_generative_generative_model : cmd :=
  (Seq (GetRng "rng" ESeed)
  (Choice (Choice (Choice (Choice (Choice (Choice (Choice (Choice (Choice (Choice (Choice (Choice (Choice (Choice (Choice (Choice (Choice (Choice (Choice (Choice (Choice (Choice (Seq (Call "algorithms.clustering.clustering_coef_bu" ENone)
                                                (Loop (Seq (Call "algorithms.clustering.clustering_coef_bu" ENone)
                                                    (Loop (DrawLocal "rng")))))
                                              (Choice (Seq (Call "algorithms.clustering.clustering_coef_bu" ENone)
                                                  (Loop (Seq (Call "algorithms.clustering.clustering_coef_bu" ENone)
                                                      (Loop (DrawLocal "rng")))))
                                                (Choice (Seq (Call "algorithms.clustering.clustering_coef_bu" ENone)
                                                    (Loop (Seq (Call "algorithms.clustering.clustering_coef_bu" ENone)
                                                        (Loop (DrawLocal "rng")))))
                                                  (Choice (Seq (Call "algorithms.clustering.clustering_coef_bu" ENone)
                                                      (Loop (Seq (Call "algorithms.clustering.clustering_coef_bu" ENone)
                                                          (Loop (DrawLocal "rng")))))
                                                    (Choice (Seq (Call "algorithms.clustering.clustering_coef_bu" ENone)
                                                        (Loop (Seq (Call "algorithms.clustering.clustering_coef_bu" ENone)
                                                            (Loop (DrawLocal "rng")))))
                                                      (Choice (Loop (Loop (DrawLocal "rng")))
                                                        (Choice (Loop (Loop (DrawLocal "rng")))
                                                          (Choice (Loop (Loop (DrawLocal "rng")))
                                                            (Choice (Loop (Loop (DrawLocal "rng")))
                                                              (Choice (Loop (Loop (DrawLocal "rng")))
                                                                (Choice (Loop (Loop (DrawLocal "rng")))
                                                                  (Choice (Seq (Call "algorithms.similarity.matching_ind" ENone)
                                                                      (Loop (Loop (DrawLocal "rng"))))
                                                                    (Choice (Loop (Choice (Loop (DrawLocal "rng"))
                                                                          Skip))
                                                                      Skip)))))))))))))
                                            Skip)
                                          Skip)
                                        Skip)
                                      Skip)
                                    Skip)
                                  Skip)
                                Skip)
                              Skip)
                            Skip)
                          Skip)
                        Skip)
                      Skip)
                    Skip)
                  Skip)
                Skip)
              Skip)
            Skip)
          Skip)
        Skip)
      Skip)
    Skip)).
Definition f_algorithms_models_mleme_constraint_model : cmd :=
  (GetRng "rng" ESeed).
Definition f_algorithms_modularity_community_louvain : cmd :=
  (Seq (GetRng "rng" ESeed)
  (Choice (Choice (Choice (Choice (Loop (Seq (Loop (Choice (Seq (DrawLocal "rng")
                    (Loop (Choice (Choice (Call "utils._verif.emit" ENone)
                          Skip)
                        Skip)))
                  Skip))
              (Choice (Choice (Call "utils._verif.emit" ENone)
                  Skip)
                Skip)))
          Skip)
        Skip)
      Skip)
    Skip)).
Definition f_algorithms_modularity_modularity_finetune_dir : cmd :=
  (Seq (GetRng "rng" ESeed)
  (Loop (Seq (DrawLocal "rng")
      (Loop (Choice (Choice (Call "utils._verif.emit" ENone)
            Skip)
          Skip))))).
Definition f_algorithms_modularity_modularity_finetune_und : cmd :=
  (Seq (GetRng "rng" ESeed)
  (Loop (Seq (DrawLocal "rng")
      (Loop (Choice (Choice (Call "utils._verif.emit" ENone)
            Skip)
          Skip))))).
Definition f_algorithms_modularity_modularity_finetune_und_sign : cmd :=
  (Seq (GetRng "rng" ESeed)
  (Choice (Loop (Choice (Seq (DrawLocal "rng")
          (Loop (Choice (Choice (Call "utils._verif.emit" ENone)
                Skip)
              Skip)))
        Skip))
    Skip)).
Definition f_algorithms_modularity_modularity_louvain_dir : cmd :=
  (Seq (GetRng "rng" ESeed)
  (Loop (Choice (Seq (Loop (Choice (Seq (DrawLocal "rng")
              (Loop (Choice (Choice (Call "utils._verif.emit" ENone)
                    Skip)
                  Skip)))
            Skip))
        (Choice (Choice (Call "utils._verif.emit" ENone)
            Skip)
          Skip))
      Skip))).
Definition f_algorithms_modularity_modularity_louvain_und : cmd :=
  (Seq (GetRng "rng" ESeed)
  (Loop (Choice (Seq (Loop (Choice (Seq (DrawLocal "rng")
              (Loop (Choice (Choice (Call "utils._verif.emit" ENone)
                    Skip)
                  Skip)))
            Skip))
        (Choice (Choice (Call "utils._verif.emit" ENone)
            Skip)
          Skip))
      Skip))).
Definition f_algorithms_modularity_modularity_louvain_und_sign : cmd :=
  (Seq (GetRng "rng" ESeed)
  (Choice (Loop (Choice (Seq (Loop (Choice (Seq (DrawLocal "rng")
                (Loop (Choice (Choice (Call "utils._verif.emit" ENone)
                      Skip)
                    Skip)))
              Skip))
          (Choice (Choice (Call "utils._verif.emit" ENone)
              Skip)
            Skip))
        Skip))
    Skip)).
Definition f_algorithms_modularity_modularity_probtune_und_sign : cmd :=
  (Seq (GetRng "rng" ESeed)
  (Choice (Seq (DrawLocal "rng")
      (Loop (Seq (DrawLocal "rng")
          (Seq (Choice (DrawLocal "rng")
              Skip)
            (Choice (Choice (Call "utils._verif.emit" ENone)
                Skip)
              Skip)))))
    Skip)).
Definition f_algorithms_physical_connectivity_rentian_scaling : cmd :=
  (Seq (GetRng "rng" ESeed)
  (Loop (DrawLocal "rng"))).
Definition f_algorithms_reference_latmio_dir : cmd :=
  (Seq (GetRng "rng" ESeed)
  (Seq (DrawLocal "rng")
    (Loop (Loop (Seq (Loop (Seq (DrawLocal "rng")
              (Seq (DrawLocal "rng")
                (Loop (DrawLocal "rng")))))
          (Choice (Choice (Choice (Choice (Call "utils._verif.emit" ENone)
                  Skip)
                Skip)
              Skip)
            Skip)))))).
Definition f_algorithms_reference_latmio_dir_connected : cmd :=
  (Seq (GetRng "rng" ESeed)
  (Seq (DrawLocal "rng")
    (Loop (Loop (Seq (Loop (Seq (DrawLocal "rng")
              (Seq (DrawLocal "rng")
                (Loop (DrawLocal "rng")))))
          (Choice (Choice (Choice (Choice (Choice (Choice (Call "utils._verif.emit" ENone)
                      Skip)
                    Skip)
                  Skip)
                Skip)
              Skip)
            Skip)))))).
Definition f_algorithms_reference_latmio_und : cmd :=
  (Seq (GetRng "rng" ESeed)
  (Seq (DrawLocal "rng")
    (Loop (Loop (Seq (Loop (Seq (DrawLocal "rng")
              (Seq (DrawLocal "rng")
                (Loop (DrawLocal "rng")))))
          (Choice (Seq (DrawLocal "rng")
              (Choice (Choice (Choice (Call "utils._verif.emit" ENone)
                    Skip)
                  Skip)
                Skip))
            Skip)))))).
Definition f_algorithms_reference_latmio_und_connected : cmd :=
  (Seq (GetRng "rng" ESeed)
  (Choice (Seq (Call "algorithms.clustering.number_of_components" ENone)
      (Choice (Seq (DrawLocal "rng")
          (Loop (Loop (Seq (Loop (Seq (DrawLocal "rng")
                    (Seq (DrawLocal "rng")
                      (Loop (DrawLocal "rng")))))
                (Choice (Seq (DrawLocal "rng")
                    (Choice (Choice (Choice (Choice (Choice (Call "utils._verif.emit" ENone)
                              Skip)
                            Skip)
                          Skip)
                        Skip)
                      Skip))
                  Skip)))))
        Skip))
    Skip)).
Definition f_algorithms_reference_makeevenCIJ : cmd :=
  (Seq (GetRng "rng" ESeed)
  (Choice (DrawLocal "rng")
    Skip)).
Definition f_algorithms_reference_makefractalCIJ : cmd :=
  (Seq (GetRng "rng" ESeed)
  (DrawLocal "rng")).
Definition f_algorithms_reference_makerandCIJ_dir : cmd :=
  (Seq (GetRng "rng" ESeed)
  (DrawLocal "rng")).
Definition f_algorithms_reference_makerandCIJ_und : cmd :=
  (Seq (GetRng "rng" ESeed)
  (DrawLocal "rng")).
Definition f_algorithms_reference_makerandCIJdegreesfixed : cmd :=
  (Seq (GetRng "rng" ESeed)
  (Seq (DrawLocal "rng")
    (Loop (Choice (Loop (Choice (Seq (DrawLocal "rng")
              (Loop (DrawLocal "rng")))
            Skip))
        Skip)))).
Definition f_algorithms_reference_makeringlatticeCIJ : cmd :=
  (Seq (GetRng "rng" ESeed)
  (Choice (DrawLocal "rng")
    Skip)).
Definition f_algorithms_reference_maketoeplitzCIJ : cmd :=
  (Seq (GetRng "rng" ESeed)
  (Loop (DrawLocal "rng"))).
Definition f_algorithms_reference_null_model_dir_sign : cmd :=
  (Seq (GetRng "rng" ESeed)
  (Seq (Choice (Call "algorithms.reference.randmio_dir_signed" (EVar "rng"))
      Skip)
    (Loop (Choice Skip
        (Loop (DrawLocal "rng")))))).
Definition f_algorithms_reference_null_model_und_sign : cmd :=
  (Seq (GetRng "rng" ESeed)
  (Choice (Seq (Choice (Call "algorithms.reference.randmio_und_signed" (EVar "rng"))
        Skip)
      (Loop (Choice Skip
          (Loop (DrawLocal "rng")))))
    Skip)).
Definition f_algorithms_reference_randmio_dir : cmd :=
  (Seq (GetRng "rng" ESeed)
  (Loop (Loop (Seq (Loop (Seq (DrawLocal "rng")
            (Seq (DrawLocal "rng")
              (Loop (DrawLocal "rng")))))
        (Choice (Choice (Choice (Call "utils._verif.emit" ENone)
              Skip)
            Skip)
          Skip))))).
Definition f_algorithms_reference_randmio_dir_connected : cmd :=
  (Seq (GetRng "rng" ESeed)
  (Loop (Loop (Seq (Loop (Seq (DrawLocal "rng")
            (Seq (DrawLocal "rng")
              (Loop (DrawLocal "rng")))))
        (Choice (Choice (Choice (Choice (Choice (Call "utils._verif.emit" ENone)
                  Skip)
                Skip)
              Skip)
            Skip)
          Skip))))).
Definition f_algorithms_reference_randmio_dir_signed : cmd :=
  (Seq (GetRng "rng" ESeed)
  (Choice (Loop (Loop (Seq (Call "utils.miscellaneous_utilities.pick_four_unique_nodes_quickly" (EVar "rng"))
          (Choice (Choice (Call "utils._verif.emit" ENone)
              Skip)
            Skip))))
    Skip)).
Definition f_algorithms_reference_randmio_und : cmd :=
  (Choice (Seq (GetRng "rng" ESeed)
    (Loop (Loop (Seq (Loop (Seq (DrawLocal "rng")
              (Loop (DrawLocal "rng"))))
          (Choice (Seq (DrawLocal "rng")
              (Choice (Choice (Call "utils._verif.emit" ENone)
                  Skip)
                Skip))
            Skip)))))
  Skip).
Definition f_algorithms_reference_randmio_und_connected : cmd :=
  (Choice (Seq (Call "algorithms.clustering.number_of_components" ENone)
    (Choice (Seq (GetRng "rng" ESeed)
        (Loop (Loop (Seq (Loop (Seq (DrawLocal "rng")
                  (Seq (DrawLocal "rng")
                    (Loop (DrawLocal "rng")))))
              (Choice (Seq (DrawLocal "rng")
                  (Choice (Choice (Choice (Choice (Call "utils._verif.emit" ENone)
                          Skip)
                        Skip)
                      Skip)
                    Skip))
                Skip)))))
      Skip))
  Skip).
Definition f_algorithms_reference_randmio_und_signed : cmd :=
  (Seq (GetRng "rng" ESeed)
  (Choice (Loop (Loop (Seq (Call "utils.miscellaneous_utilities.pick_four_unique_nodes_quickly" (EVar "rng"))
          (Choice (Choice (Call "utils._verif.emit" ENone)
              Skip)
            Skip))))
    Skip)).
Definition f_algorithms_reference_randomize_graph_partial_und : cmd :=
  (Seq (GetRng "rng" ESeed)
  (Loop (Seq (Loop (Seq (DrawLocal "rng")
          (Loop (DrawLocal "rng"))))
      (Choice (Seq (DrawLocal "rng")
          (Choice (Choice (Call "utils._verif.emit" ENone)
              Skip)
            Skip))
        Skip)))).
Definition f_algorithms_reference_randomizer_bin_und : cmd :=
  (Seq (GetRng "rng" ESeed)
  (Seq (Call "utils.other.binarize" ENone)
    (Choice (Choice (Loop (Seq (DrawLocal "rng")
            (Choice (Choice (Seq (DrawLocal "rng")
                  (Seq (DrawLocal "rng")
                    (Choice (Call "utils._verif.emit" ENone)
                      Skip)))
                Skip)
              Skip)))
        Skip)
      Skip))).
Definition f_algorithms_similarity_matching_ind : cmd :=
  Skip.
Definition f_nbs_nbs_bct : cmd :=
  (Seq (GetRng "rng" ESeed)
  (Choice (Choice (Choice (Choice (Choice (Choice (Seq (Call "algorithms.clustering.get_components" ENone)
                (Choice (Loop (Seq (Choice (DrawLocal "rng")
                        (DrawLocal "rng"))
                      (Call "algorithms.clustering.get_components" ENone)))
                  Skip))
              Skip)
            Skip)
          Skip)
        Skip)
      Skip)
    Skip)).
Definition f_nbs_parallel__permutation : cmd :=
  (Choice (Call "nbs_parallel._permutation$rest" ESeed)
  (Call "nbs_parallel._permutation$rest" EComputed)).
Definition f_nbs_parallel__permutation_rest : cmd :=
  (Seq (GetRng "rng" ESeed)
  (Seq (Choice (DrawLocal "rng")
      (DrawLocal "rng"))
    (Seq (Loop (Choice (Call "nbs_parallel.ttest_paired_stat_only" ENone)
          (Call "nbs_parallel.ttest2_stat_only" ENone)))
      (Call "algorithms.clustering.get_components" ENone)))).
Definition f_nbs_parallel_nbs_bct : cmd :=
  (Choice (Choice (Choice (Seq (Loop (Choice (Call "nbs_parallel.ttest_paired_stat_only" ENone)
            (Call "nbs_parallel.ttest2_stat_only" ENone)))
        (Choice (Seq (Call "algorithms.clustering.get_components" ENone)
            (Choice (Seq (Seq (GetRng "$rng177_17" ESeed)
                  (DrawLocal "$rng177_17"))
                (Loop (Call "nbs_parallel._permutation" (EDrawn "$rng177_17"))))
              Skip))
          Skip))
      Skip)
    Skip)
  Skip).
Definition f_nbs_parallel_ttest2_stat_only : cmd :=
  Skip.
Definition f_nbs_parallel_ttest_paired_stat_only : cmd :=
  Skip.
Definition f_utils__verif__snap : cmd :=
  (Choice (Choice (Loop (Call "utils._verif._snap" ENone))
    Skip)
  Skip).
Definition f_utils__verif_emit : cmd :=
  (Loop (Call "utils._verif._snap" ENone)).
Definition f_utils_miscellaneous_utilities_dummyvar : cmd :=
  Skip.
Definition f_utils_miscellaneous_utilities_pick_four_unique_nodes_quickly : cmd :=
  (Seq (GetRng "rng" ESeed)
  (Seq (DrawLocal "rng")
    (Choice Skip
      (Call "utils.miscellaneous_utilities.pick_four_unique_nodes_quickly" (EVar "rng"))))).
Definition f_utils_other_binarize : cmd :=
  Skip.

Definition program : EffectLang.program :=
  [ ("algorithms.centrality.betweenness_bin", (Pure, f_algorithms_centrality_betweenness_bin));
    ("algorithms.clustering.agreement", (Pure, f_algorithms_clustering_agreement));
    ("algorithms.clustering.clustering_coef_bu", (Pure, f_algorithms_clustering_clustering_coef_bu));
    ("algorithms.clustering.consensus_und", (Seeded, f_algorithms_clustering_consensus_und));
    ("algorithms.clustering.get_components", (Pure, f_algorithms_clustering_get_components));
    ("algorithms.clustering.number_of_components", (Pure, f_algorithms_clustering_number_of_components));
    ("algorithms.core.core_periphery_dir", (Seeded, f_algorithms_core_core_periphery_dir));
    ("algorithms.generative.evaluate_generative_model", (Seeded, f_algorithms_generative_evaluate_generative_model));
    ("algorithms.generative.generate_fc", (Seeded, f_algorithms_generative_generate_fc));
    ("algorithms.generative.generative_model", (Seeded, f_algorithms_generative_generative_model));
    ("algorithms.models.mleme_constraint_model", (Seeded, f_algorithms_models_mleme_constraint_model));
    ("algorithms.modularity.community_louvain", (Seeded, f_algorithms_modularity_community_louvain));
    ("algorithms.modularity.modularity_finetune_dir", (Seeded, f_algorithms_modularity_modularity_finetune_dir));
    ("algorithms.modularity.modularity_finetune_und", (Seeded, f_algorithms_modularity_modularity_finetune_und));
    ("algorithms.modularity.modularity_finetune_und_sign", (Seeded, f_algorithms_modularity_modularity_finetune_und_sign));
    ("algorithms.modularity.modularity_louvain_dir", (Seeded, f_algorithms_modularity_modularity_louvain_dir));
    ("algorithms.modularity.modularity_louvain_und", (Seeded, f_algorithms_modularity_modularity_louvain_und));
    ("algorithms.modularity.modularity_louvain_und_sign", (Seeded, f_algorithms_modularity_modularity_louvain_und_sign));
    ("algorithms.modularity.modularity_probtune_und_sign", (Seeded, f_algorithms_modularity_modularity_probtune_und_sign));
    ("algorithms.physical_connectivity.rentian_scaling", (Seeded, f_algorithms_physical_connectivity_rentian_scaling));
    ("algorithms.reference.latmio_dir", (Seeded, f_algorithms_reference_latmio_dir));
    ("algorithms.reference.latmio_dir_connected", (Seeded, f_algorithms_reference_latmio_dir_connected));
    ("algorithms.reference.latmio_und", (Seeded, f_algorithms_reference_latmio_und));
    ("algorithms.reference.latmio_und_connected", (Seeded, f_algorithms_reference_latmio_und_connected));
    ("algorithms.reference.makeevenCIJ", (Seeded, f_algorithms_reference_makeevenCIJ));
    ("algorithms.reference.makefractalCIJ", (Seeded, f_algorithms_reference_makefractalCIJ));
    ("algorithms.reference.makerandCIJ_dir", (Seeded, f_algorithms_reference_makerandCIJ_dir));
    ("algorithms.reference.makerandCIJ_und", (Seeded, f_algorithms_reference_makerandCIJ_und));
    ("algorithms.reference.makerandCIJdegreesfixed", (Seeded, f_algorithms_reference_makerandCIJdegreesfixed));
    ("algorithms.reference.makeringlatticeCIJ", (Seeded, f_algorithms_reference_makeringlatticeCIJ));
    ("algorithms.reference.maketoeplitzCIJ", (Seeded, f_algorithms_reference_maketoeplitzCIJ));
    ("algorithms.reference.null_model_dir_sign", (Seeded, f_algorithms_reference_null_model_dir_sign));
    ("algorithms.reference.null_model_und_sign", (Seeded, f_algorithms_reference_null_model_und_sign));
    ("algorithms.reference.randmio_dir", (Seeded, f_algorithms_reference_randmio_dir));
    ("algorithms.reference.randmio_dir_connected", (Seeded, f_algorithms_reference_randmio_dir_connected));
    ("algorithms.reference.randmio_dir_signed", (Seeded, f_algorithms_reference_randmio_dir_signed));
    ("algorithms.reference.randmio_und", (Seeded, f_algorithms_reference_randmio_und));
    ("algorithms.reference.randmio_und_connected", (Seeded, f_algorithms_reference_randmio_und_connected));
    ("algorithms.reference.randmio_und_signed", (Seeded, f_algorithms_reference_randmio_und_signed));
    ("algorithms.reference.randomize_graph_partial_und", (Seeded, f_algorithms_reference_randomize_graph_partial_und));
    ("algorithms.reference.randomizer_bin_und", (Seeded, f_algorithms_reference_randomizer_bin_und));
    ("algorithms.similarity.matching_ind", (Pure, f_algorithms_similarity_matching_ind));
    ("nbs.nbs_bct", (Seeded, f_nbs_nbs_bct));
    ("nbs_parallel._permutation", (Seeded, f_nbs_parallel__permutation));
    ("nbs_parallel._permutation$rest", (Seeded, f_nbs_parallel__permutation_rest));
    ("nbs_parallel.nbs_bct", (Seeded, f_nbs_parallel_nbs_bct));
    ("nbs_parallel.ttest2_stat_only", (Pure, f_nbs_parallel_ttest2_stat_only));
    ("nbs_parallel.ttest_paired_stat_only", (Pure, f_nbs_parallel_ttest_paired_stat_only));
    ("utils._verif._snap", (Pure, f_utils__verif__snap));
    ("utils._verif.emit", (Pure, f_utils__verif_emit));
    ("utils.miscellaneous_utilities.dummyvar", (Pure, f_utils_miscellaneous_utilities_dummyvar));
    ("utils.miscellaneous_utilities.pick_four_unique_nodes_quickly", (Seeded, f_utils_miscellaneous_utilities_pick_four_unique_nodes_quickly));
    ("utils.other.binarize", (Pure, f_utils_other_binarize)) ].


Definition excluded : EffectLang.program := [].

(* get_rng is modelled by hand (EffectLang.get_rng); the translator compares the source with the version modelled *)
Definition get_rng_as_modelled : bool := true.
Example get_rng_ok : get_rng_as_modelled = true.
Proof. reflexivity. Qed.

(* methods of classes and module-level lambdas cannot be resolved as callees: none of them may touch a generator *)
Definition unmodelled_callables_with_effects : list string := [].
Example no_unmodelled_effects : unmodelled_callables_with_effects = [].
Proof. reflexivity. Qed.

(* `excluded` = seed-accepting functions declared outside the static model (harness/c05.py STATIC_OUT_OF_MODEL:
   multiprocessing) or carrying a recorded known finding with `static_exclude`, and what only they reach.
   Nothing in `program` may call them: the checker rejects calls to functions outside `program`. *)
Example all_safe : prog_safe program = true.
Proof. vm_compute. reflexivity. Qed.

(* the functions of bct/ that accept a seed (a parameter named `seed`, or a task tuple unpacked into `seed, ...`), and
   `<f>$rest` = the body of f after `if seed is None: seed = <number>`: every one of them is in `program` *)
Definition seeded_functions : list string :=
  [ "algorithms.clustering.consensus_und";
    "algorithms.core.core_periphery_dir";
    "algorithms.generative.evaluate_generative_model";
    "algorithms.generative.generate_fc";
    "algorithms.generative.generative_model";
    "algorithms.models.mleme_constraint_model";
    "algorithms.modularity.community_louvain";
    "algorithms.modularity.modularity_finetune_dir";
    "algorithms.modularity.modularity_finetune_und";
    "algorithms.modularity.modularity_finetune_und_sign";
    "algorithms.modularity.modularity_louvain_dir";
    "algorithms.modularity.modularity_louvain_und";
    "algorithms.modularity.modularity_louvain_und_sign";
    "algorithms.modularity.modularity_probtune_und_sign";
    "algorithms.physical_connectivity.rentian_scaling";
    "algorithms.reference.latmio_dir";
    "algorithms.reference.latmio_dir_connected";
    "algorithms.reference.latmio_und";
    "algorithms.reference.latmio_und_connected";
    "algorithms.reference.makeevenCIJ";
    "algorithms.reference.makefractalCIJ";
    "algorithms.reference.makerandCIJ_dir";
    "algorithms.reference.makerandCIJ_und";
    "algorithms.reference.makerandCIJdegreesfixed";
    "algorithms.reference.makeringlatticeCIJ";
    "algorithms.reference.maketoeplitzCIJ";
    "algorithms.reference.null_model_dir_sign";
    "algorithms.reference.null_model_und_sign";
    "algorithms.reference.randmio_dir";
    "algorithms.reference.randmio_dir_connected";
    "algorithms.reference.randmio_dir_signed";
    "algorithms.reference.randmio_und";
    "algorithms.reference.randmio_und_connected";
    "algorithms.reference.randmio_und_signed";
    "algorithms.reference.randomize_graph_partial_und";
    "algorithms.reference.randomizer_bin_und";
    "nbs.nbs_bct";
    "nbs_parallel._permutation";
    "nbs_parallel._permutation$rest";
    "nbs_parallel.nbs_bct";
    "utils.miscellaneous_utilities.pick_four_unique_nodes_quickly" ].
Example seeded_functions_in_program :
  forallb (fun f => match lookup program f with Some (Seeded, _) => true | _ => false end) seeded_functions = true.
Proof. vm_compute. reflexivity. Qed.
