(* Base/SumQ.v — rational sums over [0,n) with setoid equality. *)
From Coq Require Import QArith Qring Qfield Lia Lqa Arith List Bool Qabs.
Open Scope Q_scope.

Fixpoint sumQ (f : nat -> Q) (n : nat) : Q :=
  match n with O => 0 | S k => sumQ f k + f k end.

Lemma sumQ_ext f g n : (forall i, (i < n)%nat -> f i == g i) -> sumQ f n == sumQ g n.
Proof. induction n; simpl; intros H; [reflexivity|]. rewrite IHn, (H n) by auto. reflexivity. Qed.

Lemma sumQ_add f g n : sumQ (fun i => f i + g i) n == sumQ f n + sumQ g n.
Proof. induction n; simpl; [ring|]. rewrite IHn. ring. Qed.

Lemma sumQ_sub f g n : sumQ (fun i => f i - g i) n == sumQ f n - sumQ g n.
Proof. induction n; simpl; [ring|]. rewrite IHn. ring. Qed.

Lemma sumQ_scal c f n : sumQ (fun i => c * f i) n == c * sumQ f n.
Proof. induction n; simpl; [ring|]. rewrite IHn. ring. Qed.

Lemma sumQ_scal_r c f n : sumQ (fun i => f i * c) n == sumQ f n * c.
Proof. induction n; simpl; [ring|]. rewrite IHn. ring. Qed.

Lemma sumQ_zero n : sumQ (fun _ => 0) n == 0.
Proof. induction n; simpl; [reflexivity|]. rewrite IHn. ring. Qed.

Lemma sumQ_zero' f n : (forall i, (i < n)%nat -> f i == 0) -> sumQ f n == 0.
Proof. intros H. rewrite (sumQ_ext f (fun _ => 0) n H). apply sumQ_zero. Qed.

Lemma sumQ_fubini (f : nat -> nat -> Q) n m :
  sumQ (fun i => sumQ (fun j => f i j) m) n == sumQ (fun j => sumQ (fun i => f i j) n) m.
Proof.
  induction n; simpl.
  - rewrite sumQ_zero. reflexivity.
  - rewrite IHn. rewrite <- sumQ_add. reflexivity.
Qed.

Lemma sumQ_nonneg f n : (forall i, (i < n)%nat -> 0 <= f i) -> 0 <= sumQ f n.
Proof. induction n; simpl; intros H; [lra|].
  assert (0 <= sumQ f n) by (apply IHn; intros; apply H; lia).
  specialize (H n (Nat.lt_succ_diag_r n)). lra. Qed.

Lemma sumQ_le f g n : (forall i, (i < n)%nat -> f i <= g i) -> sumQ f n <= sumQ g n.
Proof. induction n; simpl; intros H; [lra|].
  assert (sumQ f n <= sumQ g n) by (apply IHn; intros; apply H; lia).
  specialize (H n (Nat.lt_succ_diag_r n)). lra. Qed.

Definition ind (b : bool) : Q := if b then 1 else 0.

Lemma sumQ_ind_collapse (f : nat -> Q) m c : (c < m)%nat ->
  sumQ (fun u => ind (Nat.eqb c u) * f u) m == f c.
Proof.
  induction m; intros Hc; [lia|]. simpl.
  destruct (Nat.eq_dec c m) as [->|Hne].
  - rewrite Nat.eqb_refl. simpl.
    rewrite (sumQ_ext _ (fun _ => 0)). rewrite sumQ_zero. ring.
    intros i Hi. destruct (Nat.eqb_spec m i); [lia|]. simpl. ring.
  - rewrite IHm by lia. destruct (Nat.eqb_spec c m); [lia|]. simpl. ring.
Qed.

Lemma sumQ_split f n p : (p < n)%nat ->
  sumQ f n == sumQ (fun i => if Nat.eqb i p then 0 else f i) n + f p.
Proof.
  induction n; intros Hp; [lia|]. simpl.
  destruct (Nat.eq_dec p n) as [->|Hne].
  - rewrite Nat.eqb_refl.
    rewrite (sumQ_ext f (fun i => if Nat.eqb i n then 0 else f i) n); [ring|].
    intros i Hi. destruct (Nat.eqb_spec i n); [lia|reflexivity].
  - rewrite IHn by lia. destruct (Nat.eqb_spec n p); [lia|]. ring.
Qed.

Definition sum2Q (f : nat -> nat -> Q) (n : nat) : Q := sumQ (fun i => sumQ (f i) n) n.

Lemma sum2Q_ext f g n : (forall i j, (i < n)%nat -> (j < n)%nat -> f i j == g i j) -> sum2Q f n == sum2Q g n.
Proof. intros H. apply sumQ_ext; intros i Hi. apply sumQ_ext; intros j Hj. auto. Qed.
Lemma sum2Q_transpose f n : sum2Q (fun i j => f j i) n == sum2Q f n.
Proof. unfold sum2Q. rewrite sumQ_fubini. reflexivity. Qed.
Lemma sum2Q_add f g n : sum2Q (fun i j => f i j + g i j) n == sum2Q f n + sum2Q g n.
Proof. unfold sum2Q. rewrite <- sumQ_add. apply sumQ_ext; intros. apply sumQ_add. Qed.
Lemma sum2Q_scal c f n : sum2Q (fun i j => c * f i j) n == c * sum2Q f n.
Proof. unfold sum2Q. rewrite <- sumQ_scal. apply sumQ_ext; intros. apply sumQ_scal. Qed.
