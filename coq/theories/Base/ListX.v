(* Base/ListX.v — list facts missing from the 8.16 standard library *)
From Coq Require Import List Arith Lia Bool Permutation Sorted.
Import ListNotations.

Lemma NoDup_app_intro {A} (l1 l2 : list A) :
  NoDup l1 -> NoDup l2 -> (forall z, In z l1 -> ~ In z l2) -> NoDup (l1 ++ l2).
Proof.
  induction l1 as [|x l1 IH1]; intros H1 H2 H3; cbn [app]; [exact H2|].
  inversion H1; subst. constructor.
  - rewrite in_app_iff. intros [H|H]; [contradiction|]. apply (H3 x); [left; reflexivity|exact H].
  - apply IH1; auto. intros z Hz. apply H3. right; exact Hz.
Qed.

Lemma NoDup_app_inv {A} (l1 l2 : list A) :
  NoDup (l1 ++ l2) -> NoDup l1 /\ NoDup l2 /\ (forall z, In z l1 -> ~ In z l2).
Proof.
  induction l1 as [|a l1 IH]; cbn [app]; intros H.
  - split; [constructor|]. split; [exact H|]. intros z [].
  - inversion H as [|? ? Ha Hl]; subst. destruct (IH Hl) as (H1 & H2 & H3). split; [|split].
    + constructor; [|exact H1]. intros Hin. apply Ha. apply in_app_iff. left; exact Hin.
    + exact H2.
    + intros z [<-|Hz]; [|apply H3; exact Hz]. intros Hin. apply Ha. apply in_app_iff. right; exact Hin.
Qed.

Lemma NoDup_flat_map {A B} (f : A -> list B) l :
  NoDup l -> (forall x, In x l -> NoDup (f x)) ->
  (forall x y z, In x l -> In y l -> In z (f x) -> In z (f y) -> x = y) -> NoDup (flat_map f l).
Proof.
  induction l as [|a l IH]; intros Hnd Hf Hdisj; cbn [flat_map]; [constructor|].
  inversion Hnd as [|? ? Ha Hl]; subst.
  apply NoDup_app_intro.
  - apply Hf. left; reflexivity.
  - apply IH; auto.
    + intros x Hx. apply Hf. right; exact Hx.
    + intros x y z Hx Hy. apply Hdisj; right; assumption.
  - intros z Hz Hz'. apply in_flat_map in Hz'. destruct Hz' as [y [Hy Hzy]].
    assert (a = y) by (apply (Hdisj a y z); [left; reflexivity|right; exact Hy|exact Hz|exact Hzy]).
    subst. contradiction.
Qed.

Lemma sorted_app_ge {A} (R : A -> A -> Prop) l1 l2 :
  StronglySorted R (l1 ++ l2) -> forall x y, In x l1 -> In y l2 -> R x y.
Proof.
  induction l1 as [|a l1 IH]; cbn [app]; intros Hs x y Hx Hy; [contradiction|].
  inversion Hs as [|? ? Hs' Hf]; subst. destruct Hx as [<-|Hx].
  - rewrite Forall_forall in Hf. apply Hf. apply in_app_iff. right; exact Hy.
  - apply IH; assumption.
Qed.

(* row-major enumeration of the n x n cells = the order of np.where *)
Definition cells (n : nat) : list (nat * nat) :=
  flat_map (fun i => map (fun j => (i, j)) (seq 0 n)) (seq 0 n).

Lemma cells_In n i j : In (i, j) (cells n) <-> (i < n /\ j < n)%nat.
Proof. unfold cells. rewrite in_flat_map. split.
  - intros [x [Hx H]]. apply in_map_iff in H. destruct H as [y [E Hy]]. inversion E; subst.
    apply in_seq in Hx. apply in_seq in Hy. lia.
  - intros [Hi Hj]. exists i. split; [apply in_seq; lia|]. apply in_map_iff. exists j. split; [reflexivity|apply in_seq; lia]. Qed.

Lemma cells_NoDup n : NoDup (cells n).
Proof. unfold cells. apply NoDup_flat_map.
  - apply seq_NoDup.
  - intros x _. apply FinFun.Injective_map_NoDup; [|apply seq_NoDup]. intros a b E. inversion E; reflexivity.
  - intros x y z _ _ Hx Hy. apply in_map_iff in Hx. apply in_map_iff in Hy.
    destruct Hx as [a [Ea _]], Hy as [b [Eb _]]. subst z. inversion Eb; reflexivity. Qed.

Definition cell_eqb (c d : nat * nat) : bool := (Nat.eqb (fst c) (fst d) && Nat.eqb (snd c) (snd d))%bool.
Definition cmem (c : nat * nat) (l : list (nat * nat)) : bool := existsb (cell_eqb c) l.
Lemma cell_eqb_spec c d : reflect (c = d) (cell_eqb c d).
Proof. destruct c as [a b], d as [a' b']. unfold cell_eqb; cbn [fst snd].
  destruct (Nat.eqb_spec a a'), (Nat.eqb_spec b b'); cbn [andb]; constructor; congruence. Qed.
Lemma cmem_In c l : cmem c l = true <-> In c l.
Proof. unfold cmem. rewrite existsb_exists. split.
  - intros [d [Hd E]]. destruct (cell_eqb_spec c d); [subst; exact Hd|discriminate].
  - intros H. exists c. split; [exact H|]. destruct (cell_eqb_spec c c); congruence. Qed.
Lemma cmem_false c l : cmem c l = false <-> ~ In c l.
Proof. rewrite <- cmem_In. destruct (cmem c l); split; congruence. Qed.

(* membership of naturals in a list *)
Definition nmem (x : nat) (l : list nat) : bool := existsb (Nat.eqb x) l.
Lemma nmem_In x l : nmem x l = true <-> In x l.
Proof. unfold nmem. rewrite existsb_exists. split.
  - intros [y [Hy E]]. apply Nat.eqb_eq in E. subst; auto.
  - intros H. exists x. split; auto. apply Nat.eqb_refl. Qed.
Lemma nmem_false x l : nmem x l = false <-> ~ In x l.
Proof. rewrite <- nmem_In. destruct (nmem x l); split; congruence. Qed.
