(* Base/Mat.v — function matrices, tabulation, integer sums and counts.
   Matrices are total functions [nat -> nat -> T]; every theorem quantifies indices < n. *)
From Coq Require Import ZArith List Arith Lia Bool.
Import ListNotations.

Section Generic.
Context {T : Type}.
Definition mat := nat -> nat -> T.
Definition vec := nat -> T.
Definition upd (R : mat) (x y : nat) (v : T) : mat :=
  fun i j => if (Nat.eqb i x && Nat.eqb j y)%bool then v else R i j.
Definition vupd (f : vec) (x : nat) (v : T) : vec :=
  fun i => if Nat.eqb i x then v else f i.
Definition of_list (d : T) (l : list T) : vec := fun i => nth i l d.
Definition of_rows (d : T) (l : list (list T)) : mat := fun i j => nth j (nth i l []) d.
Definition to_list (n : nat) (f : vec) : list T := map f (seq 0 n).
Definition to_rows (n m : nat) (f : mat) : list (list T) :=
  map (fun i => map (f i) (seq 0 m)) (seq 0 n).
(* materialise (so that iterated definitions do not blow up when executed) *)
Definition tabv (d : T) (n : nat) (f : vec) : vec := of_list d (to_list n f).
Definition tab (d : T) (n m : nat) (f : mat) : mat := of_rows d (to_rows n m f).

Lemma to_list_length n f : length (to_list n f) = n.
Proof. unfold to_list. rewrite map_length, seq_length. reflexivity. Qed.

Lemma nth_to_list d n f i : i < n -> nth i (to_list n f) d = f i.
Proof.
  intros Hi. unfold to_list.
  rewrite (nth_indep _ d (f 0)) by (rewrite map_length, seq_length; exact Hi).
  rewrite map_nth. rewrite seq_nth by exact Hi. reflexivity.
Qed.

Lemma tabv_spec d n f i : i < n -> tabv d n f i = f i.
Proof. intros Hi. unfold tabv, of_list. apply nth_to_list; exact Hi. Qed.
End Generic.

Lemma nth_map_seq {U : Type} (g : nat -> U) d n i : i < n -> nth i (map g (seq 0 n)) d = g i.
Proof. intros Hi. exact (nth_to_list d n g i Hi). Qed.

Section Generic2.
Context {T : Type}.
Lemma tab_spec (d : T) n m f i j : i < n -> j < m -> tab d n m f i j = f i j.
Proof.
  intros Hi Hj. unfold tab, of_rows, to_rows.
  rewrite (nth_map_seq (fun i => map (f i) (seq 0 m)) [] n i Hi).
  apply nth_map_seq; exact Hj.
Qed.

Lemma upd_same (R : @mat T) x y (v : T) : upd R x y v x y = v.
Proof. unfold upd. rewrite !Nat.eqb_refl. reflexivity. Qed.
Lemma upd_other (R : @mat T) x y (v : T) i j : (i <> x \/ j <> y) -> upd R x y v i j = R i j.
Proof.
  unfold upd. intros H.
  destruct (Nat.eqb_spec i x); destruct (Nat.eqb_spec j y); cbn [andb]; try reflexivity.
  exfalso; destruct H; contradiction.
Qed.
Lemma vupd_same (f : @vec T) x (v : T) : vupd f x v x = v.
Proof. unfold vupd. rewrite Nat.eqb_refl. reflexivity. Qed.
Lemma vupd_other (f : @vec T) x (v : T) i : i <> x -> vupd f x v i = f i.
Proof. unfold vupd. intros H. destruct (Nat.eqb_spec i x); [contradiction|reflexivity]. Qed.
End Generic2.

Arguments mat T : clear implicits.
Arguments vec T : clear implicits.

(* destruct every Nat.eqb in the goal *)
Ltac eqb_cases :=
  repeat match goal with
  | |- context[Nat.eqb ?u ?v] => destruct (Nat.eqb_spec u v); subst; cbn [andb orb negb]
  end; try congruence; try lia; try reflexivity.

(* ---------- integer sums ---------- *)
Open Scope Z_scope.

Fixpoint sumn (f : nat -> Z) (n : nat) : Z :=
  match n with O => 0 | S k => sumn f k + f k end.

Lemma sumn_ext f g n : (forall i, (i < n)%nat -> f i = g i) -> sumn f n = sumn g n.
Proof. induction n; simpl; intros H; [reflexivity|]. rewrite IHn, H; auto. Qed.

Lemma sumn_zero n : sumn (fun _ => 0) n = 0.
Proof. induction n; simpl; lia. Qed.

Lemma sumn_add f g n : sumn (fun i => f i + g i) n = sumn f n + sumn g n.
Proof. induction n; simpl; lia. Qed.

Lemma sumn_scal c f n : sumn (fun i => c * f i) n = c * sumn f n.
Proof. induction n; simpl; lia. Qed.

Lemma sumn_nonneg f n : (forall i, (i < n)%nat -> 0 <= f i) -> 0 <= sumn f n.
Proof. induction n; simpl; intros H; [lia|]. specialize (H n (Nat.lt_succ_diag_r n)) as Hn.
  assert (0 <= sumn f n) by (apply IHn; intros; apply H; lia). lia. Qed.

Lemma sumn_le f g n : (forall i, (i < n)%nat -> f i <= g i) -> sumn f n <= sumn g n.
Proof. induction n; simpl; intros H; [lia|].
  assert (sumn f n <= sumn g n) by (apply IHn; intros; apply H; lia).
  specialize (H n (Nat.lt_succ_diag_r n)). lia. Qed.

Lemma sumn_fubini (f : nat -> nat -> Z) n m :
  sumn (fun i => sumn (fun j => f i j) m) n = sumn (fun j => sumn (fun i => f i j) n) m.
Proof.
  induction n; simpl.
  - rewrite sumn_zero. reflexivity.
  - rewrite IHn. rewrite <- sumn_add. reflexivity.
Qed.

Lemma sumn_split f n p : (p < n)%nat ->
  sumn f n = sumn (fun i => if Nat.eqb i p then 0 else f i) n + f p.
Proof.
  induction n; intros Hp; [lia|]. simpl.
  destruct (Nat.eq_dec p n) as [->|Hne].
  - rewrite Nat.eqb_refl.
    rewrite (sumn_ext f (fun i => if Nat.eqb i n then 0 else f i) n); [lia|].
    intros i Hi. destruct (Nat.eqb_spec i n); [lia|reflexivity].
  - rewrite IHn by lia. destruct (Nat.eqb_spec n p); [lia|]. lia.
Qed.

Lemma sumn_split2 f n p q : (p < n)%nat -> (q < n)%nat -> p <> q ->
  sumn f n = sumn (fun i => if Nat.eqb i q then 0 else if Nat.eqb i p then 0 else f i) n + f q + f p.
Proof.
  intros Hp Hq Hpq. rewrite (sumn_split f n p Hp).
  rewrite (sumn_split (fun i => if Nat.eqb i p then 0 else f i) n q Hq).
  destruct (Nat.eqb_spec q p); [congruence|]. reflexivity.
Qed.

(* two positions exchange their values, everything else is kept *)
Lemma sumn_swap2 f g n p q : (p < n)%nat -> (q < n)%nat -> p <> q ->
  g p = f q -> g q = f p -> (forall i, i <> p -> i <> q -> g i = f i) ->
  sumn g n = sumn f n.
Proof.
  intros Hp Hq Hpq H1 H2 H3.
  rewrite (sumn_split2 f n p q Hp Hq Hpq), (sumn_split2 g n p q Hp Hq Hpq).
  rewrite H1, H2.
  rewrite (sumn_ext (fun i => if Nat.eqb i q then 0 else if Nat.eqb i p then 0 else f i)
                    (fun i => if Nat.eqb i q then 0 else if Nat.eqb i p then 0 else g i) n); [lia|].
  intros i _. destruct (Nat.eqb_spec i q); [reflexivity|]. destruct (Nat.eqb_spec i p); [reflexivity|].
  symmetry; apply H3; assumption.
Qed.

(* sum of the two changed positions is preserved (weaker, used for strengths) *)
Lemma sumn_move2 f g n p q : (p < n)%nat -> (q < n)%nat -> p <> q ->
  g p + g q = f p + f q -> (forall i, i <> p -> i <> q -> g i = f i) ->
  sumn g n = sumn f n.
Proof.
  intros Hp Hq Hpq H1 H3.
  rewrite (sumn_split2 f n p q Hp Hq Hpq), (sumn_split2 g n p q Hp Hq Hpq).
  rewrite (sumn_ext (fun i => if Nat.eqb i q then 0 else if Nat.eqb i p then 0 else f i)
                    (fun i => if Nat.eqb i q then 0 else if Nat.eqb i p then 0 else g i) n); [lia|].
  intros i _. destruct (Nat.eqb_spec i q); [reflexivity|]. destruct (Nat.eqb_spec i p); [reflexivity|].
  symmetry; apply H3; assumption.
Qed.

Definition b2z (b : bool) : Z := if b then 1 else 0.
Definition nz (z : Z) : Z := if Z.eqb z 0 then 0 else 1.
Definition countn (p : nat -> bool) (n : nat) : Z := sumn (fun i => b2z (p i)) n.
Definition sum2 (f : nat -> nat -> Z) (n : nat) : Z := sumn (fun i => sumn (f i) n) n.

Lemma countn_ext p q n : (forall i, (i < n)%nat -> p i = q i) -> countn p n = countn q n.
Proof. intros H. apply sumn_ext. intros i Hi. rewrite H; auto. Qed.
Lemma countn_bounds p n : 0 <= countn p n <= Z.of_nat n.
Proof. unfold countn. induction n; simpl sumn; [lia|]. destruct (p n); simpl b2z; lia. Qed.

Lemma sum2_ext f g n : (forall i j, (i < n)%nat -> (j < n)%nat -> f i j = g i j) -> sum2 f n = sum2 g n.
Proof. intros H. apply sumn_ext; intros i Hi. apply sumn_ext; intros j Hj. auto. Qed.
Lemma sum2_transpose f n : sum2 (fun i j => f j i) n = sum2 f n.
Proof. unfold sum2. rewrite sumn_fubini. reflexivity. Qed.
