(* common.ml — textual prelude appended after `open <Cxx>_model`.
   Converts between OCaml values/strings and the extracted Coq datatypes
   (nat, positive, z, q stay Coq datatypes: no Extract Constant / Extract Inductive beyond ExtrOcamlBasic). *)
let rec pos_of_int n =
  if n <= 1 then XH else if n land 1 = 0 then XO (pos_of_int (n lsr 1)) else XI (pos_of_int (n lsr 1))
let z_of_int n = if n = 0 then Z0 else if n > 0 then Zpos (pos_of_int n) else Zneg (pos_of_int (-n))
let rec nat_of_int n = let rec go k acc = if k <= 0 then acc else go (k-1) (S acc) in go n O
let int_of_nat n = let rec go n acc = match n with O -> acc | S m -> go m (acc+1) in go n 0
(* arbitrary-size output: binary string, parsed by python int(s, 0) *)
let pos_to_bin p =
  let b = Buffer.create 64 in
  let rec go p acc = match p with XH -> '1' :: acc | XO q -> go q ('0' :: acc) | XI q -> go q ('1' :: acc) in
  List.iter (Buffer.add_char b) (go p []); Buffer.contents b
let z_to_str = function Z0 -> "0" | Zpos p -> "0b" ^ pos_to_bin p | Zneg p -> "-0b" ^ pos_to_bin p
(* arbitrary-size input: decimal int, or 0b... binary *)
let pos_of_bin s =
  (* s: string of 0/1 without prefix, leading 1 *)
  let n = String.length s in
  let rec go i acc = if i >= n then acc else go (i+1) (if s.[i] = '1' then XI acc else XO acc) in
  go 1 XH
let z_of_string s =
  let neg = String.length s > 0 && s.[0] = '-' in
  let t = if neg then String.sub s 1 (String.length s - 1) else s in
  if String.length t > 2 && t.[0] = '0' && t.[1] = 'b' then
    let bits = String.sub t 2 (String.length t - 2) in
    let p = pos_of_bin bits in if neg then Zneg p else Zpos p
  else z_of_int (int_of_string s)
let q_of_string s =
  match String.index_opt s '/' with
  | None -> { qnum = z_of_string s; qden = XH }
  | Some k ->
    let a = String.sub s 0 k and b = String.sub s (k+1) (String.length s - k - 1) in
    (match z_of_string b with Zpos p -> { qnum = z_of_string a; qden = p } | _ -> failwith "bad denominator")

(* token reader over the current line *)
let toks : string list ref = ref []
let set_line s = toks := List.filter (fun t -> t <> "") (String.split_on_char ' ' s)
let next () = match !toks with t :: r -> toks := r; t | [] -> failwith "unexpected end of line"
let next_int () = int_of_string (next ())
let next_nat () = nat_of_int (next_int ())
let next_z () = z_of_string (next ())
let next_q () = q_of_string (next ())
let next_bool () = (next_int ()) <> 0
let next_list (f : unit -> 'a) : 'a list =
  let k = next_int () in
  let rec go i acc = if i >= k then List.rev acc else let x = f () in go (i+1) (x :: acc) in go 0 []
let next_mat f = next_list (fun () -> next_list f)
let next_opt f = if next_bool () then Some (f ()) else None
let next_pair f g = let a = f () in let b = g () in (a, b)

(* JSON printers *)
let out = Buffer.create 65536
let ps s = Buffer.add_string out s
let p_int n = ps (string_of_int n)
let p_nat n = p_int (int_of_nat n)
let p_z z = ps "\""; ps (z_to_str z); ps "\""
let p_q x = ps "\""; ps (z_to_str x.qnum); ps "/"; ps ("0b" ^ pos_to_bin x.qden); ps "\""
let p_bool b = ps (if b then "true" else "false")
let p_list p l = ps "["; List.iteri (fun i x -> if i > 0 then ps ","; p x) l; ps "]"
let p_mat p l = p_list (p_list p) l
let p_opt p = function None -> ps "null" | Some x -> p x
let p_pair p q (a, b) = ps "["; p a; ps ","; q b; ps "]"
let p_triple p q r ((a, b), c) = ps "["; p a; ps ","; q b; ps ","; r c; ps "]"

let main (dispatch : string -> unit) =
  (try
    while true do
      let line = input_line stdin in
      Buffer.clear out;
      set_line line;
      (try
        let fn = next () in dispatch fn
      with
      | Stack_overflow -> Buffer.clear out; ps "{\"error\":\"stack_overflow\"}"
      | e -> Buffer.clear out; ps "{\"error\":\""; ps (String.escaped (Printexc.to_string e)); ps "\"}");
      print_string (Buffer.contents out); print_newline ()
    done
  with End_of_file -> ())
