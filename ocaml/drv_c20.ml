let dispatch = function
  | "rand_dir" -> let n = next_nat () in let k = next_nat () in let rp = next_list next_nat in
                  p_mat p_z (run_rand_dir n k rp)
  | "rand_und" -> let n = next_nat () in let k = next_nat () in let rp = next_list next_nat in
                  p_mat p_z (run_rand_und n k rp)
  | "ring" -> let n = next_nat () in let k = next_nat () in let rp = next_list next_nat in
              p_opt (p_mat p_z) (run_ring n k rp)
  | "toeplitz" -> let n = next_nat () in let k = next_nat () in let tpl = next_mat next_q in
                  let st = next_list (fun () -> next_mat next_q) in
                  p_opt (p_mat p_z) (run_toeplitz n k tpl st)
  | "fractal" -> let mx = next_nat () in let pw = next_list next_q in let sz = next_z () in
                 let s = next_mat next_q in
                 p_opt (p_pair (p_mat p_z) p_z) (run_fractal mx pw sz s)
  | "even" -> let n = next_nat () in let k = next_nat () in let sz = next_z () in let rp = next_list next_nat in
              p_opt (p_mat p_z) (run_even n k sz rp)
  | "degfixed" -> let inv = next_list next_nat in let outv = next_list next_nat in
                  let rp = next_list next_nat in let st = next_list next_nat in
                  p_pair p_nat (p_mat p_z) (run_degfixed inv outv rp st)
  | "template" -> let mx = next_nat () in p_mat p_z (run_template mx)
  (* ---- Model/GeneratorsExt.v ---- *)
  | "toeplitz_pf" -> let n = next_nat () in let k = next_z () in let pf = next_list next_q in let q = next_q () in
                     let st = next_list (fun () -> next_mat next_q) in
                     p_pair p_nat (p_pair p_z (p_mat p_z)) (run_toeplitz_pf n k pf q st)
  | "toep_template" -> let n = next_nat () in let k = next_z () in let pf = next_list next_q in
                       p_mat p_q (run_toep_template n k pf)
  | "rand_dir_z" -> let n = next_nat () in let k = next_z () in let rp = next_list next_nat in
                    p_mat p_z (run_rand_dir_z n k rp)
  | "rand_und_z" -> let n = next_nat () in let k = next_z () in let rp = next_list next_nat in
                    p_mat p_z (run_rand_und_z n k rp)
  | "ring_z" -> let n = next_nat () in let k = next_z () in let rp = next_list next_nat in
                p_opt (p_mat p_z) (run_ring_z n k rp)
  | "even_z" -> let n = next_nat () in let k = next_z () in let sz = next_z () in let rp = next_list next_nat in
                p_opt (p_mat p_z) (run_even_z n k sz rp)
  | "degfixed_chk" -> let inv = next_list next_nat in let outv = next_list next_nat in
                      let rp = next_list next_nat in let st = next_list next_nat in
                      p_pair p_nat (p_mat p_z) (run_degfixed_chk inv outv rp st)
  | f -> failwith ("unknown function " ^ f)
let () = main dispatch
