let dispatch = function
  | "rand_dir" -> let n = next_nat () in let k = next_nat () in let rp = next_list next_nat in
                  p_mat p_z (run_rand_dir n k rp)
  | "rand_und" -> let n = next_nat () in let k = next_nat () in let rp = next_list next_nat in
                  p_mat p_z (run_rand_und n k rp)
  | "ring" -> let n = next_nat () in let k = next_nat () in let rp = next_list next_nat in
              p_opt (p_mat p_z) (run_ring n k rp)
  | "toeplitz" -> let n = next_nat () in let k = next_nat () in let tpl = next_mat next_q in
                  let st = next_list (fun () -> next_mat next_q) in
                  p_opt (p_mat p_z) (run_toeplitz n k tpl st)
  | "fractal" -> let mx = next_nat () in let pw = next_list next_q in let sz = next_z () in
                 let s = next_mat next_q in
                 p_opt (p_pair (p_mat p_z) p_z) (run_fractal mx pw sz s)
  | "even" -> let n = next_nat () in let k = next_nat () in let sz = next_z () in let rp = next_list next_nat in
              p_opt (p_mat p_z) (run_even n k sz rp)
  | "degfixed" -> let inv = next_list next_nat in let outv = next_list next_nat in
                  let rp = next_list next_nat in let st = next_list next_nat in
                  p_pair p_nat (p_mat p_z) (run_degfixed inv outv rp st)
  | "template" -> let mx = next_nat () in p_mat p_z (run_template mx)
  | f -> failwith ("unknown function " ^ f)
let () = main dispatch
