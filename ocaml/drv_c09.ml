let dispatch = function
  | "cc_bu" -> let w = next_mat next_q in p_list p_q (run_cc_bu w)
  | "cc_bd" -> let w = next_mat next_q in p_list p_q (run_cc_bd w)
  | "cc_wu" -> let w = next_mat next_q in p_list p_q (run_cc_wu w)
  | "cc_wd" -> let w = next_mat next_q in p_list p_q (run_cc_wd w)
  | "cc_sign" -> let w = next_mat next_q in let ty = next_nat () in
      p_opt (p_pair (p_list p_q) (p_list p_q)) (run_cc_sign w ty)
  | "trans" -> let w = next_mat next_q in let k = next_nat () in p_opt p_q (run_trans w k)
  | "cbrt" -> let x = next_q () in p_q (run_cbrt x)
  | f -> failwith ("unknown function " ^ f)
let () = main dispatch
