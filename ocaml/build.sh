#!/bin/sh
# build.sh <id-lowercase> : builds build/drv_<id> from gen/<id>_model.ml + common.ml + drv_<id>.ml
set -e
cd "$(dirname "$0")"
id="$1"
mkdir -p build/$id
Mod=$(echo "${id}_model" | sed 's/^./\U&/')
cp gen/${id}_model.ml gen/${id}_model.mli build/$id/
{ echo "open $Mod"; cat common.ml drv_$id.ml; } > build/$id/drv.ml
cd build/$id
ocamlfind ocamlopt -O2 -w -a ${id}_model.mli ${id}_model.ml drv.ml -o ../drv_$id 2>/dev/null || ocamlfind ocamlopt -w -a ${id}_model.mli ${id}_model.ml drv.ml -o ../drv_$id
