let p_res ((p, adj), null) = ps "["; p_list p_q p; ps ","; p_mat p_z adj; ps ","; p_list p_q null; ps "]"
let dispatch = function
  | "nbs" ->
      let n = next_nat () in
      let xs = next_list (fun () -> next_mat next_q) in
      let ys = next_list (fun () -> next_mat next_q) in
      let thr = next_q () in
      let tl = next_nat () in
      let paired = next_bool () in
      let perms = next_list (fun () -> next_list next_nat) in
      let rands = next_list (fun () -> next_list next_q) in
      p_opt p_res (run_nbs n xs ys thr tl paired perms rands)
  | "nbsf" ->
      (* the whole call: tail code, x.shape[0], x.shape[1], y.shape[0], y.shape[1], stacks, ... *)
      let tc = next_nat () in
      let ix = next_nat () in
      let jx = next_nat () in
      let iy = next_nat () in
      let jy = next_nat () in
      let xs = next_list (fun () -> next_mat next_q) in
      let ys = next_list (fun () -> next_mat next_q) in
      let thr = next_q () in
      let paired = next_bool () in
      let perms = next_list (fun () -> next_list next_nat) in
      let rands = next_list (fun () -> next_list next_q) in
      (match run_nbs_full tc ix jx iy jy xs ys thr paired perms rands with
       | Inl e -> ps "{\"exn\":"; p_nat e; ps "}"
       | Inr r -> p_res r)
  | "supra" ->
      let paired = next_bool () in
      let tl = next_nat () in
      let thr = next_q () in
      let x = next_list next_q in
      let y = next_list next_q in
      p_bool (run_supra paired tl thr x y)
  | f -> failwith ("unknown function " ^ f)
let () = main dispatch
