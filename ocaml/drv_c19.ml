let p_res ((p, adj), null) = ps "["; p_list p_q p; ps ","; p_mat p_z adj; ps ","; p_list p_q null; ps "]"
let dispatch = function
  | "nbs" ->
      let n = next_nat () in
      let xs = next_list (fun () -> next_mat next_q) in
      let ys = next_list (fun () -> next_mat next_q) in
      let thr = next_q () in
      let tl = next_nat () in
      let paired = next_bool () in
      let perms = next_list (fun () -> next_list next_nat) in
      let rands = next_list (fun () -> next_list next_q) in
      p_opt p_res (run_nbs n xs ys thr tl paired perms rands)
  | "supra" ->
      let paired = next_bool () in
      let tl = next_nat () in
      let thr = next_q () in
      let x = next_list next_q in
      let y = next_list next_q in
      p_bool (run_supra paired tl thr x y)
  | f -> failwith ("unknown function " ^ f)
let () = main dispatch
