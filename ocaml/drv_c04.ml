(* drv_c04.ml — runs the extracted evaluator of the index-symmetric term language on one measure.
   line:  m <id> <k> <A : mat q> <ci : list q> <ks : list q>   |   g <idx> <A> <ci> <ks>   |   gcount   |   gfp   |   gsame <idx> <id> <k>   |   mkind <id> <k>   |   gkind <idx>
   The abstract primitives (0: sqrt, 1: cbrt) are interpreted through binary64 and converted back to a dyadic
   rational; only measures compared with tolerance use them. *)
let rec pos_to_float p = match p with XH -> 1.0 | XO q -> 2.0 *. pos_to_float q | XI q -> 2.0 *. pos_to_float q +. 1.0
let z_to_float = function Z0 -> 0.0 | Zpos p -> pos_to_float p | Zneg p -> -. (pos_to_float p)
let q_to_float x = z_to_float x.qnum /. pos_to_float x.qden
let rec pow2_pos k = if k <= 0 then XH else XO (pow2_pos (k - 1))
let rec shl_pos p k = if k <= 0 then p else shl_pos (XO p) (k - 1)
let q_of_float f =
  if f = 0.0 || classify_float f <> FP_normal then { qnum = Z0; qden = XH } else
  let (m, e) = frexp (abs_float f) in
  let mant = int_of_float (ldexp m 53) in
  let e = e - 53 in
  let mp = pos_of_int mant in
  let (num, den) = if e >= 0 then (shl_pos mp e, XH) else (mp, pow2_pos (-e)) in
  { qnum = (if f > 0.0 then Zpos num else Zneg num); qden = den }
let prims k x =
  match int_of_nat k with
  | 0 -> q_of_float (sqrt (q_to_float x))
  | 1 -> q_of_float (Float.cbrt (q_to_float x))
  | _ -> x
let dispatch = function
  | "m" ->
    let id = next_nat () in let k = next_nat () in
    let a = next_mat next_q in let ci = next_list next_q in let ks = next_list next_q in
    p_mat p_q (run_measure prims id k a ci ks)
  | "g" ->      (* g <idx> <A> <ci> <ks> : the idx-th program of Gen/SymTermGen.v (regenerated from the Python source) *)
    let idx = next_nat () in
    let a = next_mat next_q in let ci = next_list next_q in let ks = next_list next_q in
    p_mat p_q (run_gen prims idx a ci ks)
  | "gcount" -> p_nat gen_count
  | "gfp" -> p_z gen_fingerprint
  | "gsame" ->  (* gsame <idx> <id> <k> : is the idx-th generated program syntactically the hand-written term (id, k)? *)
    let idx = next_nat () in let id = next_nat () in let k = next_nat () in
    p_bool (gen_same_as_hand idx id k)
  | "mkind" ->  (* mkind <id> <k> : [kind of measure_by_id id k; kind the table kind_by_id pins for id]  (0 scalar, 1 vector, 2 matrix) *)
    let id = next_nat () in let k = next_nat () in
    p_list p_nat [measure_kind id k; kind_by_id id]
  | "gkind" -> let idx = next_nat () in p_nat (gen_kind idx)
  | f -> failwith ("unknown function " ^ f)
let () = main dispatch
