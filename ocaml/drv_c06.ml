(* small integers are printed in decimal (all matrix values here fit an OCaml int) *)
let rec pos_to_int = function XH -> 1 | XO p -> 2 * pos_to_int p | XI p -> 2 * pos_to_int p + 1
let z_to_int = function Z0 -> 0 | Zpos p -> pos_to_int p | Zneg p -> - (pos_to_int p)
let p_zi z = p_int (z_to_int z)
let p_trace tr = p_list (p_pair (p_list p_nat) (p_mat p_zi)) tr
let p_c3 ((a, b), c) = ps "["; p_z a; ps ","; p_z b; ps ","; p_z c; ps "]"
let raise_name = function
  | 1 -> "ParamError" | 2 -> "NoQuad" | 3 -> "BadPeriod" | 5 -> "DealError" | _ -> "?"
let dispatch = function
  | "pick4" -> let n = next_nat () in let s = next_list next_z in
      p_opt (p_pair (p_list p_nat) p_nat) (run_pick4 n s)
  | "rs" -> let und = next_bool () in let w = next_mat next_z in let itr = next_nat () in
      let s = next_list next_z in
      p_opt (fun ((r, (eff, rest)), tr) ->
               ps "["; p_mat p_zi r; ps ","; p_nat eff; ps ","; p_nat rest; ps ","; p_trace tr; ps "]")
            (run_randmio_signed und w itr s)
  | "nm" -> let und = next_bool () in let w = next_mat next_z in
      let close = next_bool () in let bs = next_nat () in
      let wf = next_q () in let pf = next_z () in let ints = next_list next_z in
      let ords = next_mat next_nat in let perms = next_mat next_nat in
      (match run_null_model und w close bs wf pf ints ords perms with
       | RunOk (r, corr, wr, tr, (u1, (u2, u3))) ->
           ps "["; p_mat p_zi r; ps ","; p_list p_c3 corr; ps ","; p_mat p_zi wr; ps ",";
           p_trace tr; ps ",["; p_nat u1; ps ","; p_nat u2; ps ","; p_nat u3; ps "]]"
       | RunRaise c -> ps "{\"raise\":\""; ps (raise_name (int_of_nat c)); ps "\"}")
  | f -> failwith ("unknown function " ^ f)
let () = main dispatch
