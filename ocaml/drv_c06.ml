(* small integers are printed in decimal (all values here are tiny) *)
let rec pos_to_int = function XH -> 1 | XO p -> 2 * pos_to_int p | XI p -> 2 * pos_to_int p + 1
let z_to_int = function Z0 -> 0 | Zpos p -> pos_to_int p | Zneg p -> - (pos_to_int p)
let p_zi z = p_int (z_to_int z)
let p_trace tr = p_list (p_pair (p_list p_nat) (p_mat p_zi)) tr
let p_c3 ((a, b), c) = ps "["; p_z a; ps ","; p_z b; ps ","; p_z c; ps "]"
let dispatch = function
  | "pick4" -> let n = next_nat () in let s = next_list next_z in
      p_opt (p_pair (p_list p_nat) p_nat) (run_pick4 n s)
  | "rs" -> let und = next_bool () in let w = next_mat next_z in let itr = next_nat () in
      let s = next_list next_z in
      let ((r, (eff, rest)), tr) = run_randmio_signed und w itr s in
      ps "["; p_mat p_zi r; ps ","; p_nat eff; ps ","; p_nat rest; ps ","; p_trace tr; ps "]"
  | "nm" -> let und = next_bool () in let w = next_mat next_z in let bs = next_nat () in
      let wf = next_q () in let ints = next_list next_z in
      let ords = next_mat next_nat in let perms = next_mat next_nat in
      p_opt (fun ((r, corr), (wr, tr)) ->
               ps "["; p_mat p_zi r; ps ","; p_list p_c3 corr; ps ","; p_mat p_zi wr; ps ",";
               p_trace tr; ps "]")
            (run_null_model und w bs wf ints ords perms)
  | f -> failwith ("unknown function " ^ f)
let () = main dispatch
