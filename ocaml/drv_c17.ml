let dispatch = function
  | "ta" -> let w = next_mat next_q in let thr = next_q () in p_mat p_q (run_ta w thr)
  | "tp" -> let w = next_mat next_q in let p = next_q () in p_opt (p_mat p_q) (run_tp w p)
  | "wc" -> let w = next_mat next_q in let m = next_nat () in p_mat p_q (run_wc w m)
  | "round" -> let x = next_q () in p_z (run_round x)
  | f -> failwith ("unknown function " ^ f)
let () = main dispatch
