(* (caller's array afterwards, returned array, returned object is the argument) *)
let p_obs ((a, r), same) = ps "["; p_mat p_q a; ps ","; p_mat p_q r; ps ","; p_bool same; ps "]"
(* weight_conversion: "raise" = NotImplementedError, "nan" = normalize of the all-zero matrix *)
let p_wc p = function None -> ps "\"raise\"" | Some None -> ps "\"nan\"" | Some (Some x) -> p x
let dispatch = function
  | "ta" -> let w = next_mat next_q in let thr = next_q () in p_mat p_q (run_ta w thr)
  | "tp" -> let w = next_mat next_q in let p = next_q () in p_opt (p_mat p_q) (run_tp w p)
  | "wc" -> let w = next_mat next_q in let m = next_nat () in p_mat p_q (run_wc w m)
  | "round" -> let x = next_q () in p_z (run_round x)
  | "st_ta" -> let w = next_mat next_q in let thr = next_q () in let c = next_bool () in p_obs (run_st_ta w thr c)
  | "st_tp" -> let w = next_mat next_q in let p = next_q () in let c = next_bool () in p_opt p_obs (run_st_tp w p c)
  | "st_wc" -> let w = next_mat next_q in let m = next_list next_nat in let f = next_bool () in let c = next_bool () in
      (match run_st_wc w m f c with
       | (code, None) -> (match int_of_nat code with 0 -> ps "\"raise\"" | 1 -> ps "\"param\"" | _ -> ps "\"nan\"")
       | (_, Some o) -> p_obs o)
  | "wc_str" -> let w = next_mat next_q in let m = next_list next_nat in p_wc (p_mat p_q) (run_wc_str w m)
  | f -> failwith ("unknown function " ^ f)
let () = main dispatch
