let p_len = p_opt p_q
let next_tbl () = next_list (fun () -> let a = next_q () in let b = next_q () in (a, b))
let dispatch = function
  | "floyd" -> let tr = next_nat () in let a = next_mat next_q in let tbl = next_tbl () in
      let (s, (h, p)) = run_floyd tr a tbl in
      ps "["; p_mat p_len s; ps ","; p_mat p_nat h; ps ","; p_mat p_nat p; ps "]"
  | "retrieve" -> let tr = next_nat () in let a = next_mat next_q in let tbl = next_tbl () in
      p_list (p_list p_nat) (run_retrieve tr a tbl)
  | "nav" -> let fuel = next_nat () in let l = next_mat next_q in let d = next_mat next_q in
      let mh = next_opt next_nat in
      p_opt (p_pair p_q (p_list (p_pair (p_list p_nat) (p_pair (p_opt p_nat) (p_pair (p_opt p_q) (p_opt p_q)))))) (run_nav fuel l d mh)
  | "navx" -> let fuel = next_nat () in let l = next_mat next_q in let d = next_mat next_q in
      let mh = next_opt next_nat in
      p_pair p_nat (p_opt (p_pair p_q (p_list (p_pair (p_list p_nat) (p_pair (p_opt p_nat) (p_pair (p_opt p_q) (p_opt p_q))))))) (run_nav_x fuel l d mh)
  | f -> failwith ("unknown function " ^ f)
let () = main dispatch
