(* driver shared by C02 and C07 (drv_c07.ml is identical): replays recorded move sequences through the extracted model *)
let next_moves () = next_list (fun () -> next_pair next_nat next_nat)
let p_chan (k, m) = ps "["; p_mat p_q k; ps ","; p_list p_q m; ps "]"
let p_snap (lab, (a, b)) = ps "["; p_list p_nat lab; ps ","; p_chan a; ps ","; p_chan b; ps "]"
let p_move (g, s) = ps "["; p_q g; ps ","; p_snap s; ps "]"
let p_level (tr, (lab, (q, qd))) = ps "["; p_list p_move tr; ps ","; p_list p_nat lab; ps ","; p_q q; ps ","; p_q qd; ps "]"
let p_result (lv, (ci, (q, (qd, qs)))) =
  ps "["; p_list p_level lv; ps ","; p_list p_nat ci; ps ","; p_q q; ps ","; p_q qd; ps ","; p_q qs; ps "]"
let dispatch = function
  | "finetune_und" -> let w = next_mat next_q in let g = next_q () in let ci = next_list next_z in let mv = next_moves () in
      p_result (run_finetune_und w g ci mv)
  | "finetune_dir" -> let w = next_mat next_q in let g = next_q () in let ci = next_list next_z in let mv = next_moves () in
      p_result (run_finetune_dir w g ci mv)
  | "finetune_sign" -> let w = next_mat next_q in let g = next_q () in let qt = next_nat () in
      let ci = next_list next_z in let mv = next_moves () in
      p_result (run_finetune_sign w g qt ci mv)
  | "und_sign" -> let w = next_mat next_q in let qt = next_nat () in let ci = next_list next_z in
      let (ci', (q, qd)) = run_und_sign w qt ci in ps "["; p_list p_nat ci'; ps ","; p_q q; ps ","; p_q qd; ps "]"
  | "given" -> let dir = next_bool () in let w = next_mat next_q in let g = next_q () in let ci = next_list next_z in
      let (q, qd) = run_given dir w g ci in ps "["; p_q q; ps ","; p_q qd; ps "]"
  | "louvain_und" -> let w = next_mat next_q in let g = next_q () in let lv = next_list next_moves in
      p_result (run_louvain_und w g lv)
  | "louvain_dir" -> let w = next_mat next_q in let g = next_q () in let lv = next_list next_moves in
      p_result (run_louvain_dir w g lv)
  | "louvain_sign" -> let w = next_mat next_q in let g = next_q () in let qt = next_nat () in let lv = next_list next_moves in
      p_result (run_louvain_sign w g qt lv)
  | "community_louvain" -> let w = next_mat next_q in let g = next_q () in let kind = next_nat () in
      let ci = next_list next_z in let lv = next_list next_moves in
      p_result (run_community_louvain w g kind ci lv)
  | "retained" -> let qs = next_list next_q in p_list p_q (run_retained qs)
  | f -> failwith ("unknown function " ^ f)
let () = main dispatch
