(* driver shared by C02 and C07 (drv_c07.ml is identical): replays recorded move sequences through the extracted model *)
let next_moves () = next_list (fun () -> next_pair next_nat next_nat)
let p_chan (k, m) = ps "["; p_mat p_q k; ps ","; p_list p_q m; ps "]"
let p_snap (lab, (a, b)) = ps "["; p_list p_nat lab; ps ","; p_chan a; ps ","; p_chan b; ps "]"
let p_move (g, s) = ps "["; p_q g; ps ","; p_snap s; ps "]"
let p_level (tr, (lab, (q, qd))) = ps "["; p_list p_move tr; ps ","; p_list p_nat lab; ps ","; p_q q; ps ","; p_q qd; ps "]"
let p_result (lv, (ci, (q, (qd, qs)))) =
  ps "["; p_list p_level lv; ps ","; p_list p_nat ci; ps ","; p_q q; ps ","; p_q qd; ps ","; p_q qs; ps "]"
(* draw stream of modularity_probtune_und_sign: 0 <q> = random_sample() value, 1 <k> = randint(n) value *)
let next_draw () = if next_int () = 0 then DSample (next_q ()) else DInt (next_nat ())
let p_step (u, (r, mb)) = ps "["; p_nat u; ps ","; p_bool r; ps ","; p_nat mb; ps "]"
let dispatch = function
  | "finetune_und" -> let w = next_mat next_q in let g = next_q () in let ci = next_list next_z in let mv = next_moves () in
      p_result (run_finetune_und w g ci mv)
  | "finetune_dir" -> let w = next_mat next_q in let g = next_q () in let ci = next_list next_z in let mv = next_moves () in
      p_result (run_finetune_dir w g ci mv)
  | "finetune_sign" -> let w = next_mat next_q in let g = next_q () in let qt = next_nat () in
      let ci = next_list next_z in let mv = next_moves () in
      p_result (run_finetune_sign w g qt ci mv)
  | "und_sign" -> let w = next_mat next_q in let qt = next_nat () in let ci = next_list next_z in
      let (ci', (q, qd)) = run_und_sign w qt ci in ps "["; p_list p_nat ci'; ps ","; p_q q; ps ","; p_q qd; ps "]"
  | "given" -> let dir = next_bool () in let w = next_mat next_q in let g = next_q () in let ci = next_list next_z in
      let (q, qd) = run_given dir w g ci in ps "["; p_q q; ps ","; p_q qd; ps "]"
  | "louvain_und" -> let w = next_mat next_q in let g = next_q () in let lv = next_list next_moves in
      p_result (run_louvain_und w g lv)
  | "louvain_dir" -> let w = next_mat next_q in let g = next_q () in let lv = next_list next_moves in
      p_result (run_louvain_dir w g lv)
  | "louvain_sign" -> let w = next_mat next_q in let g = next_q () in let qt = next_nat () in let lv = next_list next_moves in
      p_result (run_louvain_sign w g qt lv)
  | "community_louvain" -> let w = next_mat next_q in let g = next_q () in let kind = next_nat () in
      let ci = next_list next_z in let lv = next_list next_moves in
      p_result (run_community_louvain w g kind ci lv)
  | "probtune" -> let w = next_mat next_q in let g = next_q () in let qt = next_nat () in let ci = next_list next_z in
      let p = next_q () in let perm = next_list next_nat in let ds = next_list next_draw in
      let orc = next_list (fun () -> next_opt next_nat) in
      (match run_probtune w g qt ci p perm ds orc with
       | None -> ps "null"
       | Some (tr, (ci', (q, qd))) -> ps "["; p_list p_step tr; ps ","; p_list p_nat ci'; ps ","; p_q q; ps ","; p_q qd; ps "]")
  (* deciders of the hypotheses of the whole-run theorems: [symmetric input, positive total weight, all moves good] *)
  | "louvain_und_good" -> let w = next_mat next_q in let g = next_q () in let lv = next_list next_moves in
      ps "["; p_bool (sym_rowsb w); ps ","; p_bool (pos_totalb w); ps ","; p_bool (run_louvain_und_good w g lv); ps "]"
  | "louvain_sign_good" -> let w = next_mat next_q in let g = next_q () in let qt = next_nat () in let lv = next_list next_moves in
      ps "["; p_bool (sym_rowsb w); ps ","; p_bool (pos_totalb w); ps ","; p_bool (run_louvain_sign_good w g qt lv); ps "]"
  | "community_louvain_good" -> let w = next_mat next_q in let g = next_q () in let kind = next_nat () in
      let ci = next_list next_z in let lv = next_list next_moves in
      ps "["; p_bool (sym_rowsb w); ps ","; p_bool (pos_totalb w); ps ","; p_bool (run_community_louvain_good w g kind ci lv); ps "]"
  | "retained" -> let qs = next_list next_q in p_list p_q (run_retained qs)
  | f -> failwith ("unknown function " ^ f)
let () = main dispatch
