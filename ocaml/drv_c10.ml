let p_len = p_opt p_q
let p_ext = function ENaN -> ps "[0]" | EInf -> ps "[1]" | EFin q -> ps "[2,"; p_q q; ps "]"
let dispatch = function
  | "cc_bu" -> let w = next_mat next_q in p_list p_q (run_cc_bu w)
  | "cc_bd" -> let w = next_mat next_q in p_list p_q (run_cc_bd w)
  | "cc_wu" -> let w = next_mat next_q in p_list p_q (run_cc_wu w)
  | "cc_wd" -> let w = next_mat next_q in p_list p_q (run_cc_wd w)
  | "cc_o" -> let w = next_mat next_q in let k = next_nat () in p_list (p_opt p_q) (run_cc_o w k)
  | "trans" -> let w = next_mat next_q in let k = next_nat () in p_opt p_q (run_trans w k)
  | "deg" -> let w = next_mat next_q in let k = next_nat () in p_list p_q (run_deg w k)
  | "dbin" -> let a = next_mat next_z in p_opt (p_mat (p_opt p_nat)) (run_dbin a)
  | "dwei" -> let a = next_mat next_q in p_opt (p_pair (p_mat p_len) (p_mat p_nat)) (run_dwei a)
  | "effbin" -> let a = next_mat next_z in p_opt p_ext (run_effbin a)
  | "effwei" -> let a = next_mat next_q in p_opt p_ext (run_effwei a)
  | "eloc_bin" -> let a = next_mat next_z in p_opt (p_list p_q) (run_eloc_bin a)
  | "eloc_wei" -> let a = next_mat next_q in p_opt (p_list p_q) (run_eloc_wei a)
  | "assort" -> let a = next_mat next_q in let w = next_bool () in let k = next_nat () in p_opt p_q (run_assort a w k)
  | "density" -> let a = next_mat next_q in let u = next_bool () in p_pair (p_opt p_q) p_nat (run_density a u)
  | "jdegree" -> let a = next_mat next_q in
      p_pair (p_mat p_z) (p_pair p_z (p_pair p_z p_z)) (run_jdegree a)
  | "enov" -> let a = next_mat next_q in let u = next_bool () in
      p_opt (p_list (p_pair (p_pair (p_pair p_nat p_nat) p_q) (p_pair p_q p_q))) (run_enov a u)
  | "reachdist" -> let a = next_mat next_z in
      p_opt (p_pair (p_mat p_bool) (p_mat (p_opt p_z))) (run_reachdist a)
  | "findwalks" -> let a = next_mat next_z in
      p_opt (p_pair (p_pair (p_list (p_mat p_z)) p_z) (p_list p_z)) (run_findwalks a)
  | f -> failwith ("unknown function " ^ f)
let () = main dispatch
