(* drv_c13.ml — reads a serialised program (harness/translate_alias.serialise), runs the extracted Coq checker *)
let rec next_cmd () : cmd =
  match next () with
  | "S" -> Skip
  | "X" -> Raise
  | "B" -> let x = next () in
      (match next () with
       | "F" -> Bind (x, Fresh)
       | "U" -> Bind (x, Unknown)
       | "C" -> let y = next () in Bind (x, CopyOf y)
       | "A" -> let y = next () in Bind (x, AliasOf y)
       | t -> failwith ("bad rhs " ^ t))
  | "M" -> Mutate (next ())
  | "R" -> Return (next ())
  | "K" -> let x = next () in let f = next () in let args = next_list next in
      let fl = (match next () with "FTrue" -> FTrue | "FFalse" -> FFalse | "FSame" -> FSame | "FAny" -> FAny
                                 | t -> failwith ("bad flag " ^ t)) in
      CallFn (x, f, args, fl)
  | "L" -> Loop (next_cmd ())
  | "Q" -> let a = next_cmd () in let b = next_cmd () in Seq (a, b)
  | "C" -> let a = next_cmd () in let b = next_cmd () in Choice (a, b)
  | "I" -> let a = next_cmd () in let b = next_cmd () in IfFlag (a, b)
  | "T" -> let a = next_cmd () in let b = next_cmd () in Try (a, b)
  | t -> failwith ("bad command " ^ t)

let next_fundef () : fundef =
  let fname = next () in
  let fparams = next_list next in let farr = next_list next in
  let fmut_t = next_list next in let fmut_f = next_list next in
  let fret_t = next_bool () in let fret_f = next_bool () in let fpublic = next_bool () in
  let fcopyutil = next_bool () in let fcontract = next_bool () in
  let fbody = next_cmd () in
  { fname; fparams; farr; fmut_t; fmut_f; fret_t; fret_f; fpublic; fcopyutil; fcontract; fbody }

let p_str s = ps "\""; ps (String.escaped s); ps "\""

let dispatch = function
  | "check" -> let prog = next_list next_fundef in
      p_list (fun (n, (b, (c, d))) -> ps "["; p_str n; ps ","; p_bool b; ps ","; p_bool c; ps ","; p_bool d; ps "]") (run_check prog)
  | f -> failwith ("unknown function " ^ f)
let () = main dispatch
