let p_vq = p_list p_q
let p_search ((((q, qf), np), d), p) =
  ps "["; p_list p_nat q; ps ","; p_nat qf; ps ","; p_list p_z np; ps ","; p_list (p_opt p_z) d; ps ",";
  p_mat p_bool p; ps "]"
let dispatch = function
  | "bc_bin" -> let a = next_mat next_z in p_opt p_vq (run_bc_bin a)
  | "bc_wei" -> let a = next_mat next_z in p_opt p_vq (run_bc_wei a)
  | "ebc_bin" -> let a = next_mat next_z in p_opt (p_pair (p_mat p_q) p_vq) (run_ebc_bin a)
  | "ebc_wei" -> let a = next_mat next_z in p_opt (p_pair (p_mat p_q) p_vq) (run_ebc_wei a)
  | "bc_weiq" -> let a = next_mat next_q in p_opt p_vq (run_bc_weiQ a)
  | "ebc_weiq" -> let a = next_mat next_q in p_opt (p_pair (p_mat p_q) p_vq) (run_ebc_weiQ a)
  | "search" -> let w = next_bool () in let a = next_mat next_z in let u = next_nat () in
      p_opt p_search (run_search w a u)
  | "spec" -> let a = next_mat next_z in
      let ((e, b), d) = run_spec a in
      ps "["; p_mat p_q e; ps ","; p_vq b; ps ","; p_mat (p_opt p_z) d; ps "]"
  | f -> failwith ("unknown function " ^ f)
let () = main dispatch
