let p_len = p_opt p_q
let p_ext = function ENaN -> ps "[0]" | EInf -> ps "[1]" | EFin q -> ps "[2,"; p_q q; ps "]"
let next_dval () = match next_int () with 0 -> VNaN | 1 -> VInf | _ -> VFin (next_q ())
let next_tbl () = next_list (fun () -> let a = next_q () in let b = next_q () in (a, b))
let dispatch = function
  | "floyd" -> let tr = next_nat () in let a = next_mat next_q in let tbl = next_tbl () in
      let (s, (h, p)) = run_floyd tr a tbl in
      ps "["; p_mat p_len s; ps ","; p_mat p_nat h; ps ","; p_mat p_nat p; ps "]"
  | "dbin" -> let a = next_mat next_z in p_opt (p_mat (p_opt p_nat)) (run_dbin a)
  | "breadthdist" -> let a = next_mat next_z in
      p_opt (p_pair (p_mat p_bool) (p_mat (p_opt p_nat))) (run_breadthdist a)
  | "reachdist" -> let a = next_mat next_z in
      p_opt (p_pair (p_mat p_bool) (p_mat (p_opt p_z))) (run_reachdist a)
  | "dwei" -> let a = next_mat next_q in p_opt (p_pair (p_mat p_len) (p_mat p_nat)) (run_dwei a)
  | "charpath" -> let d = next_mat (fun () -> next_opt next_q) in
      let a = next_bool () in let b = next_bool () in p_pair p_ext p_ext (run_charpath d a b)
  | "charpathx" -> let d = next_mat next_dval in
      let a = next_bool () in let b = next_bool () in p_pair p_ext p_ext (run_charpath_x d a b)
  | "effbinx" -> let a = next_mat next_z in p_opt p_ext (run_effbin_x a)
  | "effweix" -> let a = next_mat next_q in p_opt p_ext (run_effwei_x a)
  | "effbin" -> let a = next_mat next_z in p_opt p_ext (run_effbin a)
  | "effwei" -> let a = next_mat next_q in p_opt p_ext (run_effwei a)
  | "rout" -> let tr = next_nat () in let a = next_mat next_q in let tbl = next_tbl () in
      p_pair p_ext (p_mat p_q) (run_rout tr a tbl)
  | f -> failwith ("unknown function " ^ f)
let () = main dispatch
