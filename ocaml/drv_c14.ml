let p_ql = p_list p_q
let dispatch = function
  | "relabel" -> let ci = next_list next_z in p_list p_nat (run_relabel ci)
  | "pc" -> let w = next_mat next_q in let ci = next_list next_z in let d = next_bool () in p_ql (run_pc w ci d)
  | "pcs" -> let w = next_mat next_q in let ci = next_list next_z in p_pair p_ql p_ql (run_pcs w ci)
  | "mdz" -> let w = next_mat next_q in let ci = next_list next_z in let f = next_nat () in
      p_list (p_pair p_q p_q) (run_mdz w ci f)
  | "mod" -> let which = next_nat () in let w = next_mat next_q in let g = next_q () in let ci = next_list next_z in
      p_q (run_mod which w g ci)
  | "mus" -> let w = next_mat next_q in let ci = next_list next_z in let qt = next_nat () in p_q (run_mus w ci qt)
  | "agree" -> let n = next_nat () in let cols = next_mat next_z in p_mat p_q (run_agreement n cols)
  | "pd" -> let cx = next_list next_z in let cy = next_list next_z in
      let (t, ((a, b), c)) = run_pd cx cy in ps "["; p_bool t; ps ","; p_ql a; ps ","; p_ql b; ps ","; p_ql c; ps "]"
  | "ci2ls" -> let ci = next_list next_z in p_list (p_list p_nat) (run_ci2ls ci)
  | "ls2ci" -> let ls = next_mat next_nat in p_list p_nat (run_ls2ci ls)
  | "dcs" -> let w = next_mat next_q in let ci = next_list next_z in p_pair (p_mat p_q) (p_mat p_q) (run_dcs w ci)
  | "gw" -> let w = next_mat next_q in let ci = next_list next_z in p_opt (p_pair p_ql p_ql) (run_gw w ci)
  | "gwr" -> let w = next_mat next_q in let ci = next_list next_z in p_pair p_ql p_ql (run_gw_repaired w ci)
  | "gwb" -> let w = next_mat next_q in let ci = next_list next_z in let cp = next_list next_q in let cn = next_list next_q in
      p_opt (p_pair p_ql p_ql) (run_gwb w ci cp cn)
  | "dummyvar" -> let n = next_nat () in let cols = next_mat next_z in let ixs = next_mat next_nat in
      p_pair (p_mat p_q) (p_pair p_nat p_nat) (run_dummyvar n cols ixs)
  | "agree_stmt" -> let n = next_nat () in let cols = next_mat next_z in let ixs = next_mat next_nat in let b = next_nat () in
      p_mat p_q (run_agreement_stmt n cols ixs b)
  | "ls2ci_run" -> let zi = next_bool () in let ls = next_mat next_nat in p_opt (p_list p_nat) (ls2ci_run zi ls)
  | "ci2ls_run" -> let ci = next_list next_z in p_list (p_list p_nat) (ci2ls_run ci)
  | f -> failwith ("unknown function " ^ f)
let () = main dispatch
