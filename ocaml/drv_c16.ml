let dispatch = function
  | "gc" -> let w = next_mat next_z in p_opt (p_pair (p_list p_nat) (p_list p_nat)) (run_gc w)
  | "noc" -> let w = next_mat next_z in p_opt p_nat (run_noc w)
  | f -> failwith ("unknown function " ^ f)
let () = main dispatch
