(* "check <n> (<name> <kind 0=Seeded|1=Pure> <cmd>)*"  ->  [seed_safe P f | f in order]   (prefix encoding of cmd:
   0 Skip | 1 x e GetRng | 2 x DrawLocal | 3 DrawNpGlobal | 4 DrawPyGlobal | 5 f e Call | 6 a b Seq | 7 a b Choice | 8 a Loop | 9 NonDet;
   e: 0 ESeed | 1 x EVar | 2 ENone | 3 EOther | 4 x EDrawn | 5 EComputed) *)
let cl s = let rec go i acc = if i < 0 then acc else go (i - 1) (s.[i] :: acc) in go (String.length s - 1) []
let next_e () = match next_int () with 0 -> ESeed | 1 -> EVar (cl (next ())) | 2 -> ENone | 4 -> EDrawn (cl (next ())) | 5 -> EComputed | _ -> EOther
let rec next_cmd () = match next_int () with
  | 0 -> Skip
  | 1 -> let x = cl (next ()) in let e = next_e () in GetRng (x, e)
  | 2 -> DrawLocal (cl (next ()))
  | 3 -> DrawNpGlobal
  | 4 -> DrawPyGlobal
  | 5 -> let f = cl (next ()) in let e = next_e () in Call (f, e)
  | 6 -> let a = next_cmd () in let b = next_cmd () in Seq (a, b)
  | 7 -> let a = next_cmd () in let b = next_cmd () in Choice (a, b)
  | 8 -> Loop (next_cmd ())
  | 9 -> NonDet
  | _ -> failwith "bad cmd tag"
let dispatch = function
  | "check" ->
    let n = next_int () in
    let rec go i acc = if i >= n then List.rev acc else
      let q = cl (next ()) in let k = if next_int () = 0 then Seeded else Pure in let c = next_cmd () in
      go (i + 1) ((q, (k, c)) :: acc) in
    let p = go 0 [] in
    p_pair p_bool (p_list p_bool) (prog_safe p, List.map (fun (q, _) -> seed_safe p q) p)
  | f -> failwith ("unknown function " ^ f)
let () = main dispatch
