let p_nl = p_list (p_list p_nat)
let dispatch = function
  | "core" ->
      (* kcore_bu / kcore_bd / score_wu as called: which, matrix, k, peel flag.
         prints [matrix, kn, null] (2-tuple path) or [matrix, kn, [peelorder, peellevel]] *)
      let which = next_nat () in let w = next_mat next_q in let k = next_q () in let b = next_bool () in
      p_opt (fun ((m, kn), pp) -> ps "["; p_mat p_q m; ps ","; p_nat kn; ps ","; p_opt (p_pair p_nl p_nl) pp; ps "]")
        (run_core_py which w k b)
  | "coreness" ->
      let which = next_nat () in let w = next_mat next_q in
      p_opt (p_pair (p_list p_nat) (p_list p_nat)) (run_coreness_py which w)
  | f -> failwith ("unknown function " ^ f)
let () = main dispatch
