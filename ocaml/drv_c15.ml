let p_nl = p_list (p_list p_nat)
let dispatch = function
  | "core" ->
      let which = next_nat () in let w = next_mat next_q in let k = next_q () in
      p_opt (fun ((m, kn), (po, pl)) -> ps "["; p_mat p_q m; ps ","; p_nat kn; ps ","; p_nl po; ps ","; p_nl pl; ps "]")
        (run_core which w k)
  | "coreness" ->
      let which = next_nat () in let w = next_mat next_q in
      p_opt (p_pair (p_list p_nat) (p_list p_nat)) (run_coreness which w)
  | f -> failwith ("unknown function " ^ f)
let () = main dispatch
