let p_mfpt ((((hyp, eqn), m), e), g) =
  ps "["; p_bool hyp; ps ","; p_bool eqn; ps ","; p_mat p_q m; ps ","; p_mat p_q e; ps ","; p_q g; ps "]"
let dispatch = function
  | "findwalks" -> let a = next_mat next_z in
                   p_opt (p_triple (p_list (p_mat p_z)) p_z (p_list p_z)) (run_findwalks a)
  | "findwalksx" -> let a = next_mat next_z in
                    p_opt (fun (((w, t), l), (ex, bd)) ->
                             ps "["; p_list (p_mat p_z) w; ps ","; p_z t; ps ","; p_list p_z l; ps ","; p_bool ex; ps ","; p_bool bd; ps "]")
                      (run_findwalks_x a)
  | "walkcount" -> let a = next_mat next_z in let q = next_nat () in p_mat p_nat (run_walkcount a q)
  | "mfpt" -> let a = next_mat next_q in let w = next_list next_q in let z = next_mat next_q in
              p_mfpt (run_mfpt a w z)
  | "mfptc" -> let a = next_mat next_q in p_opt p_mfpt (run_mfpt_c a)
  | "mfptsel" -> let tol = next_q () in let aux = next_list next_q in
                 p_pair p_nat p_nat (run_mfpt_select tol aux)
  | "pagerankc" -> let a = next_mat next_q in let d = next_q () in let f = next_opt (fun () -> next_list next_q) in
                   p_opt (fun ((((hyp, eqn), r), s), dg) ->
                            ps "["; p_bool hyp; ps ","; p_bool eqn; ps ","; p_list p_q r; ps ","; p_q s; ps ","; p_q dg; ps "]")
                     (run_pagerank_c a d f)
  | "subgraph" -> let a = next_mat next_q in let v = next_mat next_q in let lam = next_list next_q in
                  let m = next_nat () in
                  p_triple p_bool (p_list p_q) (p_list p_q) (run_subgraph a v lam m)
  | f -> failwith ("unknown function " ^ f)
let () = main dispatch
