let dispatch = function
  | "findwalks" -> let a = next_mat next_z in
                   p_opt (p_triple (p_list (p_mat p_z)) p_z (p_list p_z)) (run_findwalks a)
  | "walkcount" -> let a = next_mat next_z in let q = next_nat () in p_mat p_nat (run_walkcount a q)
  | "mfpt" -> let a = next_mat next_q in let w = next_list next_q in let z = next_mat next_q in
              let ((((hyp, eqn), m), e), g) = run_mfpt a w z in
              ps "["; p_bool hyp; ps ","; p_bool eqn; ps ","; p_mat p_q m; ps ","; p_mat p_q e; ps ","; p_q g; ps "]"
  | "pagerank" -> let a = next_mat next_q in let d = next_q () in let r = next_list next_q in
                  p_triple p_bool p_bool (p_list p_q) (run_pagerank a d r)
  | "subgraph" -> let a = next_mat next_q in let v = next_mat next_q in let lam = next_list next_q in
                  let m = next_nat () in
                  p_triple p_bool (p_list p_q) (p_list p_q) (run_subgraph a v lam m)
  | f -> failwith ("unknown function " ^ f)
let () = main dispatch
