(* stream tokens: "I <z>" | "F <q>" | "P <len> <v...>" *)
let next_draw () =
  match next () with
  | "I" -> DInt (next_z ())
  | "F" -> DFlt (next_q ())
  | "P" -> DPerm (next_list next_nat)
  | t -> failwith ("bad draw tag " ^ t)
let p_event (((abcd, rows), ei), ej) =
  ps "{\"abcd\":"; p_list p_nat abcd; ps ",\"R\":"; p_mat p_z rows;
  ps ",\"i\":"; p_list p_nat ei; ps ",\"j\":"; p_list p_nat ej; ps "}"
let p_result (((((out, rp), perm), eff), left), tr) =
  ps "{\"out\":"; p_mat p_z out; ps ",\"rp\":"; p_mat p_z rp; ps ",\"perm\":"; p_list p_nat perm;
  ps ",\"eff\":"; p_nat eff; ps ",\"left\":"; p_nat left; ps ",\"trace\":"; p_list p_event tr; ps "}"
(* outcome code: 0 Done, 1 Rejected (BCTParamError), 2 Raises (other exception), 3 StreamEnd *)
let p_outcome (code, r) = ps "{\"code\":"; p_nat code; ps ",\"res\":"; p_opt p_result r; ps "}"
let dispatch = function
  | "rewire" ->
      let rt = next_nat () in let rows = next_mat next_z in let itr = next_nat () in
      let d = next_opt (fun () -> next_mat next_z) in let s = next_list next_draw in
      p_outcome (run_rewire rt rows itr d s)
  | "partial" ->
      let rows = next_mat next_z in let mask = next_mat next_z in let ms = next_nat () in
      let s = next_list next_draw in
      p_outcome (run_partial rows mask ms s)
  | "precheck" ->
      let rt = next_nat () in let rows = next_mat next_z in
      p_bool (run_precheck rt rows)
  | "rbu" ->
      let rows = next_mat next_z in let a = next_nat () in let b = next_nat () in
      let c = next_nat () in let d = next_nat () in
      p_pair p_bool (p_mat p_z) (run_rbu_swap rows a b c d)
  | "rbufull" ->
      let rows = next_mat next_z in let alpha = next_q () in let s = next_list next_draw in
      let (((code, out), tr), left) = run_rbu rows alpha s in
      ps "{\"code\":"; p_nat code; ps ",\"out\":"; p_mat p_z out; ps ",\"left\":"; p_nat left;
      ps ",\"trace\":"; p_list p_event tr; ps "}"
  | f -> failwith ("unknown function " ^ f)
let () = main dispatch
