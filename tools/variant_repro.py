#!/venv/bin/python
"""tools/variant_repro.py <replay.json | known_findings.d/variants.json KEY>   [VERIF_REPO=/path]

Re-run the call recorded under `_input_variant` of a replay file (or of a finding's witness) twice: on the float64 C-ordered
arrays as written in the file, and on the same values in the recorded representation (common.apply_variant).  Prints both
outcomes; exit code 1 when they differ (exception vs result, or different values), 0 when they agree."""
import sys, os, json
sys.path.insert(0, os.path.join(os.path.dirname(os.path.dirname(os.path.abspath(__file__))), 'harness'))
import common
from common import np


def dec(x):
    if isinstance(x, dict) and 'ndarray' in x:
        return np.array(x['ndarray'], dtype=np.dtype(x['dtype'])).reshape(x['shape'])
    if isinstance(x, list):
        return [dec(y) for y in x]
    return x


def records(payload):
    out = []
    def walk(x):
        if isinstance(x, dict):
            v = x.get('_input_variant')
            if v:
                out.extend([v] if isinstance(v, dict) else v)
            for y in x.values():
                walk(y)
        elif isinstance(x, list):
            for y in x:
                walk(y)
    walk(payload)
    return out


def outcome(f, a, k):
    try:
        return 'ok', common.call(f, *a, _t=60.0, **k)
    except Exception as e:
        return 'raised', '%s: %s' % (type(e).__name__, str(e)[:200])


def same(x, y):
    if isinstance(x, (tuple, list)) and isinstance(y, (tuple, list)):
        return len(x) == len(y) and all(same(p, q) for p, q in zip(x, y))
    try:
        return bool(np.allclose(np.asarray(x, float), np.asarray(y, float), rtol=1e-9, atol=1e-12, equal_nan=True))
    except Exception:
        return repr(x) == repr(y)


def main():
    payload = json.load(open(sys.argv[1]))
    if len(sys.argv) > 2:
        payload = [f for f in payload['findings'] if f.get('key') == sys.argv[2]]
    import bct
    rc = 0
    for r in records(payload)[:4]:
        f = getattr(bct, r['function'])
        a, k = dec(r['call']['args']), {q: dec(v) for q, v in r['call']['kwargs'].items()}
        a2, k2 = list(a), dict(k)
        for w in r['arguments']:
            if w.startswith('positional '):
                i = int(w.split()[1]); a2[i] = common.apply_variant(r['kind'], a[i])
            else:
                k2[w] = common.apply_variant(r['kind'], k[w])
        if any(isinstance(x, str) and x.startswith('<') for x in list(a) + list(k.values())):
            print('note: an argument of the recorded call is an object (generator?) that the file cannot hold: %r' % [x for x in list(a) + list(k.values()) if isinstance(x, str)])
        s0, r0 = outcome(f, [x.copy() if isinstance(x, np.ndarray) else x for x in a], k)
        s1, r1 = outcome(f, a2, k2)
        print('%s, argument(s) %s as %s' % (r['function'], r['arguments'], r['kind']))
        print('  float64 C-ordered : %s %s' % (s0, str(common.tolist(r0))[:600]))
        print('  %-18s: %s %s' % (r['kind'], s1, str(common.tolist(r1))[:600]))
        differ = s0 != s1 or (s0 == 'ok' and not same(r0, r1))
        print('  -> %s' % ('DIFFERENT outcomes for the same values' if differ else 'same outcome'))
        rc |= int(differ)
    if not records(payload):
        print('no _input_variant record in this file')
    return rc


if __name__ == '__main__':
    sys.exit(main())
