#!/venv/bin/python
"""tools/variant_repro.py <replay.json>        |   tools/variant_repro.py known_findings.d/variants.json   [VERIF_REPO=/path]

A replay file of a failure found by the input-representation layer carries `_input_variant` records (function, kind, the call as
the harness made it).  This re-runs each recorded call twice - on the float64 C-ordered arrays as written and on the same values in
the recorded storage (common.apply_variant) - and prints both outcomes; exit code 1 when they differ.  (./check CXX --replay <file>
does the same after the property's own replay.)  A record of kind `after-decoy` (call-sequence mode) is replayed as the recorded SEQUENCE on a
newly imported bct - decoy call on a private buffer B, B[...] = A, the judged call on B, second decoy call - next to the single call on A on
another newly imported bct; exit code 1 when the judged call differs from the single call or the returned object changes during the second decoy
call.  Given known_findings.d/variants.json it runs every witness script instead."""
import sys, os, json, subprocess
sys.path.insert(0, os.path.join(os.path.dirname(os.path.dirname(os.path.abspath(__file__))), 'harness'))
import common


def main():
    payload = json.load(open(sys.argv[1]))
    if 'findings' in payload and not common.variant_records(payload):
        for f in payload['findings']:
            for name, script in (f.get('witnesses') or {}).items():
                p = subprocess.run([sys.executable, '-W', 'ignore', '-c', script], capture_output=True, text=True, env=dict(os.environ, PYTHONPATH=common.REPO))
                print('%s %s: %s' % (f['property'], name, (p.stdout.strip().replace('\n', ' || ') + ' ' + p.stderr.strip().split('\n')[-1])[:300]))
        return 0
    if not common.variant_records(payload):
        print('no _input_variant record in this file'); return 0
    return common.replay_variants(payload, limit=16)


if __name__ == '__main__':
    sys.exit(main())
