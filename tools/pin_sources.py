#!/venv/bin/python
"""tools/pin_sources.py — (re)write source_pins.json from /repo's HEAD working tree.
Run ONLY after the models have been re-validated against that tree (all checks green, thorough tier) —
e.g. after a `fix:` commit in /repo whose effect was carried into the models."""
import sys, os, json
V = os.path.dirname(os.path.dirname(os.path.abspath(__file__)))
sys.path.insert(0, os.path.join(V, 'harness'))
import drift
# usage: pin_sources.py [--repo DIR] [CXX ...]   (no ids = all twenty)
args = sys.argv[1:]
repo = '/repo'
if args[:1] == ['--repo']:
    repo = args[1]; args = args[2:]
try:
    pins = json.load(open(drift.PINS))
except Exception:
    pins = {}
ids = [a.upper() for a in args] or ['C%02d' % k for k in range(1, 21)]
for pid in ids:
    pins[pid] = drift.compute(repo, pid)
json.dump(pins, open(drift.PINS, 'w'), indent=0, sort_keys=True)
print('pinned', sum(len(v) for p in pins.values() for v in p.values()), 'function hashes')
