#!/venv/bin/python
"""tools/pin_sources.py — (re)write source_pins.json from /repo's HEAD working tree.
Run ONLY after the models have been re-validated against that tree (all checks green, thorough tier) —
e.g. after a `fix:` commit in /repo whose effect was carried into the models."""
import sys, os, json
V = os.path.dirname(os.path.dirname(os.path.abspath(__file__)))
sys.path.insert(0, os.path.join(V, 'harness'))
import drift
repo = sys.argv[1] if len(sys.argv) > 1 else '/repo'
pins = {}
for k in range(1, 21):
    pid = 'C%02d' % k
    pins[pid] = drift.compute(repo, pid)
json.dump(pins, open(drift.PINS, 'w'), indent=0, sort_keys=True)
print('pinned', sum(len(v) for p in pins.values() for v in p.values()), 'function hashes')
