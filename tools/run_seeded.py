#!/venv/bin/python
"""tools/run_seeded.py <PROP> <mutdir> [N ...]
Validate seeded faults produced by an independent agent and run our check against them.

For each mut<N>.diff / demo<N>.py in <mutdir>:
  1. make a scratch copy of /repo (outside /repo and /verif), check the demo passes on it;
  2. apply the patch, check the demo fails;
  3. run the repository's test-suite with the patch (same baseline tests must pass);
  4. run `./check <PROP> quick` with VERIF_REPO=<scratch copy> and record what it prints;
  5. store everything under /verif/seeded/<PROP>-<N>/ (patch.diff, demo.py, meta.json); remove the scratch copy.
"""
import sys, os, json, subprocess, shutil, re, time

V = os.path.dirname(os.path.dirname(os.path.abspath(__file__)))
BASE = json.load(open('/root/.vp/BASELINE.json'))


def sh(cmd, cwd=None, env=None, timeout=3600):
    e = dict(os.environ)
    if env:
        e.update(env)
    p = subprocess.run(cmd, shell=True, cwd=cwd, env=e, capture_output=True, text=True, timeout=timeout)
    return p.returncode, p.stdout + p.stderr


def run_tests(repo):
    xml = os.path.join(repo, '_junit.xml')
    rc, out = sh('/venv/bin/python -m pytest -q -p no:cacheprovider --timeout=900 --continue-on-collection-errors -x --co -q >/dev/null 2>&1; '
                 '/venv/bin/python -m pytest -q -p no:cacheprovider --timeout=900 --continue-on-collection-errors --junitxml=%s' % xml,
                 cwd=repo, env={'PYTHONPATH': repo, 'BCTPY_VERIF': ''}, timeout=2400)
    import xml.etree.ElementTree as ET
    st = {}
    try:
        for tc in ET.parse(xml).iter('testcase'):
            name = tc.get('classname') + '::' + tc.get('name')
            bad = [c.tag for c in tc if c.tag in ('failure', 'error')]
            st[name] = 'fail' if bad else 'pass'
    except Exception as ex:
        return None, 'junit unreadable: %r' % ex
    missing = [t for t in BASE['stable_pass'] if st.get(t) != 'pass']
    return missing, out[-400:]


def main():
    prop = sys.argv[1].upper()
    mutdir = sys.argv[2]
    ns = sys.argv[3:] or sorted({re.match(r'mut(\d+)\.diff', f).group(1) for f in os.listdir(mutdir) if re.match(r'mut(\d+)\.diff', f)})
    skip_tests = os.environ.get('SEEDED_SKIP_TESTS') == '1'
    for n in ns:
        patch = os.path.join(mutdir, 'mut%s.diff' % n)
        demo = os.path.join(mutdir, 'demo%s.py' % n)
        scratch = '/tmp/seeded_%s_%s' % (prop, n)
        shutil.rmtree(scratch, ignore_errors=True)
        sh('git -C /repo worktree prune')
        shutil.copytree('/repo', scratch, ignore=shutil.ignore_patterns('.git', '__pycache__', '*.pyc'))
        sh('git init -q && git add -A && git -c user.email=a@b -c user.name=x commit -qm base', cwd=scratch)
        meta = {'property': prop, 'n': n, 'when': time.strftime('%Y-%m-%dT%H:%M:%SZ', time.gmtime())}
        env = {'PYTHONPATH': scratch}
        rc0, out0 = sh('/venv/bin/python %s' % demo, cwd=scratch, env=env, timeout=600)
        meta['demo_on_clean_rc'] = rc0
        rca, outa = sh('git apply %s' % patch, cwd=scratch)
        meta['patch_applies'] = rca == 0
        rc1, out1 = sh('/venv/bin/python %s' % demo, cwd=scratch, env=env, timeout=600)
        meta['demo_with_fault_rc'] = rc1
        meta['demo_with_fault_tail'] = out1[-300:]
        if not skip_tests:
            missing, tail = run_tests(scratch)
            meta['baseline_tests_broken_by_fault'] = missing
        valid = rc0 == 0 and rca == 0 and rc1 != 0 and (skip_tests or meta['baseline_tests_broken_by_fault'] == [])
        meta['valid_seeded_fault'] = valid
        rcc, outc = sh('./check %s quick' % prop, cwd=V, env={'VERIF_REPO': scratch}, timeout=1800)
        lines = [l for l in outc.split('\n') if l.startswith(('VIOLATION', 'OK ', 'KNOWN-FINDING'))]
        meta['check_rc'] = rcc
        meta['check_output'] = [l[:300] for l in lines][:12]
        viol = [l for l in lines if l.startswith('VIOLATION')]
        meta['detected'] = bool(viol)
        meta['detected_with_failing_input'] = any('no-failing-input-found' not in l for l in viol)
        # what does the first replay say
        if viol:
            m = re.search(r'replay=(\S+)', viol[0])
            if m and os.path.exists(os.path.join(V, m.group(1))):
                try:
                    rp = json.load(open(os.path.join(V, m.group(1))))
                    meta['first_replay'] = {k: (str(v)[:400]) for k, v in rp.items() if k in ('kind', 'key', 'what', 'correspondence', 'theorem_or_file')}
                except Exception:
                    pass
        readme = os.path.join(mutdir, 'README.md')
        if os.path.exists(readme):
            meta['author_notes'] = open(readme).read()[:3000]
        meta['what_we_ran'] = ['demo on scratch copy of /repo (exit %d)' % rc0, 'git apply patch', 'demo with fault (exit %d)' % rc1,
                               'full pytest suite with fault: baseline tests broken = %s' % meta.get('baseline_tests_broken_by_fault', 'skipped'),
                               'VERIF_REPO=<scratch> ./check %s quick (exit %d)' % (prop, rcc)]
        out = os.path.join(V, 'seeded', '%s-%s' % (prop, n))
        os.makedirs(out, exist_ok=True)
        shutil.copy(patch, os.path.join(out, 'patch.diff'))
        shutil.copy(demo, os.path.join(out, 'demo.py'))
        json.dump(meta, open(os.path.join(out, 'meta.json'), 'w'), indent=1)
        shutil.rmtree(scratch, ignore_errors=True)
        print('%s-%s valid=%s detected=%s with_input=%s :: %s' % (prop, n, valid, meta['detected'], meta['detected_with_failing_input'], (viol or lines or ['?'])[0][:120]))


if __name__ == '__main__':
    main()
