#!/usr/bin/env python3
"""tools/merge_design.py — (re)build DESIGN.md §6b from design_notes/CXX.md (written by the agents that extended each property)."""
import os, re
V = os.path.dirname(os.path.dirname(os.path.abspath(__file__)))
BEGIN, END = '<!-- NOTES-BEGIN -->', '<!-- NOTES-END -->'
parts = []
for k in range(1, 21):
    p = os.path.join(V, 'design_notes', 'C%02d.md' % k)
    if os.path.exists(p):
        t = open(p).read().strip()
        t = re.sub(r'^#{1,3} ', '#### ', t, flags=re.M)      # demote headings
        parts.append(t)
body = BEGIN + '\n' + '\n\n'.join(parts) + '\n' + END
d = os.path.join(V, 'DESIGN.md')
t = open(d).read()
if BEGIN in t:
    t = t[:t.index(BEGIN)] + body + t[t.index(END) + len(END):]
else:
    head = ('### 6b. Second wave, per property (as built; merged from design_notes/CXX.md by tools/merge_design.py)\n\n'
            'Where an entry below and the first-wave summary above differ, the entry below is right.\n\n')
    t = t.replace('## 7. Seeded-fault trials', head + body + '\n\n## 7. Seeded-fault trials')
open(d, 'w').write(t)
print('merged', len(parts), 'notes')
