#!/usr/bin/env python3
"""Assemble /verif/MANIFEST.json from manifest.d/*.json fragments (one per claimed property)."""
import json, os, glob
V = os.path.dirname(os.path.dirname(os.path.abspath(__file__)))
props = [json.loads(l) for l in open(os.path.join(V, 'properties.jsonl'))]
checks, claimed = [], set()
for f in sorted(glob.glob(os.path.join(V, 'manifest.d', 'C*.json'))):
    fr = json.load(open(f))
    pid = fr['property_id']
    claimed.add(pid)
    chk = {
        'property_id': pid,
        'quick_cmd': './check %s quick' % pid,
        'thorough_cmd': './check %s thorough' % pid,
        'evidence_file': 'evidence/%s.json' % pid,
        'replay_cmd_template': './check %s --replay {path}' % pid,
        'engine': 'coq-model+correspondence',
        'level_claimed': {'category': 'proof', 'text': fr['level_text'], 'design_ref': fr.get('design_ref', 'DESIGN.md §6 ' + pid)},
        'level_note': fr['level_note'],
        'technique': fr.get('technique', 'machine-checked proof in Coq 8.16.1 about an executable Gallina model + extracted-model/implementation correspondence'),
    }
    checks.append(chk)
na_file = os.path.join(V, 'manifest.d', 'not_applicable.json')
na_reasons = json.load(open(na_file)) if os.path.exists(na_file) else {}
na = [{'property_id': p['id'], 'reason': na_reasons.get(p['id'], 'check not built yet in this round (work in progress; see DESIGN.md §9)')}
      for p in props if p['id'] not in claimed]
man = {
    'version': 1,
    'setup_cmd': './check setup',
    'hooks': {
        'guard': 'BCTPY_VERIF',
        'enable': 'environment variable BCTPY_VERIF=1 (set by harness/common.py before importing bct from /repo); no build step, Python imports the working tree directly',
        'baseline_off_cmd': 'cd /repo && env -u BCTPY_VERIF /venv/bin/python -m pytest -ra -q -p no:cacheprovider --timeout=900 --continue-on-collection-errors',
        'source_commits': json.load(open(os.path.join(V, 'manifest.d', 'hook_commits.json'))) if os.path.exists(os.path.join(V, 'manifest.d', 'hook_commits.json')) else [],
        'add_only': True,
    },
    'engines': [
        {'name': 'coq-model+correspondence', 'path': 'coq/ ocaml/ harness/ check',
         'serves_properties': sorted(claimed),
         'kind_free_text': 'Coq 8.16.1 development (Model/, Proofs/, Properties/, Gen/ regenerated from /repo) + OCaml extraction driver + Python differential harness against /repo'}],
    'checks': checks,
    'notes': 'See DESIGN.md. Every check rebuilds the Coq files it depends on (make, full .vo), re-prints the assumptions of its property theorems, runs the extracted model and /repo side by side and searches for a failing input; known_findings.json lists recorded genuine defects.',
    'not_applicable': na,
}
json.dump(man, open(os.path.join(V, 'MANIFEST.json'), 'w'), indent=1)
print('MANIFEST.json: %d checks, %d not claimed' % (len(checks), len(na)))
