#!/bin/bash
# tools/process_round.sh <mutdir> [parallel]  — validate every finished out_CXX of a seeded-fault round (see tools/run_seeded.py)
D=${1:-/tmp/mut4}; P=${2:-5}
mkdir -p $D/log
for o in $D/out_C*; do
  p=$(basename $o | sed 's/out_//')
  ls $o/mut*.diff >/dev/null 2>&1 || continue
  [ -f $D/log/$p.done ] && continue
  echo $p
done | xargs -P $P -I{} sh -c "git -C /repo worktree remove --force $D/wt_{} 2>/dev/null; /verif/tools/run_seeded.py {} $D/out_{} > $D/log/{}.log 2>&1; touch $D/log/{}.done"
grep -hE "^C[0-9]+-" $D/log/*.log | cut -c1-200
