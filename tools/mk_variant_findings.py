#!/venv/bin/python
"""tools/mk_variant_findings.py [--check]   — (re)generate /verif/known_findings.d/variants.json

The input-representation layer (harness/common.py install_variants, design_notes/variants.md) hands bct functions the SAME values
in another storage (bool / uint8 / int8 / int32 / int64, Fortran order, views).  On the unchanged tree a number of functions
raise or return a different result for some of these storages although the property quantifies over every input network.
They are recorded here GROUPED BY ROOT CAUSE (= by proposed repair): one finding per (root cause, property) carrying
`variant_pairs` = the (function, kind) pairs it covers; Ctx.fail / Ctx.mismatch treat a failure attributed to a converted call
of such a pair as this known finding (any clause: the function is known to be wrong for that storage), nothing else.

For every pair the tool searches a small witness on VERIF_REPO (default /repo): the function is called on a float64 matrix and on
the same values in the other storage and the outcomes differ.  A pair that no longer reproduces (after a fix: commit) is dropped
and reported; with --check nothing is written and the exit code says whether the file is up to date."""
import sys, os, json, re, itertools
V = os.path.dirname(os.path.dirname(os.path.abspath(__file__)))
sys.path.insert(0, os.path.join(V, 'harness'))
import common
from common import np

INTS = ['int64', 'int32', 'uint8', 'int8']
SMALL = ['uint8', 'int8', 'bool']
ROOTS = [
 dict(id='cuberoot-sign-on-bool', fix='proposed_fixes/variants_cuberoot_bool.diff',
      summary='bct.utils.cuberoot computes np.sign(x), which has no loop for bool arrays: the weighted clustering / transitivity / local-efficiency '
              'routines raise UFuncTypeError on a 0/1 network stored as bool (C10: on 0/1 input they return what the binary routine returns)',
      pairs={'clustering_coef_wu': ['bool'], 'clustering_coef_wd': ['bool'], 'transitivity_wu': ['bool'], 'transitivity_wd': ['bool'], 'efficiency_wei': ['bool']}),
 dict(id='minus-or-sign-on-bool', fix='proposed_fixes/variants_bool_minus_sign.diff (gtom, modularity_louvain_und/_dir/_und_sign: variants_storage_dtype_arithmetic.diff)',
      summary='`-W * (W < 0)`, `a - b`, np.sign(scalar) on a bool array raise TypeError / UFuncTypeError: the routines below refuse a 0/1 network stored as bool '
              'that they accept as float64',
      pairs={f: ['bool'] for f in ['flow_coef_bd', 'gtom', 'modularity_und_sign', 'modularity_finetune_und_sign', 'modularity_louvain_und_sign',
                                   'modularity_probtune_und_sign', 'clustering_coef_wu_sign', 'diversity_coef_sign', 'gateway_coef_sign', 'participation_coef_sign',
                                   'modularity_louvain_und', 'modularity_louvain_dir', 'community_louvain', 'randmio_und_signed', 'randmio_dir_signed']}),
 dict(id='inf-nan-into-integer-array', fix='proposed_fixes/variants_integer_nan_inf.diff',
      summary='charpath stores nan into a copy of the distance matrix that has the argument\'s dtype: an integer distance matrix raises ValueError; for a '
              '0/1-valued distance matrix stored as bool nan is silently stored as True (lambda 1.0 instead of nan for D=[[0]])',
      pairs={'charpath': INTS + ['bool']}),      # (reachdist / erange: the same root cause, repaired in /repo 4fc05b1)
 dict(id='arithmetic-in-storage-dtype', fix='proposed_fixes/variants_storage_dtype_arithmetic.diff',
      summary='sums and matrix products are taken in the dtype of the argument: A + A.T / np.dot are LOGICAL for bool, products and differences WRAP for uint8 / int8 '
              '- wrong clustering / transitivity / coreness / local efficiency / z-score / matching / GTOM values, Louvain gains of ~250 for uint8 (wrong partitions, '
              '"Infinite Loop Style F")',
      pairs={'gtom': ['uint8'], 'modularity_louvain_und': ['uint8'], 'modularity_louvain_dir': ['uint8'], 'modularity_louvain_und_sign': ['uint8'],
             'clustering_coef_bd': ['bool', 'int8', 'uint8'], 'transitivity_bd': ['bool', 'int8', 'uint8'], 'transitivity_bu': ['bool', 'int8', 'uint8'],
             'kcoreness_centrality_bu': ['bool'], 'efficiency_bin': ['bool'], 'module_degree_zscore': ['bool'], 'matching_ind_und': ['bool']}),
 dict(id='lapack-single-precision', fix='proposed_fixes/spectral_centrality_dtype.diff',
      summary='scipy.linalg.eig / eigh pick single precision for 8-bit and bool arrays: eigenvector_centrality_und / subgraph_centrality are accurate to ~1e-7 only '
              '(same root cause as the exact-key entries of known_findings.d/C18.json)',
      pairs={'eigenvector_centrality_und': SMALL, 'subgraph_centrality': SMALL}),
]

# ---- witness search: function -> (matrix family, call builder)
def _ci(n):
    return (np.arange(n) % 2) + 1
CALLS = {
 'reachdist': ('bd', lambda A: ((A,), {})), 'erange': ('bd', lambda A: ((A,), {})), 'charpath': ('D', lambda A: ((A,), {})),
 'flow_coef_bd': ('bd', lambda A: ((A,), {})), 'gtom': ('bu', lambda A: ((A, 2), {})),
 'modularity_und_sign': ('bu', lambda A: ((A, _ci(len(A))), {})), 'diversity_coef_sign': ('bu', lambda A: ((A, _ci(len(A))), {})),
 'gateway_coef_sign': ('bu', lambda A: ((A, _ci(len(A))), {})), 'participation_coef_sign': ('bu', lambda A: ((A, _ci(len(A))), {})),
 'module_degree_zscore': ('bd', lambda A: ((A, _ci(len(A)), 3), {})),
 'clustering_coef_wu_sign': ('bu', lambda A: ((A,), {})),
 'efficiency_bin': ('bd', lambda A: ((A, True), {})), 'efficiency_wei': ('bu', lambda A: ((A, True), {})),
 'clustering_coef_bd': ('wd', lambda A: ((A,), {})), 'transitivity_bd': ('wd', lambda A: ((A,), {})), 'transitivity_bu': ('wu', lambda A: ((A,), {})),
 'modularity_louvain_und': ('wu', lambda A: ((A,), {'seed': 1})), 'modularity_louvain_dir': ('wd', lambda A: ((A,), {'seed': 1})),
 'modularity_louvain_und_sign': ('wu', lambda A: ((A,), {'seed': 1})),
}
for _f in ('modularity_finetune_und_sign', 'modularity_probtune_und_sign'):
    CALLS[_f] = ('bu', lambda A: ((A,), {'seed': 1}))
CALLS['community_louvain'] = ('bu', lambda A: ((A,), {'seed': 1, 'B': 'negative_sym'}))
for _f in ('randmio_und_signed',):
    CALLS[_f] = ('bu', lambda A: ((A, 2), {'seed': 1}))
CALLS['randmio_dir_signed'] = ('bd', lambda A: ((A, 2), {'seed': 1}))
for _f in ('clustering_coef_wu', 'transitivity_wu', 'matching_ind_und', 'eigenvector_centrality_und', 'subgraph_centrality'):
    CALLS[_f] = ('bu', lambda A: ((A,), {}))
for _f in ('clustering_coef_wd', 'transitivity_wd', 'kcoreness_centrality_bu'):
    CALLS[_f] = ('bd', lambda A: ((A,), {}))


def family(fam, kind, n, t):
    rs = np.random.RandomState(1000 * n + t)
    binary = kind == 'bool' or fam[0] in 'bD'
    A = (rs.rand(n, n) < 0.6).astype(float)
    if not binary:
        A = A * rs.randint(1, 17, size=(n, n))            # weights whose products leave int8 / uint8
    np.fill_diagonal(A, 0)
    if fam[-1] == 'u' or fam == 'D':
        A = np.triu(A, 1); A = A + A.T
    if fam == 'D':                                          # a distance matrix (hop counts) of a connected graph: integral, finite
        for i in range(n - 1):
            A[i, i + 1] = A[i + 1, i] = 1
        import bct
        A = np.asarray(bct.distance_bin(A), dtype=float)
    return A


def outcome(f, a, k):
    import io, contextlib
    try:
        with contextlib.redirect_stdout(io.StringIO()):
            return 'ok', common.call(f, *a, _t=20.0, **k)
    except common.Timeout:
        return 'raised', 'Timeout'
    except Exception as e:
        return 'raised', '%s: %s' % (type(e).__name__, str(e)[:160])


def same(x, y):
    if isinstance(x, (tuple, list)) and isinstance(y, (tuple, list)):
        return len(x) == len(y) and all(same(p, q) for p, q in zip(x, y))
    try:
        return bool(np.allclose(np.asarray(x, float), np.asarray(y, float), rtol=1e-9, atol=1e-12, equal_nan=True))
    except Exception:
        return repr(x) == repr(y)


def witness(bct, fn, kind):
    fam, build = CALLS[fn]
    f = getattr(bct, fn)
    for n in ((1,) if fam == 'D' else ()) + (2, 3, 4, 5, 6):
        for t in range(12):
            A = family(fam, kind, n, t)
            if kind not in common.variant_kinds_of(A):
                continue
            a0, k0 = build(A.copy())
            a1, k1 = build(common.apply_variant(kind, A))
            s0, r0 = outcome(f, a0, k0)
            if s0 != 'ok':
                continue
            s1, r1 = outcome(f, a1, k1)
            if s1 != s0 or not same(r0, r1):
                rest = ', '.join([repr(x.tolist() if isinstance(x, np.ndarray) else x) for x in a0[1:]] + ['%s=%r' % kv for kv in k0.items()])
                conv = {'bool': 'A.astype(bool)', 'fortran': 'np.asfortranarray(A)'}.get(kind, 'A.astype(np.%s)' % kind)
                return {'function': fn, 'kind': kind, 'A': A.tolist(),
                        'script': 'import numpy as np, bct; A = np.array(%s, dtype=float); print(bct.%s(A%s)); print(bct.%s(%s%s))' % (
                            A.astype(int).tolist() if bool((A == np.rint(A)).all()) else A.tolist(), fn, (', ' + rest) if rest else '', fn, conv, (', ' + rest) if rest else ''),
                        'float64': str(common.tolist(r0))[:240],
                        kind: ('raises ' + r1) if s1 != 'ok' else str(common.tolist(r1))[:240]}
    return None


def harness_functions(pid):
    """bct function names the harness of the property mentions (its own module + the shared helpers it imports)"""
    txt = open(os.path.join(V, 'harness', pid.lower() + '.py')).read()
    for extra in ('modq', 'rewire_common'):
        if re.search(r'\b%s\b' % extra, txt):
            txt += open(os.path.join(V, 'harness', extra + '.py')).read()
    return set(re.findall(r'[A-Za-z_][A-Za-z_0-9]*', txt))


def main():
    import bct
    check = '--check' in sys.argv
    props = ['C%02d' % i for i in range(1, 21)]
    off = {p for p in props if re.search(r'^VARIANTS_OFF\s*=\s*True', open(os.path.join(V, 'harness', p.lower() + '.py')).read(), re.M)}
    wit, gone = {}, []
    for r in ROOTS:
        for fn, kinds in r['pairs'].items():
            for kd in kinds:
                w = witness(bct, fn, kd)
                if w is None:
                    gone.append((r['id'], fn, kd))
                else:
                    wit[(fn, kd)] = w
    findings = []
    for p in props:
        if p in off:
            continue
        names = harness_functions(p)
        kinds_ok = None
        m = re.search(r'^VARIANT_KINDS\s*=\s*\{([^}]*)\}', open(os.path.join(V, 'harness', p.lower() + '.py')).read(), re.M)
        if m:
            kinds_ok = set(re.findall(r"'([a-z0-9]+)'", m.group(1)))
        for r in ROOTS:
            pairs = [[fn, kd] for fn, kinds in r['pairs'].items() if fn in names for kd in kinds if (fn, kd) in wit and (kinds_ok is None or kd in kinds_ok)]
            if not pairs:
                continue
            kinds = list(dict.fromkeys(kd for _, kd in pairs))
            first = wit[tuple(pairs[0])]
            findings.append({
                'property': p, 'key': 'representation/%s:*[%s]' % (r['id'], '|'.join(kinds)), 'status': 'open', 'covers_correspondence': True,
                'summary': r['summary'] + ' -- functions x storages covered here: ' + '; '.join('%s[%s]' % (fn, ','.join(kd for f2, kd in pairs if f2 == fn)) for fn in dict.fromkeys(f for f, _ in pairs)),
                'root_cause': r['id'], 'proposed_fix': r['fix'], 'variant_pairs': pairs,
                'witness': first, 'witnesses': {'%s[%s]' % tuple(pr): wit[tuple(pr)]['script'] for pr in pairs}})
    out = {'findings': findings,
           'note': 'generated by tools/mk_variant_findings.py on %s; every (function, kind) pair reproduces there in isolation (witness scripts). '
                   'Matching: harness/common.py Ctx._known (variant_pairs).' % common.REPO}
    path = os.path.join(V, 'known_findings.d', 'variants.json')
    for g in gone:
        print('NO LONGER REPRODUCES (dropped): %s %s[%s]' % g)
    new = json.dumps(out, indent=1)
    if check:
        old = open(path).read() if os.path.exists(path) else ''
        print('up to date' if old == new else 'variants.json differs from what the tree gives')
        return 0 if old == new else 1
    open(path, 'w').write(new)
    print('%d findings (%d root causes x properties), %d (function, kind) pairs with a witness' % (len(findings), len(ROOTS), len(wit)))
    return 0


if __name__ == '__main__':
    sys.exit(main())
