open Model
let rec pos_of_int n = if n = 1 then XH else if n land 1 = 0 then XO (pos_of_int (n/2)) else XI (pos_of_int (n/2))
let z_of_int n = if n = 0 then Z0 else if n > 0 then Zpos (pos_of_int n) else Zneg (pos_of_int (-n))
let rec int_of_pos = function XH -> 1 | XO p -> 2*int_of_pos p | XI p -> 2*int_of_pos p+1
let int_of_z = function Z0 -> 0 | Zpos p -> int_of_pos p | Zneg p -> - int_of_pos p
let rec nat_of_int n = if n = 0 then O else S (nat_of_int (n-1))
let q n = { qnum = z_of_int n; qden = XH }
let () =
  let w = [[q 0; q 2; q 1];[q 2; q 0; q 3];[q 1; q 3; q 0]] in
  let ci = List.map nat_of_int [0;0;1] in
  let r = run_trace w ci (nat_of_int 2) in
  Printf.printf "%d/%d\n" (int_of_z r.qnum) (int_of_pos r.qden)
