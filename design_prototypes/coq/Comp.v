From Coq Require Import List Arith Lia Bool Relations.
Import ListNotations.

(* get_components' union loop, lists as sets *)
Definition nset := list nat.
Definition mem (x:nat) (s:nset) : bool := existsb (Nat.eqb x) s.
Definition disjointb (s t:nset) : bool := forallb (fun x => negb (mem x t)) s.
Definition union (s t:nset) : nset := s ++ filter (fun x => negb (mem x s)) t.

(* one edge: fold over current sets, absorbing every set that touches item *)
Fixpoint absorb (item:nset) (sets:list nset) : nset * list nset :=
  match sets with
  | [] => (item, [])
  | s :: rest =>
      if disjointb s item then let '(it, tmp) := absorb item rest in (it, s :: tmp)
      else absorb (union s item) rest
  end.
Definition step (sets:list nset) (e:nat*nat) : list nset :=
  let '(it,tmp) := absorb [fst e; snd e] sets in tmp ++ [it].
Definition components (edges:list (nat*nat)) : list nset := fold_left step edges [].

Lemma mem_In x s : mem x s = true <-> In x s.
Proof. unfold mem. rewrite existsb_exists. split.
  - intros [y [Hy E]]. apply Nat.eqb_eq in E. subst; auto.
  - intros H. exists x. split; auto. apply Nat.eqb_refl. Qed.
Lemma union_In x s t : In x (union s t) <-> In x s \/ In x t.
Proof. unfold union. rewrite in_app_iff, filter_In. split.
  - intros [H|[H _]]; auto.
  - intros [H|H]; auto. destruct (mem x s) eqn:E; [left; apply mem_In; auto| right; split; auto; rewrite E; auto]. Qed.
Lemma disjointb_false s t : disjointb s t = false -> exists x, In x s /\ In x t.
Proof. unfold disjointb. intros H.
  induction s as [|a s IH]; simpl in H; [discriminate|].
  destruct (mem a t) eqn:E; simpl in H.
  - exists a. split; [left; auto| apply mem_In; auto].
  - destruct (IH H) as [x [Hx1 Hx2]]. exists x; split; [right|]; auto. Qed.
Lemma disjointb_true s t : disjointb s t = true -> forall x, In x s -> ~ In x t.
Proof. unfold disjointb. rewrite forallb_forall. intros H x Hx Ht.
  specialize (H x Hx). apply mem_In in Ht. rewrite Ht in H. discriminate. Qed.

(* connectivity through a set of edges *)
Section Conn.
Variable E : list (nat*nat).
Definition adj (x y:nat) : Prop := In (x,y) E \/ In (y,x) E.
Definition conn := clos_refl_sym_trans nat adj.
End Conn.

Lemma conn_mono E E' x y : incl E E' -> conn E x y -> conn E' x y.
Proof. intros Hi H. induction H.
  - apply rst_step. destruct H; [left|right]; apply Hi; auto.
  - apply rst_refl. - apply rst_sym; auto. - eapply rst_trans; eauto. Qed.

(* invariant *)
Definition all_conn E (s:nset) := forall x y, In x s -> In y s -> conn E x y.
Definition Inv E (sets:list nset) : Prop :=
  Forall (all_conn E) sets /\
  (forall u v, In (u,v) E -> exists s, In s sets /\ In u s /\ In v s) /\
  ForallOrdPairs (fun s t => forall x, In x s -> ~ In x t) sets.

(* absorb: characterisation *)
Lemma absorb_spec E item sets it tmp :
  absorb item sets = (it,tmp) ->
  all_conn E item -> Forall (all_conn E) sets ->
  ForallOrdPairs (fun s t => forall x, In x s -> ~ In x t) sets ->
  all_conn E it /\ Forall (all_conn E) tmp /\ incl tmp sets /\
  (forall x, In x item -> In x it) /\
  (forall s, In s sets -> In s tmp \/ (forall x, In x s -> In x it)) /\
  (forall s, In s tmp -> forall x, In x s -> ~ In x it) /\
  ForallOrdPairs (fun s t => forall x, In x s -> ~ In x t) tmp /\
  (forall x, In x it -> In x item \/ exists s, In s sets /\ In x s).
Proof.
  revert item it tmp. induction sets as [|s rest IH]; intros item it tmp H Hit Hs Hd; simpl in H.
  - inversion H; subst. repeat split; auto using incl_nil_l; try constructor; intros; try contradiction; auto.
  - inversion Hs as [|? ? Hs1 Hs2]; subst. inversion Hd as [|? ? Hd1 Hd2]; subst.
    destruct (disjointb s item) eqn:Dj.
    + destruct (absorb item rest) as [it' tmp'] eqn:A. inversion H; subst. clear H.
      destruct (IH item it tmp' A Hit Hs2 Hd2) as (C1&C2&C3&C4&C5&C6&C7&C8).
      repeat split; auto.
      * apply incl_cons; [left; auto| apply incl_tl; auto].
      * intros s' [<-|Hs']; [left; left; auto|]. destruct (C5 s' Hs'); [left; right; auto| right; auto].
      * intros s' [<-|Hs'] x Hx Hxi; [| eapply C6; eauto].
        destruct (C8 x Hxi) as [Hi|[t [Ht Hxt]]].
        -- eapply disjointb_true; eauto.
        -- rewrite Forall_forall in Hd1. eapply Hd1; eauto.
      * constructor; auto. rewrite Forall_forall. intros t Ht x Hx. rewrite Forall_forall in Hd1. apply Hd1; auto.
      * intros x Hx. destruct (C8 x Hx) as [?|[t [Ht Hxt]]]; auto. right. exists t; split; [right|]; auto.
    + assert (Hu: all_conn E (union s item)).
      { destruct (disjointb_false _ _ Dj) as [z [Hz1 Hz2]].
        intros x y Hx Hy. apply union_In in Hx. apply union_In in Hy.
        destruct Hx as [Hx|Hx], Hy as [Hy|Hy].
        - apply Hs1; auto. 
        - apply rst_trans with z; [apply Hs1; auto| apply Hit; auto].
        - apply rst_trans with z; [apply Hit; auto| apply Hs1; auto].
        - apply Hit; auto. }
      destruct (IH (union s item) it tmp H Hu Hs2 Hd2) as (C1&C2&C3&C4&C5&C6&C7&C8).
      repeat split; auto.
      * apply incl_tl; auto.
      * intros x Hx. apply C4. apply union_In; auto.
      * intros s' [<-|Hs']; [right; intros x Hx; apply C4; apply union_In; auto| apply C5; auto].
      * intros x Hx. destruct (C8 x Hx) as [Hi|[t [Ht Hxt]]].
        -- apply union_In in Hi. destruct Hi; [right; exists s; split; [left|]; auto| left; auto].
        -- right. exists t; split; [right|]; auto.
Qed.
Print Assumptions absorb_spec.
