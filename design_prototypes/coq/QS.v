From Coq Require Import QArith Qring Qfield Lia Lqa Arith List.
Open Scope Q_scope.

Fixpoint sumQ (f:nat->Q) (n:nat) : Q :=
  match n with O => 0 | S k => sumQ f k + f k end.

Lemma sumQ_ext f g n : (forall i, (i<n)%nat -> f i == g i) -> sumQ f n == sumQ g n.
Proof. induction n; simpl; intros H; [reflexivity|]. rewrite IHn, (H n) by auto. reflexivity. Qed.

Lemma sumQ_add f g n : sumQ (fun i => f i + g i) n == sumQ f n + sumQ g n.
Proof. induction n; simpl; [ring|]. rewrite IHn. ring. Qed.

Lemma sumQ_scal c f n : sumQ (fun i => c * f i) n == c * sumQ f n.
Proof. induction n; simpl; [ring|]. rewrite IHn. ring. Qed.

Lemma sumQ_zero n : sumQ (fun _ => 0) n == 0.
Proof. induction n; simpl; [reflexivity|]. rewrite IHn. ring. Qed.

Lemma sumQ_fubini (f:nat->nat->Q) n m :
  sumQ (fun i => sumQ (fun j => f i j) m) n == sumQ (fun j => sumQ (fun i => f i j) n) m.
Proof.
  induction n; simpl.
  - rewrite sumQ_zero. reflexivity.
  - rewrite IHn. rewrite <- sumQ_add. reflexivity.
Qed.

Definition ind (b:bool) : Q := if b then 1 else 0.

Lemma sumQ_ind_collapse (f:nat->Q) m c : (c<m)%nat ->
  sumQ (fun u => ind (Nat.eqb c u) * f u) m == f c.
Proof.
  induction m; intros Hc; [lia|]. simpl.
  destruct (Nat.eq_dec c m) as [->|Hne].
  - rewrite Nat.eqb_refl. simpl.
    rewrite (sumQ_ext _ (fun _ => 0)). rewrite sumQ_zero. ring.
    intros i Hi. destruct (Nat.eqb_spec m i); [lia|]. simpl. ring.
  - rewrite IHm by lia. destruct (Nat.eqb_spec c m); [lia|]. simpl. ring.
Qed.

(* aggregated matrix and a Q-identity: trace of aggregate = sum over same-label pairs *)
Definition agg (W:nat->nat->Q) (ci:nat->nat) n (u v:nat) : Q :=
  sumQ (fun i => sumQ (fun j => ind (Nat.eqb (ci i) u) * ind (Nat.eqb (ci j) v) * W i j) n) n.

Theorem trace_agg W ci n m : (forall i, (i<n)%nat -> (ci i < m)%nat) ->
  sumQ (fun u => agg W ci n u u) m ==
  sumQ (fun i => sumQ (fun j => ind (Nat.eqb (ci i) (ci j)) * W i j) n) n.
Proof.
  intros Hci. unfold agg.
  rewrite sumQ_fubini. apply sumQ_ext; intros i Hi.
  rewrite sumQ_fubini. apply sumQ_ext; intros j Hj.
  rewrite (sumQ_ext _ (fun u => ind (Nat.eqb (ci i) u) * (ind (Nat.eqb (ci j) u) * W i j))).
  2:{ intros; ring. }
  rewrite sumQ_ind_collapse by auto. rewrite (Nat.eqb_sym (ci j) (ci i)). reflexivity.
Qed.
Print Assumptions trace_agg.

Goal forall a g : Q, g > 0 -> a + g > a. intros; lra. Qed.
