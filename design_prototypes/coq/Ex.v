From Coq Require Import QArith List Extraction ExtrOcamlBasic.
Require Import QS.
Definition matQ (l:list (list Q)) : nat->nat->Q := fun i j => nth j (nth i l nil) 0.
Definition vecN (l:list nat) : nat->nat := fun i => nth i l O.
Definition run_trace (l:list (list Q)) (ci:list nat) (m:nat) : Q :=
  Qred (sumQ (fun u => agg (matQ l) (vecN ci) (length l) u u) m).
Extraction "model.ml" run_trace.
