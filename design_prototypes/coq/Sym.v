From Coq Require Import ZArith List Arith Lia Bool.
Import ListNotations.
Open Scope Z_scope.

Definition mat := nat -> nat -> Z.
Definition upd (R:mat) (x y:nat) (v:Z) : mat :=
  fun i j => if (Nat.eqb i x && Nat.eqb j y)%bool then v else R i j.

Inductive sym := SA | SB | SC | SD.
Definition sym_eqb (x y:sym) : bool :=
  match x,y with SA,SA|SB,SB|SC,SC|SD,SD => true | _,_ => false end.
Lemma sym_eqb_spec x y : reflect (x=y) (sym_eqb x y).
Proof. destruct x,y; simpl; constructor; congruence. Qed.
Definition cell := (sym*sym)%type.
Definition cell_eqb (c1 c2:cell) := (sym_eqb (fst c1) (fst c2) && sym_eqb (snd c1) (snd c2))%bool.
Lemma cell_eqb_spec c1 c2 : reflect (c1=c2) (cell_eqb c1 c2).
Proof.
  destruct c1 as [a b], c2 as [c d]; unfold cell_eqb; simpl.
  destruct (sym_eqb_spec a c), (sym_eqb_spec b d); simpl; constructor; congruence.
Qed.

Definition assign := (cell * option cell)%type.   (* dst, src (None = literal 0) *)
Inductive src := Zero | Orig (c:cell).

Definition env := sym -> nat.
Definition inj (r:env) := forall x y, r x = r y -> x = y.

(* concrete, sequential numpy semantics *)
Definition exec1 (r:env) (R:mat) (a:assign) : mat :=
  let '((x,y),s) := a in
  upd R (r x) (r y) (match s with None => 0 | Some (u,v) => R (r u) (r v) end).
Definition exec (r:env) (p:list assign) (R:mat) : mat := fold_left (exec1 r) p R.

(* symbolic *)
Definition sstate := cell -> src.
Definition sinit : sstate := fun c => Orig c.
Definition sexec1 (s:sstate) (a:assign) : sstate :=
  let '(d,so) := a in
  fun c => if cell_eqb c d then (match so with None => Zero | Some c' => s c' end) else s c.
Definition sexec (p:list assign) : sstate := fold_left sexec1 p sinit.

Definition eval (r:env) (R0:mat) (s:src) : Z :=
  match s with Zero => 0 | Orig (u,v) => R0 (r u) (r v) end.

Definition rel (r:env) (R0 R:mat) (s:sstate) : Prop :=
  (forall x y, R (r x) (r y) = eval r R0 (s (x,y))) /\
  (forall i j, (forall x y, ~(i = r x /\ j = r y)) -> R i j = R0 i j).

Lemma rel_step r R0 R s a : inj r -> rel r R0 R s -> rel r R0 (exec1 r R a) (sexec1 s a).
Proof.
  intros Hinj [H1 H2]. destruct a as [[x y] so]. unfold exec1, sexec1, upd. split.
  - intros x' y'. destruct (cell_eqb_spec (x',y') (x,y)) as [E|E].
    + inversion E; subst. rewrite !Nat.eqb_refl. simpl.
      destruct so as [[u v]|]; simpl; [apply H1|reflexivity].
    + destruct (Nat.eqb_spec (r x') (r x)) as [E1|E1]; destruct (Nat.eqb_spec (r y') (r y)) as [E2|E2]; simpl; try apply H1.
      apply Hinj in E1. apply Hinj in E2. subst. congruence.
  - intros i j Hij. destruct (Nat.eqb_spec i (r x)); destruct (Nat.eqb_spec j (r y)); simpl; try (apply H2; assumption).
    subst. exfalso. apply (Hij x y). auto.
Qed.

Theorem sexec_sound r R0 p : inj r -> rel r R0 (exec r p R0) (sexec p).
Proof.
  intros Hinj. unfold exec, sexec.
  assert (G: forall R s, rel r R0 R s -> rel r R0 (fold_left (exec1 r) p R) (fold_left sexec1 p s)).
  { induction p as [|a p IH]; intros R s H; simpl; [exact H|]. apply IH. apply rel_step; assumption. }
  apply G. split; intros; reflexivity.
Qed.

(* the undirected 8-write program as extracted from randmio_und *)
Definition prog_und : list assign :=
  [ ((SA,SD), Some (SA,SB)); ((SA,SB), None); ((SD,SA), Some (SB,SA)); ((SB,SA), None);
    ((SC,SB), Some (SC,SD)); ((SC,SD), None); ((SB,SC), Some (SD,SC)); ((SD,SC), None) ].
Eval vm_compute in (map (fun c => (c, sexec prog_und c))
   [(SA,SB);(SA,SD);(SB,SA);(SD,SA);(SC,SD);(SC,SB);(SD,SC);(SB,SC);(SA,SC);(SA,SA)]).
Print Assumptions sexec_sound.
