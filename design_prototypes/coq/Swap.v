From Coq Require Import ZArith List Arith Lia Bool.
Import ListNotations.
Open Scope Z_scope.

Definition mat := nat -> nat -> Z.
Definition upd (R:mat) (x y:nat) (v:Z) : mat :=
  fun i j => if (Nat.eqb i x && Nat.eqb j y)%bool then v else R i j.
Definition nz (z:Z) : Z := if Z.eqb z 0 then 0 else 1.

Fixpoint sumn (f:nat->Z) (n:nat) : Z :=
  match n with O => 0 | S k => sumn f k + f k end.

Definition outdeg n (R:mat) a := sumn (fun y => nz (R a y)) n.
Definition indeg n (R:mat) b := sumn (fun x => nz (R x b)) n.

(* sequential numpy semantics *)
Definition swap_dir (R:mat) a b c d : mat :=
  let R1 := upd R a d (R a b) in
  let R2 := upd R1 a b 0 in
  let R3 := upd R2 c b (R2 c d) in
  upd R3 c d 0.

Lemma sumn_ext f g n : (forall i, (i<n)%nat -> f i = g i) -> sumn f n = sumn g n.
Proof. induction n; simpl; intros H; [reflexivity|]. rewrite IHn, H; auto. Qed.

Lemma sumn_split f n p : (p<n)%nat ->
  sumn f n = sumn (fun i => if Nat.eqb i p then 0 else f i) n + f p.
Proof.
  induction n; intros Hp; [lia|]. simpl.
  destruct (Nat.eq_dec p n) as [->|Hne].
  - rewrite Nat.eqb_refl.
    rewrite (sumn_ext f (fun i => if Nat.eqb i n then 0 else f i) n); [lia|].
    intros i Hi. destruct (Nat.eqb_spec i n); [lia|reflexivity].
  - rewrite IHn by lia. destruct (Nat.eqb_spec n p); [lia|]. lia.
Qed.

Lemma sumn_split2 f n p q : (p<n)%nat -> (q<n)%nat -> p<>q ->
  sumn f n = sumn (fun i => if Nat.eqb i q then 0 else if Nat.eqb i p then 0 else f i) n + f q + f p.
Proof.
  intros Hp Hq Hpq. rewrite (sumn_split f n p Hp).
  rewrite (sumn_split (fun i => if Nat.eqb i p then 0 else f i) n q Hq).
  destruct (Nat.eqb_spec q p); [congruence|]. reflexivity.
Qed.

Lemma sumn_swap2 f g n p q : (p<n)%nat -> (q<n)%nat -> p<>q ->
  g p = f q -> g q = f p -> (forall i, i<>p -> i<>q -> g i = f i) ->
  sumn g n = sumn f n.
Proof.
  intros Hp Hq Hpq H1 H2 H3.
  rewrite (sumn_split2 f n p q Hp Hq Hpq), (sumn_split2 g n p q Hp Hq Hpq).
  rewrite H1, H2.
  rewrite (sumn_ext (fun i => if Nat.eqb i q then 0 else if Nat.eqb i p then 0 else f i)
                    (fun i => if Nat.eqb i q then 0 else if Nat.eqb i p then 0 else g i) n); [lia|].
  intros i _. destruct (Nat.eqb_spec i q); [reflexivity|]. destruct (Nat.eqb_spec i p); [reflexivity|].
  symmetry; apply H3; assumption.
Qed.

Ltac eqb_cases :=
  repeat match goal with
  | |- context[Nat.eqb ?u ?v] => destruct (Nat.eqb_spec u v); subst; cbn [andb]
  end; try congruence; try lia; try reflexivity.

Theorem swap_dir_outdeg n R a b c d x :
  (a<n)%nat -> (b<n)%nat -> (c<n)%nat -> (d<n)%nat ->
  a<>c -> b<>d -> R a d = 0 -> R c b = 0 ->
  outdeg n (swap_dir R a b c d) x = outdeg n R x.
Proof.
  intros Ha Hb Hc Hd Hac Hbd Had Hcb. unfold outdeg.
  destruct (Nat.eq_dec x a) as [->|Hxa]; [|destruct (Nat.eq_dec x c) as [->|Hxc]].
  - apply (sumn_swap2 _ _ n b d); auto; unfold swap_dir, upd.
    + eqb_cases.
    + eqb_cases.
    + intros i Hib Hid. eqb_cases.
  - apply (sumn_swap2 _ _ n b d); auto; unfold swap_dir, upd.
    + eqb_cases.
    + eqb_cases.
    + intros i Hib Hid. eqb_cases.
  - apply sumn_ext. intros i _. unfold swap_dir, upd. eqb_cases.
Qed.
Print Assumptions swap_dir_outdeg.
