import numpy as np, sys, warnings, itertools
warnings.filterwarnings('ignore')
import bct
from collections import Counter
rs=np.random.RandomState(6)
res=Counter(); ex={}
def rec(name,f,info):
    try: ok=bool(f())
    except Exception as e: ok=type(e).__name__+':'+str(e)[:50]
    res[(name,ok)]+=1
    if ok is not True and name not in ex: ex[name]=info
def core_oracle(W,k,degf):
    n=len(W); best=()
    for r in range(n,0,-1):
        found=[S for S in itertools.combinations(range(n),r) if all(degf(W[np.ix_(S,S)])[i]>=k for i in range(r))]
        if found:
            U=set().union(*map(set,found)); return tuple(sorted(U))
    return ()
def restrict(W,S):
    R=np.zeros_like(W); S=list(S)
    if S: R[np.ix_(S,S)]=W[np.ix_(S,S)]
    return R
degu=lambda M:(M!=0).sum(0); degd=lambda M:(M!=0).sum(0)+(M!=0).sum(1); stru=lambda M:M.sum(0)
for t in range(150):
    n=rs.randint(2,7); p=rs.choice([0.3,0.5,0.8])
    Ad=(rs.rand(n,n)<p).astype(float); np.fill_diagonal(Ad,0)
    Au=np.triu(Ad,1); Au=Au+Au.T
    Wu=np.triu(Ad*rs.randint(1,5,size=(n,n)),1); Wu=Wu+Wu.T
    for k in range(1,n+1):
        S=core_oracle(Au,k,degu); C,kn=bct.kcore_bu(Au,k)
        rec('kcore_bu',lambda: np.array_equal(C,restrict(Au,S)) and kn==len(S),(Au,k))
        S=core_oracle(Ad,k,degd); C,kn=bct.kcore_bd(Ad,k)
        rec('kcore_bd',lambda: np.array_equal(C,restrict(Ad,S)) and kn==len(S),(Ad,k))
    for s in sorted(set(list(np.unique(Wu.sum(0)))+[0.5,1,2.5,7])):
        if s<=0: continue
        S=core_oracle(Wu,s,stru); C,sn=bct.score_wu(Wu,s)
        rec('score_wu',lambda: np.array_equal(C,restrict(Wu,S)) and sn==len(S),(Wu,s))
    # coreness
    cor,kn=bct.kcoreness_centrality_bu(Au)
    exp=np.zeros(n)
    for k in range(1,n):
        for v in core_oracle(Au,k,degu): exp[v]=k
    rec('coreness_bu',lambda: np.array_equal(cor,exp),Au)
    cor,kn=bct.kcoreness_centrality_bd(Ad)
    exp=np.zeros(n)
    for k in range(1,n):
        for v in core_oracle(Ad,k,degd): exp[v]=k
    rec('coreness_bd',lambda: np.array_equal(cor,exp),Ad)
    # peel
    C,kn,po,pl=bct.kcore_bu(Au,2,peel=True)
    removed=np.concatenate(po) if po else np.array([])
    core_nodes=set(np.where(C.sum(0)>0)[0]); 
    rec('peel',lambda: len(removed)==len(set(removed)) and set(removed).isdisjoint(core_nodes) and sum(map(len,pl))==len(removed),Au)
for k in sorted(res,key=str): print(k,res[k])
for k,v in ex.items(): print(k); print(v)
