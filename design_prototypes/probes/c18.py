import numpy as np, sys, warnings, itertools
warnings.filterwarnings('ignore')
import bct, scipy.linalg as sl
from collections import Counter
res=Counter(); ex={}
rs=np.random.RandomState(12)
def rec(name,f,info):
    try: ok=f()
    except Exception as e: ok=type(e).__name__+':'+str(e)[:60]
    if not isinstance(ok,str): ok=bool(ok)
    res[(name,ok)]+=1
    if ok is not True and name not in ex: ex[name]=info
def cyc(n): 
    A=np.zeros((n,n)); 
    for i in range(n): A[i,(i+1)%n]=A[(i+1)%n,i]=1
    return A
def kbip(a,b):
    A=np.zeros((a+b,a+b)); A[:a,a:]=1; A[a:,:a]=1; return A
graphs=[('cyc%d'%n,cyc(n)) for n in range(3,9)]+[('K%d,%d'%(a,b),kbip(a,b)) for a in (1,2,3) for b in (2,3,4)]+[('K%d'%n,np.ones((n,n))-np.eye(n)) for n in (3,4,5)]
graphs+= [('2cyc',np.block([[cyc(4),np.zeros((4,4))],[np.zeros((4,4)),cyc(4)]]))]
for t in range(100):
    n=rs.randint(3,9); A=np.triu((rs.rand(n,n)<0.6).astype(float)*rs.randint(1,4,size=(n,n)),1); A=A+A.T
    graphs.append(('rand',A))
for nm,A in graphs:
    n=len(A); conn=bct.number_of_components(A)==1
    tag=nm if nm!='rand' else 'rand'
    if conn:
        def f():
            M=bct.mean_first_passage_time(A); P=A/A.sum(1,keepdims=True)
            E=np.array([[1+sum(P[i,k]*M[k,j] for k in range(n) if k!=j) for j in range(n)] for i in range(n)])
            o=~np.eye(n,dtype=bool); return np.allclose(M[o],E[o],atol=1e-7)
        rec('mfpt_'+tag,f,A)
        def f():
            g,e=bct.diffusion_efficiency(A); M=bct.mean_first_passage_time(A); o=~np.eye(n,dtype=bool)
            return np.allclose(e[o],1/M[o]) and np.isclose(g,np.sum(1/M[o])/(n*n-n))
        rec('diffeff_'+tag,f,A)
    for d in (0.5,0.85):
        def f():
            r=bct.pagerank_centrality(A,d); deg=A.sum(0); deg[deg==0]=1
            return np.all(r>0) and np.isclose(r.sum(),1) and np.allclose(r,d*A@(r/deg)+(1-d)/n)
        rec('pagerank_'+tag,f,A)
    def f():
        return np.allclose(bct.subgraph_centrality(A),np.diag(sl.expm(A)))
    rec('subgraph_'+tag,f,A)
    def f():
        v=bct.eigenvector_centrality_und(A); lam=np.max(np.linalg.eigvalsh(A))
        return np.all(v>=-1e-12) and np.isclose(np.linalg.norm(v),1) and np.allclose(A@v,lam*v,atol=1e-8)
    rec('eigvec_'+tag,f,A)
    def f():
        Wq,tw,wlq=bct.findwalks(A); B=(A!=0).astype(float)
        return all(np.array_equal(Wq[:,:,q],np.linalg.matrix_power(B,q)) for q in range(1,n)) and tw==Wq.sum()
    rec('findwalks(q=power q)_'+tag,f,A)
    def f():
        Wq,tw,wlq=bct.findwalks(A); B=(A!=0).astype(float)
        return all(np.array_equal(Wq[:,:,q],np.linalg.matrix_power(B,q+1)) for q in range(1,n))
    rec('findwalks(q=power q+1)_'+tag,f,A)
for k in sorted(res,key=str): print(k,res[k])
