import numpy as np, sys, warnings, itertools
warnings.filterwarnings('ignore')
import bct
from tmo import call, TO
from collections import Counter
rs=np.random.RandomState(2)
res=Counter()
def fw(L):
    n=len(L); D=np.where(L!=0,L,np.inf).astype(float)
    for k in range(n):
        D=np.minimum(D,D[:,[k]]+D[[k],:])
    return D
def offd(n): return ~np.eye(n,dtype=bool)
ex={}
for t in range(400):
    n=rs.randint(2,8); p=rs.choice([0.15,0.3,0.5])
    A=(rs.rand(n,n)<p).astype(float); np.fill_diagonal(A,0)
    if rs.rand()<0.5: A=np.triu(A,1); A=A+A.T
    W=A*rs.randint(1,4,size=(n,n))
    if np.array_equal(A,A.T): W=np.triu(W,1); W=W+W.T
    o=offd(n)
    Dt=fw(A); Dw=fw(W)
    def rec(name,ok):
        res[(name,bool(ok))]+=1
        if not ok and name not in ex: ex[name]=(A.copy(),W.copy())
    try:
        D=bct.distance_bin(A); rec('distance_bin',np.array_equal(D[o],Dt[o]) and np.all(np.diag(D)==0))
    except Exception as e: res[('distance_bin',repr(e)[:60])]+=1
    try:
        D,B=bct.distance_wei(W); rec('distance_wei',np.array_equal(D[o],Dw[o]) and np.all(np.diag(D)==0))
        D,B=bct.distance_wei(A); rec('distance_wei_bin',np.array_equal(D[o],Dt[o]) and np.array_equal(B[o][np.isfinite(Dt[o])],Dt[o][np.isfinite(Dt[o])]))
    except Exception as e: res[('distance_wei',repr(e)[:60])]+=1
    try:
        S,H,P=bct.distance_wei_floyd(W); rec('floyd',np.array_equal(S[o],Dw[o]) and np.all(np.diag(S)==0))
        Wp=np.where(W!=0,1.0/W,0)
        S,H,P=bct.distance_wei_floyd(Wp,transform='inv'); rec('floyd_inv',np.allclose(S[o],Dw[o]))
    except Exception as e: res[('floyd',repr(e)[:60])]+=1
    try:
        R,D=bct.breadthdist(A); rec('breadthdist',np.array_equal(D[o],Dt[o]) and np.array_equal(R[o],np.isfinite(Dt[o])))
    except Exception as e: res[('breadthdist',repr(e)[:60])]+=1
    try:
        R,D=bct.reachdist(A); rec('reachdist',np.array_equal(D[o],Dt[o]) and np.array_equal(R[o]!=0,np.isfinite(Dt[o])))
    except Exception as e: res[('reachdist',repr(e)[:60])]+=1
    try:
        if n>1:
            E=bct.efficiency_bin(A); rec('eff_bin',np.isclose(E,np.sum(1/Dt[o])/(n*n-n)))
            Wn=W/4.0
            L=np.where(Wn!=0,1/np.where(Wn!=0,Wn,1),0); DL=fw(L)
            E=bct.efficiency_wei(Wn); rec('eff_wei',np.isclose(E,np.sum(1/DL[o])/(n*n-n)))
            lam,eff,ecc,rad,diam=bct.charpath(Dt); 
            rec('charpath',(np.isclose(lam,np.mean(Dt[o])) or (np.isinf(lam) and np.isinf(np.mean(Dt[o])))) and np.isclose(eff,np.mean(1/Dt[o])))
            G,Er,El=bct.rout_efficiency(W); rec('rout',np.isclose(G,np.sum(1/Dw[o])/(n*n-n)))
    except Exception as e: res[('eff',repr(e)[:60])]+=1
for k in sorted(res,key=str): print(k,res[k])
for k,(A,W) in ex.items(): print(k); print(A.astype(int)); print(W.astype(int))
