import numpy as np, sys, warnings, itertools, io, contextlib, inspect, random
warnings.filterwarnings('ignore')
import bct
from tmo import call, TO
rs=np.random.RandomState(15)
n=8
Wd=rs.randint(1,5,size=(n,n)).astype(float)*(rs.rand(n,n)<0.5); np.fill_diagonal(Wd,0)
Wu=np.triu(Wd,1); Wu=Wu+Wu.T
Ws=Wu*np.where(rs.rand(n,n)<0.3,-1,1); Ws=np.triu(Ws,1); Ws=Ws+Ws.T
Ab=(Wu!=0).astype(float)
cases={
 'randmio_und':lambda s:bct.randmio_und(Wu,2,seed=s),'randmio_dir':lambda s:bct.randmio_dir(Wd,2,seed=s),
 'randmio_und_connected':lambda s:bct.randmio_und_connected(Wu,2,seed=s),'randmio_dir_connected':lambda s:bct.randmio_dir_connected(Wd,2,seed=s),
 'randmio_und_signed':lambda s:bct.randmio_und_signed(Ws,2,seed=s),'randmio_dir_signed':lambda s:bct.randmio_dir_signed(Wd,2,seed=s),
 'latmio_und':lambda s:bct.latmio_und(Wu,2,seed=s),'latmio_dir':lambda s:bct.latmio_dir(Wd,2,seed=s),
 'latmio_und_connected':lambda s:bct.latmio_und_connected(Wu,2,seed=s),'latmio_dir_connected':lambda s:bct.latmio_dir_connected(Wd,2,seed=s),
 'randomize_graph_partial_und':lambda s:bct.randomize_graph_partial_und(Wu,np.zeros((n,n)),3,seed=s),'randomizer_bin_und':lambda s:bct.randomizer_bin_und(Ab,0.5,seed=s),
 'null_model_und_sign':lambda s:bct.null_model_und_sign(Ws,2,0.5,seed=s),'null_model_dir_sign':lambda s:bct.null_model_dir_sign(Wd,2,0,seed=s),
 'makerandCIJ_und':lambda s:bct.makerandCIJ_und(8,10,seed=s),'makerandCIJ_dir':lambda s:bct.makerandCIJ_dir(8,10,seed=s),'makeringlatticeCIJ':lambda s:bct.makeringlatticeCIJ(8,20,seed=s),
 'maketoeplitzCIJ':lambda s:bct.maketoeplitzCIJ(8,10,2.0,seed=s),'makeevenCIJ':lambda s:bct.makeevenCIJ(8,30,2,seed=s),'makefractalCIJ':lambda s:bct.makefractalCIJ(3,2,2,seed=s),
 'makerandCIJdegreesfixed':lambda s:bct.makerandCIJdegreesfixed(Ab.sum(0).astype(int),Ab.sum(1).astype(int),seed=s),
 'community_louvain':lambda s:bct.community_louvain(Wu,seed=s),'modularity_louvain_und':lambda s:bct.modularity_louvain_und(Wu,seed=s),'modularity_louvain_dir':lambda s:bct.modularity_louvain_dir(Wd,seed=s),
 'modularity_louvain_und_sign':lambda s:bct.modularity_louvain_und_sign(Ws,seed=s),'modularity_finetune_und':lambda s:bct.modularity_finetune_und(Wu,seed=s),'modularity_finetune_dir':lambda s:bct.modularity_finetune_dir(Wd,seed=s),
 'modularity_finetune_und_sign':lambda s:bct.modularity_finetune_und_sign(Ws,seed=s),'modularity_probtune_und_sign':lambda s:bct.modularity_probtune_und_sign(Ws,seed=s),
 'core_periphery_dir':lambda s:bct.core_periphery_dir(Wd.copy(),seed=s),'consensus_und':lambda s:bct.consensus_und(np.abs(Wu)/4,0.3,reps=5,seed=s),
 'rentian_scaling':lambda s:bct.rentian_scaling(Ab,np.random.RandomState(0).rand(n,3),5,seed=s),
 'pick4':lambda s:bct.pick_four_unique_nodes_quickly(9,seed=s),
 'nbs_bct':lambda s:bct.nbs_bct(np.random.RandomState(0).rand(5,5,6)+np.eye(5)[:,:,None]*0, np.random.RandomState(1).rand(5,5,7)+0.3,1.0,k=5,seed=s),
 'generative_model':lambda s:bct.generative_model(np.zeros((n,n)),np.abs(Wu)+1,6,np.array([[-1.0,0.3]]),model_type='matching',seed=s),
 'generate_fc':lambda s:bct.generate_fc(Wu,np.array([0.1]*5),seed=s) if False else None,
 'mleme':lambda s:bct.mleme_constraint_model(2,np.abs(Wd),seed=s) if hasattr(bct,'mleme_constraint_model') else None,
}
def canon(x):
    if isinstance(x,(tuple,list)): return tuple(canon(y) for y in x)
    if isinstance(x,np.ndarray): return ('arr',x.shape,x.tobytes())
    if isinstance(x,dict): return tuple(sorted((k,canon(v)) for k,v in x.items()))
    return x
for nm,f in cases.items():
    row=[]
    try:
        with contextlib.redirect_stdout(io.StringIO()):
            np.random.seed(123); random.seed(5); st0=np.random.get_state(); pst0=random.getstate()
            a=canon(call(f,7,t=20)); st1=np.random.get_state(); pst1=random.getstate()
            glob_ok = all(np.array_equal(x,y) if isinstance(x,np.ndarray) else x==y for x,y in zip(st0,st1)) and pst0==pst1
            b=canon(call(f,7,t=20)); c=canon(call(f,np.random.RandomState(7),t=20))
            np.random.seed(99); d=canon(call(f,None,t=20)); np.random.seed(99); e=canon(call(f,None,t=20))
            np.random.seed(99); random.seed(1); g=canon(call(f,None,t=20))
        row=[('same',a==b),('rs==int',a==c),('global_untouched',glob_ok),('unseeded_repro',d==e and d==g)]
    except TO: row=['TO']
    except Exception as ex: row=[type(ex).__name__+str(ex)[:70]]
    bad=[r for r in row if not (isinstance(r,tuple) and r[1])]
    print(nm, 'OK' if not bad else bad)
