import numpy as np, sys, warnings
warnings.filterwarnings('ignore')
import bct
from tmo import call, TO
from collections import Counter
rs=np.random.RandomState(16); res=Counter(); ex={}
def sc(A):
    n=len(A); R=(A!=0)|np.eye(n,dtype=bool)
    for k in range(n): R=R|(R[:,[k]]&R[[k],:])
    return R.all()
def sparse_conn_und(n,extra):
    A=np.zeros((n,n)); perm=rs.permutation(n)
    for i in range(1,n):
        j=perm[rs.randint(i)]; A[perm[i],j]=A[j,perm[i]]=rs.randint(1,5)
    for _ in range(extra):
        i,j=rs.randint(n,size=2)
        if i!=j: A[i,j]=A[j,i]=rs.randint(1,5)
    return A
def sparse_sc_dir(n,extra):
    A=np.zeros((n,n)); perm=rs.permutation(n)
    for i in range(n): A[perm[i],perm[(i+1)%n]]=rs.randint(1,5)
    for _ in range(extra):
        i,j=rs.randint(n,size=2)
        if i!=j: A[i,j]=rs.randint(1,5)
    return A
for t in range(300):
    n=rs.randint(5,11); seed=int(rs.randint(1<<30))
    Au=sparse_conn_und(n,rs.randint(0,4)); Ad=sparse_sc_dir(n,rs.randint(1,6))
    for nm,A in (('randmio_und_connected',Au),('latmio_und_connected',Au),('randmio_dir_connected',Ad),('latmio_dir_connected',Ad)):
        try:
            r=call(getattr(bct,nm),A,3,seed=seed,t=5); R=r[0] if nm.startswith('rand') else r[1]; eff=r[-1]
            ok=bool(sc(R)); res[(nm,ok,'eff>0' if eff>0 else 'eff=0')]+=1
            if not ok and nm not in ex: ex[nm]=(A,seed)
            if nm.startswith('lat'):
                # lattice cost in permuted order with default D
                ind=r[2]; Ain=A[np.ix_(ind,ind)]
                D=np.array([[min((i-j)%n,(j-i)%n) for j in range(n)] for i in range(n)],float)
                res[(nm,'cost_nonincr',bool((D*R).sum()<=(D*Ain).sum()+1e-9))]+=1
        except TO: res[(nm,'TO')]+=1
        except Exception as e: res[(nm,type(e).__name__+str(e)[:40])]+=1
for k in sorted(res,key=str): print(k,res[k])
for k,v in ex.items(): print(k,v)
try: bct.randmio_und_connected(np.array([[0,1,0,0],[1,0,0,0],[0,0,0,1],[0,0,1,0.]]),1,seed=1); print('disconnected accepted')
except bct.BCTParamError as e: print('disconnected rejected OK')
try: bct.latmio_und_connected(np.array([[0,1,0],[0,0,1],[1,0,0.]]),1,seed=1); print('asym accepted')
except bct.BCTParamError as e: print('asym rejected OK')
