import numpy as np, sys, warnings, itertools
warnings.filterwarnings('ignore')
import bct
from collections import Counter
res=Counter(); ex={}
def comps(A):
    n=len(A); lab=-np.ones(n,int); c=0
    for s in range(n):
        if lab[s]>=0: continue
        st=[s]; lab[s]=c
        while st:
            u=st.pop()
            for v in range(n):
                if (A[u,v]!=0) and lab[v]<0: lab[v]=c; st.append(v)
        c+=1
    return lab
def check(A):
    cv,sz=bct.get_components(A)
    lab=comps(A); n=len(A)
    ok = len(cv)==n and all((cv[i]==cv[j])==(lab[i]==lab[j]) for i in range(n) for j in range(n))
    ok = ok and set(cv)==set(range(1,len(sz)+1)) and all(sz[l-1]==np.sum(cv==l) for l in set(cv))
    ok = ok and bct.number_of_components(A)==lab.max()+1
    return ok
# exhaustive n<=5
for n in range(1,6):
    pairs=[(i,j) for i in range(n) for j in range(i+1,n)]
    for m in range(1<<len(pairs)):
        A=np.zeros((n,n))
        for b,(i,j) in enumerate(pairs):
            if m>>b&1: A[i,j]=A[j,i]=1
        ok=check(A); res[(n,ok)]+=1
        if not ok and n not in ex: ex[n]=A
rs=np.random.RandomState(7)
for t in range(300):
    n=rs.randint(6,15); A=np.triu((rs.rand(n,n)<rs.choice([0.05,0.1,0.2])).astype(float)*rs.randint(-3,4,size=(n,n)),0); A=A+A.T
    ok=check(A); res[('rand',ok)]+=1
    if not ok and 'r' not in ex: ex['r']=A
for k in sorted(res,key=str): print(k,res[k])
for k,v in ex.items(): print(k); print(v)
try: bct.get_components(np.array([[0,1],[0,0.]])); print('asym accepted')
except bct.BCTParamError: print('asym rejected OK')
