import numpy as np, sys, warnings, itertools
warnings.filterwarnings('ignore')
import bct
from tmo import call, TO
from collections import Counter
res=Counter(); ex={}
rs=np.random.RandomState(9)
def rec(name,f,info):
    try: ok=bool(f())
    except TO: ok='TIMEOUT'
    except Exception as e: ok=type(e).__name__+':'+str(e)[:60]
    res[(name,ok)]+=1
    if ok is not True and name not in ex: ex[name]=info
def is01(C): return np.all((C==0)|(C==1))
for t in range(300):
    n=rs.randint(2,10); seed=int(rs.randint(1<<30))
    K=rs.randint(0,n*n-n+1); Ku=rs.randint(0,(n*n-n)//2+1)
    def f():
        C=bct.makerandCIJ_dir(n,K,seed=seed); return C.shape==(n,n) and is01(C) and C.sum()==K and np.all(np.diag(C)==0)
    rec('rand_dir',f,(n,K,seed))
    def f():
        C=bct.makerandCIJ_und(n,Ku,seed=seed); return C.shape==(n,n) and is01(C) and np.triu(C).sum()==Ku and np.all(np.diag(C)==0) and np.array_equal(C,C.T)
    rec('rand_und(sym,K edges)',f,(n,Ku,seed))
    def f():
        C=bct.makerandCIJ_und(n,Ku,seed=seed); return C.sum()==Ku
    rec('rand_und(total==K)',f,(n,Ku,seed))
    def f():
        C=call(bct.makeringlatticeCIJ,n,K,seed=seed)
        if not(C.shape==(n,n) and is01(C) and C.sum()==K and np.all(np.diag(C)==0)): return False
        # band occupancy: ring distance
        d=np.array([[min((i-j)%n,(j-i)%n) for j in range(n)] for i in range(n)])
        if K==0: return True
        dmax=d[C==1].max()
        return all(np.all(C[d==b]==1) for b in range(1,dmax))
    rec('ringlattice',f,(n,K,seed))
    def f():
        Kt=rs.randint(1,max(2,(n*n-n)//2)); C=call(bct.maketoeplitzCIJ,n,Kt,rs.choice([1.0,2.0,3.0]),seed=seed,t=5); return np.sum(C)==Kt and np.all(np.diag(C)==0)
    rec('toeplitz',f,(n,seed))
    # degreesfixed: take degrees from random graph
    A=(rs.rand(n,n)<0.3).astype(int); np.fill_diagonal(A,0)
    inv=A.sum(0); outv=A.sum(1)
    def f():
        C=call(bct.makerandCIJdegreesfixed,inv,outv,seed=seed); return is01(C) and np.array_equal(C.sum(0),inv) and np.array_equal(C.sum(1),outv) and np.all(np.diag(C)==0)
    rec('degfixed',f,(inv,outv,seed))
for mx in (2,3,4):
  for sz in (1,2):
    for t in range(20):
        seed=int(rs.randint(1<<30)); n=2**mx
        def f():
            C,k=bct.makefractalCIJ(mx,2,sz,seed=seed); return C.shape==(n,n) and is01(C) and C.sum()==k and np.all(np.diag(C)==0)
        rec('fractal',f,(mx,sz,seed))
        def f():
            ncl=(n//2**sz)*(2**sz)*(2**sz-1)
            K=rs.randint(ncl,n*n-n+1); C=bct.makeevenCIJ(n,K,sz,seed=seed); return C.shape==(n,n) and is01(C) and C.sum()==K and np.all(np.diag(C)==0)
        rec('even',f,(n,sz,seed))
for k in sorted(res,key=str): print(k,res[k])
for k,v in ex.items(): print(k); print(v)
