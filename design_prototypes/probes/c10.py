import numpy as np, warnings
warnings.filterwarnings('ignore')
import bct
from collections import Counter
rs=np.random.RandomState(18); res=Counter(); ex={}
eq=lambda a,b: np.allclose(np.asarray(a,float),np.asarray(b,float),equal_nan=True)
def rec(nm,f,info):
    try: ok=bool(f())
    except Exception as e: ok=type(e).__name__+str(e)[:50]
    res[(nm,ok)]+=1
    if ok is not True and nm not in ex: ex[nm]=info
for t in range(300):
    n=rs.randint(3,9); p=rs.choice([0.2,0.4,0.7])
    Ad=(rs.rand(n,n)<p).astype(float); np.fill_diagonal(Ad,0); Au=np.triu(Ad,1); Au=Au+Au.T
    Wu=np.triu(Ad*rs.randint(1,9,size=(n,n))/8.0,1); Wu=Wu+Wu.T
    for nm,A in (('und',Au),('dir',Ad)):
        rec('dist_wei=bin_'+nm,lambda: eq(bct.distance_wei(A)[0],bct.distance_bin(A)),A)
        rec('bc_wei=bin_'+nm,lambda: eq(bct.betweenness_wei(A),bct.betweenness_bin(A)),A)
        rec('ebc_wei=bin_'+nm,lambda: eq(bct.edge_betweenness_wei(A)[0],bct.edge_betweenness_bin(A)[0]),A)
        rec('eff_wei=bin_glob_'+nm,lambda: eq(bct.efficiency_wei(A),bct.efficiency_bin(A)),A)
        rec('eff_wei=bin_loc_'+nm,lambda: eq(bct.efficiency_wei(A,True),bct.efficiency_bin(A,True)),A)
    rec('str=deg',lambda: eq(bct.strengths_und(Au),bct.degrees_und(Au)),Au)
    rec('assort_wei=bin',lambda: eq(bct.assortativity_wei(Au),bct.assortativity_bin(Au)),Au)
    rec('degdir_on_sym',lambda: (lambda r: eq(r[0],bct.degrees_und(Au)) and eq(r[1],bct.degrees_und(Au)))(bct.degrees_dir(Au)),Au)
    rec('deg_ignores_w',lambda: eq(bct.degrees_und(Wu),bct.degrees_und((Wu!=0).astype(float))),Wu)
    rec('distance_bin_ignores_w',lambda: eq(bct.distance_bin(Wu),bct.distance_bin((Wu!=0).astype(float))),Wu)
    rec('bc_bin_ignores_w',lambda: eq(bct.betweenness_bin(Wu),bct.betweenness_bin((Wu!=0).astype(float))),Wu)
    rec('kcore_ignores_w',lambda: eq(bct.kcore_bu(Wu,2)[1],bct.kcore_bu((Wu!=0).astype(float),2)[1]),Wu)
    rec('eff_bin_ignores_w',lambda: eq(bct.efficiency_bin(Wu),bct.efficiency_bin((Wu!=0).astype(float))),Wu)
    rec('assort_bin_ignores_w',lambda: eq(bct.assortativity_bin(Wu),bct.assortativity_bin((Wu!=0).astype(float))),Wu)
    rec('cc_bu_ignores_w?',lambda: eq(bct.clustering_coef_bu(Wu),bct.clustering_coef_bu((Wu!=0).astype(float))),Wu)
for k in sorted(res,key=str):
    if k[1] is not True: print(k,res[k])
print(sum(v for k,v in res.items() if k[1] is True),'ok')
for k,v in ex.items(): print(k); print(v)
