import numpy as np, sys, warnings, itertools
warnings.filterwarnings('ignore')
import bct
from tmo import call, TO
from collections import Counter
res=Counter(); ex={}
rs=np.random.RandomState(10)
def rec(name,f,info):
    try: ok=f()
    except TO: ok='TIMEOUT'
    except Exception as e: ok=type(e).__name__+':'+str(e)[:60]
    if ok is not True and ok is not False and not isinstance(ok,str): ok=bool(ok)
    res[(name,ok)]+=1
    if ok is not True and name not in ex: ex[name]=info
def Qdir(W,ci,g=1.0):
    s=W.sum(); ko=W.sum(1); ki=W.sum(0); d=(ci[:,None]==ci[None,:])
    return ((W-g*np.outer(ko,ki)/s)*d).sum()/s
def Qsign(W,ci,g,qtype):
    W0=W*(W>0); W1=-W*(W<0); s0=W0.sum(); s1=W1.sum(); d=(ci[:,None]==ci[None,:])
    q0=((W0-g*np.outer(W0.sum(1),W0.sum(0))/(s0 if s0 else 1))*d).sum(); q1=((W1-g*np.outer(W1.sum(1),W1.sum(0))/(s1 if s1 else 1))*d).sum()
    d0,d1={'smp':(1/s0 if s0 else 0,1/s1 if s1 else 0),'gja':(1/(s0+s1),1/(s0+s1)),'sta':(1/s0 if s0 else 0,1/(s0+s1)),'pos':(1/s0 if s0 else 0,0),'neg':(0,1/s1 if s1 else 0)}[qtype]
    if not s0: d0=0
    if not s1: d1=0
    return d0*q0-d1*q1
def valid(ci,n): 
    ci=np.asarray(ci); return len(ci)==n and np.all(ci==ci.astype(int)) and set(ci.astype(int))==set(range(1,int(ci.max())+1))
for t in range(150):
    n=rs.randint(4,10)
    Wd=rs.randint(0,4,size=(n,n)).astype(float)*(rs.rand(n,n)<0.5); np.fill_diagonal(Wd,0)
    Wu=np.triu(Wd,1); Wu=Wu+Wu.T
    if Wu.sum()==0 or Wd.sum()==0: continue
    Ws=Wu*np.where(rs.rand(n,n)<0.35,-1,1); Ws=np.triu(Ws,1); Ws=Ws+Ws.T
    seed=int(rs.randint(1<<30)); g=rs.choice([1.0,0.8,1.3]); ci0=rs.randint(1,4,size=n)
    for nm,W in (('louvain_und',Wu),('louvain_dir',Wd),('louvain_dir_onUnd',Wu)):
        fn=bct.modularity_louvain_und if nm=='louvain_und' else bct.modularity_louvain_dir
        def f():
            ci,q=call(fn,W,gamma=g,seed=seed); return valid(ci,n) and np.isclose(q,Qdir(W,ci,g))
        rec(nm+'_Q',f,(W,g,seed))
        def f():
            ci,q=call(fn,W,gamma=g,seed=seed,hierarchy=True); return all(valid(c,n) and np.isclose(qq,Qdir(W,c,g)) for c,qq in zip(ci,q)) and all(b>a for a,b in zip(q,q[1:]))
        rec(nm+'_hier',f,(W,g,seed))
        def f():
            ci,q=call(fn,W,gamma=g,seed=seed); return q>=Qdir(W,np.arange(n)+1,g)-1e-9
        rec(nm+'_mono',f,(W,g,seed))
    for nm,fn,W in (('finetune_und',bct.modularity_finetune_und,Wu),('finetune_dir',bct.modularity_finetune_dir,Wd)):
        def f():
            ci,q=call(fn,W,ci=ci0.copy(),gamma=g,seed=seed); return valid(ci,n) and np.isclose(q,Qdir(W,ci,g))
        rec(nm+'_Q',f,(W,ci0,g,seed))
        def f():
            ci,q=call(fn,W,ci=ci0.copy(),gamma=g,seed=seed); return Qdir(W,ci,g)>=Qdir(W,ci0,g)-1e-9
        rec(nm+'_mono',f,(W,ci0,g,seed))
    for B in ('modularity','potts','negative_sym','negative_asym'):
        for nm,W in (('und',Wu),('dir',Wd),('sign',Ws)):
            if B=='potts': W=(W!=0).astype(float)
            if nm=='sign' and B in ('modularity','potts'): continue
            def f():
                ci,q=call(bct.community_louvain,W,gamma=g,B=B,seed=seed,ci=ci0.copy());
                if not valid(ci,n): return 'invalid'
                if B=='modularity': return bool(np.isclose(q,Qdir(W,ci,g)))
                if B=='negative_sym': return bool(np.isclose(q,Qsign(W,ci,g,'gja')))
                if B=='negative_asym': return bool(np.isclose(q,Qsign(W,ci,g,'sta')))
                return True
            rec('cl_%s_%s_Q'%(B,nm),f,(W,g,seed,ci0))
            if B=='modularity':
                def f():
                    ci,q=call(bct.community_louvain,W,gamma=g,B=B,seed=seed,ci=ci0.copy()); return Qdir(W,ci,g)>=Qdir(W,ci0,g)-1e-9
                rec('cl_%s_%s_mono'%(B,nm),f,(W,g,seed,ci0))
    for qt in ('sta','pos','smp','gja','neg'):
        def f():
            ci,q=call(bct.modularity_louvain_und_sign,Ws,gamma=g,qtype=qt,seed=seed); return valid(ci,n) and np.isclose(q,Qsign(Ws,ci,g,qt))
        rec('louvain_sign_Q_g%s'%g,f,(Ws,g,qt,seed))
        def f():
            ci,q=call(bct.modularity_finetune_und_sign,Ws,gamma=g,qtype=qt,seed=seed,ci=ci0.copy()); return valid(ci,n) and np.isclose(q,Qsign(Ws,ci,g,qt))
        rec('finetune_sign_Q_g%s'%g,f,(Ws,g,qt,seed))
        def f():
            ci,q=call(bct.modularity_finetune_und_sign,Ws,gamma=g,qtype=qt,seed=seed,ci=ci0.copy()); return Qsign(Ws,ci,g,qt)>=Qsign(Ws,ci0,g,qt)-1e-9
        rec('finetune_sign_mono',f,(Ws,g,qt,seed))
        def f():
            ci,q=call(bct.modularity_probtune_und_sign,Ws,gamma=g,qtype=qt,seed=seed,ci=ci0.copy()); return valid(ci,n) and np.isclose(q,Qsign(Ws,ci,g,qt))
        rec('probtune_sign_Q_g%s'%g,f,(Ws,g,qt,seed))
        def f():
            ci,q=bct.modularity_und_sign(Ws,ci0,qtype=qt); return np.isclose(q,Qsign(Ws,ci0,1.0,qt))
        rec('und_sign_given',f,(Ws,qt))
    def f():
        ci,q=bct.modularity_und(Wu,gamma=g); return valid(ci,n) and np.isclose(q,Qdir(Wu,ci,g))
    rec('modularity_und',f,(Wu,g))
    def f():
        ci,q=bct.modularity_dir(Wd,gamma=g); return valid(ci,n) and np.isclose(q,Qdir(Wd,ci,g))
    rec('modularity_dir',f,(Wd,g))
    def f():
        ci,q=bct.modularity_und(Wu,gamma=g,kci=ci0); return np.isclose(q,Qdir(Wu,ci0,g))
    rec('modularity_und_given',f,(Wu,g))
    def f():
        ci,q=bct.modularity_dir(Wd,gamma=g,kci=ci0); return np.isclose(q,Qdir(Wd,ci0,g))
    rec('modularity_dir_given',f,(Wd,g))
for k in sorted(res,key=str): print(k,res[k])
import pickle; pickle.dump(ex,open('c02_ex.pkl','wb'))
