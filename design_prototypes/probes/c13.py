import numpy as np, sys, warnings, itertools, inspect, io, contextlib
warnings.filterwarnings('ignore')
import bct
from tmo import call, TO
from collections import Counter
rs=np.random.RandomState(13)
n=7
def und(): 
    A=np.triu(rs.randint(0,4,size=(n,n)).astype(float)*(rs.rand(n,n)<0.6),1); A=A+A.T+np.diag(rs.randint(1,3,size=n)); return A
def dirm():
    A=rs.randint(0,4,size=(n,n)).astype(float)*(rs.rand(n,n)<0.5); A[np.arange(n),np.arange(n)]=rs.randint(1,3,size=n); return A
def signed(): 
    A=und(); S=np.where(rs.rand(n,n)<0.3,-1,1); S=np.triu(S,1); S=S+S.T+np.eye(n); return A*S
mut=[]; 
names=[k for k,v in vars(bct).items() if inspect.isfunction(v) and v.__module__.startswith('bct') and not k.startswith('_')]
skip={'find_motif34','make_motif34lib','link_communities','generative_model','evaluate_generative_model','nbs_bct','adjacency_plot_und','align_matrices','backbone_wu','grid_communities','reorderMAT','reorder_matrix','reorder_mod','writetoPAJ','findpaths','consensus_und','mleme_constraint_model','generate_fc','rentian_scaling','dummyvar','clique_communities','path_transitivity','search_information'}
out=Counter()
for nm in sorted(names):
    if nm in skip: continue
    f=getattr(bct,nm); sig=inspect.signature(f); ps=list(sig.parameters.values())
    first=ps[0].name if ps else None
    cands=[]
    for M in (und(),dirm(),signed(),(und()!=0).astype(float)):
        args=[M]
        ok=True
        for p in ps[1:]:
            if p.default is not inspect._empty: break
            pn=p.name
            if pn in ('ci','kci','Ci','cy','cx'): args.append(rs.randint(1,4,size=n))
            elif pn in ('k','itr','thr','klevel','nr_steps','maxswap'): args.append(2)
            elif pn in ('p','alpha','d','tau','lamb'): args.append(0.5)
            elif pn in ('s',): args.append(2.0)
            elif pn in ('D','B','a2'): args.append(und())
            elif pn=='wcm': args.append('binarize')
            elif pn=='source': args.append(0)
            elif pn in ('gamma',): args.append(1.0)
            else: ok=False; break
        if ok: cands.append(args)
    if not cands: out['noargs:'+nm]+=1; continue
    for args in cands:
        snap=[a.copy() if isinstance(a,np.ndarray) else a for a in args]
        try:
            with contextlib.redirect_stdout(io.StringIO()):
                kw={'seed':1} if 'seed' in sig.parameters else {}
                call(f,*args,t=5,**kw)
            st='ok'
        except TO: st='TO'
        except Exception as e: st='exc'
        ch=[i for i,(a,b) in enumerate(zip(args,snap)) if isinstance(a,np.ndarray) and not (np.array_equal(a,b,equal_nan=True) and a.dtype==b.dtype and a.shape==b.shape)]
        if ch: mut.append((nm,st,ch))
        out[st]+=1
print(out)
from collections import defaultdict
d=defaultdict(set)
for nm,st,ch in mut: d[nm].add((st,tuple(ch)))
for k,v in d.items(): print('MUTATES',k,v)
