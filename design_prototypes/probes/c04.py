import numpy as np, sys, warnings, itertools, io, contextlib
warnings.filterwarnings('ignore')
import bct
from collections import Counter
rs=np.random.RandomState(14)
res=Counter(); ex={}
def pv(x,p): return x[p]
def pm(x,p): return x[np.ix_(p,p)]
def sc(x,p): return x
def eq(a,b): return np.allclose(np.asarray(a,float),np.asarray(b,float),equal_nan=True,atol=1e-9)
und_w=[('strengths_und',bct.strengths_und,pv),('degrees_und',bct.degrees_und,pv),('clustering_coef_wu',bct.clustering_coef_wu,pv),('transitivity_wu',bct.transitivity_wu,sc),
 ('efficiency_wei',bct.efficiency_wei,sc),('efficiency_wei_loc',lambda W:bct.efficiency_wei(W,True),pv),('assortativity_wei',bct.assortativity_wei,sc),
 ('eigenvector',bct.eigenvector_centrality_und,pv),('pagerank',lambda W:bct.pagerank_centrality(W,0.85),pv),('density_und',lambda W:bct.density_und(W)[0],sc),
 ('rich_club_wu',bct.rich_club_wu,sc),('distance_wei_inv',lambda W:bct.distance_wei(bct.invert(W))[0],pm),('betweenness_wei',lambda W:bct.betweenness_wei(bct.invert(W)),pv),
 ('edge_betweenness_wei',lambda W:bct.edge_betweenness_wei(bct.invert(W))[0],pm),('floyd',lambda W:bct.distance_wei_floyd(W,'inv')[0],pm),('score_wu',lambda W:bct.score_wu(W,1.0)[0],pm),
 ('mfpt',bct.mean_first_passage_time,pm),('get_components_n',lambda W: len(bct.get_components(W)[1]),sc)]
und_b=[('clustering_coef_bu',bct.clustering_coef_bu,pv),('transitivity_bu',bct.transitivity_bu,sc),('efficiency_bin',bct.efficiency_bin,sc),('efficiency_bin_loc',lambda A:bct.efficiency_bin(A,True),pv),
 ('betweenness_bin',bct.betweenness_bin,pv),('edge_betweenness_bin',lambda A:bct.edge_betweenness_bin(A)[0],pm),('distance_bin',bct.distance_bin,pm),('breadthdist',lambda A:bct.breadthdist(A)[1],pm),('reachdist',lambda A:bct.reachdist(A)[1],pm),
 ('kcore_bu',lambda A:bct.kcore_bu(A,2)[0],pm),('kcoreness_bu',lambda A:bct.kcoreness_centrality_bu(A)[0],pv),('rich_club_bu',lambda A:bct.rich_club_bu(A)[0],sc),('assortativity_bin',bct.assortativity_bin,sc),
 ('subgraph',bct.subgraph_centrality,pv),('matching_ind_und',bct.matching_ind_und,pm),('gtom1',lambda A:bct.gtom(A,1),pm),('gtom3',lambda A:bct.gtom(A,3),pm),('gtom4',lambda A:bct.gtom(A,4),pm),('edge_nei_overlap_bu',lambda A:bct.edge_nei_overlap_bu(A)[0],pm),
 ('findwalks',lambda A:bct.findwalks(A)[2],sc),('charpath',lambda A:bct.charpath(bct.distance_bin(A))[0],sc)]
dir_b=[('degrees_dir_in',lambda A:bct.degrees_dir(A)[0],pv),('clustering_coef_bd',bct.clustering_coef_bd,pv),('transitivity_bd',bct.transitivity_bd,sc),('kcore_bd',lambda A:bct.kcore_bd(A,2)[0],pm),
 ('kcoreness_bd',lambda A:bct.kcoreness_centrality_bd(A)[0],pv),('flow_coef_bd',lambda A:bct.flow_coef_bd(A)[0],pv),('matching_ind',lambda A:bct.matching_ind(A)[2],pm),('edge_nei_overlap_bd',lambda A:bct.edge_nei_overlap_bd(A)[0],pm),
 ('betweenness_bin_d',bct.betweenness_bin,pv),('distance_bin_d',bct.distance_bin,pm),('reachdist_d',lambda A:bct.reachdist(A)[1],pm),('rich_club_bd',lambda A:bct.rich_club_bd(A)[0],sc),('jdegree',lambda A:bct.jdegree(A)[0],sc),('density_dir',lambda A:bct.density_dir(A)[0],sc),('assort_bin1',lambda A:bct.assortativity_bin(A,1),sc)]
dir_w=[('strengths_dir',bct.strengths_dir,pv),('clustering_coef_wd',bct.clustering_coef_wd,pv),('transitivity_wd',bct.transitivity_wd,sc),('rich_club_wd',bct.rich_club_wd,sc),('assort_wei4',lambda A:bct.assortativity_wei(A,4),sc)]
for t in range(80):
    n=rs.randint(4,9); p=rs.permutation(n)
    Wd=rs.randint(1,5,size=(n,n)).astype(float)*(rs.rand(n,n)<0.5); np.fill_diagonal(Wd,0)
    Wu=np.triu(Wd,1); Wu=Wu+Wu.T
    for lst,M in ((und_w,Wu/4),(und_b,(Wu!=0).astype(float)),(dir_b,(Wd!=0).astype(float)),(dir_w,Wd/4)):
        for nm,f,tr in lst:
            if nm in('mfpt',) and bct.number_of_components(Wu)>1: continue
            try:
                with contextlib.redirect_stdout(io.StringIO()):
                    a=f(pm(M,p).copy()); b=tr(np.asarray(f(M.copy())),p)
                ok=eq(a,b)
            except Exception as e: ok=type(e).__name__+str(e)[:40]
            res[(nm,ok)]+=1
            if ok is not True and nm not in ex: ex[nm]=(M,p)
for k in sorted(res,key=str):
    if k[1] is not True: print(k,res[k])
print(sum(v for k,v in res.items() if k[1] is True),'ok')
