import numpy as np, sys, warnings, itertools
warnings.filterwarnings('ignore')
import bct
from fractions import Fraction
from collections import Counter
rs=np.random.RandomState(4)
res=Counter(); ex={}
def brute(W):
    n=len(W)
    # all-pairs dist and path counts via DP on Floyd-like: count shortest paths by Bellman ordering
    D=np.where(W!=0,W,np.inf).astype(float); np.fill_diagonal(D,0)
    for k in range(n): D=np.minimum(D,D[:,[k]]+D[[k],:])
    # sigma[s][t] number of shortest paths
    sig=np.zeros((n,n))
    for s in range(n):
        order=np.argsort(D[s]); sig[s,s]=1
        for v in order:
            if v==s or np.isinf(D[s,v]): continue
            sig[s,v]=sum(sig[s,u] for u in range(n) if W[u,v]!=0 and u!=v and D[s,u]+W[u,v]==D[s,v])
    BC=np.zeros(n); EBC=np.zeros((n,n))
    for s in range(n):
        for t in range(n):
            if s==t or np.isinf(D[s,t]): continue
            for v in range(n):
                if v!=s and v!=t and D[s,v]+D[v,t]==D[s,t]: BC[v]+=sig[s,v]*sig[v,t]/sig[s,t]
            for u in range(n):
                for v in range(n):
                    if u!=v and W[u,v]!=0 and D[s,u]+W[u,v]+D[v,t]==D[s,t]: EBC[u,v]+=sig[s,u]*sig[v,t]/sig[s,t]
    return BC,EBC,D
for t in range(400):
    n=rs.randint(2,8); p=rs.choice([0.15,0.3,0.5])
    A=(rs.rand(n,n)<p).astype(float); np.fill_diagonal(A,0)
    und=rs.rand()<0.5
    if und: A=np.triu(A,1); A=A+A.T
    W=A*rs.randint(1,4,size=(n,n))
    if und: W=np.triu(W,1); W=W+W.T
    conn=None
    BCb,EBCb,Db=brute(A); BCw,EBCw,Dw=brute(W)
    conn=bool(np.all(np.isfinite(Db)))
    def rec(name,f):
        try: ok=bool(f())
        except Exception as e: ok=type(e).__name__+':'+str(e)[:50]
        res[(name,conn,ok)]+=1
        if ok is not True and (name,conn) not in ex: ex[(name,conn)]=(A.astype(int),W.astype(int))
    rec('bc_bin',lambda: np.allclose(bct.betweenness_bin(A),BCb))
    rec('bc_wei',lambda: np.allclose(bct.betweenness_wei(W),BCw))
    rec('bc_wei_on_bin',lambda: np.allclose(bct.betweenness_wei(A),BCb))
    rec('ebc_bin',lambda: (lambda r: np.allclose(r[0],EBCb) and np.allclose(r[1],BCb))(bct.edge_betweenness_bin(A)))
    rec('ebc_wei',lambda: (lambda r: np.allclose(r[0],EBCw) and np.allclose(r[1],BCw))(bct.edge_betweenness_wei(W)))
for k in sorted(res,key=str): print(k,res[k])
for k,v in ex.items(): print(k); [print(x) for x in v]
