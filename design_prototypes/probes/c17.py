import numpy as np, sys, warnings, itertools
warnings.filterwarnings('ignore')
import bct
from collections import Counter
res=Counter(); ex={}
rs=np.random.RandomState(8)
def rec(name,ok,info):
    ok=bool(ok); res[(name,ok)]+=1
    if not ok and name not in ex: ex[name]=info
def tround(x):
    import math
    return int(math.floor(x+0.5))
for t in range(2000):
    n=rs.randint(2,8)
    W=rs.randint(0,5,size=(n,n)).astype(float)*(rs.rand(n,n)<rs.choice([0.3,0.7,1.0]))
    sym=rs.rand()<0.5
    if sym: W=np.triu(W,1)+np.triu(W,1).T+np.diag(np.diag(W))
    p=rs.choice([0,1,rs.rand(),rs.randint(0,n*n-n+1)/(n*n-n), (rs.randint(0,n*n-n)+0.5)/(n*n-n)])
    W0=W.copy()
    R=bct.threshold_proportional(W,p)
    rec('tp_nomut',np.array_equal(W,W0),(W0,p))
    Wd=W0.copy(); np.fill_diagonal(Wd,0)
    issym=np.allclose(Wd,Wd.T)
    poss=n*n-n
    nnz_in=(Wd!=0).sum()
    if issym:
        en=tround(poss*p/2); want=2*min(en,nnz_in//2)
    else:
        en=tround(poss*p); want=min(en,nnz_in)
    rec('tp_count',(R!=0).sum()==want,(W0,p,(R!=0).sum(),want))
    rec('tp_diag',np.all(np.diag(R)==0),(W0,p))
    rec('tp_subset',np.all((R==0)|(R==Wd)),(W0,p))
    kept=R[R!=0]; dropped=Wd[(Wd!=0)&(R==0)]
    rec('tp_strongest',(len(kept)==0 or len(dropped)==0 or kept.min()>=dropped.max()),(W0,p,R))
    if issym: rec('tp_sym',np.array_equal(R,R.T),(W0,p,R))
    # copy=False
    Wc=W0.copy(); R2=bct.threshold_proportional(Wc,p,copy=False)
    rec('tp_inplace',R2 is Wc and np.array_equal(R2,R),(W0,p))
    # absolute
    thr=rs.choice([0,1,2,2.5,-1])
    Ws=W0*np.where(rs.rand(n,n)<0.3,-1,1)
    Ws0=Ws.copy(); R=bct.threshold_absolute(Ws,thr)
    E=Ws0.copy(); np.fill_diagonal(E,0); E[E<thr]=0
    rec('ta',np.array_equal(R,E) and np.array_equal(Ws,Ws0),(Ws0,thr))
    Wc=Ws0.copy(); R2=bct.threshold_absolute(Wc,thr,copy=False); rec('ta_inplace',R2 is Wc and np.array_equal(R2,E),0)
    # binarize / normalize / invert
    R=bct.binarize(Ws); rec('bin',np.array_equal(R,(Ws0!=0).astype(float)) and np.array_equal(Ws,Ws0),Ws0)
    if np.any(Ws0!=0):
        R=bct.normalize(Ws); rec('norm',np.isclose(np.abs(R).max(),1) and np.allclose(R*np.abs(Ws0).max(),Ws0) and np.array_equal(Ws,Ws0),Ws0)
        Wc=Ws0.copy(); R2=bct.normalize(Wc,copy=False); rec('norm_inplace',R2 is Wc,0)
    R=bct.invert(Ws); E=np.where(Ws0!=0,1/np.where(Ws0!=0,Ws0,1),0); rec('inv',np.allclose(R,E) and np.array_equal(Ws,Ws0) and np.allclose(bct.invert(R),Ws0),Ws0)
    for wcm,f in (('binarize',bct.binarize),('normalize',bct.normalize),('lengths',bct.invert)):
        if np.any(Ws0!=0): rec('wc_'+wcm,np.array_equal(bct.weight_conversion(Ws,wcm),f(Ws)),0)
    Wc=Ws0.copy(); R2=bct.weight_conversion(Wc,'binarize',copy=False); rec('wc_inplace',R2 is Wc,0)
for k in sorted(res,key=str): print(k,res[k])
for k,v in ex.items(): print(k); print(v)
