import signal
class TO(Exception): pass
def _h(s,f): raise TO()
signal.signal(signal.SIGALRM,_h)
def call(f,*a,t=3,**k):
    signal.setitimer(signal.ITIMER_REAL,t)
    try: return f(*a,**k)
    finally: signal.setitimer(signal.ITIMER_REAL,0)
