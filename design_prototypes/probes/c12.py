import numpy as np, sys, warnings, itertools
warnings.filterwarnings('ignore')
import bct
from tmo import call, TO
from collections import Counter
rs=np.random.RandomState(3)
res=Counter(); ex={}
def fw(L):
    n=len(L); D=np.where(L!=0,L,np.inf).astype(float)
    for k in range(n): D=np.minimum(D,D[:,[k]]+D[[k],:])
    return D
for t in range(600):
    n=rs.randint(2,8); p=rs.choice([0.2,0.35,0.6])
    A=(rs.rand(n,n)<p).astype(float); np.fill_diagonal(A,0)
    und=rs.rand()<0.5
    W=A*rs.randint(1,4,size=(n,n))
    if und: W=np.triu(W,1); W=W+W.T
    S,H,P=bct.distance_wei_floyd(W)
    Dw=fw(W)
    ok=True; why=None
    for s in range(n):
        for t_ in range(n):
            if s==t_: continue
            path=bct.retrieve_shortest_path(s,t_,H,P)
            path=[int(x) for x in np.ravel(path)]
            if np.isinf(Dw[s,t_]):
                if len(path)!=0: ok=False; why=('nonempty-unreach',s,t_,path)
                continue
            if len(path)==0: ok=False; why=('empty-reach',s,t_); continue
            if path[0]!=s or path[-1]!=t_: ok=False; why=('ends',s,t_,path,H[s,t_]); continue
            if len(path)-1!=H[s,t_]: ok=False; why=('hops',s,t_,path)
            if any(W[a,b]==0 for a,b in zip(path,path[1:])): ok=False; why=('nonedge',s,t_,path); continue
            if sum(W[a,b] for a,b in zip(path,path[1:]))!=S[s,t_]: ok=False; why=('len',s,t_,path)
    res[('floyd_paths',ok)]+=1
    if not ok and 'fp' not in ex: ex['fp']=(W,why,H,P,S)
    # navigation
    L=W; D=rs.randint(1,6,size=(n,n)).astype(float); D=np.triu(D,1); D=D+D.T
    for mh in (None,2):
        try: sr,PLb,PLw,PLd,paths=call(bct.navigation_wu,L,D,max_hops=mh,t=2)
        except TO: res[("nav",mh,"TIMEOUT",und)]+=1; continue
        ok=True; why=None; succ=0
        for (i,j),pth in paths.items():
            if np.isinf(PLb[i,j]):
                if not (np.isinf(PLw[i,j]) and np.isinf(PLd[i,j])): ok=False; why='inf-mismatch'
                continue
            succ+=1
            if pth[0]!=i or pth[-1]!=j: ok=False; why=('ends',i,j,pth)
            if any(L[a,b]==0 for a,b in zip(pth,pth[1:])): ok=False; why=('nonedge',i,j,pth)
            if len(pth)-1!=PLb[i,j] or sum(L[a,b] for a,b in zip(pth,pth[1:]))!=PLw[i,j] or sum(D[a,b] for a,b in zip(pth,pth[1:]))!=PLd[i,j]: ok=False; why=('lens',i,j,pth)
            if mh is not None and PLb[i,j]>mh: ok=False; why=('maxhops',i,j,pth,PLb[i,j])
        if n>1 and not np.isclose(sr,succ/(n*n-n)): ok=False; why=('sr',sr,succ)
        res[('nav',mh,ok)]+=1
        if not ok and ('nav',mh) not in ex: ex[('nav',mh)]=(L,D,why)
for k in sorted(res,key=str): print(k,res[k])
for k,v in ex.items(): print(k); [print(x) for x in v]
