import numpy as np, sys, warnings, itertools
warnings.filterwarnings('ignore')
import bct
from collections import Counter
res=Counter(); ex={}
rs=np.random.RandomState(11)
def rec(name,f,info):
    try: ok=f()
    except Exception as e: ok=type(e).__name__+':'+str(e)[:60]
    if not isinstance(ok,str): ok=bool(ok)
    res[(name,ok)]+=1
    if ok is not True and name not in ex: ex[name]=info
eq=lambda a,b: all(np.allclose(x,y,equal_nan=True) for x,y in zip(a,b)) if isinstance(a,tuple) else np.allclose(a,b,equal_nan=True)
for t in range(300):
    n=rs.randint(3,10)
    Wd=rs.randint(0,4,size=(n,n)).astype(float)*(rs.rand(n,n)<0.6); np.fill_diagonal(Wd,0)
    Wu=np.triu(Wd,1); Wu=Wu+Wu.T
    Ws=Wu*np.where(rs.rand(n,n)<0.35,-1,1); Ws=np.triu(Ws,1); Ws=Ws+Ws.T
    ci=rs.randint(1,4,size=n)
    labs=rs.choice([0,-5,100,7,3,2,1,50],size=3,replace=False)
    rel=np.array([labs[c-1] for c in ci])
    for nm,f in (('pc',lambda c: bct.participation_coef(Wu,c)),('pc_in',lambda c: bct.participation_coef(Wd,c,'in')),
                 ('pc_sign',lambda c: bct.participation_coef_sign(Ws,c)),('zscore',lambda c: bct.module_degree_zscore(Wu,c)),
                 ('zscore3',lambda c: bct.module_degree_zscore(Wd,c,3)),
                 ('diversity',lambda c: bct.diversity_coef_sign(Ws,c)),('gateway',lambda c: bct.gateway_coef_sign(Ws.copy(),c)),
                 ('gateway_bc',lambda c: bct.gateway_coef_sign(Ws.copy(),c,'betweenness')),
                 ('mod_und',lambda c: bct.modularity_und(Wu,kci=c)[1]),('mod_dir',lambda c: bct.modularity_dir(Wd,kci=c)[1]),
                 ('mod_und_sign',lambda c: bct.modularity_und_sign(Ws,c)[1]),
                 ('pdist',lambda c: bct.partition_distance(c,rs2)),('pdist2',lambda c: bct.partition_distance(rs2,c))):
        rs2=np.random.RandomState(t).randint(0,3,size=n)
        rec(nm,lambda: eq(f(ci.copy()),f(rel.copy())),(Wu,Wd,Ws,ci,rel))
    cx=rs.randint(0,3,size=n); cy=rs.randint(0,4,size=n)
    rec('pd_sym',lambda: eq(bct.partition_distance(cx,cy),bct.partition_distance(cy,cx)),(cx,cy))
    rec('pd_self',lambda: (lambda r: (abs(r[0])<1e-12 and (abs(r[1]-1)<1e-12 or len(set(cx))==1)))(bct.partition_distance(cx,rel if False else np.array([{0:9,1:4,2:-1}[c] for c in cx]))),(cx,))
    rec('pd_range',lambda: (lambda r: -1e-12<=r[0]<=1+1e-12)(bct.partition_distance(cx,cy)),(cx,cy))
    same=len(set(zip(cx,cy)))==len(set(cx))==len(set(cy))
    rec('pd_zero_iff',lambda: (abs(bct.partition_distance(cx,cy)[0])<1e-12)==same,(cx,cy))
    ls=bct.ci2ls(ci.copy()); ci2=bct.ls2ci(ls)
    rec('ci2ls',lambda: all((ci[i]==ci[j])==(ci2[i]==ci2[j]) for i in range(n) for j in range(n)) and sorted(sum(ls,[]))==list(range(n)),(ci,))
    # agreement relabel
    cis=np.stack([ci,cx+1],1); cis2=np.stack([rel,cx+10],1)
    rec('agreement',lambda: np.array_equal(bct.agreement(cis),bct.agreement(cis2)),(cis,cis2))
for k in sorted(res,key=str): print(k,res[k])
for k,v in ex.items(): print(k); print(v)
