import numpy as np, bct
class Rec(np.random.RandomState):
    def __init__(self,seed): super().__init__(seed); self.log=[]
    def randint(self,*a,**k):
        r=super().randint(*a,**k); self.log.append(('randint',a,k,np.asarray(r).tolist())); return r
    def random_sample(self,*a,**k):
        r=super().random_sample(*a,**k); self.log.append(('random_sample',a,k,np.asarray(r).tolist())); return r
    def permutation(self,*a,**k):
        r=super().permutation(*a,**k); self.log.append(('permutation',a,k,np.asarray(r).tolist())); return r
r=Rec(3)
A=np.array([[0,1,1,0,0],[1,0,0,1,0],[1,0,0,0,1],[0,1,0,0,1],[0,0,1,1,0.]])
R,eff=bct.randmio_und(A,2,seed=r)
print(eff,len(r.log),r.log[:4])
R2,eff2=bct.randmio_und(A,2,seed=3); print(np.array_equal(R,R2))
print(float.hex(0.1), (0.75).as_integer_ratio())
