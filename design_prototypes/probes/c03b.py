import numpy as np, itertools, warnings
warnings.filterwarnings('ignore')
import bct
from collections import Counter
def fw(L):
    n=len(L); D=np.where(L!=0,L,np.inf).astype(float)
    for k in range(n): D=np.minimum(D,D[:,[k]]+D[[k],:])
    return D
res=Counter(); ex={}
for n in range(2,5):
    cells=[(i,j) for i in range(n) for j in range(n) if i!=j]
    for m in range(1<<len(cells)):
        A=np.zeros((n,n))
        for b,(i,j) in enumerate(cells):
            if m>>b&1: A[i,j]=1
        Dt=fw(A); o=~np.eye(n,dtype=bool)
        for nm,f in (('reachdist',lambda: bct.reachdist(A)),('breadthdist',lambda: bct.breadthdist(A))):
            try:
                R,D=f(); ok=np.array_equal(D[o],Dt[o]) and np.array_equal(np.asarray(R)[o]!=0,np.isfinite(Dt[o]))
            except Exception as e: ok=type(e).__name__
            res[(nm,n,ok)]+=1
            if ok is not True and nm not in ex: ex[nm]=A
        try:
            ok=np.array_equal(bct.distance_bin(A),np.where(o,Dt,0))
        except Exception as e: ok=type(e).__name__
        res[('distance_bin',n,ok)]+=1
for k in sorted(res,key=str): print(k,res[k])
for k,v in ex.items(): print(k); print(v); print(bct.reachdist(v) if k=='reachdist' else '')
# floyd tie stress: weights from {1,2} with many ties, check hops/path consistency
rs=np.random.RandomState(0); bad=0; tot=0
for t in range(3000):
    n=rs.randint(3,7); W=rs.randint(0,3,size=(n,n)).astype(float)*(rs.rand(n,n)<0.7); np.fill_diagonal(W,0)
    S,H,P=bct.distance_wei_floyd(W); Dw=fw(W)
    for s in range(n):
        for t_ in range(n):
            if s==t_ or np.isinf(Dw[s,t_]): continue
            tot+=1
            path=[int(x) for x in np.ravel(bct.retrieve_shortest_path(s,t_,H,P))]
            good=path and path[0]==s and path[-1]==t_ and all(W[a,b]!=0 for a,b in zip(path,path[1:])) and sum(W[a,b] for a,b in zip(path,path[1:]))==S[s,t_]==Dw[s,t_] and len(path)-1==H[s,t_]
            if not good:
                bad+=1
                if bad<3: print('BAD',W,s,t_,path,H[s,t_],S[s,t_])
print('floyd tie stress bad',bad,'of',tot)
