import numpy as np, sys, warnings
warnings.filterwarnings('ignore')
sys.path.insert(0,'/repo')
import bct
from tmo import call, TO
def rand_und(n,p,rs,weighted=True):
    A=np.triu((rs.rand(n,n)<p).astype(float),1)
    if weighted: A=A*rs.randint(1,9,size=(n,n))
    return A+A.T
def rand_dir(n,p,rs,weighted=True):
    A=(rs.rand(n,n)<p).astype(float); np.fill_diagonal(A,0)
    if weighted: A=A*rs.randint(1,9,size=(n,n))
    return A
def check(name,A,R,und,directed_strength=False):
    errs=[]
    if not np.array_equal((A!=0).sum(0),(R!=0).sum(0)): errs.append('indeg')
    if not np.array_equal((A!=0).sum(1),(R!=0).sum(1)): errs.append('outdeg')
    if not np.array_equal(np.sort(A[A!=0]),np.sort(R[R!=0])): errs.append('weights')
    if np.any(np.diag(R)!=0): errs.append('diag')
    if und and not np.array_equal(R,R.T): errs.append('sym')
    if not und and not np.allclose(A.sum(1),R.sum(1)): errs.append('outstrength')
    return errs
rs=np.random.RandomState(0)
from collections import Counter
res=Counter()
for t in range(60):
    n=rs.randint(5,10)
    Au=rand_und(n,0.4,rs); Ad=rand_dir(n,0.3,rs)
    seed=int(rs.randint(1<<30))
    for name,A,und in [('randmio_und',Au,True),('randmio_dir',Ad,False),('randmio_und_connected',Au,True),('randmio_dir_connected',Ad,False)]:
        try:
            R,eff=call(getattr(bct,name),A,3,seed=seed)
            e=check(name,A,R,und)
            res[(name,tuple(e))]+=1
        except bct.BCTParamError as ex:
            res[(name,'BCTParamError')]+=1
        except Exception as ex:
            res[(name,type(ex).__name__+str(ex)[:40])]+=1
    for name,A,und in [('latmio_und',Au,True),('latmio_dir',Ad,False),('latmio_und_connected',Au,True),('latmio_dir_connected',Ad,False)]:
        try:
            Rl,Rrp,ind,eff=call(getattr(bct,name),A,3,seed=seed)
            e=check(name,A,Rl,und)
            if not np.array_equal(Rl[np.ix_(ind,ind)],Rrp): e.append('reindex')
            res[(name,tuple(e))]+=1
        except bct.BCTParamError as ex:
            res[(name,'BCTParamError')]+=1
        except Exception as ex:
            res[(name,type(ex).__name__+str(ex)[:40])]+=1
    try:
        B=(rs.rand(n,n)<0.2).astype(float); B=np.triu(B,1); B=B+B.T
        R=call(bct.randomize_graph_partial_und,Au,B,5,seed=seed)
        e=check('partial',Au,R,True)
        new=(R!=0)&(Au==0)
        if np.any(new&(B!=0)): e.append('mask')
        res[('partial',tuple(e))]+=1
    except Exception as ex:
        res[('partial',type(ex).__name__+str(ex)[:40])]+=1
    try:
        Ab=(Au!=0).astype(float)
        R=call(bct.randomizer_bin_und,Ab,0.7,seed=seed)
        e=check('rbu',Ab,R.astype(float),True)
        res[('rbu',tuple(e))]+=1
    except bct.BCTParamError as ex:
        res[('rbu','BCTParamError')]+=1
    except Exception as ex:
        res[('rbu',type(ex).__name__+str(ex)[:40])]+=1
for k in sorted(res,key=str): print(k,res[k])
