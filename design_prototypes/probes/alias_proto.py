import ast, sys, glob, os
# abstract values: set of param names that a local name may alias ("taint"); empty set = fresh
FRESH_CALLS={'copy','astype','flatten','tolist','sum','mean','dot','outer','zeros','ones','eye','array','where','sort','argsort','unique','triu','tril','diag','logical_not','logical_or','logical_and','abs','sign','exp','log','sqrt','tile','repeat','append','hstack','vstack','stack','delete','setdiff1d','union1d','intersect1d','arange','max','min','argmax','argmin','any','all','square','cumsum','round','around','inner','trace','corrcoef','histogram','minimum','maximum','isnan','isinf','nonzero','size','shape','len','int','float','range','inv','solve','eig','eigh','mod','ceil','floor','power','prod','std','var','transpose_copy','binarize','invert','normalize','cuberoot','degrees_und','degrees_dir','strengths_und','strengths_dir','get_rng','number_of_components','get_components'}
ALIAS_ATTR={'T','flat','real','imag'}
ALIAS_CALLS={'squeeze','reshape','ravel','asarray','atleast_2d','transpose','view','swapaxes','asanyarray'}
class An(ast.NodeVisitor):
    pass
def taint(e,env):
    """params that value of expr e may share memory with"""
    if isinstance(e,ast.Name): return set(env.get(e.id,set()))
    if isinstance(e,ast.Attribute):
        if e.attr in ALIAS_ATTR: return taint(e.value,env)
        return set()
    if isinstance(e,ast.Subscript):
        # basic slicing -> view; fancy (index arrays, boolean masks, np.ix_) -> copy. conservative: view unless index contains Call(ix_/where) or a Tuple/List literal of non-slices of names bound to arrays... keep conservative: view
        idx=e.slice
        def fancy(ix):
            if isinstance(ix,ast.Call): return True
            if isinstance(ix,(ast.List,)): return True
            if isinstance(ix,ast.Compare) or isinstance(ix,ast.BoolOp): return True
            if isinstance(ix,ast.Tuple): return any(fancy(x) for x in ix.elts) or any(isinstance(x,ast.Tuple) for x in ix.elts)
            return False
        return set() if fancy(idx) else taint(e.value,env)
    if isinstance(e,ast.Call):
        f=e.func; name=f.attr if isinstance(f,ast.Attribute) else getattr(f,'id',None)
        if name in ALIAS_CALLS:
            t=set()
            if isinstance(f,ast.Attribute) and not (isinstance(f.value,ast.Name) and f.value.id=='np'): t|=taint(f.value,env)
            for a in e.args: t|=taint(a,env)
            return t
        return set()   # other calls: assumed fresh (validated dynamically)
    if isinstance(e,(ast.Tuple,ast.List)):
        t=set()
        for x in e.elts: t|=taint(x,env)
        return t
    if isinstance(e,ast.IfExp): return taint(e.body,env)|taint(e.orelse,env)
    return set()   # BinOp, Compare, Constant ... fresh
def base_name(t):
    while isinstance(t,(ast.Subscript,ast.Attribute)): t=t.value
    return t.id if isinstance(t,ast.Name) else None
INPLACE_FUNCS={'fill_diagonal','put','place','copyto','shuffle'}
INPLACE_METHODS={'sort','fill','setflags_noop','itemset','partition','resize'}
def analyse(fn,copyflag=None):
    params=[a.arg for a in fn.args.args]
    env={p:{p} for p in params}
    viol=[]
    def assign(target,val_taint,node):
        if isinstance(target,ast.Name): env[target.id]=set(val_taint)
        elif isinstance(target,(ast.Tuple,ast.List)):
            for x in target.elts: assign(x,val_taint,node)
        elif isinstance(target,(ast.Subscript,ast.Attribute)):
            b=base_name(target)
            if b and env.get(b): viol.append((node.lineno,'store',b,sorted(env[b])))
    def block(stmts):
        for s in stmts: stmt(s)
    def stmt(s):
        nonlocal env
        if isinstance(s,ast.Assign):
            t=taint(s.value,env)
            for tg in s.targets: assign(tg,t,s)
            calls(s.value,s)
        elif isinstance(s,ast.AugAssign):
            b=base_name(s.target)
            if b and env.get(b): viol.append((s.lineno,'augassign',b,sorted(env[b])))
            calls(s.value,s)
        elif isinstance(s,ast.Expr): calls(s.value,s)
        elif isinstance(s,ast.If):
            # copy flag: if copy: W = W.copy()
            if copyflag is not None and isinstance(s.test,ast.Name) and s.test.id=='copy':
                if copyflag: block(s.body)
                else: block(s.orelse)
                return
            e0={k:set(v) for k,v in env.items()}; block(s.body); e1=env; env={k:set(v) for k,v in e0.items()}; block(s.orelse)
            for k in set(e1)|set(env): env[k]=set(env.get(k,set()))|set(e1.get(k,set()))
        elif isinstance(s,(ast.For,ast.While)):
            if isinstance(s,ast.For): assign(s.target,taint(s.iter,env),s)
            for _ in range(4):
                e0={k:set(v) for k,v in env.items()}; block(s.body)
                for k in set(e0)|set(env): env[k]=set(env.get(k,set()))|set(e0.get(k,set()))
            block(s.orelse)
        elif isinstance(s,ast.With): block(s.body)
        elif isinstance(s,ast.Try):
            block(s.body)
            for h in s.handlers: block(h.body)
            block(s.orelse); block(s.finalbody)
        elif isinstance(s,ast.FunctionDef):
            pass # nested defs analysed at call... (closures): treat body inline once, conservative
        elif isinstance(s,ast.Return):
            if s.value is not None: calls(s.value,s)
    def calls(e,node):
        for c in ast.walk(e):
            if isinstance(c,ast.Call):
                f=c.func; name=f.attr if isinstance(f,ast.Attribute) else getattr(f,'id',None)
                if name in INPLACE_FUNCS and c.args:
                    t=taint(c.args[0],env)
                    if t: viol.append((node.lineno,name,ast.unparse(c.args[0]),sorted(t)))
                if isinstance(f,ast.Attribute) and name in INPLACE_METHODS:
                    t=taint(f.value,env)
                    if t: viol.append((node.lineno,'.'+name,ast.unparse(f.value),sorted(t)))
                for kw in c.keywords:
                    if kw.arg=='out':
                        t=taint(kw.value,env)
                        if t: viol.append((node.lineno,'out=',ast.unparse(kw.value),sorted(t)))
                    if kw.arg=='copy' and isinstance(kw.value,ast.Constant) and kw.value.value is False and c.args:
                        t=taint(c.args[0],env)
                        if t: viol.append((node.lineno,'copy=False call',ast.unparse(c.args[0]),sorted(t)))
    block(fn.body)
    return viol
for path in sorted(glob.glob('/repo/bct/**/*.py',recursive=True)):
    if any(x in path for x in ('citations','due.py','version','visualization')): continue
    tree=ast.parse(open(path).read())
    for fn in tree.body:
        if isinstance(fn,ast.FunctionDef) and not fn.name.startswith('_'):
            has_copy=any(a.arg=='copy' for a in fn.args.args)
            v=analyse(fn,copyflag=True if has_copy else None)
            if v: print(os.path.basename(path),fn.name,v)
