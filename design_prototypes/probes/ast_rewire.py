import ast, sys, json
src=open('/repo/bct/algorithms/reference.py').read()
tree=ast.parse(src)
FUNCS=['latmio_dir_connected','latmio_dir','latmio_und_connected','latmio_und','randmio_dir_connected','randmio_dir','randmio_und_connected','randmio_und','randomize_graph_partial_und']
def sub2(node):
    # X[p, q] -> (X, p, q) for Name indices
    if isinstance(node,ast.Subscript) and isinstance(node.value,ast.Name) and isinstance(node.slice,ast.Tuple) and len(node.slice.elts)==2 and all(isinstance(e,ast.Name) for e in node.slice.elts):
        return (node.value.id,node.slice.elts[0].id,node.slice.elts[1].id)
def sub1(node):
    if isinstance(node,ast.Subscript) and isinstance(node.value,ast.Name) and isinstance(node.slice,ast.Name):
        return (node.value.id,node.slice.id)
out={}
for fn in tree.body:
    if isinstance(fn,ast.FunctionDef) and fn.name in FUNCS:
        mat=fn.args.args[0].arg
        cells=[]; patches=[]; guards=[]; edge_src=None; flip=False
        for node in ast.walk(fn):
            if isinstance(node,ast.Assign) and len(node.targets)==1:
                t=node.targets[0]
                s2=sub2(t)
                if s2 and s2[0]==mat and set(s2[1:])<=set('abcd'):
                    v=node.value
                    if isinstance(v,ast.Constant) and v.value==0: cells.append(((s2[1],s2[2]),'zero'))
                    elif sub2(v) and sub2(v)[0]==mat: cells.append(((s2[1],s2[2]),(sub2(v)[1],sub2(v)[2])))
                    else: cells.append(((s2[1],s2[2]),'UNKNOWN:'+ast.unparse(v)))
                s1=sub1(t)
                if s1 and s1[0] in('i','j') and s1[1] in ('e1','e2') and isinstance(node.value,ast.Name):
                    patches.append((s1[0],s1[1],node.value.id,node.lineno))
                if isinstance(t,ast.Tuple) and [getattr(e,'id',None) for e in t.elts]==['i','j']:
                    edge_src=ast.unparse(node.value)
            if isinstance(node,ast.If):
                guards.append(ast.unparse(node.test))
        out[fn.name]=dict(cells=cells,patches=patches,edge_src=edge_src,guards=[g for g in guards if mat+'[' in g or 'D[' in g or 'B[' in g])
for k,v in out.items():
    print(k); print('  edges:',v['edge_src']); print('  cells:',v['cells']); print('  patches:',v['patches']); print('  guards:',v['guards'])
