import numpy as np, sys, warnings
warnings.filterwarnings('ignore')
import bct
from tmo import call, TO
from collections import Counter
rs=np.random.RandomState(1)
res=Counter()
def signed_und(n,rs):
    A=np.triu(rs.randint(-4,5,size=(n,n)).astype(float)*(rs.rand(n,n)<0.7),1); return A+A.T
def signed_dir(n,rs):
    A=rs.randint(-4,5,size=(n,n)).astype(float)*(rs.rand(n,n)<0.7); np.fill_diagonal(A,0); return A
def chk(A,R,und):
    e=[]
    for s,nm in ((1,'pos'),(-1,'neg')):
        if not np.array_equal((s*A>0).sum(0),(s*R>0).sum(0)): e.append(nm+'in')
        if not np.array_equal((s*A>0).sum(1),(s*R>0).sum(1)): e.append(nm+'out')
        if not np.allclose(np.sort(A[s*A>0]),np.sort(R[s*R>0])) if (s*A>0).sum()==(s*R>0).sum() else True: e.append(nm+'w')
    if np.any(np.diag(R)!=0): e.append('diag')
    if und and not np.array_equal(R,R.T): e.append('sym')
    return tuple(e)
for t in range(60):
    n=rs.randint(5,9); seed=int(rs.randint(1<<30))
    Au=signed_und(n,rs); Ad=signed_dir(n,rs)
    for name,A,und in (('randmio_und_signed',Au,True),('randmio_dir_signed',Ad,False)):
        try:
            R,eff=call(getattr(bct,name),A,2,seed=seed); res[(name,chk(A,R,und))]+=1
        except Exception as ex: res[(name,type(ex).__name__+str(ex)[:50])]+=1
    for wf in (0,0.5,1):
      for name,A,und in (('null_model_und_sign',Au,True),('null_model_dir_sign',Ad,False)):
        try:
            R,cc=call(getattr(bct,name),A,2,wf,seed=seed); e=chk(A,R,und)
            rp_in=np.corrcoef((A*(A>0)).sum(0),(R*(R>0)).sum(0))[0,1]
            if not np.allclose(cc[0],rp_in,equal_nan=True): e=e+('corr',)
            res[(name,wf,e)]+=1
        except Exception as ex: res[(name,wf,type(ex).__name__+str(ex)[:50])]+=1
for k in sorted(res,key=str): print(k,res[k])
