import numpy as np, sys, warnings, itertools
warnings.filterwarnings('ignore')
import bct
from collections import Counter
rs=np.random.RandomState(5)
res=Counter(); ex={}
def cc_bu(A):
    n=len(A); C=np.zeros(n)
    for u in range(n):
        nb=[v for v in range(n) if A[u,v] and v!=u]; k=len(nb)
        if k>=2: C[u]=sum(1 for a in nb for b in nb if a!=b and A[a,b])/(k*(k-1))
    return C
def cc_wu(W):
    n=len(W); C=np.zeros(n); c=np.cbrt(W)
    for u in range(n):
        k=sum(1 for v in range(n) if W[u,v]!=0)
        t=sum(c[u,a]*c[a,b]*c[b,u] for a in range(n) for b in range(n))
        if k>=2 and t!=0: C[u]=t/(k*(k-1))
    return C
def cc_d(W,binary):
    n=len(W); A=(W!=0).astype(float); c=np.cbrt(W) if not binary else A; S=c+c.T; C=np.zeros(n)
    for u in range(n):
        K=A[u].sum()+A[:,u].sum(); t=sum(S[u,a]*S[a,b]*S[b,u] for a in range(n) for b in range(n))/2
        den=K*(K-1)-2*sum(A[u,v]*A[v,u] for v in range(n))
        if t!=0: C[u]=t/den
    return C
def T_u(W,binary):
    n=len(W); c=np.cbrt(W) if not binary else (W!=0).astype(float); A=(W!=0)
    num=sum(c[u,a]*c[a,b]*c[b,u] for u in range(n) for a in range(n) for b in range(n))
    K=A.sum(1); den=np.sum(K*(K-1)); return num/den if den else np.nan
def T_d(W,binary):
    n=len(W); A=(W!=0).astype(float); c=np.cbrt(W) if not binary else A; S=c+c.T
    num=sum(S[u,a]*S[a,b]*S[b,u] for u in range(n) for a in range(n) for b in range(n))/2
    K=A.sum(0)+A.sum(1); den=np.sum(K*(K-1)-2*np.diag(A@A)); return num/den if den else np.nan
def rec(name,f,info):
    try: ok=bool(f())
    except Exception as e: ok=type(e).__name__+':'+str(e)[:50]
    res[(name,ok)]+=1
    if ok is not True and name not in ex: ex[name]=info
for t in range(300):
    n=rs.randint(3,8); p=rs.choice([0.2,0.4,0.7])
    Ad=(rs.rand(n,n)<p).astype(float); np.fill_diagonal(Ad,0)
    Au=np.triu(Ad,1); Au=Au+Au.T
    Wd=Ad*rs.randint(1,9,size=(n,n))/8.0
    Wu=np.triu(Wd,1); Wu=Wu+Wu.T
    eq=lambda a,b: np.allclose(a,b,equal_nan=True)
    rec('cc_bu',lambda: eq(bct.clustering_coef_bu(Au),cc_bu(Au)),Au)
    rec('cc_wu',lambda: eq(bct.clustering_coef_wu(Wu),cc_wu(Wu)),Wu)
    rec('cc_bd',lambda: eq(bct.clustering_coef_bd(Ad),cc_d(Ad,True)),Ad)
    rec('cc_wd',lambda: eq(bct.clustering_coef_wd(Wd),cc_d(Wd,False)),Wd)
    rec('T_bu',lambda: eq(bct.transitivity_bu(Au),T_u(Au,True)),Au)
    rec('T_wu',lambda: eq(bct.transitivity_wu(Wu),T_u(Wu,False)),Wu)
    rec('T_bd',lambda: eq(bct.transitivity_bd(Ad),T_d(Ad,True)),Ad)
    rec('T_wd',lambda: eq(bct.transitivity_wd(Wd),T_d(Wd,False)),Wd)
    # C10 reductions
    rec('wu=bu',lambda: eq(bct.clustering_coef_wu(Au),bct.clustering_coef_bu(Au)),Au)
    rec('wd=bd',lambda: eq(bct.clustering_coef_wd(Ad),bct.clustering_coef_bd(Ad)),Ad)
    rec('bd=bu',lambda: eq(bct.clustering_coef_bd(Au),bct.clustering_coef_bu(Au)),Au)
    rec('wd=wu',lambda: eq(bct.clustering_coef_wd(Wu),bct.clustering_coef_wu(Wu)),Wu)
    rec('Twu=Tbu',lambda: eq(bct.transitivity_wu(Au),bct.transitivity_bu(Au)),Au)
    rec('Twd=Tbd',lambda: eq(bct.transitivity_wd(Ad),bct.transitivity_bd(Ad)),Ad)
    rec('Tbd=Tbu',lambda: eq(bct.transitivity_bd(Au),bct.transitivity_bu(Au)),Au)
    rec('Twd=Twu',lambda: eq(bct.transitivity_wd(Wu),bct.transitivity_wu(Wu)),Wu)
    # signed
    Ws=Wu*np.where(rs.rand(n,n)<0.4,-1,1); Ws=np.triu(Ws,1); Ws=Ws+Ws.T
    cp,cn=bct.clustering_coef_wu_sign(Ws.copy())
    rec('wu_sign',lambda: eq(cp,cc_wu(Ws*(Ws>0))) and eq(cn,cc_wu(-Ws*(Ws<0))),Ws)
    rec('range',lambda: all(np.all((x>=0)&(x<=1+1e-12)) for x in (bct.clustering_coef_wu(Wu),bct.clustering_coef_wd(Wd),bct.clustering_coef_bd(Ad))),Wd)
for k in sorted(res,key=str): print(k,res[k])
for k,v in ex.items(): print(k); print(v)
