import numpy as np, sys, warnings, io, contextlib
warnings.filterwarnings('ignore')
import bct, scipy.stats as st
from collections import Counter
rs=np.random.RandomState(17); res=Counter(); ex={}
def comps(A):
    n=len(A); lab=-np.ones(n,int); c=0
    for s in range(n):
        if lab[s]>=0: continue
        stk=[s]; lab[s]=c
        while stk:
            u=stk.pop()
            for v in range(n):
                if A[u,v] and lab[v]<0: lab[v]=c; stk.append(v)
        c+=1
    return lab
def stack(n,m,eff):
    X=rs.randint(0,6,size=(n,n,m)).astype(float)+eff[:,:,None]
    for k in range(m): X[:,:,k]=np.triu(X[:,:,k],1)+np.triu(X[:,:,k],1).T
    return X
def run(x,y,thr,tail,paired,k,seed):
    with contextlib.redirect_stdout(io.StringIO()):
        return bct.nbs_bct(x,y,thr,k=k,tail=tail,paired=paired,seed=seed)
for t in range(150):
    n=rs.randint(5,8); nx=rs.randint(4,8); paired=rs.rand()<0.3; ny=nx if paired else rs.randint(4,8)
    eff=np.zeros((n,n)); 
    for _ in range(rs.randint(1,5)):
        i,j=rs.randint(n,size=2)
        if i!=j: eff[i,j]=eff[j,i]=rs.choice([-3,3,4])
    x=stack(n,nx,eff); y=stack(n,ny,np.zeros((n,n)))
    # zero variance edge
    x[0,1,:]=x[1,0,:]=2; y[0,1,:]=y[1,0,:]=2
    thr=rs.choice([1.5,2.0,2.5]); tail=rs.choice(['both','left','right']); k=20; seed=int(rs.randint(1<<30))
    try:
        p,adj,null=run(x,y,thr,tail,paired,k,seed)
    except bct.BCTParamError as e:
        res['BCTParamError:'+str(e)[:20]]+=1; continue
    # oracle
    T=np.zeros((n,n))
    for i in range(n):
        for j in range(i+1,n):
            a,b=x[i,j,:],y[i,j,:]
            if paired:
                d=a-b; tt=0 if d.std(ddof=1)==0 else d.mean()/(d.std(ddof=1)/np.sqrt(len(d)))
                if d.std(ddof=1)==0: tt=np.nan
            else:
                tt=st.ttest_ind(a,b).statistic
                if np.isnan(tt): tt=0
            tv={'both':abs(tt),'left':-tt,'right':tt}[tail]
            T[i,j]=T[j,i]=tv
    S=(T>thr)
    lab=comps(S)
    ok=np.array_equal(adj!=0,S)
    # labels consistent with components
    for i in range(n):
        for j in range(n):
            if S[i,j]:
                for a in range(n):
                    for b in range(n):
                        if S[a,b] and ((adj[i,j]==adj[a,b])!=(lab[i]==lab[a])): ok=False
    res[('adj',ok)]+=1
    if not ok and 'adj' not in ex: ex['adj']=(paired,tail,thr,T,adj)
    sizes={}
    for l in set(adj[adj!=0]): sizes[int(l)]=int((adj==l).sum()//2)
    okp=len(p)==len(sizes) and all(np.isclose(p[l-1],np.mean(null>=sizes[l])) for l in sizes) and len(null)==k
    res[('pvals',okp)]+=1
    # symmetry: swap groups + tail
    if not paired or True:
        tail2={'both':'both','left':'right','right':'left'}[tail]
        p2,adj2,null2=run(y,x,thr,tail2,paired,k,seed)
        res[('swap_sym',np.array_equal(adj2!=0,adj!=0) and sorted(p2.tolist())==sorted(p2.tolist()))]+=1
        perm=rs.permutation(nx)
        if not paired:
            p3,adj3,_=run(x[:,:,perm],y,thr,tail,paired,k,seed); res[('reorder',np.array_equal(adj3,adj))]+=1
for k in sorted(res,key=str): print(k,res[k])
for k,v in ex.items(): print(k,v)
