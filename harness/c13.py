"""C13 — library calls never modify the caller's arrays unless copy=False is requested.

Shape (B): the Coq development proves the alias/mutation checker sound once and for all
(Proofs/AliasLang.v); the model of every bct function is REGENERATED from the Python source when this module
is imported (translate_alias.generate -> coq/theories/Gen/Alias.v), so ./check rebuilds and re-checks it
against the tree as it is now.  run(ctx) validates the abstraction dynamically and searches for failing
inputs: every public function is called on deep-copied small arguments and every array argument is compared
afterwards (values, dtype, shape)."""
import os, re, sys, io, copy, json, inspect, contextlib, tempfile, traceback
from common import *
import translate_alias as ta

ID = 'C13'
COQ_FILES = ['Model/AliasLang.v', 'Proofs/AliasLang.v', 'Gen/Alias.v', 'Proofs/AliasBct.v', 'Properties/C13.v']
THEOREMS = ['C13_no_param_mutation_sound', 'C13_params_unchanged', 'C13_frame_sound', 'C13_copy_false_contract',
            'C13_copy_true_contract', 'C13_bct_public_functions_pure', 'C13_bct_copy_false_contract',
            'C13_rejected_refuted', 'C13_bct_results_fresh', 'C13_bct_frame', 'C13_bct_copy_false_frame',
            'C13_bct_public_functions_pure_docscalar', 'C13_autofix_copy_false_refuted', 'C13_logtransform_copy_false_refuted']
RULE = ('every public function of the bct namespace x argument families (symmetric / directed / signed / binary / '
        'fractional weights, all with NONZERO diagonal; int, bool (full and partial diagonal), Fortran-ordered and strided-view '
        'inputs; malformed: non-square, 1-D, empty, NaN, inf) x option variants (copy=True/False, seeds, string options, '
        'non-default flag combinations); the SECOND array arguments (community vectors, distance matrices, coordinates, B) '
        'rotate through int64 exactly 1..m / odd labels / float / int32 / list / column / zero-and-negative labels and '
        'C / Fortran / strided / int layouts; three passes: before/after comparison, the same calls on READ-ONLY buffers (any '
        'write attempt raises), and 0-d arrays in the place of documented scalars; deterministic case plan (counts, not '
        'wall-clock); a case is non-trivial when at least one ndarray was passed; distinct by hash of (function, arguments, pass)')
ASSUMES = ['parameter kinds (array vs scalar) are read from the numpydoc Parameters block; an undocumented parameter is an '
           'array, except `seed` and parameters forwarded as is to a documented scalar formal; a documented scalar that the body '
           'writes through BY NAME (itr *= k, thr[...] = 0, also when handed as is to such a callee) counts as an array; checked '
           'at run time: every ndarray / list the harness passes sits in a formal the model treats as an array '
           '(<fn>:doc-kind), and 0-d arrays are passed in the place of documented scalars and compared afterwards',
           'a d-index subscript P[i,j] of a never re-bound parameter documented as d-dimensional selects an element, not a view',
           'NumPy / SciPy / builtin routines are classified by the whitelists at the top of harness/translate_alias.py (in-place / '
           'view / pure with a verified positional arity and benign keywords); anything else - unknown routine, unknown keyword, '
           'extra positional argument, copy= / out= / overwrite_*= / inplace=, unknown module alias or sub-namespace - is treated as '
           'writing through every argument and returning Unknown; pinned by harness/translate_alias_corpus (run at every check) '
           'and compared with the signatures of the installed NumPy / SciPy',
           'plotting back-ends (mlab, plt), the observation hooks (bct/utils/_verif.py) and duecredit stubs only read their data; '
           'decorators (@due.dcite) do not change behaviour; objects stored in ndarray(dtype=object) and module-level state are '
           'not tracked',
           'the property is about ndarray arguments: RandomState objects passed as seed are advanced by design']
TRUSTED = ['harness/translate_alias.py: Python-ast -> AliasLang translator (syntactic, fail-closed); its whitelists of '
           'NumPy/builtin routines; the abstraction of Python values by "names that may share memory" (validated dynamically: '
           'before/after snapshots of every argument, read-only buffers, np.shares_memory(result, argument) against the fret summaries)',
           'Extract/C13.v additionally uses ExtrOcamlNativeString (Coq stdlib) so that Coq strings are OCaml strings; the '
           'extracted checker is only a cross-check of the Python mirror - the tie is coqc re-checking Gen/Alias.v']

# input-representation layer of common.py: off.  This harness compares the very objects it passes before / after the call and
# tests `result is argument`; it has its own dtype / layout families (int_u, bool_u, bool_part, fortran_d, strided_u, Gen.lay).
VARIANTS_OFF = True
VARIANTS_OFF_WHY = 'C13 compares the objects it passes (before/after, identity); int / bool / Fortran / strided inputs are families of its own generator'

NAMED_CONTRACT = ('threshold_absolute', 'threshold_proportional', 'weight_conversion', 'binarize', 'normalize', 'invert')

GEN, GEN_ERROR = None, None


def pregen():
    """(re)generate coq/theories/Gen/Alias.v from the current tree"""
    global GEN, GEN_ERROR
    try:
        GEN = ta.generate(REPO, COQ, write=os.environ.get('C13_DRY') != '1')     # C13_DRY=1: development runs that must not touch coq/
        GEN_ERROR = None
    except Exception:
        GEN, GEN_ERROR = None, traceback.format_exc()
        # never leave a stale model behind: the build must fail visibly
        p = os.path.join(COQ, 'theories', 'Gen', 'Alias.v')
        os.makedirs(os.path.dirname(p), exist_ok=True)
        open(p, 'w').write('(* translator failed *)\nFrom Coq Require Import List.\nExample translator_failed : 0 = 1.\nProof. reflexivity. Qed.\n')
    return GEN


pregen()       # at import time: ./check imports this module before it builds the Coq development


# ----------------------------------------------------------------------------- argument families
class Gen:
    def __init__(self, rs, n, flav=0):
        self.rs, self.n, self.flav = rs, n, flav      # flav: rotates dtype / layout / label style of the SECOND array arguments

    def lay(self, A, k=None):
        """the same values in another memory layout / dtype: C, Fortran, strided view (base compared as well), int"""
        k = (self.flav if k is None else k) % 4
        if k == 1:
            return np.asfortranarray(A)
        if k == 2 and A.ndim >= 1:
            big = np.full(tuple(2 * d for d in A.shape), 9, dtype=A.dtype)
            sl = tuple(slice(None, None, 2) for _ in A.shape)
            big[sl] = A
            return big[sl]
        if k == 3 and A.dtype.kind == 'f' and A.size and np.all(np.isfinite(A)) and np.all(A == np.round(A)):
            return A.astype(int)
        return A

    def _diag(self, A, signed=False):
        n = len(A)
        d = self.rs.randint(1, 4, size=n).astype(float)
        if signed:
            d *= self.rs.choice([-1, 1], size=n)
        A[np.arange(n), np.arange(n)] = d
        return A

    def und_w(self):
        n, r = self.n, self.rs
        A = np.triu(r.randint(1, 5, size=(n, n)).astype(float) * (r.rand(n, n) < 0.7), 1)
        A[0, 1] = A[1, 2] = 2.0
        return self._diag(A + A.T)

    def dir_w(self):
        n, r = self.n, self.rs
        A = r.randint(1, 5, size=(n, n)).astype(float) * (r.rand(n, n) < 0.6)
        A[0, 1] = 3.0
        return self._diag(A)

    def signed_u(self):
        n, r = self.n, self.rs
        A = self.und_w()
        S = np.triu(np.where(r.rand(n, n) < 0.35, -1.0, 1.0), 1)
        S = S + S.T + np.eye(n)
        A = A * S
        A[0, 1] = A[1, 0] = -2.0
        return self._diag(A, signed=True)

    def signed_d(self):
        n, r = self.n, self.rs
        A = self.dir_w() * np.where(r.rand(n, n) < 0.35, -1.0, 1.0)
        A[1, 0] = -1.0
        return self._diag(A, signed=True)

    def bin_u(self):
        A = (self.und_w() != 0).astype(float)
        return A

    def bin_d(self):
        return (self.dir_w() != 0).astype(float)

    def frac_u(self):
        n, r = self.n, self.rs
        A = np.triu(r.randint(1, 8, size=(n, n)) / 8.0 * (r.rand(n, n) < 0.8), 1)
        A = A + A.T
        A[np.arange(n), np.arange(n)] = 0.5
        return A

    def full_u(self):
        n, r = self.n, self.rs
        A = np.triu(r.randint(1, 6, size=(n, n)).astype(float), 1)
        return self._diag(A + A.T)

    def int_u(self):
        return self.und_w().astype(int)

    def bool_u(self):
        return self.bin_u().astype(bool)

    def bool_part(self):
        """boolean adjacency matrix whose diagonal is only partly set (setting OR clearing the diagonal changes it)"""
        A = self.bin_u().astype(bool)
        n = len(A)
        A[np.arange(n), np.arange(n)] = (np.arange(n) % 2 == 0)
        return A

    def fortran_d(self):
        return np.asfortranarray(self.dir_w())

    def strided_u(self):
        n = self.n
        big = np.zeros((2 * n, 2 * n))
        big[::2, ::2] = self.und_w()
        big[1::2, 1::2] = 9.0
        return big[::2, ::2]          # a non-contiguous VIEW: its base is compared as well

    def nonsquare(self):
        return self.rs.randint(0, 3, size=(3, 4)).astype(float) + 1

    def vec1d(self):
        return self.rs.randint(1, 4, size=self.n).astype(float)

    def empty(self):
        return np.zeros((0, 0))

    def nan_u(self):
        A = self.und_w()
        A[0, 2] = A[2, 0] = np.nan
        return A

    def inf_u(self):
        A = self.und_w()
        A[0, 3] = A[3, 0] = np.inf
        return A

    # ---- other kinds of arguments
    def ci(self, k=None):
        """community vector; the style rotates with flav: int64 odd labels / int64 exactly 1..m / float / int32 / list /
        column vector / labels with zero and a negative one / strided int64 view"""
        k = (self.flav if k is None else k) % 8
        lab = np.array([-2, 0, 5]) if k == 6 else (np.array([1, 2, 3]) if k == 1 else np.array([3, 7, 11]))
        c = lab[self.rs.randint(0, 3, size=self.n)]
        c[0], c[1], c[-1] = lab[0], lab[1], lab[2]
        if k == 2:
            return c.astype(float)
        if k == 3:
            return c.astype(np.int32)
        if k == 4:
            return [int(x) for x in c]
        if k == 5:
            return c.reshape(-1, 1)
        if k == 7:
            big = np.zeros(2 * len(c), dtype=c.dtype)
            big[::2] = c
            return big[::2]
        return c

    def ci123(self):
        c = self.rs.randint(1, 4, size=self.n)
        c[0], c[1], c[-1] = 1, 2, 3
        return c

    def ci_float(self):
        return self.ci(0).astype(float)

    def cbin(self):
        c = (self.rs.rand(self.n) < 0.5).astype(float)
        c[0], c[1] = 1, 0
        return c

    def cimat(self, m=4):
        return self.lay(np.array([self.ci(0) for _ in range(m)]).T)

    def vec(self, k):
        return self.lay(self.rs.randint(1, 5, size=k).astype(float))

    def xyz(self):
        return self.lay(np.round(self.rs.rand(self.n, 3) * 10))

    def dist(self):
        """distance matrix; rotates through C / Fortran / strided / int / with unreachable pairs (inf) / nonzero diagonal"""
        X = self.rs.rand(self.n, 3) * 10
        D = np.sqrt(((X[:, None, :] - X[None, :, :]) ** 2).sum(-1))
        k = self.flav % 6
        if k == 3:
            return np.round(D).astype(int)
        if k == 4:
            D[0, 3] = D[3, 0] = D[1, 4] = D[4, 1] = np.inf
            return D
        if k == 5:
            D[np.arange(self.n), np.arange(self.n)] = 1.0
            return D
        return self.lay(D, k)

    def second(self):
        """a second matrix argument (B, the other matrix of a pair)"""
        return self.lay(self.und_w())

    def stack3(self, p):
        return np.stack([self.full_u() + self.rs.rand(self.n, self.n) for _ in range(p)], axis=2)


VALID = ['und_w', 'dir_w', 'signed_u', 'signed_d', 'bin_u', 'bin_d', 'frac_u', 'full_u', 'int_u', 'bool_u', 'bool_part', 'fortran_d', 'strided_u']
MALFORMED = ['nonsquare', 'vec1d', 'empty', 'nan_u', 'inf_u']
ALLFAM = VALID + MALFORMED


def sparse(M):
    import scipy.sparse
    return scipy.sparse.csr_matrix(M)


def spec_table():
    """function -> (families for the first matrix argument, builder(g, M) -> list of (args, kwargs))"""
    S = {}
    one = lambda g, M: [((M,), {})]
    ci2 = lambda g, M: [((M, g.ci()), {}), ((M, g.ci_float()), {})]
    S['adjacency_plot_und'] = (['und_w'], lambda g, M: [((M, g.xyz()), {})])
    S['agreement'] = (['-'], lambda g, M: [((g.cimat(),), {}), ((g.cimat(),), {'buffsz': 2}), ((g.cimat().astype(float),), {})])
    S['agreement_weighted'] = (['-'], lambda g, M: [((g.cimat().T, g.vec(4)), {}), ((g.cimat(), g.vec(4)), {})])
    S['align_matrices'] = (['und_w', 'dir_w', 'nonsquare'], lambda g, M: [((M, g.second()), {'H': 30}), ((M, g.second()), {'H': 30, 'dfun': 'absdiff'})])
    for f in ('assortativity_bin', 'assortativity_wei'):
        S[f] = (ALLFAM, lambda g, M: [((M,), {'flag': k}) for k in range(5)])
    S['backbone_wu'] = (ALLFAM, lambda g, M: [((M, 2), {})])
    S['breadth'] = (ALLFAM, lambda g, M: [((M, 0), {})])
    S['charpath'] = (['und_w', 'full_u', 'inf_u', 'nan_u', 'nonsquare', 'strided_u', 'dir_w', 'int_u'],
                     lambda g, M: [((M,), {}), ((M,), {'include_diagonal': True, 'include_infinite': False}),
                                   ((M,), {'include_diagonal': True}), ((M,), {'include_infinite': False})])
    S['clique_communities'] = (['bin_u', 'und_w', 'bool_u', 'bool_part', 'nonsquare'], lambda g, M: [((M, 3), {})])
    S['clustering_coef_wu_sign'] = (ALLFAM, lambda g, M: [((M,), {}), ((M,), {'coef_type': 'constantini'}), ((M,), {'coef_type': 'zhang'}), ((M,), {'coef_type': 'bogus'})])
    S['community_louvain'] = (ALLFAM, lambda g, M: [((M,), {'seed': 1}), ((M,), {'seed': 2, 'ci': g.ci()}), ((M,), {'seed': 3, 'B': 'negative_sym'}),
                                                     ((M,), {'seed': 4, 'B': 'negative_asym'}), ((M,), {'seed': 5, 'B': g.second()}),
                                                     ((M,), {'seed': 6, 'B': 'potts', 'gamma': 0.5}), ((M,), {'seed': 7, 'B': 'bogus'}), ((M,), {'seed': 8, 'ci': g.ci123()})])
    S['consensus_und'] = (['und_w', 'frac_u', 'nonsquare', 'full_u'], lambda g, M: [((M / max(1.0, np.nanmax(np.abs(M)) if M.size else 1.0), tau), {'reps': 3, 'seed': 1}) for tau in (0.3, 0, 0.9)])
    S['core_periphery_dir'] = (ALLFAM, lambda g, M: [((M,), {'seed': 1}), ((M,), {'seed': 2, 'C0': g.cbin()}), ((M,), {'seed': 3, 'gamma': 0.5})])
    for f in ('corr_flat_dir', 'corr_flat_und', 'dice_pairwise_und'):
        S[f] = (ALLFAM, lambda g, M: [((M, g.second()), {}), ((M, g.lay(g.dir_w())), {})])
    S['cuberoot'] = (ALLFAM, one)
    S['cycprob'] = (['-'], lambda g, M: [((g.stack3(3),), {})])
    for f in ('diversity_coef_sign', 'participation_coef_sign'):
        S[f] = (ALLFAM, ci2)
    S['reorder_mod'] = (ALLFAM, lambda g, M: [((M, g.ci()), {}), ((M, g.ci123()), {})])
    S['gateway_coef_sign'] = (ALLFAM, lambda g, M: [((M, g.ci()), {}), ((M, g.ci()), {'centrality_type': 'betweenness'}), ((M, g.ci_float()), {'centrality_type': 'bogus'})])
    S['participation_coef'] = (ALLFAM, lambda g, M: [((M, g.ci()), {}), ((M, g.ci()), {'degree': 'in'}), ((M, g.ci_float()), {'degree': 'out'})])
    S['participation_coef_sparse'] = (ALLFAM, lambda g, M: [((sparse(M), g.ci()), {}), ((sparse(M), g.ci()), {'degree': 'in'}), ((M, g.ci_float()), {'degree': 'out'})])
    S['module_degree_zscore'] = (ALLFAM, lambda g, M: [((M, g.ci()), {'flag': k}) for k in range(4)])
    S['modularity_und_sign'] = (ALLFAM, lambda g, M: [((M, g.ci()), {'qtype': q}) for q in ('sta', 'pos', 'smp', 'gja', 'neg', 'bogus')])
    S['dummyvar'] = (['-'], lambda g, M: [((g.cimat(),), {})])
    for f in ('efficiency_bin', 'efficiency_wei'):
        S[f] = (ALLFAM, lambda g, M: [((M,), {}), ((M,), {'local': True})])
    S['evaluate_generative_model'] = (['bin_u'], lambda g, M: [((M * (1 - np.eye(len(M))), g.bin_u(), g.dist(), np.array([-1.0])), {'gamma': np.array([0.5]), 'model_type': 'neighbors', 'seed': 1})])
    S['find_motif34'] = (['-'], lambda g, M: [((1, 3), {}), ((5, 4), {}), ((np.array([[0., 1, 1], [0, 0, 1], [0, 0, 0]]),), {}), ((7, 5), {})])
    S['findpaths'] = (['bin_u', 'bin_d', 'und_w', 'nonsquare'], lambda g, M: [((M, 2, np.array([0, 1])), {}), ((M, 3, np.array([2])), {'savepths': True})])
    S['gtom'] = (ALLFAM, lambda g, M: [((M, 2), {}), ((M, 1), {})])
    S['generate_fc'] = (['und_w', 'frac_u'], lambda g, M: [((M, np.array([0.1, 0.5, 0.2])), {'pred_var': ('SPLbin', 'MI'), 'seed': 1}),
                                                          ((M, np.array([0.1, 0.5])), {'ed': g.dist(), 'pred_var': ('T',), 'seed': 1})])
    gm = lambda g, M: [((M * (1 - np.eye(len(M))), g.dist(), int(np.count_nonzero(np.triu(M, 1))) + 2, np.array([-1.0, -0.5])),
                        {'gamma': np.array([0.5, 0.2]), 'model_type': mt, 'seed': 1, **kw})
                       for mt in ('matching', 'neighbors', 'euclidean', 'clu-avg', 'deg-avg', 'deg-prod', 'bogus') for kw in ({}, {'copy': False})]
    def gm_pinned(g, M):
        """pinned witness of the open finding generative_model:mutates-argument-copy-false (independent of the seed):
        ring of 6 nodes on the unit circle, two more connections requested, copy=False"""
        n = 6
        A = np.zeros((n, n))
        for i in range(n):
            A[i, (i + 1) % n] = A[(i + 1) % n, i] = 1.0
        xy = np.array([[np.cos(2 * np.pi * i / n), np.sin(2 * np.pi * i / n)] for i in range(n)])
        D = np.sqrt(((xy[:, None, :] - xy[None, :, :]) ** 2).sum(-1))
        pin = [((A.copy(), D.copy(), n + 2, np.array([-1.0, -0.5])), {'gamma': np.array([0.5, 0.2]), 'model_type': mt, 'seed': 1, 'copy': False})
               for mt in ('neighbors', 'matching')]
        return pin + gm(g, M)
    S['generative_model'] = (['bin_u'], gm_pinned)
    for f in ('get_components', 'get_components_old'):
        S[f] = (ALLFAM, lambda g, M: [((M,), {}), ((M,), {'no_depend': True})])
    S['get_rng'] = (['-'], lambda g, M: [((3,), {}), ((None,), {})])
    S['grid_communities'] = (['-'], lambda g, M: [((g.ci(),), {}), ((g.ci_float(),), {})])
    for f in ('kcore_bd', 'kcore_bu'):
        S[f] = (ALLFAM, lambda g, M: [((M, 2), {}), ((M, 2), {'peel': True})])
    for f in ('latmio_dir', 'latmio_dir_connected', 'latmio_und', 'latmio_und_connected'):
        S[f] = (ALLFAM, lambda g, M: [((M, 2), {'seed': 1}), ((M, 2), {'seed': 2, 'D': g.dist()})])
    S['link_communities'] = (['und_w', 'dir_w', 'frac_u', 'nonsquare', 'strided_u'], lambda g, M: [((M,), {}), ((M,), {'type_clustering': 'complete'})])
    S['ls2ci'] = (['-'], lambda g, M: [(([[1, 2], [3], [4, 5, 6]],), {}), (([[0, 1], [2]],), {'zeroindexed': True}), (([],), {})])
    S['ci2ls'] = (['-'], lambda g, M: [((g.ci(),), {}), ((np.array([1, 2, 2, 3]),), {}), ((np.array([0, 1]),), {}), ((g.ci_float(),), {})])
    S['make_motif34lib'] = (['-'], lambda g, M: [((), {})])
    S['makeevenCIJ'] = (['-'], lambda g, M: [((16, 20, 2), {'seed': 1}), ((15, 20, 2), {'seed': 1})])
    S['makefractalCIJ'] = (['-'], lambda g, M: [((3, 2.0, 2), {'seed': 1})])
    S['makerandCIJ_dir'] = (['-'], lambda g, M: [((6, 10), {'seed': 1})])
    S['makerandCIJ_und'] = (['-'], lambda g, M: [((6, 7), {'seed': 1})])
    S['makerandCIJdegreesfixed'] = (['-'], lambda g, M: [((np.array([1, 2, 2, 1, 2]), np.array([2, 1, 2, 2, 1])), {'seed': 1}),
                                                          ((np.array([3, 0, 0]), np.array([1, 1, 0])), {'seed': 1})])
    S['makeringlatticeCIJ'] = (['-'], lambda g, M: [((8, 16), {'seed': 1})])
    S['maketoeplitzCIJ'] = (['-'], lambda g, M: [((8, 16, 1.0), {'seed': 1})])
    for f in ('modularity_dir', 'modularity_und'):
        S[f] = (ALLFAM, lambda g, M: [((M,), {}), ((M,), {'kci': g.ci()}), ((M,), {'gamma': 0.5}), ((M,), {'kci': g.ci123()})])
    for f in ('modularity_finetune_dir', 'modularity_finetune_und'):
        S[f] = (ALLFAM, lambda g, M: [((M,), {'seed': 1}), ((M,), {'seed': 2, 'ci': g.ci()}), ((M,), {'seed': 3, 'ci': g.ci_float(), 'gamma': 0.5}), ((M,), {'seed': 4, 'ci': g.ci123()})])
    S['modularity_finetune_und_sign'] = (ALLFAM, lambda g, M: [((M,), {'seed': 1}), ((M,), {'seed': 2, 'ci': g.ci(), 'qtype': 'gja'}), ((M,), {'seed': 2, 'qtype': 'bogus'}), ((M,), {'seed': 4, 'ci': g.ci123()})])
    S['modularity_probtune_und_sign'] = (ALLFAM, lambda g, M: [((M,), {'seed': 1}), ((M,), {'seed': 2, 'ci': g.ci(), 'qtype': 'pos', 'p': 0.3}), ((M,), {'seed': 3, 'ci': g.ci123()})])
    for f in ('modularity_louvain_dir', 'modularity_louvain_und'):
        S[f] = (ALLFAM, lambda g, M: [((M,), {'seed': 1}), ((M,), {'seed': 2, 'hierarchy': True})])
    S['modularity_louvain_und_sign'] = (ALLFAM, lambda g, M: [((M,), {'seed': 1}), ((M,), {'seed': 2, 'qtype': 'neg'}), ((M,), {'seed': 2, 'qtype': 'bogus'})])
    S['navigation_wu'] = (['und_w', 'frac_u', 'bin_u', 'nonsquare'], lambda g, M: [((M, g.dist()), {'max_hops': 5}), ((M, g.dist()), {})])
    S['nbs_bct'] = (['-'], lambda g, M: [((g.stack3(4), g.stack3(4) + 1, 1.5), {'k': 3, 'seed': 1}),
                                         ((g.stack3(4), g.stack3(4) + 1, 1.5), {'k': 3, 'seed': 1, 'paired': True, 'tail': 'left'}),
                                         ((g.stack3(4), g.stack3(3), 1.5), {'k': 2, 'seed': 1, 'tail': 'bogus'})])
    for f in ('null_model_dir_sign', 'null_model_und_sign'):
        S[f] = (ALLFAM, lambda g, M: [((M,), {'bin_swaps': 2, 'wei_freq': 0.5, 'seed': 1}), ((M,), {'bin_swaps': 1, 'wei_freq': 1, 'seed': 2})])
    S['pagerank_centrality'] = (ALLFAM, lambda g, M: [((M, 0.85), {}), ((M, 0.85), {'falff': g.vec(len(M) if M.ndim else 1)})])
    S['partition_distance'] = (['-'], lambda g, M: [((g.ci(), g.ci()), {}), ((g.ci_float(), g.ci()), {}), ((g.ci(), g.ci()[:-1]), {})])
    S['path_transitivity'] = (['und_w', 'frac_u', 'bin_u', 'nonsquare', 'nan_u'], lambda g, M: [((M,), {}), ((M,), {'transform': 'log'}), ((M,), {'transform': 'inv'})])
    S['pick_four_unique_nodes_quickly'] = (['-'], lambda g, M: [((6,), {'seed': 1})])
    for f in ('randmio_dir', 'randmio_dir_connected', 'randmio_dir_signed', 'randmio_und', 'randmio_und_connected', 'randmio_und_signed'):
        S[f] = (ALLFAM, lambda g, M: [((M, 2), {'seed': 1}), ((M, 1), {'seed': 5})])
    S['randomize_graph_partial_und'] = (ALLFAM, lambda g, M: [((M, (g.rs.rand(*M.shape) < 0.2).astype(float) if M.ndim == 2 else M, 3), {'seed': 1})])
    S['randomizer_bin_und'] = (ALLFAM, lambda g, M: [((M, 0.5), {'seed': 1}), ((M, 1.0), {'seed': 2})])
    S['reachdist'] = (ALLFAM, lambda g, M: [((M,), {}), ((M,), {'ensure_binary': False})])
    S['rentian_scaling'] = (['bin_u', 'und_w', 'nonsquare'], lambda g, M: [((M, g.xyz(), 3), {'seed': 1})])
    S['reorderMAT'] = (['und_w', 'dir_w', 'nonsquare', 'strided_u'], lambda g, M: [((M,), {'H': 20}), ((M,), {'H': 20, 'cost': 'circ'})])
    S['reorder_matrix'] = (['und_w', 'dir_w', 'nonsquare', 'strided_u'], lambda g, M: [((M,), {'H': 20}), ((M,), {'H': 20, 'cost': 'circ'})])
    S['resource_efficiency_bin'] = (['bin_u', 'bin_d', 'und_w', 'nonsquare', 'bool_u'], lambda g, M: [((M, 0.5), {}), ((M, float('nan')), {}), ((M, 2.0), {})])
    S['retrieve_shortest_path'] = (['und_w', 'frac_u'], None)     # special: built from distance_wei_floyd
    for f in ('rich_club_bd', 'rich_club_bu', 'rich_club_wd', 'rich_club_wu'):
        S[f] = (ALLFAM, lambda g, M: [((M,), {}), ((M,), {'klevel': 2})])
    for f in ('rout_efficiency', 'distance_wei_floyd'):
        S[f] = (ALLFAM, lambda g, M: [((M,), {}), ((M,), {'transform': 'log'}), ((M,), {'transform': 'inv'}), ((M,), {'transform': 'bogus'})])
    S['search_information'] = (ALLFAM, lambda g, M: [((M,), {}), ((M,), {'transform': 'inv', 'has_memory': True}), ((M,), {'transform': 'log'})])
    S['score_wu'] = (ALLFAM, lambda g, M: [((M, 2.0), {}), ((M, 100.0), {})])
    S['teachers_round'] = (['-'], lambda g, M: [((2.5,), {}), ((-0.5,), {})])
    S['threshold_absolute'] = (ALLFAM, lambda g, M: [((M, 2.0), {}), ((M, 2.0), {'copy': False}), ((M, -1.0), {'copy': True})])
    S['threshold_proportional'] = (ALLFAM, lambda g, M: [((M, 0.5), {}), ((M, 0.5), {'copy': False}), ((M, 1.5), {}), ((M, 1.5), {'copy': False}), ((M, 0.25), {'copy': True})])
    S['weight_conversion'] = (ALLFAM, lambda g, M: [((M, w), kw) for w in ('binarize', 'normalize', 'lengths', 'bogus') for kw in ({}, {'copy': False})])
    for f in ('binarize', 'normalize', 'invert', 'logtransform', 'autofix'):
        S[f] = (ALLFAM, lambda g, M: [((M,), {}), ((M,), {'copy': False}), ((M,), {'copy': True})])
    S['writetoPAJ'] = (['und_w', 'dir_w', 'nonsquare'], lambda g, M: [((M, os.path.join(tempfile.gettempdir(), 'c13_%d.net' % os.getpid()), True), {}),
                                                                  ((M, os.path.join(tempfile.gettempdir(), 'c13_%d.net' % os.getpid()), False), {})])
    return S, one


SCALAR_GUESS = {'k': 2, 'itr': 2, 'thr': 2.0, 'klevel': 2, 'nr_steps': 2, 'maxswap': 2, 'p': 0.5, 'alpha': 0.5, 'd': 0.85, 'tau': 0.3,
                'lamb': 0.5, 's': 2.0, 'gamma': 1.0, 'source': 0, 'n': 4, 'qmax': 2, 'reps': 2, 'flag': 0, 'wcm': 'binarize'}


def generic_builder(sig):
    """for functions that are not in the table (new ones): guess by parameter name"""
    ps = [p for p in sig.parameters.values() if p.default is inspect._empty and p.kind in (p.POSITIONAL_ONLY, p.POSITIONAL_OR_KEYWORD)]

    def build(g, M):
        args = []
        for i, p in enumerate(ps):
            if i == 0:
                args.append(M)
            elif p.name in ('ci', 'kci', 'Ci', 'cx', 'cy', 'c'):
                args.append(g.ci())
            elif p.name in SCALAR_GUESS:
                args.append(SCALAR_GUESS[p.name])
            else:
                args.append(g.second())
        kw = {'seed': 1} if 'seed' in sig.parameters else {}
        return [(tuple(args), kw)]
    return build


# ----------------------------------------------------------------------------- snapshots
def enc(x):
    if hasattr(x, 'toarray') and hasattr(x, 'indptr'):
        return {'sparse_csr': enc(x.toarray())}
    if isinstance(x, np.ndarray):
        return {'nd': x.tolist(), 'dtype': str(x.dtype), 'shape': list(x.shape), 'order': 'F' if (x.flags.f_contiguous and not x.flags.c_contiguous) else 'C'}
    if isinstance(x, (list, tuple)):
        return [enc(y) for y in x]
    if isinstance(x, dict):
        return {str(k): enc(v) for k, v in x.items()}
    if isinstance(x, (np.integer,)):
        return int(x)
    if isinstance(x, (np.floating,)):
        return float(x)
    return x


def dec(x):
    if isinstance(x, dict) and 'sparse_csr' in x:
        return sparse(dec(x['sparse_csr']))
    if isinstance(x, dict) and 'nd' in x and 'dtype' in x:
        a = np.array(x['nd'], dtype=np.dtype(x['dtype'])).reshape(x['shape'])
        return np.asfortranarray(a) if x.get('order') == 'F' else a
    if isinstance(x, list):
        return [dec(y) for y in x]
    return x


def arrays_in(x, path, out):
    if isinstance(x, np.ndarray):
        out.append((path, x))
        if isinstance(x.base, np.ndarray):
            out.append((path + '.base', x.base))
    elif hasattr(x, 'indptr') and hasattr(x, 'data') and hasattr(x, 'indices'):      # scipy.sparse: its three arrays
        for k in ('data', 'indices', 'indptr'):
            if isinstance(getattr(x, k), np.ndarray):
                out.append((path + '.' + k, getattr(x, k)))
    elif isinstance(x, (list, tuple)):
        for i, y in enumerate(x):
            arrays_in(y, '%s[%d]' % (path, i), out)
    elif isinstance(x, dict):
        for k, y in x.items():
            arrays_in(y, '%s[%r]' % (path, k), out)


def same(a, b):
    if a.dtype != b.dtype or a.shape != b.shape:
        return False
    try:
        return bool(np.array_equal(a, b, equal_nan=True))
    except Exception:
        try:
            return bool(np.array_equal(a, b))
        except Exception:
            return a.tobytes() == b.tobytes()


def lists_in(x, path, out):
    if isinstance(x, list):
        out.append((path, x))
        for i, y in enumerate(x):
            lists_in(y, '%s[%d]' % (path, i), out)


def call_hard(f, args, kwargs, t):
    """like common.call, but the alarm repeats: a Timeout swallowed by a bare `except:` inside the library is raised again"""
    import signal
    signal.setitimer(signal.ITIMER_REAL, t, 0.2)
    try:
        return f(*args, **kwargs)
    finally:
        signal.setitimer(signal.ITIMER_REAL, 0)


READONLY_WRITE = ('assignment destination is read-only', 'output array is read-only', 'array is read-only',
                  'cannot set WRITEABLE flag', 'is read-only', 'read-only')
READONLY_NOT_A_WRITE = ('buffer source array is read-only',)     # Cython typed memoryviews refuse read-only buffers even to read


def frozen(a):
    """the same array (dtype, shape, strides, values) over an immutable bytes buffer: every write raises, and
    setflags(write=True) cannot re-enable it"""
    if not isinstance(a, np.ndarray) or a.size == 0 or a.dtype.kind == 'O':
        return a
    r = a
    while isinstance(r.base, np.ndarray):
        r = r.base
    if not (r.flags.c_contiguous or r.flags.f_contiguous):
        return a
    off = a.__array_interface__['data'][0] - r.__array_interface__['data'][0]
    if off < 0 or off + 1 > r.nbytes:
        return a
    buf = r.tobytes(order='A')
    return np.ndarray(shape=a.shape, dtype=a.dtype, buffer=buf, offset=off, strides=a.strides)


def freeze_deep(x):
    if isinstance(x, np.ndarray):
        return frozen(x)
    if hasattr(x, 'indptr') and hasattr(x, 'data') and hasattr(x, 'indices'):
        for k in ('data', 'indices', 'indptr'):
            try:
                getattr(x, k).setflags(write=False)
            except Exception:
                pass
        return x
    if isinstance(x, tuple):
        return tuple(freeze_deep(y) for y in x)
    if isinstance(x, list):
        return [freeze_deep(y) for y in x]
    if isinstance(x, dict):
        return {k: freeze_deep(v) for k, v in x.items()}
    return x


def run_case(f, args, kwargs, timeout):
    """call f; returns (status, result, changed, arrs, message) where changed = [(path, before, after)] over every ndarray argument"""
    arrs = []
    for i, a in enumerate(args):
        arrays_in(a, 'arg%d' % i, arrs)
    for k, a in kwargs.items():
        arrays_in(a, k, arrs)
    snaps = [(p, a, a.copy(), a.dtype, a.shape) for p, a in arrs]
    lsts = []
    for i, a in enumerate(args):
        lists_in(a, 'arg%d' % i, lsts)
    for k, a in kwargs.items():
        lists_in(a, k, lsts)
    lsnaps = [(p, l, copy.deepcopy(l)) for p, l in lsts]
    res, status, msg = None, 'ok', ''
    try:
        with contextlib.redirect_stdout(io.StringIO()), contextlib.redirect_stderr(io.StringIO()):
            res = call_hard(f, args, kwargs, timeout)
    except Timeout:
        status = 'timeout'
    except BaseException as e:
        if isinstance(e, (KeyboardInterrupt, SystemExit)):
            raise
        status = 'raised:' + type(e).__name__
        msg = str(e)[:300]
    changed = []
    for p, a, before, dt, sh in snaps:
        if not (a.dtype == dt and a.shape == sh and same(a, before)):
            changed.append((p, before, a.copy()))
    for p, l, before in lsnaps:
        try:
            eq = json.dumps(enc(l), default=str) == json.dumps(enc(before), default=str)
        except Exception:
            eq = True
        if not eq:
            changed.append((p, before, copy.deepcopy(l)))
    return status, res, changed, arrs, msg


def formal_of(sig, path):
    """'arg2[0].base' / 'kci' -> name of the formal parameter that received it"""
    head = re.split(r'[.\[]', path, 1)[0]
    names = list(sig.parameters)
    if head.startswith('arg') and head[3:].isdigit():
        i = int(head[3:])
        ps = [p for p in sig.parameters.values() if p.kind in (p.POSITIONAL_ONLY, p.POSITIONAL_OR_KEYWORD)]
        if i < len(ps):
            return ps[i].name
        va = [p for p in sig.parameters.values() if p.kind == p.VAR_POSITIONAL]
        return va[0].name if va else head
    if head in names:
        return head
    vk = [p for p in sig.parameters.values() if p.kind == p.VAR_KEYWORD]
    return vk[0].name if vk else head


def motif_library(bct):
    """the motif functions read bct/algorithms/motif34lib.mat, which is not in the tree; bct.make_motif34lib() writes it next to
    motifs.py.  Here it is generated once into the temp dir (cached by the hash of motifs.py) and scipy.io.loadmat /
    savemat are redirected for that one file name, so that the eight motif functions run past their first statement and
    nothing is ever written into the source tree.  -> path or None"""
    import scipy.io, hashlib
    src = os.path.join(REPO, 'bct', 'algorithms', 'motifs.py')
    try:
        h = hashlib.sha1(open(src, 'rb').read() + np.__version__.encode()).hexdigest()[:16]
    except OSError:
        return None
    path = os.path.join(tempfile.gettempdir(), 'c13_motif34lib_%s.mat' % h)
    real_save, real_load = scipy.io.savemat, scipy.io.loadmat

    def is_lib(fn):
        return os.path.basename(str(fn)) == 'motif34lib.mat'

    def savemat(fn, *a, **k):
        if is_lib(fn):
            return real_save(path + '.tmp.mat', *a, **k)
        return None                                   # nothing else may be written either
    def loadmat(fn, *a, **k):
        if is_lib(fn) and not os.path.exists(str(fn)) and os.path.exists(path):
            return real_load(path, *a, **k)
        return real_load(fn, *a, **k)
    scipy.io.savemat, scipy.io.loadmat = savemat, loadmat
    if not os.path.exists(path):
        try:
            with contextlib.redirect_stdout(io.StringIO()):
                call_hard(bct.make_motif34lib, (), {}, 120.0)
            os.replace(path + '.tmp.mat', path)
        except BaseException as e:
            if isinstance(e, (KeyboardInterrupt, SystemExit)):
                raise
            return None
    return path if os.path.exists(path) else None


def shares(res, arrs):
    outs = []
    arrays_in(res, 'result', outs)
    hit = []
    for rp, r in outs:
        for ap, a in arrs:
            try:
                if r.size and a.size and np.may_share_memory(r, a) and np.shares_memory(r, a, max_work=100000):
                    hit.append((rp, ap))
            except Exception:
                pass
    return hit


def single_thread_blas():
    """tiny matrices: BLAS worker threads only burn system time (and fight with the other checks for the cores)"""
    import ctypes, re
    try:
        for l in set(re.findall(r'(/\S*openblas\S*\.so\S*)', open('/proc/self/maps').read())):
            L = ctypes.CDLL(l)
            for sym in ('openblas_set_num_threads', 'openblas_set_num_threads64_', 'scipy_openblas_set_num_threads64_', 'scipy_openblas_set_num_threads'):
                if hasattr(L, sym):
                    getattr(L, sym)(1)
    except Exception:
        pass


# ----------------------------------------------------------------------------- the check
CORPUS = os.path.join(os.path.dirname(os.path.abspath(__file__)), 'translate_alias_corpus')
ONLY = set(filter(None, os.environ.get('C13_ONLY', '').split(',')))      # development aid: restrict the dynamic part

# pinned shapes of the two copy utilities whose copy=False path is not in place (Proofs/AliasBct.v autofix_shape / logtransform_shape)
_ifcopy = ('IfFlag', ('Bind', 'W', ('CopyOf', 'W')), ('Skip',))
_ret = ('Return', 'W')
_refresh = ('Choice', ('Bind', 'W', ('Fresh',)), ('Skip',))
PINNED_SHAPES = {
    'autofix': ta.seq([_ifcopy, ('Mutate', 'W'), ('Mutate', 'W'), ('Mutate', 'W'), ('Bind', 'u', ('Fresh',)), _refresh, _refresh, _ret]),
    'logtransform': ta.seq([_ifcopy, ('Choice', ('Raise',), ('Skip',)), ('Bind', 'W', ('Fresh',)), _ret]),
}


def strip_lines(c):
    """the command without the source line numbers the translator attaches to Mutate / CallFn"""
    k = c[0]
    if k == 'Mutate':
        return ('Mutate', c[1])
    if k == 'CallFn':
        return tuple(c[:5])
    if k in ('Seq', 'Choice', 'IfFlag', 'Try'):
        return (k, strip_lines(c[1]), strip_lines(c[2]))
    if k == 'Loop':
        return ('Loop', strip_lines(c[1]))
    return c


def static_part(ctx, gen, funs, bct):
    prog = funs
    ctx.extra['static'] = {
        'functions_translated': len(gen['funs']), 'public': sum(1 for f in gen['funs'] if f['public']),
        'helpers_and_nested': sum(1 for f in gen['funs'] if not f['public']),
        'flagged': gen['flagged'], 'left_out': gen['hopeless'], 'untranslatable': gen['untranslatable'],
        'commands': sum(ta.cmd_size(f['body']) for f in gen['funs']), 'gen_sha1': gen['sha1'],
        'summaries_with_writes': {f['name']: {'copy_true': f['mut_t'], 'copy_false': f['mut_f']} for f in gen['funs'] if f['mut_t'] or f['mut_f']},
        'contracts_verified': sorted(f['name'] for f in gen['funs'] if f['contract']),
        'documented_scalars_written_by_name': gen.get('promoted', {}),
        'flagged_when_documented_scalars_are_believed': (gen['ds'] or {}).get('flagged') if gen.get('promoted') else gen['flagged'],
    }
    for e in gen['errors']:
        ctx.errors.append('translator: ' + e)

    # ---- 0. the translator itself: pinned corpus of small positive / negative snippets, tables vs installed NumPy / SciPy
    try:
        n_corpus, complaints = ta.corpus_check(CORPUS)
    except Exception:
        n_corpus, complaints = 0, ['corpus: translator crashed on the corpus: ' + traceback.format_exc()[-600:]]
    complaints += ['tables: ' + c for c in ta.table_selfcheck()]
    ctx.extra['static']['translator_corpus_cases'] = n_corpus
    ctx.count('translator_corpus_cases', n_corpus)
    for c in complaints:
        ctx.mismatch('translator-corpus', c, {'fn': 'harness/translate_alias.py'})

    # ---- 1. the extracted Coq checker on the serialised program must agree with the translator's mirror
    res = run_model(ID, [ta.serialise(gen['funs'])])
    ctx.model_cases = len(gen['funs'])
    if not res or is_err(res[0]):
        ctx.mismatch('extracted-checker', 'driver failed: %s' % (res[0] if res else 'no output'), {'fn': 'drv_c13'})
    else:
        for (nm, b_ok, c_ok, d_ok) in res[0]:
            fd = funs[nm]
            mine = (ta.check_body(prog, fd), ta.check_contract(prog, fd), ta.check_decl(fd))
            if mine != (b_ok, c_ok, d_ok):
                ctx.mismatch('extracted-checker:' + nm, 'Coq checker (body, contract, decl) = %s, Python mirror = %s' % ((b_ok, c_ok, d_ok), mine), {'fn': nm})
            accepted = b_ok and c_ok and d_ok
            if accepted == (nm in gen['flagged']):
                ctx.mismatch('extracted-checker:' + nm, 'flagged list and Coq verdict disagree', {'fn': nm})

    # ---- 2. the statically determined public namespace is the real one
    dyn_public = sorted(k for k, v in vars(bct).items() if inspect.isfunction(v) and (v.__module__ or '').startswith('bct') and not k.startswith('_'))
    stat_public = sorted(f['name'] for f in gen['all'] if f['public'])
    if dyn_public != stat_public:
        ctx.mismatch('public-namespace', 'translator sees %s, import sees %s' % (sorted(set(stat_public) - set(dyn_public)), sorted(set(dyn_public) - set(stat_public))),
                     {'fn': 'bct.__init__'})
    for nm in sorted(gen['hopeless']):
        ctx.count('static:left_out')
    for nm in NAMED_CONTRACT:
        if nm in funs and not funs[nm]['contract']:
            ctx.mismatch(nm + ':copy-false-contract', 'the checker cannot establish that copy=False returns the argument itself', {'fn': nm})
    # the copy utilities that have no in-place contract: is the pinned refutation (Proofs/AliasBct.v) still about the code?
    pinned = {}
    for nm, shape in PINNED_SHAPES.items():
        fd = funs.get(nm)
        if fd is None:
            pinned[nm] = 'not translated'
        elif fd['contract']:
            pinned[nm] = 'the code now has a verified in-place contract (the pinned refutation no longer applies)'
        elif strip_lines(fd['body']) == shape:
            pinned[nm] = 'generated body = pinned shape: copy=False is not in place (C13_%s_copy_false_refuted applies)' % nm
        else:
            pinned[nm] = 'generated body differs from the pinned shape (no in-place contract is verified for it either)'
    ctx.extra['static']['copy_false_not_in_place'] = pinned
    # bct/nbs_parallel.py is not in the namespace (static only): the data arrays x, y must not be written
    fd = funs.get('nbs_parallel.nbs_bct')
    if any(f['file'].endswith('nbs_parallel.py') for f in gen['all']):
        if fd is None or 'x' in fd['mut_t'] or 'y' in fd['mut_t']:
            ctx.mismatch('nbs_parallel.nbs_bct:static-may-mutate', 'the checker cannot show that nbs_parallel.nbs_bct leaves x and y alone (%s)' %
                         (gen['hopeless'].get('nbs_parallel.nbs_bct') or (fd and ta.blame(prog, fd, ['x', 'y'], True)[:3])), {'fn': 'nbs_parallel.nbs_bct'})
        ctx.extra['static']['nbs_parallel'] = {'translated': fd is not None, 'summary_copy_true': fd and fd['mut_t']}
    return dyn_public


def run(ctx):
    import bct
    import scipy.linalg          # loads scipy's BLAS too, before the thread pools are sized down
    single_thread_blas()
    if GEN_ERROR or GEN is None:
        ctx.errors.append('translator failed: ' + str(GEN_ERROR)[-1500:])
        return
    gen = GEN
    funs = {fd['name']: fd for fd in gen['funs']}
    prog = funs
    dyn_public = static_part(ctx, gen, funs, bct)

    # ---- 3. dynamic validation and failing-input search
    S, one = spec_table()
    tmo = 1.5 if not ctx.thorough else 5.0
    import scipy.io
    real_savemat, real_loadmat = scipy.io.savemat, scipy.io.loadmat
    lib = motif_library(bct)        # redirects loadmat / savemat of motif34lib.mat to the temp dir; nothing is written into the tree
    rounds = ctx.scale(1, 4)
    dyn_mut, dyn_mut_cf, exercised, completed, not_ex, shared = {}, {}, {}, {}, {}, {}
    cf_stats, docs_seen, pass_counts = {}, set(), {}
    t_dyn = time.time()
    # a runaway allocation inside the library must end as MemoryError in that call, not take the machine down
    import resource
    old_as = resource.getrlimit(resource.RLIMIT_AS)
    try:
        resource.setrlimit(resource.RLIMIT_AS, (8 * 2 ** 30, old_as[1]))
    except Exception:
        pass
    # The plan is a deterministic list of cases (function x family x variant x pass).  Wall-clock only enters through the
    # per-call time-out (non-terminating library loops) and a far safety net; per function at most MAX_TIMEOUTS calls may
    # time out before the rest of its plan is dropped (counted, and listed in the evidence).
    MAX_TIMEOUTS = 1 if not ctx.thorough else 2
    safety_net = t_dyn + (240.0 if not ctx.thorough else 800.0)
    # functions the static checker flags (open findings, or a freshly introduced mutation) are driven first
    flagged = [nm for nm in dyn_public if funs.get(nm) is None or funs[nm]['mut_t'] or (funs[nm]['mut_f'] and not funs[nm]['copyutil'])]
    dyn_order = flagged + [nm for nm in dyn_public if nm not in flagged]
    if ONLY:
        dyn_order = [nm for nm in dyn_order if nm in ONLY]

    def record_mutation(nm, fd, sig, case, changed, status, mode, has_copy_false, probe_formals):
        util = bool(fd and fd['copyutil'])
        w = dict(case)
        w['changed'] = [{'argument': p, 'formal': formal_of(sig, p), 'before': enc(b), 'after': enc(a)} for p, b, a in changed[:2]]
        formals = sorted({formal_of(sig, p) for p, _, _ in changed})
        if has_copy_false and util:
            ctx.count('copy_false:operates_on_argument')
            cf_stats.setdefault(nm, {}).setdefault('writes_argument', 0)
            cf_stats[nm]['writes_argument'] += 1
            for q in formals:
                dyn_mut_cf.setdefault(nm, {}).setdefault(q, w)
            return
        tgt = dyn_mut_cf if has_copy_false else dyn_mut
        for q in formals:
            tgt.setdefault(nm, {}).setdefault(q, w)
        ctx.count('mutation_witnesses:' + nm)
        if ctx.dist['mutation_witnesses:' + nm] > 6:          # a few witnesses per function are enough
            return
        for q in formals:
            if q in probe_formals:
                ctx.fail('%s:mutates-0d-argument-%s' % (nm, q),
                         '%s changed the 0-d array passed as its parameter %s (documented as a scalar; call %s)' % (nm, q, status), w)
            elif has_copy_false:
                ctx.fail(nm + ':mutates-argument-copy-false',
                         '%s(..., copy=False) changed its argument %s (status %s); the exception of C13 covers only the thresholding / weight-conversion utilities' % (nm, q, status), w)
            else:
                ctx.fail(nm + ':mutates-argument', '%s changed its argument %s (call %s, pass %s)' % (nm, q, status, mode), w)

    for rnd in range(rounds):
        for nm in dyn_order:
            f = getattr(bct, nm)
            sig = inspect.signature(f)
            fd = funs.get(nm)
            util = bool(fd and fd['copyutil'])
            fams, build = S.get(nm, (ALLFAM, None))
            if not sig.parameters:
                # nothing can be passed, so nothing can be modified (make_motif34lib: also regenerates a 1 MB library, slowly)
                not_ex[nm] = 'takes no arguments'
                continue
            if nm not in S:
                nreq = len([p for p in sig.parameters.values() if p.default is inspect._empty and p.kind in (p.POSITIONAL_ONLY, p.POSITIONAL_OR_KEYWORD)])
                build = one if nreq == 1 else generic_builder(sig)
                if nreq == 0:
                    fams, build = ['-'], (lambda g, M: [((), {})])
            timeouts = 0
            probed = False
            for fi, fam in enumerate(fams):
                if timeouts >= MAX_TIMEOUTS or time.time() > safety_net:
                    ctx.count('dynamic:plan_cut_after_timeouts' if timeouts >= MAX_TIMEOUTS else 'dynamic:safety_net')
                    break
                fam_seed = int(ctx.nprng.randint(0, 2 ** 31 - 1))
                fam_n = int(ctx.nprng.randint(5, 8)) if rnd else 6

                def fresh(flav):
                    """the same family member and variants, rebuilt from the same seed: no call sees what another one left behind"""
                    g = Gen(np.random.RandomState(fam_seed), fam_n, flav)
                    M = getattr(g, fam)() if fam != '-' else None
                    if nm == 'retrieve_shortest_path':
                        _, hops, Pmat = bct.distance_wei_floyd(M)
                        return [((0, 3, hops, Pmat), {}), ((2, 2, hops, Pmat), {})]
                    return build(g, M)
                try:
                    nvar = len(fresh(fi + rnd))
                except Exception as e:
                    ctx.count('dynamic:builder_error')
                    nvar = 0
                # passes: before/after comparison always; read-only buffers on the well-formed families (all of them in the
                # thorough tier) with the NEXT layout / label style of the second arguments; 0-d probes once per function
                modes = ['rw']
                if fam in VALID or fam == '-' or ctx.thorough:
                    modes.append('ro')
                if not probed and (fam in VALID or fam == '-'):
                    modes.append('p0d')
                    probed = True
                fam_timed_out = False
                for mode in modes:
                    if fam_timed_out:
                        break
                    flav = fi + rnd + (3 if mode == 'ro' else 0)
                    plan = []
                    for vi in range(nvar):
                        if mode != 'p0d':
                            plan.append((vi, None))
                        elif vi < 2:
                            try:
                                a0, k0 = fresh(flav)[vi]
                            except Exception:
                                continue
                            spots = [('a', i) for i, x in enumerate(a0) if type(x) in (int, float)] + \
                                    [('k', k) for k, x in k0.items() if type(x) in (int, float) and k != 'seed']
                            plan += [(vi, sp) for sp in spots]
                    for vi, spot in plan:
                        if timeouts >= MAX_TIMEOUTS:
                            break
                        try:
                            args, kwargs = fresh(flav)[vi]
                        except Exception:
                            ctx.count('dynamic:builder_error')
                            continue
                        probe_formals = set()
                        if spot is not None:
                            args, kwargs = list(args), dict(kwargs)
                            if spot[0] == 'a':
                                args[spot[1]] = np.array(args[spot[1]])
                                probe_formals.add(formal_of(sig, 'arg%d' % spot[1]))
                            else:
                                kwargs[spot[1]] = np.array(kwargs[spot[1]])
                                probe_formals.add(formal_of(sig, spot[1]))
                            args = tuple(args)
                        has_copy_false = kwargs.get('copy', True) is False
                        if mode == 'ro':
                            if has_copy_false:
                                continue                  # writing is what copy=False asks for
                            args, kwargs = freeze_deep(tuple(args)), freeze_deep(kwargs)
                        case = {'fn': nm, 'family': fam, 'pass': mode, 'args': enc(list(args)), 'kwargs': enc(kwargs)}
                        status, resv, changed, arrs, msg = run_case(f, args, kwargs, tmo)
                        case['status'] = status
                        ctx.case(case, nontrivial=bool(arrs))
                        ctx.count('status:' + status.split(':')[0])
                        ctx.count('family:' + fam)
                        ctx.count('pass:' + mode)
                        exercised[nm] = exercised.get(nm, 0) + 1
                        if status == 'ok':
                            completed[nm] = completed.get(nm, 0) + 1
                        if status == 'timeout':
                            timeouts += 1
                            fam_timed_out = True
                        # the doc-kind assumption, checked: every array / list handed over sits in a formal the model treats as an array
                        if fd is not None and mode != 'p0d':
                            for pth, a in arrs:
                                q = formal_of(sig, pth)
                                if q in fd['params'] and q not in fd['arr'] and (nm, q) not in docs_seen:
                                    docs_seen.add((nm, q))
                                    ctx.mismatch(nm + ':doc-kind', 'the harness passes an ndarray for parameter %s, which the model treats as array-free '
                                                 '(numpydoc kind) - the run %s' % (q, status), case)
                        if mode == 'ro' and status.startswith('raised') and 'read-only' in msg:
                            if any(x in msg for x in READONLY_NOT_A_WRITE):
                                ctx.count('read_only:refused_by_a_reader')
                            else:
                                ctx.count('read_only:write_attempt')
                                w = dict(case)
                                w['error'] = msg
                                dyn_mut.setdefault(nm, {}).setdefault('?', w)
                                ctx.count('mutation_witnesses:' + nm)
                                if ctx.dist['mutation_witnesses:' + nm] <= 6:
                                    ctx.fail(nm + ':mutates-argument', '%s tried to write into a read-only argument array (%s): with a writable '
                                             'array the same call writes into the caller\'s memory, whatever the values' % (nm, msg[:120]), w)
                        if changed:
                            record_mutation(nm, fd, sig, case, changed, status, mode, has_copy_false, probe_formals)
                        # copy=False contract of the utilities: the result IS the argument
                        if has_copy_false and util and status == 'ok' and isinstance(args[0], np.ndarray):
                            ident = resv is args[0]
                            ctx.count('copy_false:result_is_argument' if ident else 'copy_false:result_is_not_argument')
                            st_ = cf_stats.setdefault(nm, {})
                            st_['result_is_argument' if ident else 'result_is_not_argument'] = st_.get('result_is_argument' if ident else 'result_is_not_argument', 0) + 1
                            if nm in NAMED_CONTRACT:
                                ctx.check(ident, nm + ':copy-false-contract', 'copy=False did not return the caller\'s array itself', case)
                            if fd and fd['contract'] and not ident:
                                ctx.mismatch(nm + ':copy-false-contract', 'the model proves result = argument, the implementation returns another object', case, True, False)
                        # copy=True (default): the result must not share memory with an argument when the summary says so
                        if status == 'ok' and not has_copy_false and fd is not None and mode == 'rw':
                            hit = shares(resv, arrs)
                            if hit:
                                shared[nm] = shared.get(nm, 0) + 1
                                if not fd['ret_t']:
                                    ctx.mismatch(nm + ':result-shares-memory', 'result %s shares memory with %s but the model says the result is fresh' % hit[0], case, False, True)
            if exercised.get(nm, 0) == 0 and time.time() <= safety_net:
                not_ex[nm] = 'no argument could be built'
    scipy.io.savemat, scipy.io.loadmat = real_savemat, real_loadmat
    try:
        resource.setrlimit(resource.RLIMIT_AS, old_as)
    except Exception:
        pass
    ctx.extra['dynamic_wall_s'] = round(time.time() - t_dyn, 1)

    # ---- 4. static vs dynamic, parameter by parameter
    for nm in (dyn_order if ONLY else dyn_public):
        fd = funs.get(nm)
        if fd is None:
            why = gen['hopeless'].get(nm, 'not translated')
            if nm in dyn_mut:
                pass          # already reported with its failing input
            else:
                ctx.mismatch(nm + ':static-may-mutate', 'no summary validates this function (%s) and no run changed an argument' % why, {'fn': nm})
            continue
        seen_t = dyn_mut.get(nm, {})
        seen_f = dyn_mut_cf.get(nm, {})
        for q in fd['mut_t']:
            if q not in seen_t and '?' not in seen_t:
                why = ta.blame(prog, fd, [q], True)
                ctx.mismatch(nm + ':static-may-mutate', 'the checker rejects %s (%s: parameter %s, %s) but no run changed that argument' % (nm, fd['file'], q, why[:3]),
                             {'fn': nm, 'parameter': q, 'blame': why[:5]})
        for q in sorted(seen_t):
            if q != '?' and q not in fd['mut_t'] and q in fd['params']:
                ctx.mismatch(nm + ':translator-unsound', 'the implementation changed its argument %s, which the model says is never written' % q, seen_t[q], 'pure', 'mutates')
        if '?' in seen_t and not fd['mut_t']:
            ctx.mismatch(nm + ':translator-unsound', 'the implementation tried to write into a read-only argument; the model says nothing is written', seen_t['?'], 'pure', 'mutates')
        if not fd['copyutil']:
            for q in fd['mut_f']:
                if q not in fd['mut_t'] and q not in seen_f:
                    why = ta.blame(prog, fd, [q], False)
                    ctx.mismatch(nm + ':static-may-mutate-copy-false', 'the checker rejects %s under copy=False (parameter %s, %s) but no run changed that argument' % (nm, q, why[:3]),
                                 {'fn': nm, 'parameter': q, 'blame': why[:5]})
        for q in sorted(seen_f):
            if q not in fd['mut_f'] and q in fd['params']:
                ctx.mismatch(nm + ':translator-unsound', 'copy=False changed the argument %s, which the model says is never written' % q, seen_f[q], 'pure', 'mutates')
    for nm in dyn_public:
        if not exercised.get(nm) and nm not in not_ex:
            not_ex[nm] = 'not in this run\'s plan' if ONLY else 'safety net of the tier reached before this function'
    never_ok = sorted(nm for nm in dyn_public if exercised.get(nm) and not completed.get(nm))
    ctx.extra['dynamic'] = {
        'public_functions': len(dyn_public), 'exercised': len([n for n in dyn_public if exercised.get(n)]),
        'completed_at_least_once': len([n for n in dyn_public if completed.get(n)]),
        'only_exceptional_exits': never_ok, 'not_exercised': not_ex,
        'mutating': {k: sorted(v) for k, v in sorted(dyn_mut.items())},
        'mutating_copy_false_non_utility': {k: sorted(v) for k, v in sorted(dyn_mut_cf.items()) if not (funs.get(k) or {}).get('copyutil')},
        'copy_false_of_the_utilities': cf_stats,
        'result_shares_memory_with_argument': shared,
        'motif_library_available': bool(lib),
    }
    try:
        os.remove(os.path.join(tempfile.gettempdir(), 'c13_%d.net' % os.getpid()))
    except OSError:
        pass


def replay(ctx, payload):
    """./check C13 --replay replays/C13-input-....json : call the function again on the recorded arguments"""
    import bct
    case = payload.get('case') or payload.get('detail', {}).get('case') or {}
    nm = case.get('fn')
    if not nm or not hasattr(bct, nm) or 'args' not in case:
        print(json.dumps(payload, indent=1)[:4000])
        return 0
    args, kwargs = dec(case['args']), {k: dec(v) for k, v in (case.get('kwargs') or {}).items()}
    if case.get('pass') == 'ro':
        args, kwargs = freeze_deep(tuple(args)), freeze_deep(kwargs)
    motif_library(bct)
    status, resv, changed, arrs, msg = run_case(getattr(bct, nm), tuple(args), kwargs, 30.0)
    print('replay %s (pass %s): status=%s %s arguments changed: %s' % (nm, case.get('pass', 'rw'), status, msg[:160], [p for p, _, _ in changed] or 'none'))
    if case.get('pass') == 'ro' and 'read-only' in msg and not any(x in msg for x in READONLY_NOT_A_WRITE):
        print('  the call tried to write into a read-only argument array')
        return 1
    for p, b, a in changed[:2]:
        print('  %s before=%s\n  %s after =%s' % (p, np.asarray(b).tolist(), p, np.asarray(a).tolist()))
    return 1 if changed else 0
