"""C13 — library calls never modify the caller's arrays unless copy=False is requested.

Shape (B): the Coq development proves the alias/mutation checker sound once and for all
(Proofs/AliasLang.v); the model of every bct function is REGENERATED from the Python source when this module
is imported (translate_alias.generate -> coq/theories/Gen/Alias.v), so ./check rebuilds and re-checks it
against the tree as it is now.  run(ctx) validates the abstraction dynamically and searches for failing
inputs: every public function is called on deep-copied small arguments and every array argument is compared
afterwards (values, dtype, shape)."""
import os, sys, io, copy, json, inspect, contextlib, tempfile, traceback
from common import *
import translate_alias as ta

ID = 'C13'
COQ_FILES = ['Model/AliasLang.v', 'Proofs/AliasLang.v', 'Gen/Alias.v', 'Properties/C13.v']
THEOREMS = ['C13_no_param_mutation_sound', 'C13_params_unchanged', 'C13_frame_sound', 'C13_copy_false_contract',
            'C13_copy_true_contract', 'C13_bct_public_functions_pure', 'C13_bct_copy_false_contract',
            'C13_rejected_refuted']
RULE = ('every public function of the bct namespace x argument families (symmetric / directed / signed / binary / '
        'fractional weights, all with NONZERO diagonal; int, bool, Fortran-ordered and strided-view inputs; community '
        'vectors with odd labels) x option variants (copy=True/False, seeds, string options) x malformed arguments '
        '(non-square, 1-D, empty, NaN) that exercise the exceptional exits; a case is non-trivial when at least one '
        'ndarray was passed; distinct by hash of (function, arguments)')
ASSUMES = ['parameter kinds (array vs scalar) are read from the numpydoc Parameters block; an undocumented parameter is an '
           'array, except `seed` and parameters forwarded as is to a documented scalar formal',
           'a d-index subscript P[i,j] of a never re-bound parameter documented as d-dimensional selects an element, not a view',
           'NumPy / builtin routines are classified by the tables at the top of harness/translate_alias.py (in-place / view / '
           'pure); anything not in a table is treated as writing through every argument and returning Unknown',
           'plotting back-ends (mlab, plt) only read their data; decorators (@due.dcite) do not change behaviour; '
           'objects stored in ndarray(dtype=object) are not tracked',
           'the property is about ndarray arguments: RandomState objects passed as seed are advanced by design']
TRUSTED = ['harness/translate_alias.py: Python-ast -> AliasLang translator (syntactic, fail-closed); its classification tables of '
           'NumPy/builtin routines; the abstraction of Python values by "names that may share memory" (validated dynamically: '
           'before/after snapshots of every argument, np.shares_memory(result, argument) against the fret summaries)',
           'Extract/C13.v additionally uses ExtrOcamlNativeString (Coq stdlib) so that Coq strings are OCaml strings; the '
           'extracted checker is only a cross-check of the Python mirror — the tie is coqc re-checking Gen/Alias.v']

NAMED_CONTRACT = ('threshold_absolute', 'threshold_proportional', 'weight_conversion', 'binarize', 'normalize', 'invert')

GEN, GEN_ERROR = None, None


def pregen():
    """(re)generate coq/theories/Gen/Alias.v from the current tree"""
    global GEN, GEN_ERROR
    try:
        GEN = ta.generate(REPO, COQ)
        GEN_ERROR = None
    except Exception:
        GEN, GEN_ERROR = None, traceback.format_exc()
        # never leave a stale model behind: the build must fail visibly
        p = os.path.join(COQ, 'theories', 'Gen', 'Alias.v')
        os.makedirs(os.path.dirname(p), exist_ok=True)
        open(p, 'w').write('(* translator failed *)\nFrom Coq Require Import List.\nExample translator_failed : 0 = 1.\nProof. reflexivity. Qed.\n')
    return GEN


pregen()       # at import time: ./check imports this module before it builds the Coq development


# ----------------------------------------------------------------------------- argument families
class Gen:
    def __init__(self, rs, n):
        self.rs, self.n = rs, n

    def _diag(self, A, signed=False):
        n = len(A)
        d = self.rs.randint(1, 4, size=n).astype(float)
        if signed:
            d *= self.rs.choice([-1, 1], size=n)
        A[np.arange(n), np.arange(n)] = d
        return A

    def und_w(self):
        n, r = self.n, self.rs
        A = np.triu(r.randint(1, 5, size=(n, n)).astype(float) * (r.rand(n, n) < 0.7), 1)
        A[0, 1] = A[1, 2] = 2.0
        return self._diag(A + A.T)

    def dir_w(self):
        n, r = self.n, self.rs
        A = r.randint(1, 5, size=(n, n)).astype(float) * (r.rand(n, n) < 0.6)
        A[0, 1] = 3.0
        return self._diag(A)

    def signed_u(self):
        n, r = self.n, self.rs
        A = self.und_w()
        S = np.triu(np.where(r.rand(n, n) < 0.35, -1.0, 1.0), 1)
        S = S + S.T + np.eye(n)
        A = A * S
        A[0, 1] = A[1, 0] = -2.0
        return self._diag(A, signed=True)

    def signed_d(self):
        n, r = self.n, self.rs
        A = self.dir_w() * np.where(r.rand(n, n) < 0.35, -1.0, 1.0)
        A[1, 0] = -1.0
        return self._diag(A, signed=True)

    def bin_u(self):
        A = (self.und_w() != 0).astype(float)
        return A

    def bin_d(self):
        return (self.dir_w() != 0).astype(float)

    def frac_u(self):
        n, r = self.n, self.rs
        A = np.triu(r.randint(1, 8, size=(n, n)) / 8.0 * (r.rand(n, n) < 0.8), 1)
        A = A + A.T
        A[np.arange(n), np.arange(n)] = 0.5
        return A

    def full_u(self):
        n, r = self.n, self.rs
        A = np.triu(r.randint(1, 6, size=(n, n)).astype(float), 1)
        return self._diag(A + A.T)

    def int_u(self):
        return self.und_w().astype(int)

    def bool_u(self):
        return self.bin_u().astype(bool)

    def fortran_d(self):
        return np.asfortranarray(self.dir_w())

    def strided_u(self):
        n = self.n
        big = np.zeros((2 * n, 2 * n))
        big[::2, ::2] = self.und_w()
        big[1::2, 1::2] = 9.0
        return big[::2, ::2]          # a non-contiguous VIEW: its base is compared as well

    def nonsquare(self):
        return self.rs.randint(0, 3, size=(3, 4)).astype(float) + 1

    def vec1d(self):
        return self.rs.randint(1, 4, size=self.n).astype(float)

    def empty(self):
        return np.zeros((0, 0))

    def nan_u(self):
        A = self.und_w()
        A[0, 2] = A[2, 0] = np.nan
        return A

    def inf_u(self):
        A = self.und_w()
        A[0, 3] = A[3, 0] = np.inf
        return A

    # ---- other kinds of arguments
    def ci(self):
        lab = np.array([3, 7, 11])
        c = lab[self.rs.randint(0, 3, size=self.n)]
        c[0], c[1], c[-1] = 3, 7, 11
        return c

    def ci123(self):
        c = self.rs.randint(1, 4, size=self.n)
        c[0], c[1], c[-1] = 1, 2, 3
        return c

    def ci_float(self):
        return self.ci().astype(float)

    def cbin(self):
        c = (self.rs.rand(self.n) < 0.5).astype(float)
        c[0], c[1] = 1, 0
        return c

    def cimat(self, m=4):
        return np.array([self.ci() for _ in range(m)]).T

    def vec(self, k):
        return self.rs.randint(1, 5, size=k).astype(float)

    def xyz(self):
        return self.rs.rand(self.n, 3) * 10

    def dist(self):
        X = self.xyz()
        D = np.sqrt(((X[:, None, :] - X[None, :, :]) ** 2).sum(-1))
        return D

    def stack3(self, p):
        return np.stack([self.full_u() + self.rs.rand(self.n, self.n) for _ in range(p)], axis=2)


VALID = ['und_w', 'dir_w', 'signed_u', 'signed_d', 'bin_u', 'bin_d', 'frac_u', 'full_u', 'int_u', 'bool_u', 'fortran_d', 'strided_u']
MALFORMED = ['nonsquare', 'vec1d', 'empty', 'nan_u', 'inf_u']
ALLFAM = VALID + MALFORMED


def sparse(M):
    import scipy.sparse
    return scipy.sparse.csr_matrix(M)


def spec_table():
    """function -> (families for the first matrix argument, builder(g, M) -> list of (args, kwargs))"""
    S = {}
    one = lambda g, M: [((M,), {})]
    ci2 = lambda g, M: [((M, g.ci()), {}), ((M, g.ci_float()), {})]
    S['adjacency_plot_und'] = (['und_w'], lambda g, M: [((M, g.xyz()), {})])
    S['agreement'] = (['-'], lambda g, M: [((g.cimat(),), {}), ((g.cimat(),), {'buffsz': 2}), ((g.cimat().astype(float),), {})])
    S['agreement_weighted'] = (['-'], lambda g, M: [((g.cimat().T, g.vec(4)), {}), ((g.cimat(), g.vec(4)), {})])
    S['align_matrices'] = (['und_w', 'dir_w', 'nonsquare'], lambda g, M: [((M, g.und_w()), {'H': 30}), ((M, g.und_w()), {'H': 30, 'dfun': 'absdiff'})])
    for f in ('assortativity_bin', 'assortativity_wei'):
        S[f] = (ALLFAM, lambda g, M: [((M,), {'flag': k}) for k in range(5)])
    S['backbone_wu'] = (ALLFAM, lambda g, M: [((M, 2), {})])
    S['breadth'] = (ALLFAM, lambda g, M: [((M, 0), {})])
    S['charpath'] = (['und_w', 'full_u', 'inf_u', 'nan_u', 'nonsquare', 'strided_u'],
                     lambda g, M: [((M,), {}), ((M,), {'include_diagonal': True, 'include_infinite': False})])
    S['clique_communities'] = (['bin_u', 'und_w', 'bool_u', 'nonsquare'], lambda g, M: [((M, 3), {})])
    S['clustering_coef_wu_sign'] = (ALLFAM, lambda g, M: [((M,), {}), ((M,), {'coef_type': 'constantini'}), ((M,), {'coef_type': 'zhang'}), ((M,), {'coef_type': 'bogus'})])
    S['community_louvain'] = (ALLFAM, lambda g, M: [((M,), {'seed': 1}), ((M,), {'seed': 2, 'ci': g.ci()}), ((M,), {'seed': 3, 'B': 'negative_sym'}),
                                                     ((M,), {'seed': 4, 'B': 'negative_asym'}), ((M,), {'seed': 5, 'B': g.und_w()}),
                                                     ((M,), {'seed': 6, 'B': 'potts', 'gamma': 0.5}), ((M,), {'seed': 7, 'B': 'bogus'})])
    S['consensus_und'] = (['und_w', 'frac_u', 'nonsquare'], lambda g, M: [((M / max(1.0, np.nanmax(np.abs(M)) if M.size else 1.0), 0.3), {'reps': 3, 'seed': 1})])
    S['core_periphery_dir'] = (ALLFAM, lambda g, M: [((M,), {'seed': 1}), ((M,), {'seed': 2, 'C0': g.cbin()}), ((M,), {'seed': 3, 'gamma': 0.5})])
    for f in ('corr_flat_dir', 'corr_flat_und', 'dice_pairwise_und'):
        S[f] = (ALLFAM, lambda g, M: [((M, g.und_w()), {}), ((M, g.dir_w()), {})])
    S['cuberoot'] = (ALLFAM, one)
    S['cycprob'] = (['-'], lambda g, M: [((g.stack3(3),), {})])
    for f in ('diversity_coef_sign', 'participation_coef_sign'):
        S[f] = (ALLFAM, ci2)
    S['reorder_mod'] = (ALLFAM, lambda g, M: [((M, g.ci()), {}), ((M, g.ci123()), {})])
    S['gateway_coef_sign'] = (ALLFAM, lambda g, M: [((M, g.ci()), {}), ((M, g.ci()), {'centrality_type': 'betweenness'}), ((M, g.ci_float()), {'centrality_type': 'bogus'})])
    S['participation_coef'] = (ALLFAM, lambda g, M: [((M, g.ci()), {}), ((M, g.ci()), {'degree': 'in'}), ((M, g.ci_float()), {'degree': 'out'})])
    S['participation_coef_sparse'] = (ALLFAM, lambda g, M: [((sparse(M), g.ci()), {}), ((sparse(M), g.ci()), {'degree': 'in'}), ((M, g.ci_float()), {'degree': 'out'})])
    S['module_degree_zscore'] = (ALLFAM, lambda g, M: [((M, g.ci()), {'flag': k}) for k in range(4)])
    S['modularity_und_sign'] = (ALLFAM, lambda g, M: [((M, g.ci()), {'qtype': q}) for q in ('sta', 'pos', 'smp', 'gja', 'neg', 'bogus')])
    S['dummyvar'] = (['-'], lambda g, M: [((g.cimat(),), {})])
    for f in ('efficiency_bin', 'efficiency_wei'):
        S[f] = (ALLFAM, lambda g, M: [((M,), {}), ((M,), {'local': True})])
    S['evaluate_generative_model'] = (['bin_u'], lambda g, M: [((M * (1 - np.eye(len(M))), g.bin_u(), g.dist(), np.array([-1.0])), {'gamma': np.array([0.5]), 'model_type': 'neighbors', 'seed': 1})])
    S['find_motif34'] = (['-'], lambda g, M: [((1, 3), {}), ((5, 4), {}), ((np.array([[0., 1, 1], [0, 0, 1], [0, 0, 0]]),), {}), ((7, 5), {})])
    S['findpaths'] = (['bin_u', 'bin_d', 'und_w', 'nonsquare'], lambda g, M: [((M, 2, np.array([0, 1])), {}), ((M, 3, np.array([2])), {'savepths': True})])
    S['gtom'] = (ALLFAM, lambda g, M: [((M, 2), {}), ((M, 1), {})])
    S['generate_fc'] = (['und_w', 'frac_u'], lambda g, M: [((M, np.array([0.1, 0.5, 0.2])), {'pred_var': ('SPLbin', 'MI'), 'seed': 1}),
                                                          ((M, np.array([0.1, 0.5])), {'ed': g.dist(), 'pred_var': ('T',), 'seed': 1})])
    gm = lambda g, M: [((M * (1 - np.eye(len(M))), g.dist(), int(np.count_nonzero(np.triu(M, 1))) + 2, np.array([-1.0, -0.5])),
                        {'gamma': np.array([0.5, 0.2]), 'model_type': mt, 'seed': 1, **kw})
                       for mt in ('matching', 'neighbors', 'euclidean', 'clu-avg', 'deg-avg', 'deg-prod', 'bogus') for kw in ({}, {'copy': False})]
    def gm_pinned(g, M):
        """pinned witness of the open finding generative_model:mutates-argument-copy-false (independent of the seed):
        ring of 6 nodes on the unit circle, two more connections requested, copy=False"""
        n = 6
        A = np.zeros((n, n))
        for i in range(n):
            A[i, (i + 1) % n] = A[(i + 1) % n, i] = 1.0
        xy = np.array([[np.cos(2 * np.pi * i / n), np.sin(2 * np.pi * i / n)] for i in range(n)])
        D = np.sqrt(((xy[:, None, :] - xy[None, :, :]) ** 2).sum(-1))
        pin = [((A.copy(), D.copy(), n + 2, np.array([-1.0, -0.5])), {'gamma': np.array([0.5, 0.2]), 'model_type': mt, 'seed': 1, 'copy': False})
               for mt in ('neighbors', 'matching')]
        return pin + gm(g, M)
    S['generative_model'] = (['bin_u'], gm_pinned)
    for f in ('get_components', 'get_components_old'):
        S[f] = (ALLFAM, lambda g, M: [((M,), {}), ((M,), {'no_depend': True})])
    S['get_rng'] = (['-'], lambda g, M: [((3,), {}), ((None,), {})])
    S['grid_communities'] = (['-'], lambda g, M: [((g.ci(),), {}), ((g.ci_float(),), {})])
    for f in ('kcore_bd', 'kcore_bu'):
        S[f] = (ALLFAM, lambda g, M: [((M, 2), {}), ((M, 2), {'peel': True})])
    for f in ('latmio_dir', 'latmio_dir_connected', 'latmio_und', 'latmio_und_connected'):
        S[f] = (ALLFAM, lambda g, M: [((M, 2), {'seed': 1}), ((M, 2), {'seed': 2, 'D': g.dist()})])
    S['link_communities'] = (['und_w', 'dir_w', 'frac_u', 'nonsquare', 'strided_u'], lambda g, M: [((M,), {}), ((M,), {'type_clustering': 'complete'})])
    S['ls2ci'] = (['-'], lambda g, M: [(([[1, 2], [3], [4, 5, 6]],), {}), (([[0, 1], [2]],), {'zeroindexed': True}), (([],), {})])
    S['ci2ls'] = (['-'], lambda g, M: [((g.ci(),), {}), ((np.array([1, 2, 2, 3]),), {}), ((np.array([0, 1]),), {}), ((g.ci_float(),), {})])
    S['make_motif34lib'] = (['-'], lambda g, M: [((), {})])
    S['makeevenCIJ'] = (['-'], lambda g, M: [((16, 20, 2), {'seed': 1}), ((15, 20, 2), {'seed': 1})])
    S['makefractalCIJ'] = (['-'], lambda g, M: [((3, 2.0, 2), {'seed': 1})])
    S['makerandCIJ_dir'] = (['-'], lambda g, M: [((6, 10), {'seed': 1})])
    S['makerandCIJ_und'] = (['-'], lambda g, M: [((6, 7), {'seed': 1})])
    S['makerandCIJdegreesfixed'] = (['-'], lambda g, M: [((np.array([1, 2, 2, 1, 2]), np.array([2, 1, 2, 2, 1])), {'seed': 1}),
                                                          ((np.array([3, 0, 0]), np.array([1, 1, 0])), {'seed': 1})])
    S['makeringlatticeCIJ'] = (['-'], lambda g, M: [((8, 16), {'seed': 1})])
    S['maketoeplitzCIJ'] = (['-'], lambda g, M: [((8, 16, 1.0), {'seed': 1})])
    for f in ('modularity_dir', 'modularity_und'):
        S[f] = (ALLFAM, lambda g, M: [((M,), {}), ((M,), {'kci': g.ci()}), ((M,), {'gamma': 0.5})])
    for f in ('modularity_finetune_dir', 'modularity_finetune_und'):
        S[f] = (ALLFAM, lambda g, M: [((M,), {'seed': 1}), ((M,), {'seed': 2, 'ci': g.ci()}), ((M,), {'seed': 3, 'ci': g.ci_float(), 'gamma': 0.5})])
    S['modularity_finetune_und_sign'] = (ALLFAM, lambda g, M: [((M,), {'seed': 1}), ((M,), {'seed': 2, 'ci': g.ci(), 'qtype': 'gja'}), ((M,), {'seed': 2, 'qtype': 'bogus'})])
    S['modularity_probtune_und_sign'] = (ALLFAM, lambda g, M: [((M,), {'seed': 1}), ((M,), {'seed': 2, 'ci': g.ci(), 'qtype': 'pos', 'p': 0.3})])
    for f in ('modularity_louvain_dir', 'modularity_louvain_und'):
        S[f] = (ALLFAM, lambda g, M: [((M,), {'seed': 1}), ((M,), {'seed': 2, 'hierarchy': True})])
    S['modularity_louvain_und_sign'] = (ALLFAM, lambda g, M: [((M,), {'seed': 1}), ((M,), {'seed': 2, 'qtype': 'neg'}), ((M,), {'seed': 2, 'qtype': 'bogus'})])
    S['navigation_wu'] = (['und_w', 'frac_u', 'bin_u', 'nonsquare'], lambda g, M: [((M, g.dist()), {'max_hops': 5}), ((M, g.dist()), {})])
    S['nbs_bct'] = (['-'], lambda g, M: [((g.stack3(4), g.stack3(4) + 1, 1.5), {'k': 3, 'seed': 1}),
                                         ((g.stack3(4), g.stack3(4) + 1, 1.5), {'k': 3, 'seed': 1, 'paired': True, 'tail': 'left'}),
                                         ((g.stack3(4), g.stack3(3), 1.5), {'k': 2, 'seed': 1, 'tail': 'bogus'})])
    for f in ('null_model_dir_sign', 'null_model_und_sign'):
        S[f] = (ALLFAM, lambda g, M: [((M,), {'bin_swaps': 2, 'wei_freq': 0.5, 'seed': 1}), ((M,), {'bin_swaps': 1, 'wei_freq': 1, 'seed': 2})])
    S['pagerank_centrality'] = (ALLFAM, lambda g, M: [((M, 0.85), {}), ((M, 0.85), {'falff': g.vec(len(M) if M.ndim else 1)})])
    S['partition_distance'] = (['-'], lambda g, M: [((g.ci(), g.ci()), {}), ((g.ci_float(), g.ci()), {}), ((g.ci(), g.ci()[:-1]), {})])
    S['path_transitivity'] = (['und_w', 'frac_u', 'bin_u', 'nonsquare', 'nan_u'], lambda g, M: [((M,), {}), ((M,), {'transform': 'log'}), ((M,), {'transform': 'inv'})])
    S['pick_four_unique_nodes_quickly'] = (['-'], lambda g, M: [((6,), {'seed': 1})])
    for f in ('randmio_dir', 'randmio_dir_connected', 'randmio_dir_signed', 'randmio_und', 'randmio_und_connected', 'randmio_und_signed'):
        S[f] = (ALLFAM, lambda g, M: [((M, 2), {'seed': 1}), ((M, 1), {'seed': 5})])
    S['randomize_graph_partial_und'] = (ALLFAM, lambda g, M: [((M, (g.rs.rand(*M.shape) < 0.2).astype(float) if M.ndim == 2 else M, 3), {'seed': 1})])
    S['randomizer_bin_und'] = (ALLFAM, lambda g, M: [((M, 0.5), {'seed': 1}), ((M, 1.0), {'seed': 2})])
    S['reachdist'] = (ALLFAM, lambda g, M: [((M,), {}), ((M,), {'ensure_binary': False})])
    S['rentian_scaling'] = (['bin_u', 'und_w', 'nonsquare'], lambda g, M: [((M, g.xyz(), 3), {'seed': 1})])
    S['reorderMAT'] = (['und_w', 'dir_w', 'nonsquare', 'strided_u'], lambda g, M: [((M,), {'H': 20}), ((M,), {'H': 20, 'cost': 'circ'})])
    S['reorder_matrix'] = (['und_w', 'dir_w', 'nonsquare', 'strided_u'], lambda g, M: [((M,), {'H': 20}), ((M,), {'H': 20, 'cost': 'circ'})])
    S['resource_efficiency_bin'] = (['bin_u', 'bin_d', 'und_w', 'nonsquare', 'bool_u'], lambda g, M: [((M, 0.5), {}), ((M, float('nan')), {}), ((M, 2.0), {})])
    S['retrieve_shortest_path'] = (['und_w', 'frac_u'], None)     # special: built from distance_wei_floyd
    for f in ('rich_club_bd', 'rich_club_bu', 'rich_club_wd', 'rich_club_wu'):
        S[f] = (ALLFAM, lambda g, M: [((M,), {}), ((M,), {'klevel': 2})])
    for f in ('rout_efficiency', 'distance_wei_floyd'):
        S[f] = (ALLFAM, lambda g, M: [((M,), {}), ((M,), {'transform': 'log'}), ((M,), {'transform': 'inv'}), ((M,), {'transform': 'bogus'})])
    S['search_information'] = (ALLFAM, lambda g, M: [((M,), {}), ((M,), {'transform': 'inv', 'has_memory': True}), ((M,), {'transform': 'log'})])
    S['score_wu'] = (ALLFAM, lambda g, M: [((M, 2.0), {}), ((M, 100.0), {})])
    S['teachers_round'] = (['-'], lambda g, M: [((2.5,), {}), ((-0.5,), {})])
    S['threshold_absolute'] = (ALLFAM, lambda g, M: [((M, 2.0), {}), ((M, 2.0), {'copy': False}), ((M, -1.0), {'copy': True})])
    S['threshold_proportional'] = (ALLFAM, lambda g, M: [((M, 0.5), {}), ((M, 0.5), {'copy': False}), ((M, 1.5), {}), ((M, 1.5), {'copy': False}), ((M, 0.25), {'copy': True})])
    S['weight_conversion'] = (ALLFAM, lambda g, M: [((M, w), kw) for w in ('binarize', 'normalize', 'lengths', 'bogus') for kw in ({}, {'copy': False})])
    for f in ('binarize', 'normalize', 'invert', 'logtransform', 'autofix'):
        S[f] = (ALLFAM, lambda g, M: [((M,), {}), ((M,), {'copy': False}), ((M,), {'copy': True})])
    S['writetoPAJ'] = (['und_w', 'dir_w', 'nonsquare'], lambda g, M: [((M, os.path.join(tempfile.gettempdir(), 'c13_%d.net' % os.getpid()), True), {}),
                                                                  ((M, os.path.join(tempfile.gettempdir(), 'c13_%d.net' % os.getpid()), False), {})])
    return S, one


SCALAR_GUESS = {'k': 2, 'itr': 2, 'thr': 2.0, 'klevel': 2, 'nr_steps': 2, 'maxswap': 2, 'p': 0.5, 'alpha': 0.5, 'd': 0.85, 'tau': 0.3,
                'lamb': 0.5, 's': 2.0, 'gamma': 1.0, 'source': 0, 'n': 4, 'qmax': 2, 'reps': 2, 'flag': 0, 'wcm': 'binarize'}


def generic_builder(sig):
    """for functions that are not in the table (new ones): guess by parameter name"""
    ps = [p for p in sig.parameters.values() if p.default is inspect._empty and p.kind in (p.POSITIONAL_ONLY, p.POSITIONAL_OR_KEYWORD)]

    def build(g, M):
        args = []
        for i, p in enumerate(ps):
            if i == 0:
                args.append(M)
            elif p.name in ('ci', 'kci', 'Ci', 'cx', 'cy', 'c'):
                args.append(g.ci())
            elif p.name in SCALAR_GUESS:
                args.append(SCALAR_GUESS[p.name])
            else:
                args.append(g.und_w())
        kw = {'seed': 1} if 'seed' in sig.parameters else {}
        return [(tuple(args), kw)]
    return build


# ----------------------------------------------------------------------------- snapshots
def enc(x):
    if hasattr(x, 'toarray') and hasattr(x, 'indptr'):
        return {'sparse_csr': enc(x.toarray())}
    if isinstance(x, np.ndarray):
        return {'nd': x.tolist(), 'dtype': str(x.dtype), 'shape': list(x.shape), 'order': 'F' if (x.flags.f_contiguous and not x.flags.c_contiguous) else 'C'}
    if isinstance(x, (list, tuple)):
        return [enc(y) for y in x]
    if isinstance(x, dict):
        return {str(k): enc(v) for k, v in x.items()}
    if isinstance(x, (np.integer,)):
        return int(x)
    if isinstance(x, (np.floating,)):
        return float(x)
    return x


def dec(x):
    if isinstance(x, dict) and 'sparse_csr' in x:
        return sparse(dec(x['sparse_csr']))
    if isinstance(x, dict) and 'nd' in x and 'dtype' in x:
        a = np.array(x['nd'], dtype=np.dtype(x['dtype'])).reshape(x['shape'])
        return np.asfortranarray(a) if x.get('order') == 'F' else a
    if isinstance(x, list):
        return [dec(y) for y in x]
    return x


def arrays_in(x, path, out):
    if isinstance(x, np.ndarray):
        out.append((path, x))
        if isinstance(x.base, np.ndarray):
            out.append((path + '.base', x.base))
    elif hasattr(x, 'indptr') and hasattr(x, 'data') and hasattr(x, 'indices'):      # scipy.sparse: its three arrays
        for k in ('data', 'indices', 'indptr'):
            if isinstance(getattr(x, k), np.ndarray):
                out.append((path + '.' + k, getattr(x, k)))
    elif isinstance(x, (list, tuple)):
        for i, y in enumerate(x):
            arrays_in(y, '%s[%d]' % (path, i), out)
    elif isinstance(x, dict):
        for k, y in x.items():
            arrays_in(y, '%s[%r]' % (path, k), out)


def same(a, b):
    if a.dtype != b.dtype or a.shape != b.shape:
        return False
    try:
        return bool(np.array_equal(a, b, equal_nan=True))
    except Exception:
        try:
            return bool(np.array_equal(a, b))
        except Exception:
            return a.tobytes() == b.tobytes()


def lists_in(x, path, out):
    if isinstance(x, list):
        out.append((path, x))
        for i, y in enumerate(x):
            lists_in(y, '%s[%d]' % (path, i), out)


def call_hard(f, args, kwargs, t):
    """like common.call, but the alarm repeats: a Timeout swallowed by a bare `except:` inside the library is raised again"""
    import signal
    signal.setitimer(signal.ITIMER_REAL, t, 0.2)
    try:
        return f(*args, **kwargs)
    finally:
        signal.setitimer(signal.ITIMER_REAL, 0)


def run_case(f, args, kwargs, timeout):
    """call f; returns (status, result, changed) where changed = [(path, before, after)] over every ndarray argument"""
    arrs = []
    for i, a in enumerate(args):
        arrays_in(a, 'arg%d' % i, arrs)
    for k, a in kwargs.items():
        arrays_in(a, k, arrs)
    snaps = [(p, a, a.copy(), a.dtype, a.shape) for p, a in arrs]
    lsts = []
    for i, a in enumerate(args):
        lists_in(a, 'arg%d' % i, lsts)
    lsnaps = [(p, l, copy.deepcopy(l)) for p, l in lsts]
    res, status = None, 'ok'
    try:
        with contextlib.redirect_stdout(io.StringIO()), contextlib.redirect_stderr(io.StringIO()):
            res = call_hard(f, args, kwargs, timeout)
    except Timeout:
        status = 'timeout'
    except BaseException as e:
        if isinstance(e, (KeyboardInterrupt, SystemExit)):
            raise
        status = 'raised:' + type(e).__name__
    changed = []
    for p, a, before, dt, sh in snaps:
        if not (a.dtype == dt and a.shape == sh and same(a, before)):
            changed.append((p, before, a.copy()))
    for p, l, before in lsnaps:
        try:
            eq = json.dumps(enc(l), default=str) == json.dumps(enc(before), default=str)
        except Exception:
            eq = True
        if not eq:
            changed.append((p, before, copy.deepcopy(l)))
    return status, res, changed, arrs


def shares(res, arrs):
    outs = []
    arrays_in(res, 'result', outs)
    hit = []
    for rp, r in outs:
        for ap, a in arrs:
            try:
                if r.size and a.size and np.may_share_memory(r, a) and np.shares_memory(r, a, max_work=100000):
                    hit.append((rp, ap))
            except Exception:
                pass
    return hit


def single_thread_blas():
    """tiny matrices: BLAS worker threads only burn system time (and fight with the other checks for the cores)"""
    import ctypes, re
    try:
        for l in set(re.findall(r'(/\S*openblas\S*\.so\S*)', open('/proc/self/maps').read())):
            L = ctypes.CDLL(l)
            for sym in ('openblas_set_num_threads', 'openblas_set_num_threads64_', 'scipy_openblas_set_num_threads64_', 'scipy_openblas_set_num_threads'):
                if hasattr(L, sym):
                    getattr(L, sym)(1)
    except Exception:
        pass


# ----------------------------------------------------------------------------- the check
def run(ctx):
    import bct
    import scipy.linalg          # loads scipy's BLAS too, before the thread pools are sized down
    single_thread_blas()
    if GEN_ERROR or GEN is None:
        ctx.errors.append('translator failed: ' + str(GEN_ERROR)[-1500:])
        return
    gen = GEN
    funs = {fd['name']: fd for fd in gen['funs']}
    prog = funs
    ctx.extra['static'] = {
        'functions_translated': len(gen['funs']), 'public': sum(1 for f in gen['funs'] if f['public']),
        'helpers_and_nested': sum(1 for f in gen['funs'] if not f['public']),
        'flagged': gen['flagged'], 'left_out': gen['hopeless'], 'untranslatable': gen['untranslatable'],
        'commands': sum(ta.cmd_size(f['body']) for f in gen['funs']), 'gen_sha1': gen['sha1'],
        'summaries_with_writes': {f['name']: {'copy_true': f['mut_t'], 'copy_false': f['mut_f']} for f in gen['funs'] if f['mut_t'] or f['mut_f']},
        'contracts_verified': sorted(f['name'] for f in gen['funs'] if f['contract']),
    }
    for e in gen['errors']:
        ctx.errors.append('translator: ' + e)

    # ---- 1. the extracted Coq checker on the serialised program must agree with the translator's mirror
    res = run_model(ID, [ta.serialise(gen['funs'])])
    ctx.model_cases = len(gen['funs'])
    if not res or is_err(res[0]):
        ctx.mismatch('extracted-checker', 'driver failed: %s' % (res[0] if res else 'no output'), {'fn': 'drv_c13'})
    else:
        for (nm, b_ok, c_ok, d_ok) in res[0]:
            fd = funs[nm]
            mine = (ta.check_body(prog, fd), ta.check_contract(prog, fd), ta.check_decl(fd))
            if mine != (b_ok, c_ok, d_ok):
                ctx.mismatch('extracted-checker:' + nm, 'Coq checker (body, contract, decl) = %s, Python mirror = %s' % ((b_ok, c_ok, d_ok), mine), {'fn': nm})
            accepted = b_ok and c_ok and d_ok
            if accepted == (nm in gen['flagged']):
                ctx.mismatch('extracted-checker:' + nm, 'flagged list and Coq verdict disagree', {'fn': nm})

    # ---- 2. the statically determined public namespace is the real one
    dyn_public = sorted(k for k, v in vars(bct).items() if inspect.isfunction(v) and (v.__module__ or '').startswith('bct') and not k.startswith('_'))
    stat_public = sorted(f['name'] for f in gen['all'] if f['public'])
    if dyn_public != stat_public:
        ctx.mismatch('public-namespace', 'translator sees %s, import sees %s' % (sorted(set(stat_public) - set(dyn_public)), sorted(set(dyn_public) - set(stat_public))),
                     {'fn': 'bct.__init__'})
    for nm in sorted(gen['hopeless']):
        ctx.count('static:left_out')
    for nm in NAMED_CONTRACT:
        if nm in funs and not funs[nm]['contract']:
            ctx.mismatch(nm + ':copy-false-contract', 'the checker cannot establish that copy=False returns the argument itself', {'fn': nm})

    # ---- 3. dynamic validation and failing-input search
    S, one = spec_table()
    tmo = 2.0 if not ctx.thorough else 10.0
    # nothing the library does may write into the source tree (make_motif34lib would save a .mat next to motifs.py)
    import scipy.io
    real_savemat = scipy.io.savemat
    scipy.io.savemat = lambda *a, **k: None
    rounds = ctx.scale(1, 4)
    dyn_mut, dyn_mut_cf, exercised, completed, not_ex, shared = {}, {}, {}, {}, {}, {}
    t_dyn = time.time()
    # a runaway allocation inside the library must end as MemoryError in that call, not take the machine down
    import resource
    old_as = resource.getrlimit(resource.RLIMIT_AS)
    try:
        resource.setrlimit(resource.RLIMIT_AS, (8 * 2 ** 30, old_as[1]))
    except Exception:
        pass
    dyn_deadline = t_dyn + (45.0 if not ctx.thorough else 700.0)
    # functions the static checker flags (open findings, or a freshly introduced mutation) are driven first and are
    # exempt from the wall-clock budget, so that their dynamic witness does not depend on machine load
    flagged = [nm for nm in dyn_public if funs.get(nm) is None or funs[nm]['mut_t'] or (funs[nm]['mut_f'] and not funs[nm]['copyutil'])]
    dyn_order = flagged + [nm for nm in dyn_public if nm not in flagged]
    for rnd in range(rounds):
        for nm in dyn_order:
            if nm in flagged:
                dyn_deadline += 8.0
            f = getattr(bct, nm)
            sig = inspect.signature(f)
            fams, build = S.get(nm, (ALLFAM, None))
            if not sig.parameters:
                # nothing can be passed, so nothing can be modified (make_motif34lib: also regenerates a 1 MB library, slowly)
                not_ex[nm] = 'takes no arguments'
                continue
            if nm not in S:
                nreq = len([p for p in sig.parameters.values() if p.default is inspect._empty and p.kind in (p.POSITIONAL_ONLY, p.POSITIONAL_OR_KEYWORD)])
                build = one if nreq == 1 else generic_builder(sig)
                if nreq == 0:
                    fams, build = ['-'], (lambda g, M: [((), {})])
            budget = time.time() + ((6.0 if nm not in flagged else 30.0) if not ctx.thorough else 40.0)
            for fam in fams:
                if time.time() > budget or time.time() > dyn_deadline:
                    ctx.count('dynamic:budget_cut')
                    break
                fam_seed = int(ctx.nprng.randint(0, 2 ** 31 - 1))
                fam_n = int(ctx.nprng.randint(5, 8)) if rnd else 6

                def fresh():
                    """the same family member and variants, rebuilt from the same seed: no call sees what another one left behind"""
                    g = Gen(np.random.RandomState(fam_seed), fam_n)
                    M = getattr(g, fam)() if fam != '-' else None
                    if nm == 'retrieve_shortest_path':
                        _, hops, Pmat = bct.distance_wei_floyd(M)
                        return [((0, 3, hops, Pmat), {}), ((2, 2, hops, Pmat), {})]
                    return build(g, M)
                try:
                    nvar = len(fresh())
                except Exception as e:
                    ctx.count('dynamic:builder_error')
                    nvar = 0
                variants = []
                for vi in range(nvar):
                    try:
                        variants.append(fresh()[vi])
                    except Exception:
                        ctx.count('dynamic:builder_error')
                for args, kwargs in variants:
                    has_copy_false = kwargs.get('copy', True) is False
                    case = {'fn': nm, 'family': fam, 'args': enc(list(args)), 'kwargs': enc(kwargs)}
                    status, resv, changed, arrs = run_case(f, args, kwargs, tmo)
                    case['status'] = status
                    ctx.case(case, nontrivial=bool(arrs))
                    ctx.count('status:' + status.split(':')[0])
                    ctx.count('family:' + fam)
                    exercised[nm] = exercised.get(nm, 0) + 1
                    if status == 'ok':
                        completed[nm] = completed.get(nm, 0) + 1
                    fd = funs.get(nm)
                    util = bool(fd and fd['copyutil'])
                    if changed:
                        w = dict(case)
                        w['changed'] = [{'argument': p, 'before': enc(b), 'after': enc(a)} for p, b, a in changed[:2]]
                        if has_copy_false and util:
                            ctx.count('copy_false:operates_on_argument')
                        elif has_copy_false:
                            dyn_mut_cf.setdefault(nm, w)
                            ctx.count('mutation_witnesses:' + nm)
                            if ctx.dist['mutation_witnesses:' + nm] <= 3:
                                ctx.fail(nm + ':mutates-argument-copy-false',
                                         '%s(..., copy=False) changed its argument %s (status %s); the exception of C13 covers only the thresholding / weight-conversion utilities' % (nm, changed[0][0], status), w)
                        else:
                            dyn_mut.setdefault(nm, w)
                            ctx.count('mutation_witnesses:' + nm)
                            if ctx.dist['mutation_witnesses:' + nm] <= 3:      # a few witnesses per function are enough
                                ctx.fail(nm + ':mutates-argument', '%s changed its argument %s (call %s)' % (nm, changed[0][0], status), w)
                    # copy=False contract of the utilities: the result IS the argument
                    if has_copy_false and util and status == 'ok' and isinstance(args[0], np.ndarray):
                        ident = resv is args[0]
                        ctx.count('copy_false:result_is_argument' if ident else 'copy_false:result_is_not_argument')
                        if nm in NAMED_CONTRACT:
                            ctx.check(ident, nm + ':copy-false-contract', 'copy=False did not return the caller\'s array itself', case)
                        if fd and fd['contract'] and not ident:
                            ctx.mismatch(nm + ':copy-false-contract', 'the model proves result = argument, the implementation returns another object', case, True, False)
                    # copy=True (default): the result must not share memory with an argument when the summary says so
                    if status == 'ok' and not has_copy_false and fd is not None:
                        hit = shares(resv, arrs)
                        if hit:
                            shared[nm] = shared.get(nm, 0) + 1
                            if not fd['ret_t']:
                                ctx.mismatch(nm + ':result-shares-memory', 'result %s shares memory with %s but the model says the result is fresh' % hit[0], case, False, True)
            if exercised.get(nm, 0) == 0 and time.time() <= dyn_deadline:
                not_ex[nm] = 'no argument could be built'
    scipy.io.savemat = real_savemat
    try:
        resource.setrlimit(resource.RLIMIT_AS, old_as)
    except Exception:
        pass
    ctx.extra['dynamic_wall_s'] = round(time.time() - t_dyn, 1)

    # ---- 4. static vs dynamic
    for nm in dyn_public:
        fd = funs.get(nm)
        if fd is None:
            why = gen['hopeless'].get(nm, 'not translated')
            if nm in dyn_mut:
                pass          # already reported with its failing input
            else:
                ctx.mismatch(nm + ':static-may-mutate', 'no summary validates this function (%s) and no run changed an argument' % why, {'fn': nm})
            continue
        static_t = bool(fd['mut_t']) or (not fd['copyutil'] and False)
        static_f = bool(fd['mut_f']) and not fd['copyutil']
        if nm in dyn_mut and not static_t:
            ctx.mismatch(nm + ':translator-unsound', 'the implementation changed an argument that the model says is never written', dyn_mut[nm], 'pure', 'mutates')
        if static_t and nm not in dyn_mut:
            why = ta.blame(prog, fd, fd['arr'], True)
            ctx.mismatch(nm + ':static-may-mutate', 'the checker rejects %s (%s:%s) but no run changed an argument' % (nm, fd['file'], why[:3]), {'fn': nm, 'blame': why[:5]})
        if static_f and not static_t:
            if nm in dyn_mut_cf:
                pass
            else:
                why = ta.blame(prog, fd, fd['arr'], False)
                ctx.mismatch(nm + ':static-may-mutate-copy-false', 'the checker rejects %s under copy=False (%s) but no run changed an argument' % (nm, why[:3]), {'fn': nm, 'blame': why[:5]})
        if nm in dyn_mut_cf and not fd['mut_f']:
            ctx.mismatch(nm + ':translator-unsound', 'copy=False changed an argument that the model says is never written', dyn_mut_cf[nm], 'pure', 'mutates')
    for nm in dyn_public:
        if not exercised.get(nm) and nm not in not_ex:
            not_ex[nm] = 'time budget of the tier exhausted before this function'
    never_ok = sorted(nm for nm in dyn_public if exercised.get(nm) and not completed.get(nm))
    ctx.extra['dynamic'] = {
        'public_functions': len(dyn_public), 'exercised': len([n for n in dyn_public if exercised.get(n)]),
        'completed_at_least_once': len([n for n in dyn_public if completed.get(n)]),
        'only_exceptional_exits': never_ok, 'not_exercised': not_ex,
        'mutating': sorted(dyn_mut), 'mutating_copy_false_non_utility': sorted(dyn_mut_cf),
        'result_shares_memory_with_argument': shared,
    }
    try:
        os.remove(os.path.join(tempfile.gettempdir(), 'c13_%d.net' % os.getpid()))
    except OSError:
        pass


def replay(ctx, payload):
    """./check C13 --replay replays/C13-input-....json : call the function again on the recorded arguments"""
    import bct
    case = payload.get('case') or payload.get('detail', {}).get('case') or {}
    nm = case.get('fn')
    if not nm or not hasattr(bct, nm) or 'args' not in case:
        print(json.dumps(payload, indent=1)[:4000])
        return 0
    args, kwargs = dec(case['args']), {k: dec(v) for k, v in (case.get('kwargs') or {}).items()}
    import scipy.io
    scipy.io.savemat = lambda *a, **k: None
    status, resv, changed, arrs = run_case(getattr(bct, nm), tuple(args), kwargs, 30.0)
    print('replay %s: status=%s arguments changed: %s' % (nm, status, [p for p, _, _ in changed] or 'none'))
    for p, b, a in changed[:2]:
        print('  %s before=%s\n  %s after =%s' % (p, np.asarray(b).tolist(), p, np.asarray(a).tolist()))
    return 1 if changed else 0
