"""C03 — shortest-path distance matrices equal true minimum path lengths.

Direct oracle (independent of the library): per-source BFS for binary graphs, and the table
E[s][h][t] = minimum total length of a walk with EXACTLY h edges from s to t (exact ints / Fractions),
from which dist[s][t] = min_h E[s][h][t].  Every clause of the property is evaluated on the
implementation's output; the extracted Coq models (Model/Distance.v) are run on the same inputs.
"""
import itertools, math, contextlib
from fractions import Fraction as F
import numpy as np
from common import *

ID = 'C03'
COQ_FILES = ['Model/Distance.v', 'Model/DistanceExt.v', 'Model/Paths.v', 'Proofs/DistanceBase.v', 'Proofs/DistanceFloyd.v', 'Proofs/DistanceBin.v',
             'Proofs/DistanceOther.v', 'Proofs/DistanceReach.v', 'Proofs/DistanceWei.v', 'Proofs/DistanceFull.v',
             'Proofs/DistanceBFS.v', 'Proofs/DistanceAgree.v', 'Proofs/DistanceSimple.v', 'Proofs/Paths.v', 'Proofs/DistanceHopsPath.v',
             'Proofs/DistanceExt.v', 'Properties/C03.v']
THEOREMS = ['C03_floyd_correct', 'C03_floyd_diag_zero', 'C03_floyd_reach_iff_finite', 'C03_floyd_hops_min_path',
            'C03_floyd_transforms', 'C03_distance_bin_correct', 'C03_distance_bin_diag_zero', 'C03_distance_bin_inf_iff',
            'C03_agree_floyd_bin', 'C03_agree_any', 'C03_distance_wei_correct', 'C03_agree_wei_floyd', 'C03_distance_wei_diag_zero',
            'C03_distance_wei_edge_count_path', 'C03_floyd_hops_path',
            'C03_models_return',
            'C03_breadthdist_correct', 'C03_breadthdist_min_dist', 'C03_breadthdist_reach_flag',
            'C03_reachdist_correct', 'C03_reachdist_min_dist', 'C03_shortest_walk_simple',
            'C03_agree_breadth_reach', 'C03_agree_binary_all', 'C03_offdiag_pairs', 'C03_charpath_mean', 'C03_charpath_mean_inverse',
            'C03_efficiency_bin_mean_inverse', 'C03_efficiency_wei_mean_inverse', 'C03_rout_efficiency_mean_inverse',
            'C03_floyd_transforms_hops', 'C03_charpath_general', 'C03_charpath_mean_spec', 'C03_charpath_legacy_agrees',
            'C03_charpath_finite_pairs', 'C03_charpath_default_total', 'C03_distance_inv_copies', 'C03_efficiency_own_loops']
RULE = ('binary and length matrices, directed and undirected, n=1..8: exhaustive (all digraphs n<=3 quick / n<=4 thorough, '
        'all undirected graphs n<=4 quick / n<=5 thorough) + structured families (ER at 4 densities, ring, star, path, complete, '
        'disjoint unions, isolated nodes, directed cycle + chords, tree + chords) with integer lengths from {1},{1,2},{1..4} '
        '(many exact ties); weighted input for the binary routines: signed integer weights n<=8 (cancelling walk products) and '
        'weights 1e-6/1e-7 on chains of 40-70 nodes (underflowing products); lengths where tolerance-based comparisons go wrong, all exact '
        'in binary64: {1..4}*2^-40, near-ties {2^20-1,2^20,2^20+1,2^21-2,2^21+1,2^21+3} as integers and scaled by 2^-20, inv transform '
        'on weights 2^28..2^30; charpath called 3-4 times on one array object with different flag combinations (include_infinite=False first, defaults last)'
        '; inv transform on dyadic weights (exact) and on {1,2,3} (tolerance); log transform on weights '
        '2^-k in (0,1] (tolerance); charpath on matrices with nan / inf entries and a nonzero diagonal n<=6, all four flag combinations AND the default arguments '
        '(omitted), eccentricity / radius / diameter judged; breadth() called directly (distance and branch outputs); n in {12,20,40} (thorough: 6 sizes) for '
        'distance_wei / distance_wei_floyd / efficiency_* with the numpy exact-h oracle only; the five distance routines on int64/int8/uint8/bool copies of small '
        '0/1 digraphs; one dense digraph of 166-176 nodes with unreachable pairs (thorough: also n=260 p=.15, n=200 p=.5) for reachdist / distance_bin judged '
        'by BFS. STRESS FAMILIES (oracle only, BFS over adjacency lists; numeric range of the walk counts): dense block + long tail - K_k (k = 6..20) with a chain of '
        '31..80 nodes hanging off one node, one-way or both ways, optionally a second component, labels permuted, n = 52..101, (k-1)^chain > 3.4e38 (beyond binary32) - '
        'through distance_bin, distance_wei (D and hop counts), distance_wei_floyd (SPL and hops), breadthdist, reachdist, efficiency_bin, efficiency_wei, charpath: two instances per '
        'quick run, ten in the thorough tier = the escalated pass on a changed tree (run FIRST there); K50 + chain of 183 + 2-node component (thorough: also K64 + one-way chain of 185), '
        '(k-1)^chain > 1.8e308 (beyond binary64), through distance_bin / efficiency_bin / reachdist on the arrays as built (the defects it found are repaired: aa68b44, 3281ffb). '
        'DIRECTED WEIGHTS ON A SYMMETRIC SUPPORT (a random state of its own; `weighted` gives an undirected matrix whenever the pattern is symmetric, so the class was missing): every connection reciprocated with the '
        'two directions drawn independently from dyadic weights 2^-k (forced to differ on a pair), complete asymmetric weight matrices, and mixtures with a few one-way connections, n = 2..7 on the structured families + the witnesses '
        '[[0,1],[1/4,0]] and a complete 4-node matrix (62 matrices quick, ~360 thorough); each goes through distance_wei / distance_wei_floyd / rout_efficiency / charpath (as integer lengths 2^k), '
        'distance_wei_floyd[inv], rout_efficiency[inv], efficiency_wei global (False and \'global\') with exact lengths, distance_wei_floyd[log] / rout_efficiency[log], all with their model lines, and '
        'efficiency_wei local=True / \'original\' against the documented formulas evaluated on the exact-h distances inside each neighbourhood (oracle only). '
        'non-trivial = at least one finite off-diagonal distance; distinct by hash of (kind, matrix)')
ASSUMES = ['the theorems are over exact rationals: on lengths that are NOT exact in binary64 (1/3, k*ln 2) rounding can separate exactly tied alternatives — one known finding (edge-count-tie) lives exactly there',
           'lengths are small integers or dyadic rationals, so every sum/comparison the model treats as exact is exact in binary64; '
           'results of 1/x and -log x are compared with relative tolerance 1e-9',
           'zero diagonal (no self-connections) in the main stream; self-loops are probed in a separate stream',
           'weights strictly positive; log transform on weights in (0,1]',
           'charpath: entries nan, +inf or finite (no -inf, no -0.0); n >= 1 (the masked maximum of the eccentricity raises on a 0x0 matrix); the eccentricity of a row '
           'with nothing selected (isolated node with include_infinite=False) is the fill value 1e20 of numpy.ma and is not judged',
           'reachdist: only ensure_binary=True is modelled; walk counts are exact integers in the model, clipped to 0/1 each round as the code does since repo commit 2cf9619',
           'distance_bin / efficiency_bin (own copy of the loop): the matrix power is clipped to its 0/1 support each round, in the code since repo commits aa68b44 / 3281ffb '
           '(before: walk counts beyond 1.8e308 -> inf * 0 = nan -> finite distances for unreachable pairs on a dense block + tail of ~180 nodes, found by the stress family) '
           'and in the models (Model/Distance.v dbin_loop, Model/DistanceExt.v dinv_loop; Proofs/DistanceBin.v pow_ok_clip)']
TRUSTED = ['-log is an abstract function (Section variable) in the theorems; in the extracted run its values are supplied by the harness as a table of the floats NumPy computed']

INF = float('inf')


# ---------------------------------------------------------------- independent oracle
def bfs_all(A):
    n = len(A)
    out = []
    for s in range(n):
        d = [INF] * n
        d[s] = 0
        fr = [s]
        while fr:
            nx = []
            for u in fr:
                for v in range(n):
                    if A[u][v] != 0 and d[v] == INF:
                        d[v] = d[u] + 1
                        nx.append(v)
            fr = nx
        out.append(d)
    return out


def exact_h(L):
    """E[s][h][t]: min length over walks with exactly h edges (h=0..max(1,n-1)); L[i][j]==0 means no edge."""
    n = len(L)
    H = max(1, n - 1)
    E = []
    for s in range(n):
        cur = [INF] * n
        cur[s] = 0
        rows = [cur]
        for h in range(H):
            nx = [INF] * n
            for a in range(n):
                ca = cur[a]
                if ca == INF:
                    continue
                La = L[a]
                for b in range(n):
                    w = La[b]
                    if w != 0:
                        c = ca + w
                        if c < nx[b]:
                            nx[b] = c
            rows.append(nx)
            cur = nx
        E.append(rows)
    return E


def dist_from_E(E):
    n = len(E)
    return [[0 if s == t else min(E[s][h][t] for h in range(1, len(E[s]))) for t in range(n)] for s in range(n)]


def brute_paths(L):
    """enumerate all simple paths (self-test of the oracle on tiny graphs)"""
    n = len(L)
    best = [[INF] * n for _ in range(n)]
    for s in range(n):
        def go(u, seen, c):
            for v in range(n):
                if L[u][v] != 0 and v not in seen:
                    if c + L[u][v] < best[s][v]:
                        best[s][v] = c + L[u][v]
                    go(v, seen | {v}, c + L[u][v])
        go(s, {s}, 0)
        best[s][s] = 0
    return best


def close(x, y, exact):
    if y == INF or x == INF:
        return x == y
    if exact:
        return x == y
    return abs(float(x) - float(y)) <= 1e-9 * max(1.0, abs(float(y)))


def npm(W):
    n = len(W)
    return np.array([[float(x) for x in row] for row in W], dtype=float).reshape(n, n)


# ---------------------------------------------------------------- generators
def families(ctx, n):
    """yield (name, 0/1 adjacency list-of-lists) for one size"""
    r = ctx.nprng
    def empty():
        return [[0] * n for _ in range(n)]
    def sym(A):
        for i in range(n):
            for j in range(i):
                A[i][j] = A[j][i]
        return A
    out = []
    for p in (0.15, 0.3, 0.5, 0.8):
        A = [[int(i != j and r.rand() < p) for j in range(n)] for i in range(n)]
        out.append(('er_dir_%g' % p, A))
        out.append(('er_und_%g' % p, sym([row[:] for row in A])))
    A = empty()
    for i in range(n):
        if n > 1:
            A[i][(i + 1) % n] = 1
    out.append(('dicycle', [row[:] for row in A]))
    for _ in range(2):
        if n > 2:
            A[int(r.randint(n))][int(r.randint(n))] = 1
    for i in range(n):
        A[i][i] = 0
    out.append(('dicycle_chords', [row[:] for row in A]))
    out.append(('ring', sym([row[:] for row in A])))
    A = empty()
    for i in range(1, n):
        A[0][i] = 1
    out.append(('outstar', [row[:] for row in A]))
    out.append(('star', sym([row[:] for row in A])))
    A = empty()
    for i in range(n - 1):
        A[i][i + 1] = 1
    out.append(('dipath', [row[:] for row in A]))
    out.append(('path', sym([row[:] for row in A])))
    out.append(('complete', [[int(i != j) for j in range(n)] for i in range(n)]))
    # random tree + chords
    A = empty()
    for i in range(1, n):
        A[int(r.randint(i))][i] = 1
    T = sym([row[:] for row in A])
    out.append(('tree', [row[:] for row in T]))
    for _ in range(2):
        if n > 2:
            a, b = int(r.randint(n)), int(r.randint(n))
            if a != b:
                T[a][b] = T[b][a] = 1
    out.append(('tree_chords', T))
    # disjoint union of two ER blocks + isolated node
    if n >= 3:
        h = n // 2
        A = empty()
        for i in range(n - 1):
            for j in range(n - 1):
                if i != j and (i < h) == (j < h) and r.rand() < 0.6:
                    A[i][j] = 1
        out.append(('union_dir_iso', [row[:] for row in A]))
        out.append(('union_und_iso', sym([row[:] for row in A])))
    # random relabelling so that structure is not aligned with index order
    res = []
    for name, A in out:
        if r.rand() < 0.5 and n > 1:
            p = [int(x) for x in r.permutation(n)]
            A = [[A[p[i]][p[j]] for j in range(n)] for i in range(n)]
            name += '+perm'
        res.append((name, A))
    return res


def weighted(ctx, A, vals):
    r = ctx.nprng
    n = len(A)
    und = all(A[i][j] == A[j][i] for i in range(n) for j in range(n))
    W = [[0] * n for _ in range(n)]
    for i in range(n):
        for j in range(n):
            if A[i][j]:
                if und and j < i:
                    W[i][j] = W[j][i]
                else:
                    W[i][j] = vals[int(r.randint(len(vals)))]
    return W


# lengths that are exact in binary64 but sit where a tolerance-based comparison (np.isclose: rtol 1e-5, atol 1e-8) goes wrong:
# tiny dyadic scale (every length and every difference is far below atol) and large near-ties (differences of a few units
# on ~2^20..2^22, relative difference ~1e-6 < rtol), the latter also scaled down by 2^-20
TINY = [F(k, 2 ** 40) for k in (1, 2, 3, 4)]
NEAR = [2 ** 20 - 1, 2 ** 20, 2 ** 20 + 1, 2 ** 21 - 2, 2 ** 21 + 1, 2 ** 21 + 3]
NEAR_SCALED = [F(k, 2 ** 20) for k in NEAR]
SCALE_FAMS = [('tiny-2^-40', TINY), ('near-tie', NEAR), ('near-tie-2^-20', NEAR_SCALED)]


def all_digraphs(n):
    cells = [(i, j) for i in range(n) for j in range(n) if i != j]
    for m in range(1 << len(cells)):
        A = [[0] * n for _ in range(n)]
        for b, (i, j) in enumerate(cells):
            if m >> b & 1:
                A[i][j] = 1
        yield A


def all_graphs(n):
    cells = [(i, j) for i in range(n) for j in range(i + 1, n)]
    for m in range(1 << len(cells)):
        A = [[0] * n for _ in range(n)]
        for b, (i, j) in enumerate(cells):
            if m >> b & 1:
                A[i][j] = A[j][i] = 1
        yield A


# ---------------------------------------------------------------- encoders for the model
def enc_oq(x):
    return '0' if (x is None or x == INF) else '1 ' + enc_q(x)


def dec_oq(x):
    return INF if x is None else dec_q(x)


def dec_on(x):
    return INF if x is None else (dec_z(x) if isinstance(x, str) else int(x))


def dec_ext(x):
    """[0]=nan, [1]=inf, [2,q]=finite"""
    if x[0] == 0:
        return 'nan'
    if x[0] == 1:
        return INF
    return dec_q(x[1])


def ext_close(m, x, tol=1e-9):
    if m == 'nan':
        return bool(np.isnan(x))
    if m == INF:
        return bool(np.isinf(x) and x > 0)
    return bool(np.isfinite(x)) and abs(float(m) - float(x)) <= tol * max(1.0, abs(float(m)))


class Batch:
    def __init__(self):
        self.lines, self.pend = [], []

    def add(self, line, *info):
        self.lines.append(line)
        # input-representation layer: the model comparison is batched and judged later -> a copy of the case carries the converted
        # calls made since ctx.case(case) (Ctx attributes a mismatch only to conversions of the function its key names)
        self.pend.append(tuple(tie_variants(dict(x), since_case=True) if isinstance(x, dict) else x for x in info))


# ---------------------------------------------------------------- checks on one matrix
def check_D(ctx, fn, D, dist, case, exact=True, diag_zero=True):
    """distance-matrix clauses: min length, inf iff unreachable, diagonal"""
    n = len(dist)
    ok = True
    if D.shape != (n, n):
        ctx.fail(fn + ':shape', 'wrong shape %s' % (D.shape,), case)
        return False
    for s in range(n):
        for t in range(n):
            if s == t:
                if diag_zero and D[s, s] != 0:
                    ok = ctx.check(False, fn + ':diag-zero', 'D[%d,%d]=%r' % (s, s, D[s, s]), case)
                continue
            d = dist[s][t]
            x = D[s, t]
            if d == INF or np.isinf(x):
                if not (d == INF and np.isinf(x) and x > 0):
                    ok = ctx.check(False, fn + ':inf-iff-unreachable',
                                   'pair (%d,%d): returned %r, true distance %s' % (s, t, float(x), d), case)
            elif not close(x, d, exact):
                ok = ctx.check(False, fn + ':min-length', 'pair (%d,%d): returned %r, true minimum %s' % (s, t, float(x), d), case)
    return ok


def check_R(ctx, fn, R, D, dist, case):
    n = len(dist)
    R = np.asarray(R)
    for s in range(n):
        for t in range(n):
            if s != t:
                if bool(R[s, t]) != (dist[s][t] != INF) or bool(R[s, t]) != bool(np.isfinite(D[s, t])):
                    ctx.check(False, fn + ':reach-flag', 'pair (%d,%d): flag %r, returned distance %r, true distance %s'
                              % (s, t, bool(R[s, t]), float(D[s, t]), dist[s][t]), case)
                    return False
    return True


def check_diag_cycle(ctx, fn, R, D, A, dist, case):
    """breadthdist / reachdist on the diagonal (theorems C03_breadthdist_correct / C03_reachdist_correct): D[s,s] is the
    length of the shortest cycle through s (1 for a self-connection), infinite when there is none; R[s,s] true iff finite."""
    n = len(dist)
    R = np.asarray(R)
    for s in range(n):
        want = min([dist[s][u] + 1 for u in range(n) if A[u][s] != 0] or [INF])
        x = D[s, s]
        if not (x == want):
            ctx.check(False, fn + ':diag-shortest-cycle', 'D[%d,%d]=%r, shortest cycle through %d has %s edges' % (s, s, float(x), s, want), case)
            return False
        if bool(R[s, s]) != (want != INF):
            ctx.check(False, fn + ':diag-reach-flag', 'R[%d,%d]=%r but D[%d,%d]=%r' % (s, s, bool(R[s, s]), s, s, float(x)), case)
            return False
    return True


def follow_pmat(P, s, t, n):
    q = [s]
    while q[-1] != t and len(q) <= n:
        q.append(int(P[q[-1], t]))
    return q if q[-1] == t else None


def tie_signature(Hh, P, s, t, n, isedge, elen, d):
    """Signature of the known rounding defect of distance_wei_floyd (only meaningful for lengths that are not
    exact in binary64): Pmat encodes a valid route s->t whose length is the minimum within tolerance, but
    hops[s,t] counts the edges of a different, exactly-equally-long alternative (a tie that rounding broke)."""
    q = follow_pmat(P, s, t, n)
    if q is None or len(q) - 1 == Hh[s, t]:
        return None
    if any(not isedge(a, b) for a, b in zip(q, q[1:])):
        return None
    tot = sum(elen(a, b) for a, b in zip(q, q[1:]))
    return q if close(tot, d, False) else None


TIE_KEY = 'distance_wei_floyd[rounded-lengths]:edge-count-tie'


def check_hops(ctx, fn, B, E, dist, case, exact=True, tie=None):
    """edge-count output = number of edges of SOME minimum-length path.
    tie=(P, isedge, elen): rounded-length regime, recognise the known tie defect under its own key"""
    n = len(dist)
    for s in range(n):
        for t in range(n):
            if s == t:
                if B[s, t] != 0:
                    ctx.check(False, fn + ':edge-count-diag', 'B[%d,%d]=%r' % (s, s, B[s, t]), case)
                    return False
                continue
            if dist[s][t] == INF:
                continue
            h = B[s, t]
            good = float(h).is_integer() and 1 <= h < len(E[s]) and close(E[s][int(h)][t], dist[s][t], exact)
            if not good:
                if tie is not None and not exact:
                    q = tie_signature(B, tie[0], s, t, n, tie[1], tie[2], dist[s][t])
                    if q is not None:
                        ctx.fail(TIE_KEY, 'pair (%d,%d): hops=%r but the route encoded by Pmat %s has %d edges (equal-length alternatives separated by rounding)'
                                 % (s, t, float(h), q, len(q) - 1), case)
                        continue
                ctx.check(False, fn + ':edge-count', 'pair (%d,%d): reported %r edges but no minimum-length (%s) path has that many'
                          % (s, t, float(h), dist[s][t]), case)
                return False
    return True


def mean_clauses(ctx, dist, n):
    off = [dist[s][t] for s in range(n) for t in range(n) if s != t]
    lam = INF if INF in off else F(sum(off), 1) / len(off) if off else None
    eff = sum((F(1) / F(d) if d != INF else 0) for d in off) / len(off) if off else None
    return off, lam, eff


CP_FLAGS = [(False, True), (False, False), (True, True), (True, False)]     # (include_diagonal, include_infinite)


def charpath_oracle(dist, n, incl_diag, incl_inf):
    """mean and mean inverse of the TRUE distances under the two flags; None = nan (nothing to average)"""
    vals = [(0 if s == t else dist[s][t]) for s in range(n) for t in range(n) if (incl_diag or s != t)]
    if not incl_inf:
        vals = [v for v in vals if v != INF]
    if not vals:
        return None, None
    lam = INF if INF in vals else F(sum(vals)) / len(vals)
    eff = INF if any(v == 0 for v in vals) else sum((F(1) / F(v) if v != INF else 0) for v in vals) / len(vals)
    return lam, eff


def charpath_sequence(ctx, bct, dist, n, case, B_=None):
    """charpath is called SEVERAL times on the SAME array object with different flag combinations (order rotated
    per case); every call is judged against the oracle computed from the original distances and the caller's
    array must be unchanged after every call (an aliasing charpath writes nan into it, which only a later call shows)."""
    Dt = np.array([[0.0 if s == t else float(dist[s][t]) for t in range(n)] for s in range(n)]).reshape(n, n)
    D0 = Dt.copy()
    k = int(ctx.nprng.randint(4))
    mid = ([2], [3], [2, 3], [3, 2])[k]
    order = [CP_FLAGS[1]] + [CP_FLAGS[m] for m in mid] + [CP_FLAGS[0]]       # starts with include_infinite=False, ends with the defaults
    orc = {}
    ctx.count('charpath:sequence-start-%d' % k)
    seen = set()
    for (dg, inf_) in order:
        with np.errstate(all='ignore'):
            l_, e_, ecc_, rad_, dia_ = call(bct.charpath, Dt, include_diagonal=dg, include_infinite=inf_)
        check_ecc(ctx, [[0 if s == t else dist[s][t] for t in range(n)] for s in range(n)], n, dg, inf_, ecc_, rad_, dia_, case)
        if (dg, inf_) not in orc:
            orc[(dg, inf_)] = charpath_oracle(dist, n, dg, inf_)
        lam, eff = orc[(dg, inf_)]
        tag = '[include_diagonal=%s,include_infinite=%s]' % (dg, inf_)
        ctx.check(fclose(l_, lam), 'charpath:mean' + ('' if (dg, inf_) == CP_FLAGS[0] else tag),
                  'lambda=%r, mean distance=%s (call sequence on one array: %s)' % (float(l_), lam, order), case)
        ctx.check(fclose(e_, eff), 'charpath:mean-inverse' + ('' if (dg, inf_) == CP_FLAGS[0] else tag),
                  'efficiency=%r, mean inverse distance=%s (call sequence on one array: %s)' % (float(e_), eff, order), case)
        if not np.array_equal(Dt, D0):
            ctx.fail('charpath:no-mutation', "the caller's distance matrix was modified by charpath%s" % tag, case)
            D0 = Dt.copy()          # keep going on the caller's (now damaged) array: later calls show the wrong means
        if B_ is not None and (dg, inf_) not in seen:
            seen.add((dg, inf_))
            B_.add('charpath ' + enc_mat(Dt_to_opt(dist), enc_oq) + ' %d %d' % (int(dg), int(inf_)), 'charpath', case, (l_, e_))
    check_charpath_defaults(ctx, bct, Dt, lambda dg, inf_: orc.get((dg, inf_)) or charpath_oracle(dist, n, dg, inf_), case)


def check_charpath_defaults(ctx, bct, Dt, oracle, case):
    """charpath called with its arguments left out: the documented defaults are include_diagonal=False, include_infinite=True
    (a changed default is invisible to calls that pass both flags)"""
    for kw, flags in (({}, (False, True)), ({'include_diagonal': True}, (True, True)), ({'include_infinite': False}, (False, False))):
        with np.errstate(all='ignore'):
            l_, e_ = call(bct.charpath, Dt, **kw)[:2]
        lam, eff = oracle(*flags)
        ctx.check(fclose(l_, lam) and fclose(e_, eff), 'charpath:default-arguments',
                  'charpath(D%s) returned (%r, %r); with the documented defaults (include_diagonal=False, include_infinite=True) for the omitted '
                  'arguments the mean / mean inverse are (%s, %s)' % (''.join(', %s=%s' % kv for kv in kw.items()), float(l_), float(e_), lam, eff), case)


def ecc_oracle(Dv, n, dg, inf_):
    """eccentricity = largest selected entry of each row (None: nothing selected in the row); Dv entries: number, INF or None (nan)"""
    out = []
    for s in range(n):
        row = [Dv[s][t] for t in range(n) if (dg or s != t) and Dv[s][t] is not None and (inf_ or Dv[s][t] != INF)]
        out.append(max(row) if row else None)
    return out


def check_ecc(ctx, Dv, n, dg, inf_, ecc_, rad_, dia_, case):
    """the three further outputs of charpath: eccentricity per node (max over the selected entries of its row), radius = min,
    diameter = max.  Rows with nothing selected (an isolated node with include_infinite=False) are not judged: numpy's masked
    maximum leaves the fill value 1e20 there."""
    want = ecc_oracle(Dv, n, dg, inf_)
    tag = '[include_diagonal=%s,include_infinite=%s]' % (dg, inf_)
    ecc_ = np.asarray(ecc_, dtype=float).ravel()
    if ecc_.shape != (n,):
        ctx.fail('charpath:eccentricity', 'ecc has shape %s' % (ecc_.shape,), case); return
    for s in range(n):
        if want[s] is None:
            ctx.count('charpath:ecc-row-with-nothing-selected'); continue
        if not (float(ecc_[s]) == float(want[s])):
            ctx.fail('charpath:eccentricity', 'ecc[%d]=%r, largest selected distance from node %d is %s %s' % (s, float(ecc_[s]), s, want[s], tag), case)
            return
    if all(w is not None for w in want) and n >= 1:
        ctx.check(float(rad_) == float(min(want)), 'charpath:radius', 'radius=%r, smallest eccentricity %s %s' % (float(rad_), min(want), tag), case)
        ctx.check(float(dia_) == float(max(want)), 'charpath:diameter', 'diameter=%r, largest eccentricity %s %s' % (float(dia_), max(want), tag), case)


def enc_dval(x):
    return '0' if x is None else ('1' if x == INF else '2 ' + enc_q(x))


def do_charpath_x(ctx, bct, n, B_):
    """charpath on matrices that contain inf AND nan entries and a nonzero diagonal, every flag combination and the default
    arguments; oracle: the property text (mean / mean inverse over the selected entries), model: the statement-level
    charpath_x (C03_charpath_general).  Entries: None = nan, INF, or a small non-negative integer / dyadic."""
    r = ctx.nprng
    pn, pi, pz = [(0.0, 0.3, 0.0), (0.15, 0.2, 0.1), (0.3, 0.0, 0.0), (0.1, 0.5, 0.2), (0.0, 0.0, 0.0)][int(r.randint(5))]
    def entry(diag):
        u = r.rand()
        if u < pn:
            return None
        if u < pn + pi:
            return INF
        if diag and r.rand() < 0.6:
            return 0
        if r.rand() < pz:
            return 0
        return int(r.randint(1, 6)) if r.rand() < 0.8 else F(int(r.randint(1, 12)), 4)
    Dv = [[entry(i == j) for j in range(n)] for i in range(n)]
    case = {'kind': 'charpath-nan-inf', 'D': [[('nan' if x is None else ('inf' if x == INF else str(x))) for x in row] for row in Dv]}
    ctx.case(case, nontrivial=any(x is not None and x != INF for row in Dv for x in row))
    ctx.count('charpathx:n=%d' % n)
    Dt = np.array([[(np.nan if x is None else float(x)) for x in row] for row in Dv], dtype=float).reshape(n, n)
    D0 = Dt.copy()

    def oracle(dg, inf_):
        vals = [Dv[s][t] for s in range(n) for t in range(n)
                if (dg or s != t) and Dv[s][t] is not None and (inf_ or Dv[s][t] != INF)]
        if not vals:
            return None, None
        lam = INF if INF in vals else F(sum(vals)) / len(vals)
        eff = INF if any(v == 0 for v in vals) else sum((F(1) / F(v) if v != INF else 0) for v in vals) / len(vals)
        return lam, eff

    order = [CP_FLAGS[int(k)] for k in r.permutation(4)]
    for (dg, inf_) in order:
        with np.errstate(all='ignore'), no_variants():
            l_, e_, ecc_, rad_, dia_ = call(bct.charpath, Dt, include_diagonal=dg, include_infinite=inf_)
        lam, eff = oracle(dg, inf_)
        tag = '[include_diagonal=%s,include_infinite=%s]' % (dg, inf_)
        ctx.check(fclose(l_, lam), 'charpath[nan/inf-entries]:mean' + tag, 'lambda=%r, mean of the selected entries=%s' % (float(l_), lam), case)
        ctx.check(fclose(e_, eff), 'charpath[nan/inf-entries]:mean-inverse' + tag, 'efficiency=%r, mean inverse of the selected entries=%s' % (float(e_), eff), case)
        check_ecc(ctx, Dv, n, dg, inf_, ecc_, rad_, dia_, case)
        if not np.array_equal(Dt, D0, equal_nan=True):
            ctx.fail('charpath:no-mutation', "the caller's distance matrix was modified by charpath%s" % tag, case)
            Dt = D0.copy()
        B_.add('charpathx ' + enc_mat(Dv, enc_dval) + ' %d %d' % (int(dg), int(inf_)), 'charpath', case, (l_, e_))
    with no_variants():
        check_charpath_defaults(ctx, bct, Dt, oracle, case)


def fclose(x, want, tol=1e-9):
    if want is None:
        return bool(np.isnan(x))
    if want == INF:
        return bool(np.isinf(x) and x > 0)
    return bool(np.isfinite(x)) and abs(float(want) - float(x)) <= tol * max(1.0, abs(float(want)))


def do_binary(ctx, bct, A, fam, B_, with_model=True, light=False):
    n = len(A)
    An = npm(A)
    case = {'kind': 'binary', 'A': A}
    dist = bfs_all(A)
    E = exact_h(A)
    d2 = dist_from_E(E)
    if n > 1 and d2 != dist:
        ctx.errors.append('oracle self-test failed (BFS vs exact-h) on %r' % (A,))
    nontriv = any(dist[s][t] != INF for s in range(n) for t in range(n) if s != t)
    ctx.case(case, nontrivial=nontriv)
    ctx.count('bin:' + fam.split('+')[0]); ctx.count('n=%d' % n)
    und = all(A[i][j] == A[j][i] for i in range(n) for j in range(n))
    ctx.count('undirected' if und else 'directed')
    conn = all(dist[s][t] != INF for s in range(n) for t in range(n))
    ctx.count('connected' if conn else 'disconnected')
    A0 = An.copy()
    res = {}
    # --- distance_bin
    D = call(bct.distance_bin, An.copy())
    check_D(ctx, 'distance_bin', D, dist, case); res['distance_bin'] = D
    # --- breadthdist / reachdist
    R, Db = call(bct.breadthdist, An.copy())
    check_D(ctx, 'breadthdist', Db, dist, case, diag_zero=False); check_R(ctx, 'breadthdist', R, Db, dist, case); res['breadthdist'] = Db
    check_diag_cycle(ctx, 'breadthdist', R, Db, A, dist, case)
    Rr, Dr = call(bct.reachdist, An.copy())
    check_D(ctx, 'reachdist', Dr, dist, case, diag_zero=False); check_R(ctx, 'reachdist', Rr, Dr, dist, case); res['reachdist'] = Dr
    check_diag_cycle(ctx, 'reachdist', Rr, Dr, A, dist, case)
    if not (np.array_equal(Db, Dr) and np.array_equal(np.asarray(R, dtype=bool), np.asarray(Rr, dtype=bool))):
        ctx.fail('agree:breadthdist/reachdist[diagonal-included]', 'the two routines return different D or R (C03_agree_breadth_reach)', case)
    # --- distance_wei / floyd on the binary matrix (domains overlap: lengths all 1)
    Dw, Bw = call(bct.distance_wei, An.copy())
    check_D(ctx, 'distance_wei', Dw, dist, case); check_hops(ctx, 'distance_wei', Bw, E, dist, case); res['distance_wei'] = Dw
    S, Hh, P = call(bct.distance_wei_floyd, An.copy())
    check_D(ctx, 'distance_wei_floyd', S, dist, case); check_hops(ctx, 'distance_wei_floyd', Hh, E, dist, case); res['distance_wei_floyd'] = S
    o = ~np.eye(n, dtype=bool)
    names = sorted(res)
    for a, b in itertools.combinations(names, 2):
        if not np.array_equal(res[a][o], res[b][o]):
            ctx.fail('agree:%s/%s' % (a, b), 'the two routines return different distances on a binary graph', case)
    if not np.array_equal(Bw[o][np.isfinite(S[o])], S[o][np.isfinite(S[o])]) or not np.array_equal(Hh[o][np.isfinite(S[o])], S[o][np.isfinite(S[o])]):
        ctx.fail('agree:edge-count/binary', 'on a binary graph the edge counts must equal the distances', case)
    if not light:
        check_breadth(ctx, bct, A, An, dist, case)
    ctx.check(np.array_equal(An, A0), 'distance:no-mutation', 'input modified', case)
    # --- means
    if n >= 2 and not light:
        off, lam, eff = mean_clauses(ctx, dist, n)
        charpath_sequence(ctx, bct, dist, n, case, B_ if with_model else None)
        eb = call(bct.efficiency_bin, An.copy())
        ctx.check(fclose(eb, eff), 'efficiency_bin:mean-inverse', 'returned %r, mean inverse distance %s' % (float(eb), eff), case)
        ge, er, _ = call(bct.rout_efficiency, An.copy())
        ctx.check(fclose(ge, eff), 'rout_efficiency:mean-inverse', 'returned %r, mean inverse distance %s' % (float(ge), eff), case)
        ew = call(bct.efficiency_wei, An.copy())
        ctx.check(fclose(ew, eff), 'efficiency_wei:mean-inverse', 'returned %r on a 0/1 matrix, mean inverse distance %s' % (float(ew), eff), case)
        if with_model:
            B_.add('effbin ' + enc_mat(A), 'eff', case, eb)
            B_.add('effbinx ' + enc_mat(A), 'eff', case, eb)          # efficiency.py's own copy of the loop (C03_efficiency_own_loops)
            B_.add('effweix ' + enc_mat(A, enc_q), 'eff', case, ew)
            B_.add('rout 0 ' + enc_mat(A, enc_q) + ' 0', 'rout', case, (ge, er))
    if with_model:
        B_.add('dbin ' + enc_mat(A), 'dbin', case, D)
        B_.add('breadthdist ' + enc_mat(A), 'rd', case, (np.asarray(R), Db))
        B_.add('reachdist ' + enc_mat(A), 'rd', case, (np.asarray(Rr), Dr))
        B_.add('dwei ' + enc_mat(A, enc_q), 'dwei', case, (Dw, Bw))
        B_.add('floyd 0 ' + enc_mat(A, enc_q) + ' 0', 'floyd', case, (S, Hh, P, True))


def Dt_to_opt(dist):
    n = len(dist)
    return [[0 if s == t else dist[s][t] for t in range(n)] for s in range(n)]


def do_weighted(ctx, bct, W, fam, B_):
    """W: integer lengths (0 = no edge)"""
    n = len(W)
    Wn = npm(W)
    case = {'kind': 'lengths', 'L': [[(x if isinstance(x, int) else str(x)) for x in row] for row in W]}
    E = exact_h(W)
    dist = dist_from_E(E)
    nontriv = any(dist[s][t] != INF for s in range(n) for t in range(n) if s != t)
    ctx.case(case, nontrivial=nontriv)
    ctx.count('wei:' + fam.split('+')[0]); ctx.count('n=%d' % n)
    # ties: a pair with two different edge counts achieving the minimum
    ties = any(sum(1 for h in range(1, len(E[s])) if E[s][h][t] == dist[s][t]) > 1
               for s in range(n) for t in range(n) if s != t and dist[s][t] != INF)
    ctx.count('wei:has-ties' if ties else 'wei:no-ties')
    Dw, Bw = call(bct.distance_wei, Wn.copy())
    check_D(ctx, 'distance_wei', Dw, dist, case); check_hops(ctx, 'distance_wei', Bw, E, dist, case)
    S, Hh, P = call(bct.distance_wei_floyd, Wn.copy())
    check_D(ctx, 'distance_wei_floyd', S, dist, case); check_hops(ctx, 'distance_wei_floyd', Hh, E, dist, case)
    o = ~np.eye(n, dtype=bool)
    if not np.array_equal(Dw[o], S[o]):
        ctx.fail('agree:distance_wei/distance_wei_floyd', 'different distances on the same length matrix', case)
    B_.add('dwei ' + enc_mat(W, enc_q), 'dwei', case, (Dw, Bw))
    B_.add('floyd 0 ' + enc_mat(W, enc_q) + ' 0', 'floyd', case, (S, Hh, P, True))
    if n >= 2:
        off, lam, eff = mean_clauses(ctx, dist, n)
        ge, er, _ = call(bct.rout_efficiency, Wn.copy())
        ctx.check(fclose(ge, eff), 'rout_efficiency:mean-inverse', 'returned %r, mean inverse distance %s' % (float(ge), eff), case)
        okp = all(fclose(er[s, t], (F(1) / F(dist[s][t]) if dist[s][t] != INF else 0) if s != t else 0) for s in range(n) for t in range(n))
        ctx.check(okp, 'rout_efficiency:pairwise', 'Erout is not 1/distance off the diagonal', case)
        B_.add('rout 0 ' + enc_mat(W, enc_q) + ' 0', 'rout', case, (ge, er))
        charpath_sequence(ctx, bct, dist, n, case)
    return dist, E


def do_inv(ctx, bct, W, fam, B_, exact):
    """weights -> lengths 1/w. exact: weights are 1/m (dyadic), so lengths are integers"""
    n = len(W)
    Wn = npm(W)
    case = {'kind': 'weights-inv', 'W': [[str(x) for x in row] for row in W]}
    L = [[(F(1) / F(x) if x != 0 else 0) for x in row] for row in W]
    E = exact_h(L)
    dist = dist_from_E(E)
    ctx.case(case, nontrivial=any(dist[s][t] != INF for s in range(n) for t in range(n) if s != t))
    ctx.count('inv:' + ('exact' if exact else 'tolerance')); ctx.count('n=%d' % n)
    S, Hh, P = call(bct.distance_wei_floyd, Wn.copy(), transform='inv')
    check_D(ctx, 'distance_wei_floyd[inv]', S, dist, case, exact=exact)
    check_hops(ctx, 'distance_wei_floyd[inv]', Hh, E, dist, case, exact=exact,
               tie=(P, lambda a, b: W[a][b] != 0, lambda a, b: L[a][b]))
    B_.add('floyd 1 ' + enc_mat(W, enc_q) + ' 0', 'floyd', case, (S, Hh, P, exact))
    if n >= 2:
        off, lam, eff = mean_clauses(ctx, dist, n)
        ew = call(bct.efficiency_wei, Wn.copy())
        ctx.check(fclose(ew, eff), 'efficiency_wei:mean-inverse', 'returned %r, mean inverse distance (lengths 1/w) %s' % (float(ew), eff), case)
        ge, er, _ = call(bct.rout_efficiency, Wn.copy(), transform='inv')
        ctx.check(fclose(ge, eff), 'rout_efficiency[inv]:mean-inverse', 'returned %r, mean inverse distance %s' % (float(ge), eff), case)
        B_.add('effwei ' + enc_mat(W, enc_q), 'eff', case, ew)
        B_.add('effweix ' + enc_mat(W, enc_q), 'eff', case, ew)
        B_.add('rout 1 ' + enc_mat(W, enc_q) + ' 0', 'rout', case, (ge, er))


def do_log(ctx, bct, W, fam, B_):
    """weights 2^-k in (0,1] -> lengths -log w (k ln 2); compared with tolerance"""
    n = len(W)
    Wn = npm(W)
    case = {'kind': 'weights-log', 'W': [[str(x) for x in row] for row in W]}
    # oracle on the real lengths: k*ln2 -> work with integer k (exact), scale at the end
    K = [[(0 if x == 0 else ('z' if x == 1 else int(round(-math.log2(float(x)))))) for x in row] for row in W]
    # zero-length edges (w=1): use exact-h table with a tiny trick: lengths as Fractions, 'z' -> Fraction(0) but still an edge
    E = exact_h_zero(K)
    dist = dist_from_E(E)
    ln2 = math.log(2.0)
    distf = [[(d * ln2 if d != INF else INF) for d in row] for row in dist]
    Ef = [[[(x * ln2 if x != INF else INF) for x in r] for r in rows] for rows in E]
    ctx.case(case, nontrivial=any(dist[s][t] != INF for s in range(n) for t in range(n) if s != t))
    ctx.count('log'); ctx.count('n=%d' % n)
    S, Hh, P = call(bct.distance_wei_floyd, Wn.copy(), transform='log')
    check_D(ctx, 'distance_wei_floyd[log]', np.abs(S), distf, case, exact=False)
    check_hops(ctx, 'distance_wei_floyd[log]', Hh, Ef, distf, case, exact=False,
               tie=(P, lambda a, b: K[a][b] != 0, lambda a, b: 0.0 if K[a][b] == 'z' else K[a][b] * ln2))
    vals = sorted({x for row in W for x in row if x != 0})
    tbl = ' '.join([str(len(vals))] + [enc_q(v) + ' ' + enc_q(F(-math.log(float(v))) if v != 1 else F(0)) for v in vals])
    B_.add('floyd 2 ' + enc_mat(W, enc_q) + ' ' + tbl, 'floyd', case, (np.abs(S), Hh, P, False))
    if n >= 2 and all(x != 1 for row in W for x in row):
        off, lam, eff = mean_clauses(ctx, dist, n)
        ge, er, _ = call(bct.rout_efficiency, Wn.copy(), transform='log')
        ctx.check(fclose(ge, float(eff) / ln2), 'rout_efficiency[log]:mean-inverse', 'returned %r, mean inverse distance %r' % (float(ge), float(eff) / ln2), case)


def exact_h_zero(K):
    """like exact_h but entries: 0 = no edge, 'z' = edge of length 0, int k = edge of length k"""
    n = len(K)
    H = max(1, n - 1)
    E = []
    for s in range(n):
        cur = [INF] * n
        cur[s] = 0
        rows = [cur]
        for h in range(H):
            nx = [INF] * n
            for a in range(n):
                if cur[a] == INF:
                    continue
                for b in range(n):
                    w = K[a][b]
                    if w != 0:
                        c = cur[a] + (0 if w == 'z' else w)
                        if c < nx[b]:
                            nx[b] = c
            rows.append(nx)
            cur = nx
        E.append(rows)
    return E


def do_selfloop(ctx, bct, A, B_):
    """separate stream: graphs WITH self-connections (breadth was repaired for them in repo commit 4574619; kept so that a regression is reported)"""
    n = len(A)
    An = npm(A)
    case = {'kind': 'binary-with-selfloops', 'A': A}
    dist = bfs_all(A)
    ctx.case(case, nontrivial=True)
    ctx.count('selfloop')
    for fn, f in (('distance_bin', lambda: bct.distance_bin(An.copy())),
                  ('distance_wei', lambda: bct.distance_wei(An.copy())[0]),
                  ('distance_wei_floyd', lambda: bct.distance_wei_floyd(An.copy())[0]),
                  ('breadthdist', lambda: bct.breadthdist(An.copy())[1]),
                  ('reachdist', lambda: bct.reachdist(An.copy())[1])):
        D = call(f)
        bad = [(s, t) for s in range(n) for t in range(n) if s != t and not (D[s, t] == dist[s][t])]
        if bad:
            s, t = bad[0]
            ctx.fail(fn + ':selfloop-min-length', 'graph with self-connection: pair (%d,%d) returned %r, true distance %s'
                     % (s, t, float(D[s, t]), dist[s][t]), case)
    R, Db = call(bct.breadthdist, An.copy())
    check_diag_cycle(ctx, 'breadthdist', R, Db, A, dist, case)
    B_.add('breadthdist ' + enc_mat(A), 'rd', case, (np.asarray(R), Db))
    Rr, Dr = call(bct.reachdist, An.copy())
    check_diag_cycle(ctx, 'reachdist', Rr, Dr, A, dist, case)
    B_.add('reachdist ' + enc_mat(A), 'rd', case, (np.asarray(Rr), Dr))
    B_.add('dbin ' + enc_mat(A), 'dbin', case, call(bct.distance_bin, An.copy()))
    S, Hh, P = call(bct.distance_wei_floyd, An.copy())
    B_.add('floyd 0 ' + enc_mat(A, enc_q) + ' 0', 'floyd', case, (S, Hh, P, True))


def do_weighted_support(ctx, bct, W, fam, B_, with_model=True):
    """The binary routines on WEIGHTED input (distance_bin and reachdist binarise, breadthdist tests `!= 0`): signed
    integers (products of weights along different walks cancel if the input is not binarised first) and weights of tiny
    magnitude on long chains (products underflow).  Hop counts must be those of the support.  The models binarise
    first (`bin`, `znz`); signed integer matrices are given to the model as they are, float matrices as their support."""
    n = len(W)
    Wn = np.array(W, dtype=float).reshape(n, n)
    A = [[int(x != 0) for x in row] for row in W]
    ints = all(float(x).is_integer() for row in W for x in row)
    case = {'kind': 'weighted-input-for-binary-routines', 'W': [[(int(x) if ints else float(x)) for x in row] for row in W]}
    dist = bfs_all(A)
    ctx.case(case, nontrivial=any(dist[s][t] != INF for s in range(n) for t in range(n) if s != t))
    ctx.count('binw:' + fam); ctx.count('n=%d' % n)
    W0 = Wn.copy()
    D = call(bct.distance_bin, Wn.copy(), _t=20.0)
    check_D(ctx, 'distance_bin[weighted-input]', D, dist, case)
    R, Db = call(bct.breadthdist, Wn.copy(), _t=20.0)
    check_D(ctx, 'breadthdist[weighted-input]', Db, dist, case, diag_zero=False); check_R(ctx, 'breadthdist[weighted-input]', R, Db, dist, case)
    check_diag_cycle(ctx, 'breadthdist[weighted-input]', R, Db, A, dist, case)
    Rr, Dr = call(bct.reachdist, Wn.copy(), _t=20.0)
    check_D(ctx, 'reachdist[weighted-input]', Dr, dist, case, diag_zero=False); check_R(ctx, 'reachdist[weighted-input]', Rr, Dr, dist, case)
    check_diag_cycle(ctx, 'reachdist[weighted-input]', Rr, Dr, A, dist, case)
    o = ~np.eye(n, dtype=bool)
    if not (np.array_equal(D[o], Db[o]) and np.array_equal(Db, Dr)):
        ctx.fail('agree:binary-routines[weighted-input]', 'distance_bin / breadthdist / reachdist differ on a weighted matrix', case)
    ctx.check(np.array_equal(Wn, W0), 'distance:no-mutation', 'input modified', case)
    if with_model:
        M = [[int(x) for x in row] for row in W] if ints else A
        B_.add('dbin ' + enc_mat(M), 'dbin', case, D)
        B_.add('breadthdist ' + enc_mat(M), 'rd', case, (np.asarray(R), Db))
        B_.add('reachdist ' + enc_mat(M), 'rd', case, (np.asarray(Rr), Dr))


# ---------------------------------------------------------------- directed weights on a symmetric support
RECIP_MODES = ('reciprocated', 'complete', 'mixed')


def weighted_recip(r, A, vals, mode):
    """A DIRECTED weighted matrix whose support is (largely) symmetric - the class `weighted` never produces (it gives an
    undirected matrix whenever the pattern is symmetric).  'reciprocated': every connection of A present in both directions,
    'complete': every ordered pair connected, 'mixed': the reciprocated matrix plus/minus a few one-way connections.  The two
    directions of a pair are drawn independently from `vals` and made to differ on at least one pair (so the matrix is never
    undirected unless it has no connection or a single value to draw from)."""
    n = len(A)
    if mode == 'complete':
        S = [[int(i != j) for j in range(n)] for i in range(n)]
    else:
        S = [[int(i != j and (A[i][j] != 0 or A[j][i] != 0)) for j in range(n)] for i in range(n)]
    W = [[(vals[int(r.randint(len(vals)))] if S[i][j] else 0) for j in range(n)] for i in range(n)]
    pairs = [(i, j) for i in range(n) for j in range(i + 1, n) if S[i][j]]
    if pairs and len(vals) > 1 and all(W[i][j] == W[j][i] for i, j in pairs):
        i, j = pairs[int(r.randint(len(pairs)))]
        W[j][i] = [v for v in vals if v != W[i][j]][0]
    if mode == 'mixed' and n >= 3:
        for _ in range(1 + int(r.randint(2))):
            i, j = int(r.randint(n)), int(r.randint(n))
            if i != j:
                W[i][j] = 0 if W[i][j] != 0 else vals[int(r.randint(len(vals)))]     # a one-way connection appears / one direction is dropped
    return W


def eloc_wei_oracle(W, variant):
    """efficiency_wei(W, local=True) (Wang et al. 2016) and local='original' (Rubinov & Sporns 2010) as documented, on the
    TRUE distances (exact-h oracle) inside the neighbourhood of each node: lengths (1/w)^(1/3) resp. 1/w; pairs of neighbours
    weighted by the cube roots of the connections to the node, both directions summed."""
    n = len(W)
    cr = lambda x: float(x) ** (1.0 / 3)
    out = []
    for u in range(n):
        V = [v for v in range(n) if W[u][v] != 0 or W[v][u] != 0]
        k = len(V)
        if variant == 'local':
            L = [[(cr(F(1) / F(W[a][b])) if W[a][b] != 0 else 0) for b in V] for a in V]
        else:
            L = [[(F(1) / F(W[a][b]) if W[a][b] != 0 else 0) for b in V] for a in V]
        d = dist_from_E(exact_h(L)) if k else []
        e = [[(0.0 if (i == j or d[i][j] == INF) else 1.0 / float(d[i][j])) for j in range(k)] for i in range(k)]
        if variant == 'local':
            se = [[e[i][j] + e[j][i] for j in range(k)] for i in range(k)]
        else:
            se = [[cr(e[i][j]) + cr(e[j][i]) for j in range(k)] for i in range(k)]
        sw = [cr(W[u][v]) + cr(W[v][u]) for v in V]
        numer = sum(sw[i] * sw[j] * se[i][j] for i in range(k) for j in range(k)) / 2
        sa = [int(W[u][v] != 0) + int(W[v][u] != 0) for v in V]
        denom = sum(sa) ** 2 - sum(x * x for x in sa)
        out.append(numer / denom if numer != 0 else 0.0)
    return out


def do_recip(ctx, bct, W, mode, B_):
    """W: directed dyadic weights 2^-k (exact lengths 1/w, exact -log2) on a symmetric / complete / nearly symmetric support.
    Every weighted clause is run on it: the weights read as LENGTHS (distance_wei, distance_wei_floyd, rout_efficiency, charpath),
    as weights under 'inv' (distance_wei_floyd, rout_efficiency, efficiency_wei global) and under 'log', and efficiency_wei
    local / 'original' against eloc_wei_oracle.  Model lines are added by the do_* routines as for every other matrix."""
    n = len(W)
    pairs = [(i, j) for i in range(n) for j in range(i + 1, n)]
    symsup = all((W[i][j] != 0) == (W[j][i] != 0) for i, j in pairs)
    asym = any(W[i][j] != W[j][i] for i, j in pairs)
    ctx.count('recip:' + mode)
    if symsup and asym:
        ctx.count('recip:symmetric-support+different-reciprocal-weights')
    Lint = [[(int(F(1) / F(x)) if x != 0 else 0) for x in row] for row in W]       # 2^k: integer lengths, asymmetric as well
    do_weighted(ctx, bct, Lint, 'recip-' + mode, B_)
    do_inv(ctx, bct, W, 'recip-' + mode, B_, exact=True)
    do_log(ctx, bct, W, 'recip-' + mode, B_)
    if n >= 2:
        Wn = npm(W)
        case = {'kind': 'weights-local-efficiency', 'W': [[str(x) for x in row] for row in W]}
        ctx.case(case, nontrivial=any(x != 0 for row in W for x in row))
        for variant, arg in (('local', True), ('original', 'original')):
            with np.errstate(all='ignore'):
                El = np.asarray(call(bct.efficiency_wei, Wn.copy(), arg), dtype=float).ravel()
            want = eloc_wei_oracle(W, variant)
            ok = El.shape == (n,) and all(fclose(El[u], want[u]) for u in range(n))
            ctx.check(ok, 'efficiency_wei[local=%r]:neighbourhood-mean-inverse' % (arg,),
                      'returned %s, the definition on the true distances inside each neighbourhood gives %s' % (El.tolist(), want), case)
        # the global value again under the spelling 'global' (same branch, other argument)
        dist = dist_from_E(exact_h([[(F(1) / F(x) if x != 0 else 0) for x in row] for row in W]))
        eff = mean_clauses(ctx, dist, n)[2]
        eg = call(bct.efficiency_wei, Wn.copy(), 'global')
        ctx.check(fclose(eg, eff), 'efficiency_wei:mean-inverse', "efficiency_wei(W, 'global') returned %r, mean inverse distance over ORDERED pairs (lengths 1/w) %s"
                  % (float(eg), eff), case)


def recip_families(ctx, bct, B_):
    """pinned smallest witnesses, then every mode on the structured families of n = 2..7 (a random state of its own)"""
    r = stress_rng(ctx, salt=2)
    do_recip(ctx, bct, [[0, F(1)], [F(1, 4), 0]], 'reciprocated', B_)                       # 1.0 vs 0.625 if the better direction is taken twice
    do_recip(ctx, bct, [[0, F(1), F(1, 2), F(1, 4)], [F(1, 2), 0, F(1, 4), F(1)], [F(1, 4), F(1), 0, F(1, 2)], [F(1), F(1, 4), F(1, 2), 0]], 'complete', B_)
    VALS = [[F(1), F(1, 2), F(1, 4)], [F(1), F(1, 4), F(1, 8)], [F(1, 2), F(1, 8)], [F(1), F(1, 2), F(1, 4), F(1, 8)]]
    for rep in range(ctx.scale(2, 10)):
        for n in range(2, 8):
            fams = families(type('R', (), {'nprng': r})(), n)
            pick = [fams[int(k)] for k in r.choice(len(fams), min(len(fams), ctx.scale(5, 12)), replace=False)]
            for k, (fam, A) in enumerate(pick):
                mode = RECIP_MODES[(k + rep + n) % 3]
                do_recip(ctx, bct, weighted_recip(r, A, VALS[int(r.randint(len(VALS)))], mode), mode, B_)


# ---------------------------------------------------------------- breadth (both outputs), larger n with the oracle only
def check_breadth(ctx, bct, A, An, dist, case):
    """breadth(CIJ, source) called directly: the distance vector (0 at the source, or the shortest cycle through it) and the
    BFS tree `branch` (-1 at the source; for every other reached node a predecessor one level closer to the source)"""
    n = len(A)
    srcs = range(n) if n <= 4 else sorted({int(x) for x in ctx.nprng.randint(0, n, 2)})
    for s in srcs:
        d, br = call(bct.breadth, An.copy(), s)
        d = np.asarray(d, dtype=float).ravel(); br = np.asarray(br, dtype=float).ravel()
        cyc = min([dist[s][u] + 1 for u in range(n) if A[u][s] != 0 and dist[s][u] != INF] or [0])     # no cycle through s: stays 0
        for v in range(n):
            want = dist[s][v] if v != s else cyc
            if not (d[v] == want):
                ctx.fail('breadth:distance', 'source %d: distance[%d]=%r, BFS says %s' % (s, v, float(d[v]), want), case)
                return
        if br[s] != -1:
            ctx.fail('breadth:branch', 'source %d: branch[source]=%r, documented -1' % (s, float(br[s])), case)
            return
        for v in range(n):
            if v == s or dist[s][v] == INF:
                continue
            u = br[v]
            if not (float(u).is_integer() and 0 <= u < n and A[int(u)][v] != 0 and dist[s][int(u)] == dist[s][v] - 1):
                ctx.fail('breadth:branch', 'source %d: branch[%d]=%r is not a predecessor of %d on a shortest path (level %s)'
                         % (s, v, float(u), v, dist[s][v]), case)
                return


def exact_h_np(Ln):
    """the exact-h table with numpy (min-plus products; exact for integer lengths): E[s, h, t], h = 0..n-1; 0 = no edge"""
    n = len(Ln)
    W = np.where(Ln != 0, Ln, INF)
    E = np.full((n, max(2, n), n), INF)
    E[np.arange(n), 0, np.arange(n)] = 0
    for h in range(1, max(2, n)):
        E[:, h, :] = (E[:, h - 1, :, None] + W[None, :, :]).min(axis=1)
    return E


def do_weighted_large(ctx, bct, n, p, und):
    """distance_wei / distance_wei_floyd / efficiency_wei on n = 12..40 nodes (many nodes at the same tentative distance at once
    in Dijkstra's V), integer lengths with many ties; independent oracle only (no model line)"""
    r = ctx.nprng
    vals = ([1, 2], [1, 2, 3, 4], [1, 2, 4])[int(r.randint(3))]
    Ln = np.zeros((n, n))
    for i in range(n):
        for j in range(n):
            if i != j and r.rand() < p:
                Ln[i, j] = vals[int(r.randint(len(vals)))]
    if und:
        Ln = np.triu(Ln) + np.triu(Ln).T
    if n >= 3:
        k = int(r.randint(n)); Ln[k, :] = 0; Ln[:, k] = 0          # an isolated node
    case = {'kind': 'lengths-large', 'L': [[int(x) for x in row] for row in Ln.tolist()]}
    E = exact_h_np(Ln)
    dist = E[:, 1:, :].min(axis=1)
    dist[np.arange(n), np.arange(n)] = 0
    ctx.case(case, nontrivial=True)
    ctx.count('wei-large:n=%d' % n); ctx.count('wei-large:' + ('und' if und else 'dir'))
    Dw, Bw = call(bct.distance_wei, Ln.copy(), _t=60.0)
    check_D(ctx, 'distance_wei', Dw, dist, case); check_hops(ctx, 'distance_wei', Bw, E, dist, case)
    S, Hh, P = call(bct.distance_wei_floyd, Ln.copy(), _t=60.0)
    check_D(ctx, 'distance_wei_floyd', S, dist, case); check_hops(ctx, 'distance_wei_floyd', Hh, E, dist, case)
    # weights 1/length (dyadic when the lengths are powers of two, else tolerance) for efficiency_wei / rout_efficiency[inv]
    Wn = np.where(Ln != 0, 1.0 / np.where(Ln != 0, Ln, 1.0), 0.0)
    eff = sum((F(1, int(d)) for d in dist[~np.eye(n, dtype=bool)] if d != INF), F(0)) / (n * n - n)
    ew = call(bct.efficiency_wei, Wn.copy(), _t=60.0)
    ctx.check(fclose(ew, eff), 'efficiency_wei:mean-inverse', 'returned %r, mean inverse distance (lengths 1/w) %s' % (float(ew), eff), case)
    ge = call(bct.rout_efficiency, Wn.copy(), transform='inv', _t=60.0)[0]
    ctx.check(fclose(ge, eff), 'rout_efficiency[inv]:mean-inverse', 'returned %r, mean inverse distance %s' % (float(ge), eff), case)
    eb = call(bct.efficiency_bin, (Ln != 0).astype(float), _t=60.0)
    Eb = exact_h_np((Ln != 0).astype(float))
    db = Eb[:, 1:, :].min(axis=1)
    effb = sum((F(1, int(d)) for d in db[~np.eye(n, dtype=bool)] if d != INF), F(0)) / (n * n - n)
    ctx.check(fclose(eb, effb), 'efficiency_bin:mean-inverse', 'returned %r, mean inverse hop distance %s' % (float(eb), effb), case)


# ---------------------------------------------------------------- reachdist: storage of the argument, large dense blocks
REACH_STORAGE_KEY = 'reachdist[integer-or-bool-storage]:returns'
REACH_OVERFLOW_KEY = 'reachdist[walk-count-overflow]:unreachable-pair-reported-reachable'
STORAGE_DTYPES = {'int64': np.int64, 'int8': np.int8, 'uint8': np.uint8, 'bool': np.bool_}


def do_int_storage(ctx, bct, A, dt):
    """The five distance routines on the SAME 0/1 network stored as an integer / bool array (called with exactly this array:
    the representation layer is bypassed).  Judged by the BFS oracle only."""
    n = len(A)
    case = {'kind': 'binary-integer-storage', 'A': A, 'dtype': dt}
    dist = bfs_all(A)
    ctx.case(case, nontrivial=any(dist[s][t] != INF for s in range(n) for t in range(n) if s != t))
    ctx.count('storage:' + dt)
    An = np.array(A, dtype=STORAGE_DTYPES[dt]).reshape(n, n)
    A0 = An.copy()
    tag = '[%s-storage]' % dt
    with no_variants():
        for fn, f, diag0 in (('distance_bin', lambda: (None, bct.distance_bin(An)), True),
                             ('breadthdist', lambda: bct.breadthdist(An), False),
                             ('distance_wei', lambda: (None, bct.distance_wei(An)[0]), True),
                             ('distance_wei_floyd', lambda: (None, bct.distance_wei_floyd(An)[0]), True),
                             ('reachdist', lambda: bct.reachdist(An), False)):
            try:
                R, D = call(f)
            except Timeout:
                raise
            except Exception as e:
                ctx.fail(REACH_STORAGE_KEY if fn == 'reachdist' else fn + tag + ':returns',
                         '%s raises %s: %s on a %d-node 0/1 matrix stored as %s (it returns on the same values stored as float64)'
                         % (fn, type(e).__name__, str(e)[:120], n, dt), case)
                continue
            D = np.asarray(D, dtype=float)
            check_D(ctx, fn + tag, D, dist, case, diag_zero=diag0)
            if R is not None:
                check_R(ctx, fn + tag, R, D, dist, case)
                check_diag_cycle(ctx, fn + tag, R, D, A, dist, case)
    ctx.check(np.array_equal(An, A0) and An.dtype == A0.dtype, 'distance:no-mutation', 'integer/bool input modified', case)


def bfs_all_np(S):
    """per-source BFS on a boolean support matrix, level by level (independent of the library; for n in the hundreds)"""
    n = len(S)
    out = np.full((n, n), INF)
    for s in range(n):
        seen = np.zeros(n, dtype=bool); seen[s] = True
        fr = seen.copy()
        out[s, s] = 0
        d = 0
        while fr.any():
            d += 1
            nx = S[fr].any(axis=0) & ~seen
            out[s, nx] = d
            seen |= nx
            fr = nx
    return out


def do_reach_large(ctx, bct, n, h, p, with_breadth=False):
    """A digraph of n ~ 170..260 nodes with a dense strongly connected part and pairs that are NOT reachable: nodes >= h have no
    connection to nodes < h (p = 1: two complete blocks joined one way; p < 1: random density p).  reachdist raises its matrix
    power to n+1 there, so the walk counts exceed binary64 (inf * 0 = nan, `nan != 0`): the unreachable pairs must still be
    reported unreachable.  Oracle: BFS.  The matrix is described by its construction (the case stays small)."""
    r = ctx.nprng
    seed = int(r.randint(1 << 30))
    if p >= 1:
        An = np.ones((n, n)) - np.eye(n)
        how = 'A = np.ones((n,n)) - np.eye(n); A[h:, :h] = 0'
    else:
        An = (np.random.RandomState(seed).rand(n, n) < p).astype(float)
        np.fill_diagonal(An, 0)
        how = 'A = (np.random.RandomState(seed).rand(n,n) < p).astype(float); np.fill_diagonal(A, 0); A[h:, :h] = 0'
    An[h:, :h] = 0
    case = {'kind': 'large-dense-with-unreachable-pairs', 'n': n, 'h': h, 'p': p, 'seed': seed, 'construction': how}
    ctx.case(case, nontrivial=True)
    ctx.count('reach-large:n=%d' % n)
    S = An != 0
    dist = bfs_all_np(S)
    off = ~np.eye(n, dtype=bool)
    # shortest cycle through s: 1 + min over predecessors u of dist[s,u]
    cyc = np.array([min([dist[s, u] + 1 for u in np.nonzero(S[:, s])[0]] or [INF]) for s in range(n)])
    want = dist.copy()
    want[~off] = cyc

    def judge(fn, R, D, overflow_key=None):
        D = np.asarray(D, dtype=float)
        unreach = ~np.isfinite(want)
        bad = unreach & (np.isfinite(D) | (np.asarray(R, dtype=bool) if R is not None else False) | np.isnan(D))
        if bad.any():
            s, t = [int(x) for x in np.argwhere(bad)[0]]
            ctx.fail(overflow_key or fn + ':inf-iff-unreachable',
                     'pair (%d,%d) is unreachable (BFS) but returned distance %r%s; %d such pairs'
                     % (s, t, float(D[s, t]), '' if R is None else ', reach flag %r' % bool(np.asarray(R)[s, t]), int(bad.sum())), case)
            return False
        m = off if R is None else np.ones((n, n), dtype=bool)
        wrong = m & ~unreach & ~(D == want)
        if wrong.any():
            s, t = [int(x) for x in np.argwhere(wrong)[0]]
            ctx.fail(fn + ':min-length', 'pair (%d,%d): returned %r, BFS distance %r' % (s, t, float(D[s, t]), float(want[s, t])), case)
            return False
        if R is not None and not np.array_equal(np.asarray(R, dtype=bool), np.isfinite(want)):
            ctx.fail(fn + ':reach-flag', 'reach flag differs from BFS reachability', case)
            return False
        if R is None and not (np.diag(D) == 0).all():
            ctx.fail(fn + ':diag-zero', 'nonzero diagonal', case)
            return False
        return True

    A0 = An.copy()
    with blas_threads(1):
        Rr, Dr = call(bct.reachdist, An.copy(), _t=60.0)
        judge('reachdist[large-dense]', Rr, Dr, REACH_OVERFLOW_KEY)
        Db = call(bct.distance_bin, An.copy(), _t=60.0)
        judge('distance_bin[large-dense]', None, Db)
        if with_breadth:
            Rb, Dd = call(bct.breadthdist, An.copy(), _t=120.0)
            judge('breadthdist[large-dense]', Rb, Dd)
    ctx.check(np.array_equal(An, A0), 'distance:no-mutation', 'input modified', case)


# ---------------------------------------------------------------- BLAS threads
_BLAS = None


def _blas():
    """(set_num_threads, get_num_threads) of the OpenBLAS that numpy loaded, or (None, None)"""
    global _BLAS
    if _BLAS is None:
        _BLAS = (None, None)
        try:
            import ctypes
            libs = sorted({l.split()[-1] for l in open('/proc/self/maps') if 'openblas' in l.lower() and '.so' in l})
            for p in libs:
                lib = ctypes.CDLL(p)
                for pre in ('scipy_openblas', 'openblas'):
                    for suf in ('64_', ''):
                        try:
                            _BLAS = (getattr(lib, pre + '_set_num_threads' + suf), getattr(lib, pre + '_get_num_threads' + suf))
                            return _BLAS
                        except AttributeError:
                            pass
        except Exception:
            pass
    return _BLAS


@contextlib.contextmanager
def blas_threads(k=1):
    """Hundreds of successive n x n products with n ~ 200 are 10-15 times slower (wall) and ~100 times dearer (CPU) on 16 spinning
    BLAS threads than on one: the large-matrix blocks run their calls single-threaded.  Speed only; a no-op when the library
    is not found."""
    st, gt = _blas()
    old = None
    if st is not None:
        try:
            old = int(gt()); st(int(k))
        except Exception:
            old = None
    try:
        yield
    finally:
        if old is not None:
            st(old)


# ---------------------------------------------------------------- stress families: numeric range of the walk counts (oracle only)
def clique_chain(k, c, extra=0, one_way=False, perm=None):
    """K_k on nodes 0..k-1, a chain of c nodes hanging off node 0 (one_way: connections point away from the block only, so
    the block is unreachable from the chain), then `extra` nodes forming a path of their own (a second component); node
    labels permuted by `perm`.  The number of walks of length d inside the block is ~(k-1)^d while the far end of the chain
    is only reached in round c: (k-1)^c is what a routine that keeps walk COUNTS has to hold."""
    n = k + c + extra
    A = np.zeros((n, n))
    A[:k, :k] = 1
    np.fill_diagonal(A, 0)
    prev = 0
    for i in range(k, k + c):
        A[prev, i] = 1
        if not one_way:
            A[i, prev] = 1
        prev = i
    for i in range(k + c, n - 1):
        A[i, i + 1] = A[i + 1, i] = 1
    if perm is not None:
        A = A[np.ix_(perm, perm)]
    return A


CLIQUE_CHAIN_HOW = ('n = k+c+extra; A = zeros((n,n)); A[:k,:k] = 1; fill_diagonal(A, 0); chain 0 - k - k+1 - ... - k+c-1 '
                    '(one_way: only A[prev,i] = 1); path k+c - ... - n-1; A = A[ix_(perm, perm)]')


def bfs_lists(A):
    """per-source BFS over adjacency lists -> (n,n) float array, inf = unreachable (independent of the library)"""
    n = len(A)
    nb = [np.flatnonzero(A[i]).tolist() for i in range(n)]
    out = np.full((n, n), INF)
    for s in range(n):
        row = [INF] * n
        row[s] = 0
        fr, d = [s], 0
        while fr:
            d += 1
            nx = []
            for u in fr:
                for v in nb[u]:
                    if row[v] == INF:
                        row[v] = d
                        nx.append(v)
            fr = nx
        out[s] = row
    return out


def judge_big(ctx, fn, R, D, dist, case, key_for=None):
    """one returned distance matrix (and reach flags R, or None) of a network with n in the tens / hundreds against BFS distances;
    R given: the diagonal is the shortest cycle (breadthdist / reachdist), else it must be 0.  key_for: clause -> finding key"""
    n = len(dist)
    key = lambda cl: (key_for or {}).get(cl, fn + ':' + cl)
    D = np.asarray(D, dtype=float)
    if D.shape != (n, n):
        ctx.fail(fn + ':shape', 'wrong shape %s' % (D.shape,), case)
        return False
    off = ~np.eye(n, dtype=bool)
    want = dist.copy()
    if R is not None:
        S = dist == 1
        want[~off] = [min([dist[s, u] + 1 for u in np.flatnonzero(S[:, s])] or [INF]) for s in range(n)]
    unreach = ~np.isfinite(want)
    m = np.ones((n, n), dtype=bool) if R is not None else off
    bad = m & unreach & ~(np.isinf(D) & (D > 0))
    if bad.any():
        s, t = [int(x) for x in np.argwhere(bad)[0]]
        ctx.fail(key('inf-iff-unreachable'), 'pair (%d,%d) is unreachable (BFS) but the returned distance is %r; %d such pairs'
                 % (s, t, float(D[s, t]), int(bad.sum())), case)
        return False
    wrong = m & ~unreach & ~(D == want)
    if wrong.any():
        s, t = [int(x) for x in np.argwhere(wrong)[0]]
        ctx.fail(key('min-length'), 'pair (%d,%d): returned %r, BFS distance %r; %d such pairs' % (s, t, float(D[s, t]), float(want[s, t]), int(wrong.sum())), case)
        return False
    if R is not None and not np.array_equal(np.asarray(R, dtype=bool), ~unreach):
        s, t = [int(x) for x in np.argwhere(np.asarray(R, dtype=bool) != ~unreach)[0]]
        ctx.fail(key('reach-flag'), 'pair (%d,%d): reach flag %r, BFS distance %r' % (s, t, bool(np.asarray(R)[s, t]), float(want[s, t])), case)
        return False
    if R is None and not (np.diag(D) == 0).all():
        ctx.fail(key('diag-zero'), 'nonzero diagonal', case)
        return False
    return True


def do_clique_chain(ctx, bct, r, k, c, extra, one_way, overflow64=False):
    """All distance routines on a dense block with a long tail.  (k-1)^c > 3.4e38 (binary32) for every member of the family;
    overflow64: (k-1)^c > 1.8e308, the walk counts would leave binary64 as well (there only the routines that raise the matrix to
    successive powers are called: distance_bin, efficiency_bin, reachdist).  This family found the overflow of distance_bin
    and of efficiency_bin's own loop (466 unreachable pairs with finite distances on K50 + 183 + 2; repaired in repo commits
    aa68b44 / 3281ffb: the power is clipped to its support each round, as in reachdist since 2cf9619); reverting either
    commit on a scratch copy gives VIOLATION distance_bin:inf-iff-unreachable / efficiency_bin:mean-inverse."""
    n = k + c + extra
    perm = [int(x) for x in r.permutation(n)]
    An = clique_chain(k, c, extra, one_way, perm)
    case = {'kind': 'clique+chain', 'k': k, 'c': c, 'extra': extra, 'one_way': one_way, 'perm': perm, 'construction': CLIQUE_CHAIN_HOW}
    ctx.case(case, nontrivial=True)
    ctx.count('stress:clique+chain' + ('(binary64 range)' if overflow64 else '')); ctx.count('stress:n=%d' % n)
    dist = bfs_lists(An)
    off = ~np.eye(n, dtype=bool)
    A0 = An.copy()
    fin = np.isfinite(dist) & off
    eff = float(np.sum(1.0 / dist[fin])) / (n * n - n)
    t_ = 120.0

    def run_(fn, f):
        try:
            return call(f, An.copy(), _t=t_)
        except Timeout:
            ctx.fail(fn + ':raises', 'does not return within %g s' % t_, case)
        except Exception as e:
            ctx.fail(fn + ':raises', 'raised %s: %s' % (type(e).__name__, str(e)[:120]), case)
        return None

    # binary64 range: the subject is the numeric range, not the storage (a bool copy is multiplied logically and cannot overflow):
    # the arrays go to the routines as built, so that the verdict does not depend on the draw of the representation layer
    with np.errstate(all='ignore'), blas_threads(1), (no_variants() if overflow64 else contextlib.nullcontext()):
        Db = run_('distance_bin', bct.distance_bin)
        if Db is not None:
            judge_big(ctx, 'distance_bin', None, Db, dist, case)
        eb = run_('efficiency_bin', bct.efficiency_bin)
        if eb is not None:
            ctx.check(fclose(eb, eff), 'efficiency_bin:mean-inverse',
                      'returned %r, mean inverse BFS distance %r' % (float(eb), eff), case)
        rr = run_('reachdist', bct.reachdist)
        if rr is not None:
            judge_big(ctx, 'reachdist', rr[0], rr[1], dist, case)
        if not overflow64 or ctx.thorough:
            rb = run_('breadthdist', bct.breadthdist)
            if rb is not None:
                judge_big(ctx, 'breadthdist', rb[0], rb[1], dist, case)
        if not overflow64:
            rw = run_('distance_wei', bct.distance_wei)
            if rw is not None:
                Dw, Bw = rw
                if judge_big(ctx, 'distance_wei', None, Dw, dist, case):
                    # lengths are all 1: the edge count of every minimum-length path is the distance
                    ctx.check(bool(np.all(np.asarray(Bw, dtype=float)[fin] == dist[fin])), 'distance_wei:edge-count',
                              'hop counts differ from the BFS distances on a 0/1 matrix', case)
            rf = run_('distance_wei_floyd', bct.distance_wei_floyd)
            if rf is not None:
                if judge_big(ctx, 'distance_wei_floyd', None, rf[0], dist, case):
                    ctx.check(bool(np.all(np.asarray(rf[1], dtype=float)[fin] == dist[fin])), 'distance_wei_floyd:edge-count',
                              'hops differ from the BFS distances on a 0/1 matrix', case)
            ew = run_('efficiency_wei', bct.efficiency_wei)
            if ew is not None:
                ctx.check(fclose(ew, eff), 'efficiency_wei:mean-inverse', 'returned %r, mean inverse BFS distance %r' % (float(ew), eff), case)
            # charpath on the TRUE distance matrix (default flags: diagonal excluded, infinite pairs included)
            cp = run_('charpath', lambda M: bct.charpath(dist.copy())[:2])
            if cp is not None:
                lam = float(np.mean(dist[off]))
                ctx.check(fclose(cp[1], eff) and fclose(cp[0], lam), 'charpath:mean',
                          'charpath(D) = (%r, %r), mean / mean inverse of the distances (%r, %r)' % (float(cp[0]), float(cp[1]), lam, eff), case)
    ctx.check(np.array_equal(An, A0), 'distance:no-mutation', 'input modified', case)


def stress_rng(ctx, salt=1):
    """a random state of its own for the stress families (derived from VERIF_SEED like ctx.nprng; the streams of the other
    generators stay what they were)"""
    return np.random.RandomState((ctx.seed * 7919 + int(ctx.pid[1:]) + 1000003 * salt + (500009 if ctx.escalated else 0)) % (2 ** 31))


def stress_families(ctx, bct):
    """Walk counts beyond binary32 on every run (two instances in the quick tier), the whole size grid in the thorough tier -
    which is also what the escalated pass of a quick run executes on a changed tree, FIRST, before its time cap can bite;
    walk counts beyond binary64 once (twice in thorough)."""
    r = stress_rng(ctx)
    grid = [(8, 48), (8, 70), (10, 45), (12, 40), (12, 44), (14, 60), (16, 36), (20, 33), (20, 80), (6, 70)]
    if ctx.thorough:
        for i, (k, c) in enumerate(grid):
            do_clique_chain(ctx, bct, r, k, c, extra=(0, 3, 1)[i % 3], one_way=bool(i % 2))
    else:
        k, c = grid[int(r.randint(len(grid) - 2))]
        do_clique_chain(ctx, bct, r, k, c, extra=int(r.randint(0, 4)), one_way=False)
        k, c = grid[int(r.randint(len(grid) - 2))]
        do_clique_chain(ctx, bct, r, k, c, extra=0, one_way=True)
    do_clique_chain(ctx, bct, r, 50, 183, 2, False, overflow64=True)
    if ctx.thorough:
        do_clique_chain(ctx, bct, r, 64, 185, 0, True, overflow64=True)


# ---------------------------------------------------------------- correspondence
def compare_models(ctx, B_):
    res = run_model(ID, B_.lines)
    ctx.model_cases = len(B_.lines)
    for info, m in zip(B_.pend, res):
        kind, case, impl = info
        if is_err(m):
            ctx.mismatch('model-error:' + kind, m['error'], case); continue
        if m is None:
            ctx.mismatch('model-fuel:' + kind, 'model ran out of fuel', case); ctx.count('fuel_exhausted'); continue
        if kind == 'dbin':
            M = [[dec_on(x) for x in row] for row in m]
            if not mat_eq(M, impl, True):
                ctx.mismatch('distance_bin', 'model and implementation differ', case, M, impl)
        elif kind == 'rd':
            R, D = impl
            MR, MD = m
            MDn = [[dec_on(x) for x in row] for row in MD]
            n = len(MDn)
            okR = all(bool(MR[i][j]) == bool(R[i, j]) for i in range(n) for j in range(n))
            if not (okR and mat_eq(MDn, D, True)):
                ctx.mismatch('breadthdist/reachdist', 'model and implementation differ (incl. diagonal)', case, [MR, MDn], [R, D])
        elif kind == 'dwei':
            D, Bm = impl
            MD = [[dec_oq(x) for x in row] for row in m[0]]
            MB = [[int(x) for x in row] for row in m[1]]
            if not (mat_eq(MD, D, True) and mat_eq(MB, Bm, True)):
                ctx.mismatch('distance_wei', 'model and implementation differ (D or B)', case, [MD, MB], [D, Bm])
        elif kind == 'floyd':
            S, Hh, P, exact = impl
            MS = [[dec_oq(x) for x in row] for row in m[0]]
            MH = [[int(x) for x in row] for row in m[1]]
            MP = [[int(x) for x in row] for row in m[2]]
            if exact:
                if not (mat_eq(MS, S, True) and mat_eq(MH, Hh, True) and mat_eq(MP, P, True)):
                    ctx.mismatch('distance_wei_floyd', 'model and implementation differ (SPL, hops or Pmat)', case, [MS, MH, MP], [S, Hh, P])
            else:
                # rounding may break ties differently: lengths by tolerance only
                if not mat_eq(MS, S, False):
                    ctx.mismatch('distance_wei_floyd[transform]', 'model and implementation SPL differ beyond tolerance', case, MS, S)
                elif mat_eq(MH, Hh, True) and mat_eq(MP, P, True):
                    ctx.count('floyd-transform:identical-hops-pmat')
                else:
                    ctx.count('floyd-transform:tie-order-differs')
        elif kind == 'charpath':
            l_, e_ = impl
            if not (ext_close(dec_ext(m[0]), l_) and ext_close(dec_ext(m[1]), e_)):
                ctx.mismatch('charpath', 'model and implementation differ', case, [dec_ext(m[0]), dec_ext(m[1])], [l_, e_])
        elif kind == 'eff':
            if not ext_close(dec_ext(m), impl):
                ctx.mismatch('efficiency', 'model and implementation differ', case, dec_ext(m), impl)
        elif kind == 'rout':
            ge, er = impl
            ME = [[dec_oq(x) for x in row] for row in m[1]]
            if not (ext_close(dec_ext(m[0]), ge) and mat_eq(ME, er, False)):
                ctx.mismatch('rout_efficiency', 'model and implementation differ', case, [dec_ext(m[0]), ME], [ge, er])


def mat_eq(M, X, exact):
    X = np.asarray(X)
    n = len(M)
    if X.shape[0] != n:
        return False
    for i in range(n):
        for j in range(len(M[i])):
            x = float(X[i, j])
            if not close(x, M[i][j], exact):
                return False
    return True


WITNESS_LOG = [
    [['0', '0', '0', '0', '1/4', '1', '0'], ['0', '0', '1/8', '0', '1/8', '0', '0'], ['0', '1/8', '0', '0', '0', '0', '0'],
     ['0', '0', '0', '0', '0', '1/2', '0'], ['1/4', '1/8', '0', '0', '0', '0', '1'], ['1', '0', '0', '1/2', '0', '0', '0'],
     ['0', '0', '0', '0', '1', '0', '0']],
    [['0', '1/8', '0', '1', '1/4', '0', '1'], ['1/8', '0', '1/4', '0', '0', '0', '0'], ['0', '1/4', '0', '0', '0', '0', '0'],
     ['1', '0', '0', '0', '0', '0', '1/4'], ['1/4', '0', '0', '0', '0', '1/4', '0'], ['0', '0', '0', '0', '1/4', '0', '0'],
     ['1', '0', '0', '1/4', '0', '0', '0']],
]
WITNESS_INV = [
    [['0', '0', '0', '2', '0', '0'], ['0', '0', '1', '0', '0', '0'], ['2', '0', '0', '0', '0', '0'],
     ['0', '0', '0', '0', '3', '0'], ['0', '1', '0', '0', '0', '2'], ['0', '2', '0', '0', '0', '0']],
]


# ---------------------------------------------------------------- entry point
def run(ctx):
    import bct
    B_ = Batch()
    r = ctx.nprng
    # 0. stress families (numeric range of the walk counts; oracle only): FIRST in the escalated pass of a changed tree (its time cap
    # must not cut them off), LAST otherwise (the first calls of every routine stay the small inputs of the main stream)
    if ctx.escalated:
        stress_families(ctx, bct)
    # oracle self-test against brute-force path enumeration
    for n in (2, 3, 4):
        for _ in range(ctx.scale(10, 60)):
            W = [[0 if i == j or r.rand() < 0.4 else int(r.randint(1, 4)) for j in range(n)] for i in range(n)]
            if dist_from_E(exact_h(W)) != brute_paths(W):
                ctx.errors.append('oracle self-test failed (exact-h vs path enumeration) on %r' % (W,))
    # 1. exhaustive slice
    nd = ctx.scale(3, 4)
    for n in range(1, nd + 1):
        for A in all_digraphs(n):
            do_binary(ctx, bct, A, 'exhaustive_dir', B_, with_model=(n <= 3 or ctx.thorough), light=(n >= 4))
    if not ctx.thorough:
        # a random sample of the n=4 digraphs
        G4 = list(all_digraphs(4))
        for ix in r.choice(len(G4), 300, replace=False):
            do_binary(ctx, bct, G4[int(ix)], 'exhaustive_dir_sample4', B_)
    nu = ctx.scale(4, 5)
    for n in range(2, nu + 1):
        for A in all_graphs(n):
            do_binary(ctx, bct, A, 'exhaustive_und', B_)
    # 2. structured + random families
    reps = ctx.scale(2, 14)
    for rep in range(reps):
        for n in range(1, 9):
            for fam, A in families(ctx, n):
                do_binary(ctx, bct, A, fam, B_)
                for vals in ([1, 2], [1, 2, 3, 4]):
                    W = weighted(ctx, A, vals)
                    do_weighted(ctx, bct, W, fam, B_)
                if n >= 3 and (rep + n + len(fam)) % 2 == 0:
                    sf, vals = SCALE_FAMS[((rep + n + len(fam)) // 2) % 3]
                    ctx.count('wei-scale:' + sf)
                    do_weighted(ctx, bct, weighted(ctx, A, vals), sf, B_)
                if n <= 7:
                    do_inv(ctx, bct, weighted(ctx, A, [F(1), F(1, 2), F(1, 4)]), fam, B_, exact=True)
                    do_inv(ctx, bct, weighted(ctx, A, [F(1), F(2), F(3)]), fam, B_, exact=False)
                    if n >= 3 and (rep + n + len(fam)) % 4 == 0:      # lengths 1/w = 2^-30, 2^-29, 2^-28 (exact)
                        do_inv(ctx, bct, weighted(ctx, A, [F(2 ** 30), F(2 ** 29), F(2 ** 28)]), fam, B_, exact=True)
                    do_log(ctx, bct, weighted(ctx, A, [F(1), F(1, 2), F(1, 4), F(1, 8)]), fam, B_)
                    do_log(ctx, bct, weighted(ctx, A, [F(1, 2), F(1, 4)]), fam, B_)
    # 2b. pinned witnesses of the known rounding-tie defect of distance_wei_floyd (found by this harness, seeds 1 and 2)
    for Wt in WITNESS_LOG:
        do_log(ctx, bct, [[F(x) for x in row] for row in Wt], 'witness', B_)
    for Wt in WITNESS_INV:
        do_inv(ctx, bct, [[F(x) for x in row] for row in Wt], 'witness', B_, exact=False)
    # 2c. directed weights on a symmetric / complete / nearly symmetric support (every connection reciprocated, the two directions differ)
    recip_families(ctx, bct, B_)
    # 3. self-connections (separate stream)
    for rep in range(ctx.scale(40, 300)):
        n = int(r.randint(2, 6))
        A = [[int(r.rand() < 0.4) for j in range(n)] for i in range(n)]
        A[int(r.randint(n))][int(r.randint(n))] = 1
        k = int(r.randint(n)); A[k][k] = 1
        do_selfloop(ctx, bct, A, B_)
    # 4. weighted input for the binary routines (they binarise): signed integers whose walk products cancel, tiny weights on long chains
    do_weighted_support(ctx, bct, [[0, 1, 0, -1], [1, 0, 1, 0], [0, 1, 0, 1], [-1, 0, 1, 0]], 'signed-4cycle-witness', B_)
    for rep in range(ctx.scale(6, 60)):
        for n in range(2, 9):
            p = (0.25, 0.45, 0.7)[int(r.randint(3))]
            vals = ([-1, 1], [-2, -1, 1, 2], [-3, -1, 1, 2])[int(r.randint(3))]
            W = [[0 if (i == j or r.rand() >= p) else vals[int(r.randint(len(vals)))] for j in range(n)] for i in range(n)]
            if r.rand() < 0.6:
                for i in range(n):
                    for j in range(i):
                        W[i][j] = W[j][i]
                do_weighted_support(ctx, bct, W, 'signed-und', B_)
            else:
                do_weighted_support(ctx, bct, W, 'signed-dir', B_)
    for k, n in enumerate((40, 55, 70) if not ctx.thorough else (40, 48, 55, 62, 70)):
        for eps, und in ((1e-6, True), (1e-7, False)):
            W = [[0.0] * n for _ in range(n)]
            for i in range(n - 1):
                W[i][i + 1] = eps
                if und:
                    W[i + 1][i] = eps
            if not und:
                W[n - 1][int(r.randint(n // 2))] = eps        # a long directed cycle with a tail
            do_weighted_support(ctx, bct, W, 'tiny-chain-und' if und else 'tiny-chain-dir', B_, with_model=(n <= 40 or ctx.thorough))
    # 4b. charpath on matrices with nan / inf entries and a nonzero diagonal: all flags + default arguments (model: charpath_x)
    for rep in range(ctx.scale(8, 60)):
        for n in range(1, 7):
            do_charpath_x(ctx, bct, n, B_)
    # 4c. n = 12..40 for distance_wei / distance_wei_floyd / efficiency_* with the oracle only
    for n in ((12, 20, 40) if not ctx.thorough else (12, 16, 20, 28, 34, 40)):
        for p_, und in ((0.1, True), (0.5, False)) if not ctx.thorough else ((0.08, True), (0.1, False), (0.3, True), (0.6, False)):
            do_weighted_large(ctx, bct, n, p_, und)
    # 5. the same 0/1 network stored as an integer / bool array (BFS oracle only)
    do_int_storage(ctx, bct, [[0, 1], [0, 0]], 'int64')
    for dt in STORAGE_DTYPES:
        for rep in range(ctx.scale(2, 8)):
            n = int(r.randint(2, 7))
            p = (0.2, 0.4, 0.7)[int(r.randint(3))]
            do_int_storage(ctx, bct, [[int(i != j and r.rand() < p) for j in range(n)] for i in range(n)], dt)
    # 6. large dense digraphs with unreachable pairs (walk counts of reachdist exceed binary64 from n ~ 166 on); BFS oracle only
    n = int(r.randint(166, 177))
    do_reach_large(ctx, bct, n, int(r.randint(n // 3, 2 * n // 3)), 1.0, with_breadth=ctx.thorough)
    if ctx.thorough:
        do_reach_large(ctx, bct, 260, 130, 0.15)
        do_reach_large(ctx, bct, 200, int(r.randint(60, 140)), 0.5)
    if not ctx.escalated:
        stress_families(ctx, bct)
    compare_models(ctx, B_)


def stress_only(ctx, bct):
    """development aid: the stress families alone"""
    stress_families(ctx, bct)
