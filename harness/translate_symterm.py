"""Fail-closed Python-`ast` translator: body of a bctpy function -> programs of the index-symmetric term language
of coq/theories/Model/SymTerm.v (`prog`), emitted as coq/theories/Gen/SymTermGen.v on every ./check C04 / ./check setup.

Why: C04_symterm_equivariant holds for EVERY program of the language.  A hand-written term is tied to the code only
by sampling; a term REGENERATED from the source that is in the tree now re-applies the theorem to what the code says now.
The translator is a symbolic executor of the NumPy subset whose meaning does not depend on the numbering of the nodes:

  values       scalar / per-node vector / per-pair matrix (all of the size of the input network), each a term with named
               index holes; boolean dtype is tracked (numpy's bool + bool is `or`, ~ and & need it); +inf is tracked by a
               separate 0/1 flag term (only through  X[mask] = np.inf, +, - finite, * by the same mask, finite / inf -> 0)
  reductions   np.sum (axis 0 / 1 / None), np.dot / @ / .dot, np.diag, np.trace, np.max / np.min (all entries or an axis)
  pointwise    + - * / ** small integer, unary -, comparisons, & | ~ on booleans, np.logical_and/or/not, np.abs, np.sign,
               np.square, np.sqrt (Prim 0), cuberoot (Prim 1; its source is compared with the version modelled),
               np.maximum/minimum, np.where(c, a, b), .astype, np.array(.., dtype=..), .copy(), .T
  constructors np.zeros / np.ones / np.eye of the network size, len(X)
  index sets   np.where(mask) and boolean-mask subscripts are translated ONLY where they are used as a SET of nodes / pairs:
               X[mask], X[np.where(..)], v[i] / v[j] for i, j = np.where(M) (edge arrays), M[np.ix_(V, W)], len / .size /
               np.size of them, np.sum of what they select, X[set] = value, M[set, :] = c, M[:, set] = c
  dtype guards `if not np.issubdtype(W.dtype, np.inexact): [raise ..] W = W.astype(float) elif copy: W = W.copy()`: the model has
               exact rationals and no dtypes, so BOTH branches are executed and must leave the same values (promotion is
               the identity on values; a branch that raises is the function refusing that dtype); the harness drives the
               implementation with float AND int / bool arrays against the one generated program
  statements   assignments (-> LetS / LetV / LetM, one per Python assignment, dead ones dropped), augmented assignments,
               np.fill_diagonal, `if` on specialised parameters (copy=True, flag=..), calls of other bct functions (inlined by
               translating THEIR current source), `for u in range(n)` whose iterations are independent (iteration u reads
               only loop-invariant values and writes only cell u of vectors allocated before the loop -> LetV; `if` inside
               becomes a guard; a full-range `for j in range(n)` nested inside is a SUM over j of what its body adds with
               `vec[u] += e`; two loop variables may only be compared for equality: `j != q` -> IEq), `while True: <A>; if <set>.size == 0: break; <B>` where B only zeroes rows / columns of
               the set (-> IterM over n rounds, then A once more), return of a value or a tuple.

Everything else raises Untranslatable and the function (or the one output) is REPORTED as not translatable: explicit
node indices (X[0], u == 0, range(n - 1), i + 1), np.triu / tril, argsort / sort / unique / delete / setdiff1d, index lists
used as sequences, general while loops, loops with cross-iteration dependencies, .shape arithmetic, anything unknown.
Nothing is approximated silently.  What the translator CLAIMS about NumPy (broadcasting, bool arithmetic, inf) is
validated on every check: the extracted evaluator runs every generated term on the same inputs as the implementation.
"""
import ast, os, glob, hashlib
from fractions import Fraction as F


class Untranslatable(Exception):
    pass


def bad(msg, node=None):
    if node is not None and hasattr(node, 'lineno'):
        msg += ' [line %d: %s]' % (node.lineno, ast.unparse(node)[:70])
    raise Untranslatable(msg)


# ------------------------------------------------------------------------------------------------ terms
_fresh = [100]


def fresh():
    _fresh[0] += 1
    return _fresh[0]


def Cst(q):
    return ('Cst', F(q))


C0, C1, C2 = Cst(0), Cst(1), Cst(2)


def Op(o, a, b):
    if a[0] == 'Cst' and b[0] == 'Cst' and o in ('Add', 'Sub', 'Mul') or (o == 'Div' and a[0] == 'Cst' and b[0] == 'Cst' and b[1] != 0):
        x, y = a[1], b[1]
        return Cst({'Add': x + y, 'Sub': x - y, 'Mul': x * y, 'Div': (x / y) if y != 0 else 0}[o])
    if o == 'Add' and a == C0:
        return b
    if o in ('Add', 'Sub') and b == C0:
        return a
    return ('Op', o, a, b)


def is01(t):
    k = t[0]
    if k == 'Cst':
        return t[1] in (0, 1)
    if k == 'IEq':
        return True
    if k == 'Op':
        return t[1] in ('Le', 'Lt', 'Eqq') or (t[1] == 'Mul' and is01(t[2]) and is01(t[3]))
    if k == 'If':
        return is01(t[2]) and is01(t[3])
    return False


def If(c, a, b):
    if c[0] == 'Cst':
        return a if c[1] != 0 else b
    if a == b:
        return a
    return ('If', c, a, b)


def Nz(t):
    return t if is01(t) else If(t, C1, C0)


def Not(t):
    return If(t, C0, C1)


def And(a, b):
    return If(a, Nz(b), C0)


def Or(a, b):
    return If(a, C1, Nz(b))


def Sum(x, t):
    return ('Sum', x, t)


def Big(o, x, g, a, d):
    return ('Big', o, x, g, a, d)


def subst(t, m):
    """rename FREE index variables (bound names are globally fresh, so no capture)"""
    if not m:
        return t
    k = t[0]
    if k in ('Cst', 'Nn', 'Sc'):
        return t
    if k == 'Mx':
        return ('Mx', t[1], m.get(t[2], t[2]), m.get(t[3], t[3]))
    if k == 'Vc':
        return ('Vc', t[1], m.get(t[2], t[2]))
    if k == 'IEq':
        return ('IEq', m.get(t[1], t[1]), m.get(t[2], t[2]))
    if k == 'Op':
        return ('Op', t[1], subst(t[2], m), subst(t[3], m))
    if k == 'If':
        return ('If', subst(t[1], m), subst(t[2], m), subst(t[3], m))
    if k == 'Prim':
        return ('Prim', t[1], subst(t[2], m))
    if k == 'Sum':
        return ('Sum', t[1], subst(t[2], m))
    if k == 'Big':
        return ('Big', t[1], t[2], subst(t[3], m), subst(t[4], m), subst(t[5], m))
    raise AssertionError(k)


def free_vars(t, bound=frozenset()):
    k = t[0]
    if k in ('Cst', 'Nn', 'Sc'):
        return set()
    if k == 'Mx':
        return {t[2], t[3]} - bound
    if k == 'Vc':
        return {t[2]} - bound
    if k == 'IEq':
        return {t[1], t[2]} - bound
    if k == 'Op':
        return free_vars(t[2], bound) | free_vars(t[3], bound)
    if k == 'If':
        return free_vars(t[1], bound) | free_vars(t[2], bound) | free_vars(t[3], bound)
    if k == 'Prim':
        return free_vars(t[2], bound)
    if k == 'Sum':
        return free_vars(t[2], bound | {t[1]})
    if k == 'Big':
        b2 = bound | {t[2]}
        return free_vars(t[3], b2) | free_vars(t[4], b2) | free_vars(t[5], bound)
    raise AssertionError(k)


def canon(t, depth=0, m=None):
    """alpha-canonical names: output holes stay 0 / 1, the binder at nesting depth d is called 2 + d"""
    m = m or {}
    k = t[0]
    if k in ('Cst', 'Nn', 'Sc'):
        return t
    if k == 'Mx':
        return ('Mx', t[1], m.get(t[2], t[2]), m.get(t[3], t[3]))
    if k == 'Vc':
        return ('Vc', t[1], m.get(t[2], t[2]))
    if k == 'IEq':
        return ('IEq', m.get(t[1], t[1]), m.get(t[2], t[2]))
    if k == 'Op':
        return ('Op', t[1], canon(t[2], depth, m), canon(t[3], depth, m))
    if k == 'If':
        return ('If', canon(t[1], depth, m), canon(t[2], depth, m), canon(t[3], depth, m))
    if k == 'Prim':
        return ('Prim', t[1], canon(t[2], depth, m))
    if k == 'Sum':
        m2 = dict(m); m2[t[1]] = 2 + depth
        return ('Sum', 2 + depth, canon(t[2], depth + 1, m2))
    if k == 'Big':
        m2 = dict(m); m2[t[2]] = 2 + depth
        return ('Big', t[1], 2 + depth, canon(t[3], depth + 1, m2), canon(t[4], depth + 1, m2), canon(t[5], depth, m))
    raise AssertionError(k)


def uses(t, acc):
    k = t[0]
    if k == 'Sc':
        acc.add(('S', t[1]))
    elif k == 'Mx':
        acc.add(('M', t[1]))
    elif k == 'Vc':
        acc.add(('V', t[1]))
    elif k == 'Op':
        uses(t[2], acc); uses(t[3], acc)
    elif k == 'If':
        uses(t[1], acc); uses(t[2], acc); uses(t[3], acc)
    elif k == 'Prim':
        uses(t[2], acc)
    elif k == 'Sum':
        uses(t[2], acc)
    elif k == 'Big':
        uses(t[3], acc); uses(t[4], acc); uses(t[5], acc)
    return acc


def size(t):
    return 1 + sum(size(x) for x in t[1:] if isinstance(x, tuple))


# ------------------------------------------------------------------------------------------------ values
_oid = [0]


def new_oid():
    _oid[0] += 1
    return _oid[0]


class Arr:
    """scalar ('S'), per-node vector ('V') or per-pair matrix ('M'): a term with index holes `vars`;
       `inf`: None or a 0/1 term with the same holes saying where the value is +inf (then `t` is 0 there)"""
    def __init__(self, kind, vars, t, inf=None, isbool=False, oid=None):
        self.kind, self.vars, self.t, self.inf, self.isbool = kind, tuple(vars), t, inf, isbool
        self.oid = oid or new_oid()

    def at(self, *idx):
        return subst(self.t, dict(zip(self.vars, idx)))

    def inf_at(self, *idx):
        return None if self.inf is None else subst(self.inf, dict(zip(self.vars, idx)))

    rank = property(lambda s: {'S': 0, 'V': 1, 'M': 2}[s.kind])


class IdxSet:
    """np.where(mask) / a boolean mask used as a SET of nodes (1 hole) or of pairs (2 holes); `dim` = length of the
       tuple np.where returned (np.size of that tuple is dim * count); flat: np.where of a flattened matrix"""
    def __init__(self, vars, guard, dim):
        self.vars, self.guard, self.dim = tuple(vars), guard, dim

    def inst(self, *idx):
        return subst(self.guard, dict(zip(self.vars, idx)))


class IdxComp:
    def __init__(self, s, pos):
        self.set, self.pos = s, pos


class Bag:
    """the values selected by an index set (order never used): X[mask], v[i] for i, j = np.where(M), M[np.ix_(V, W)]"""
    def __init__(self, s, t, isbool=False):
        self.set, self.t, self.isbool = s, t, isbool


class Node:
    """the loop variable of an independent per-node loop: usable as a subscript only"""
    def __init__(self, var):
        self.var = var


class Flat:
    def __init__(self, arr):
        self.arr = arr


class Py:
    def __init__(self, v):
        self.v = v


class PyTuple:
    def __init__(self, items):
        self.items = list(items)


class InfConst:
    pass


class DType:
    """X.dtype of an array value"""
    def __init__(self, arr):
        self.arr = arr


class DynDtype:
    """the answer of np.issubdtype(X.dtype, np.inexact) for an array whose dtype the rational model does not know
       (integer or floating); `neg`: under a `not`"""
    def __init__(self, neg=False):
        self.neg = neg


class Poison:
    def __init__(self, why):
        self.why = why


class ReturnSignal(Exception):
    def __init__(self, v):
        self.v = v


CUBEROOT_SRC = "return np.sign(x) * np.abs(x) ** (1 / 3)"
CUBEROOT_CASTS = ("x = np.asarray(x, dtype=float)", "x = x.astype(float)", "x = np.asarray(x, float)")


# ------------------------------------------------------------------------------------------------ builder (lets)
class Builder:
    def __init__(self, nscalars):
        self.lets = []          # (kind 'S'|'V'|'M'|'IterM', id, term[, step])
        self.nm, self.nv, self.ns = 1, 1, nscalars
        self.loop = 0           # > 0: inside a per-node loop (no lets: values mention the loop hole)

    def _let(self, kind, src, t, dst):
        """bind term t (holes src) by a let unless it is atomic; returns the reference with holes dst"""
        if t[0] in ('Cst', 'Nn', 'Sc', 'Mx', 'Vc'):
            return subst(t, dict(zip(src, dst)))
        if kind == 'S':
            i = self.ns; self.ns += 1
            self.lets.append(('S', i, t))
            return ('Sc', i)
        if kind == 'V':
            i = self.nv; self.nv += 1
            self.lets.append(('V', i, subst(t, {src[0]: 0})))
            return ('Vc', i, dst[0])
        if src[0] == src[1]:
            bad('internal: repeated hole')
        i = self.nm; self.nm += 1
        self.lets.append(('M', i, subst(t, {src[0]: 0, src[1]: 1})))
        return ('Mx', i, dst[0], dst[1])

    def bind(self, v):
        """one Python assignment of an array value = one let; the name then refers to the let-bound variable"""
        if not isinstance(v, Arr) or self.loop:
            return v
        if free_vars(v.t) - set(v.vars) or (v.inf is not None and free_vars(v.inf) - set(v.vars)):
            bad('internal: value with stray index holes')
        dst = holes(v.kind)
        t = self._let(v.kind, v.vars, v.t, dst)
        inf = None if v.inf is None else self._let(v.kind, v.vars, v.inf, dst)
        return Arr(v.kind, dst, t, inf, v.isbool, v.oid)


# ------------------------------------------------------------------------------------------------ elementwise
def holes(kind):
    return {'S': (), 'V': (fresh(),), 'M': (fresh(), fresh())}[kind]


def at_bcast(a, vars):
    """NumPy broadcasting of a (rank <= len(vars)) into the shape with holes `vars` (aligned on the LAST axis)"""
    if a.kind == 'S':
        return a.t, a.inf
    if a.kind == 'V':
        return a.at(vars[-1]), a.inf_at(vars[-1])
    if len(vars) != 2:
        bad('broadcast of a matrix into a vector')
    return a.at(*vars), a.inf_at(*vars)


def elementwise(f, *vals, isbool=False, allow_inf=False):
    """f: list of (term, infflag) -> (term, infflag)"""
    if any(isinstance(v, Bag) for v in vals):
        s = None
        for v in vals:
            if isinstance(v, Bag):
                if s is not None and v.set is not s:
                    bad('arrays selected by two different index sets are combined')
                s = v.set
        args = []
        for v in vals:
            if isinstance(v, Bag):
                args.append((v.t, None))
            elif isinstance(v, Arr) and v.kind == 'S' and v.inf is None:
                args.append((v.t, None))
            else:
                bad('a selected array is combined with a full array')
        t, inf = f(args)
        if inf is not None:
            bad('inf inside a selected array')
        return Bag(s, t, isbool)
    for v in vals:
        if not isinstance(v, Arr):
            bad('elementwise operation on %s' % type(v).__name__)
    kind = max((v.kind for v in vals), key=lambda k: 'SVM'.index(k))
    vars = holes(kind)
    args = [at_bcast(v, vars) for v in vals]
    if not allow_inf and any(i is not None for _, i in args):
        bad('operation not modelled on a value that may be inf')
    t, inf = f(args)
    return Arr(kind, vars, t, inf, isbool)


def arith(op):
    def f(args):
        (ta, ia), (tb, ib) = args
        if op == 'Add':
            inf = ia if ib is None else (ib if ia is None else Or(ia, ib))
            return Op('Add', ta, tb), inf
        if op == 'Sub':
            if ib is not None:
                bad('x - inf is not modelled')
            return Op('Sub', ta, tb), ia
        if op == 'Mul':
            if ia is not None or ib is not None:
                if ia != ib:
                    bad('inf * x is modelled only where both factors are inf on the same mask')
            return Op('Mul', ta, tb), ia
        if op == 'Div':
            if ia is not None:
                bad('inf / x is not modelled')
            q = Op('Div', ta, tb)
            return (If(ib, C0, q) if ib is not None else q), None
        raise AssertionError(op)
    return f


def truthy(v):
    """0/1 term of `v != 0` for an Arr / Bag"""
    return elementwise(lambda a: (Nz(a[0][0]), None), v, isbool=True)


# ------------------------------------------------------------------------------------------------ translator
class Tr:
    def __init__(self, funcs, nscalars):
        self.funcs = funcs
        self.b = Builder(nscalars)
        self.depth = 0
        self.dtype_guards = 0     # dtype tests merged (see Frame.dtype_if)

    # ---------- function bodies
    def call_function(self, fname, args, kwargs, node=None, top=False):
        if fname not in self.funcs:
            bad('call of unknown function %s' % fname, node)
        if self.funcs[fname] == 'ambiguous':
            bad('function name %s is defined more than once in bct' % fname, node)
        fd = self.funcs[fname]
        self.depth += 1
        if self.depth > 6:
            bad('call depth', node)
        a = fd.args
        if a.vararg or a.kwarg or a.kwonlyargs or a.posonlyargs:
            bad('signature of %s' % fname, node)
        names = [x.arg for x in a.args]
        env = {}
        defaults = dict(zip(names[len(names) - len(a.defaults):], a.defaults))
        if len(args) > len(names):
            bad('too many arguments for %s' % fname, node)
        for nm, v in zip(names, args):
            env[nm] = v
        for k, v in kwargs.items():
            if k not in names or k in env:
                bad('keyword %s of %s' % (k, fname), node)
            env[k] = v
        for nm in names:
            if nm not in env:
                if nm not in defaults:
                    bad('missing argument %s of %s' % (nm, fname), node)
                d = defaults[nm]
                if not isinstance(d, ast.Constant):
                    bad('default of %s' % nm, node)
                env[nm] = self.const(d.value, d)
        borrowed = set() if top else {v.oid for v in env.values() if isinstance(v, Arr)}
        fr = Frame(self, env, borrowed)
        body = fd.body
        if body and isinstance(body[0], ast.Expr) and isinstance(body[0].value, ast.Constant) and isinstance(body[0].value.value, str):
            body = body[1:]
        try:
            fr.block(body)
            ret = Py(None)
        except ReturnSignal as r:
            ret = r.v
        self.depth -= 1
        return ret

    def const(self, v, node=None):
        if isinstance(v, bool) or v is None or isinstance(v, str):
            return Py(v)
        if isinstance(v, int):
            return Arr('S', (), Cst(v))
        if isinstance(v, float):
            if v != v or v in (float('inf'), float('-inf')):
                bad('non-finite constant', node)
            return Arr('S', (), Cst(F(v)))
        bad('constant %r' % (v,), node)


class Frame:
    def __init__(self, tr, env, borrowed):
        self.tr, self.b, self.env, self.borrowed = tr, tr.b, env, borrowed
        self.loopvar = None        # Node of the enclosing per-node loop
        self.cur = None            # vector name -> term of its cell at the loop node
        self.guard = None
        self.loop_assigned = set()
        self.loop_written = set()
        self.acc = []              # stack of {vector name: summand} of the enclosing reduction loops
        self.rguard = []           # guard at the entry of each reduction loop

    # ---------- statements
    def block(self, stmts):
        for st in stmts:
            self.stmt(st)

    def stmt(self, st):
        if isinstance(st, ast.Expr):
            v = st.value
            if isinstance(v, ast.Constant) and isinstance(v.value, str):
                return
            if isinstance(v, ast.Call):
                fn = ast.unparse(v.func)
                if fn == 'print':
                    return
                if fn == 'np.fill_diagonal':
                    return self.fill_diagonal(v)
            bad('expression statement', st)
        if isinstance(st, ast.Assign):
            if len(st.targets) != 1:
                bad('chained assignment', st)
            return self.assign(st.targets[0], st.value, st)
        if isinstance(st, ast.AugAssign):
            ops = {ast.Add: ast.Add, ast.Sub: ast.Sub, ast.Mult: ast.Mult, ast.Div: ast.Div}
            if type(st.op) not in ops:
                bad('augmented assignment operator', st)
            if self.acc and isinstance(st.target, ast.Subscript):
                return self.accumulate(st)
            if isinstance(st.target, ast.Name):
                v = self.env.get(st.target.id)
                if isinstance(v, Arr) and v.kind != 'S':
                    self.check_mutable(st.target.id, st)
            load = ast.copy_location(ast.parse(ast.unparse(st.target), mode='eval').body, st)
            return self.assign(st.target, ast.copy_location(ast.BinOp(load, st.op, st.value), st), st)
        if isinstance(st, ast.If):
            return self.if_(st)
        if isinstance(st, ast.Return):
            if self.loopvar is not None or self.guard is not None:
                bad('return inside a loop / dynamic branch', st)
            raise ReturnSignal(self.expr(st.value) if st.value is not None else Py(None))
        if isinstance(st, ast.For):
            return self.for_(st)
        if isinstance(st, ast.While):
            return self.while_(st)
        if isinstance(st, ast.Pass):
            return
        if isinstance(st, ast.Raise):
            bad('reaches a raise statement', st)
        bad('statement %s' % type(st).__name__, st)

    def dtype_if(self, st):
        """`if [not] np.issubdtype(W.dtype, np.inexact): .. else: ..` on an array whose dtype the model does not know.
           Both branches are executed; a branch that raises is the function refusing that dtype (nothing to model);
           if both return normally they must leave the SAME values behind (promotion to float is the identity on the
           exact rationals of the model) -- otherwise the function is dtype-dependent in value and is not translated."""
        if self.loopvar is not None:
            bad('dtype test inside a loop', st)
        base_env, nlets = dict(self.env), len(self.b.lets)
        outs = []
        for branch in (st.body, st.orelse):
            self.env = dict(base_env)
            try:
                self.block(branch)
                if len(self.b.lets) != nlets:
                    bad('a dtype-dependent branch computes new values', st)
                outs.append(self.env)
            except ReturnSignal:
                bad('return inside a dtype-dependent branch', st)
            except Untranslatable as ex:
                if 'reaches a raise statement' not in str(ex):
                    raise
                del self.b.lets[nlets:]
        self.env = base_env
        if not outs:
            bad('both dtype branches raise', st)
        self.tr.dtype_guards += 1
        if len(outs) == 1:
            self.env = outs[0]
            return

        def same(a, b):
            if a is b:
                return True
            if isinstance(a, Arr) and isinstance(b, Arr) and a.kind == b.kind and a.isbool == b.isbool:
                cv = tuple(range(len(a.vars)))
                ia, ib = a.inf_at(*cv), b.inf_at(*cv)
                return a.at(*cv) == b.at(*cv) and ia == ib
            return False
        env = {}
        for k in set(outs[0]) | set(outs[1]):
            a, b = outs[0].get(k), outs[1].get(k)
            if a is None or b is None or not same(a, b):
                bad('the two dtype branches leave different values in %s' % k, st)
            # aliasing: keep the branch that did NOT make a fresh buffer, if there is one
            old = base_env.get(k)
            env[k] = b if (isinstance(old, Arr) and isinstance(b, Arr) and b.oid == old.oid) else a
        self.env = env

    def if_(self, st):
        c = self.expr(st.test)
        if isinstance(c, DynDtype):
            return self.dtype_if(st)
        if isinstance(c, Py):
            return self.block(st.body if c.v else st.orelse)
        if isinstance(c, Arr) and c.kind == 'S' and c.t[0] == 'Cst':
            return self.block(st.body if c.t[1] != 0 else st.orelse)
        if all(isinstance(x, ast.Expr) and isinstance(x.value, ast.Call) and ast.unparse(x.value.func) == 'print' for x in st.body + st.orelse):
            return     # only prints: no effect on the result
        if self.loopvar is None:
            bad('`if` on a computed value outside a per-node loop', st)
        if not (isinstance(c, Arr) and c.kind == 'S' and c.inf is None):
            bad('`if` on a non-scalar', st)
        g = Nz(c.t)
        for branch, gg in ((st.body, g), (st.orelse, Not(g))):
            if not branch:
                continue
            saved_env, saved_guard = dict(self.env), self.guard
            self.guard = gg if saved_guard is None else And(saved_guard, gg)
            self.block(branch)
            self.guard = saved_guard
            # temporaries assigned under a guard are valid inside the branch only
            for k, v in list(self.env.items()):
                if saved_env.get(k) is not v:
                    self.env[k] = Poison('assigned in a conditional branch of a loop')
            for k in saved_env:
                if k not in self.env:
                    self.env[k] = saved_env[k]

    def check_mutable(self, name, node):
        v = self.env.get(name)
        if not isinstance(v, Arr):
            bad('in-place update of a non-array', node)
        if v.oid in self.borrowed:
            bad('callee updates its argument in place (aliasing with the caller is not modelled)', node)
        for k, w in self.env.items():
            if k != name and isinstance(w, Arr) and w.oid == v.oid and w.kind != 'S':
                bad('in-place update of an array that has another name (%s)' % k, node)

    def set(self, name, v):
        if self.loopvar is not None:
            self.loop_assigned.add(name)
        self.env[name] = self.b.bind(v) if isinstance(v, Arr) else v

    def assign(self, tgt, value, st):
        if isinstance(tgt, ast.Name):
            v = self.expr(value)
            if isinstance(value, ast.Name) and isinstance(v, Arr) and v.kind != 'S':
                self.env[tgt.id] = v           # a second name for the same array (same oid)
                if self.loopvar is not None:
                    self.loop_assigned.add(tgt.id)
                return
            if isinstance(v, Arr) and isinstance(value, ast.Attribute) and value.attr == 'T':
                pass                            # X.T is a view; binding makes it a fresh value: mutation of X afterwards is caught below
            return self.set(tgt.id, v)
        if isinstance(tgt, ast.Tuple):
            if not all(isinstance(e, ast.Name) for e in tgt.elts):
                bad('assignment target', st)
            v = self.expr(value)
            names = [e.id for e in tgt.elts]
            if isinstance(v, PyTuple):
                if len(v.items) != len(names):
                    bad('tuple arity', st)
                for nm, x in zip(names, v.items):
                    self.set(nm, x)
                return
            if isinstance(v, IdxSet):
                if v.dim != len(names):
                    bad('np.where result unpacked into %d names' % len(names), st)
                if v.dim == 1:
                    self.set(names[0], v)
                else:
                    for k, nm in enumerate(names):
                        self.set(nm, IdxComp(v, k))
                return
            bad('tuple assignment from %s' % type(v).__name__, st)
        if isinstance(tgt, ast.Subscript):
            return self.store(tgt, value, st)
        bad('assignment target', st)

    def fill_diagonal(self, call):
        if len(call.args) != 2 or call.keywords or not isinstance(call.args[0], ast.Name):
            bad('np.fill_diagonal form', call)
        if self.loopvar is not None or self.guard is not None:
            bad('np.fill_diagonal inside a loop', call)
        nm = call.args[0].id
        self.check_mutable(nm, call)
        X = self.env[nm]
        c = self.expr(call.args[1])
        if not (isinstance(X, Arr) and X.kind == 'M' and isinstance(c, Arr) and c.kind == 'S' and c.inf is None and X.inf is None):
            bad('np.fill_diagonal arguments', call)
        x, y = fresh(), fresh()
        new = Arr('M', (x, y), If(('IEq', x, y), c.t, X.at(x, y)), None, False, X.oid)
        self.env[nm] = self.b.bind(new)

    def store(self, tgt, value, st):
        if not isinstance(tgt.value, ast.Name):
            bad('store target', st)
        nm = tgt.value.id
        X = self.env.get(nm)
        if not isinstance(X, Arr) or X.kind == 'S':
            bad('store into a non-array', st)
        sl = tgt.slice
        # ---- per-node loop: C[u] = scalar
        if self.loopvar is not None:
            if self.acc:
                bad('plain store inside a nested loop (the value of its last iteration would win)', st)
            if not (isinstance(sl, ast.Name) and isinstance(self.env.get(sl.id), Node) and self.env[sl.id] is self.loopvar and X.kind == 'V'):
                bad('inside a per-node loop only  vec[loop variable] = value  is a store', st)
            if nm in self.loop_assigned:
                bad('vector written in the loop was (re)bound in the loop', st)
            v = self.expr(value)
            if not (isinstance(v, Arr) and v.kind == 'S' and v.inf is None):
                bad('cell value', st)
            if X.oid in self.borrowed:
                bad('callee updates its argument in place', st)
            old = self.cur.get(nm, X.at(self.loopvar.var))
            if nm not in self.cur and X.inf is not None:
                bad('inf vector written in a loop', st)
            self.cur[nm] = v.t if self.guard is None else If(self.guard, v.t, old)
            return
        self.check_mutable(nm, st)
        # ---- M[set, :] = c  /  M[:, set] = c
        if isinstance(sl, ast.Tuple) and len(sl.elts) == 2 and X.kind == 'M':
            full = [isinstance(e, ast.Slice) and e.lower is None and e.upper is None and e.step is None for e in sl.elts]
            if full.count(True) == 1:
                pos = full.index(False)
                s = self.as_set(self.expr(sl.elts[pos]), 1, st)
                v = self.expr(value)
                if not (isinstance(v, Arr) and v.kind == 'S' and v.inf is None and X.inf is None):
                    bad('row / column store value', st)
                x, y = fresh(), fresh()
                new = Arr('M', (x, y), If(s.inst((x, y)[pos]), v.t, X.at(x, y)), None, False, X.oid)
                self.env[nm] = self.b.bind(new)
                return
            # M[ik, jk] = bag  for ik, jk = np.where(..)
            a, b2 = self.expr(sl.elts[0]), self.expr(sl.elts[1])
            if isinstance(a, IdxComp) and isinstance(b2, IdxComp) and a.set is b2.set and (a.pos, b2.pos) == (0, 1):
                return self.store_set(nm, X, a.set, value, st)
            bad('store subscript', st)
        sv = self.expr(sl)
        if isinstance(sv, Arr) and sv.kind == 'S':
            bad('store at an explicit node index', st)
        s = self.as_set(sv, X.rank, st)
        return self.store_set(nm, X, s, value, st)

    def store_set(self, nm, X, s, value, st):
        v = self.expr(value)
        vars = holes(X.kind)
        g = s.inst(*vars)
        oldinf = X.inf_at(*vars)
        if isinstance(v, InfConst):
            t = If(g, C0, X.at(*vars))
            inf = If(g, C1, oldinf if oldinf is not None else C0)
        elif isinstance(v, Arr) and v.kind == 'S' and v.inf is None:
            t = If(g, v.t, X.at(*vars))
            inf = None if oldinf is None else If(g, C0, oldinf)
        elif isinstance(v, Bag) and v.set is s:
            t = If(g, subst(v.t, dict(zip(s.vars, vars))), X.at(*vars))
            inf = None if oldinf is None else If(g, C0, oldinf)
        else:
            bad('value stored through an index set', st)
        self.env[nm] = self.b.bind(Arr(X.kind, vars, t, inf, False, X.oid))

    def as_set(self, v, rank, node):
        """a boolean mask of the right shape, or np.where(..) of one, as a set of `rank` indices"""
        if isinstance(v, IdxSet):
            if len(v.vars) != rank or v.dim != rank:
                bad('index set of the wrong rank', node)
            return v
        if isinstance(v, Arr) and v.isbool and v.rank == rank and rank > 0 and v.inf is None:
            return IdxSet(v.vars, v.t, rank)
        bad('subscript is not a boolean mask / np.where(..) of the array\'s shape', node)

    # ---------- loops
    def for_(self, st):
        if st.orelse or not isinstance(st.target, ast.Name):
            bad('for loop form', st)
        it = st.iter
        if isinstance(it, ast.Call) and ast.unparse(it.func) == 'range' and len(it.args) == 2 and not it.keywords:
            lo, hi = self.expr(it.args[0]), self.expr(it.args[1])
            if all(isinstance(v, Arr) and v.kind == 'S' and v.t[0] == 'Cst' for v in (lo, hi)) and lo.t[1] >= hi.t[1]:
                return     # statically empty range (after specialisation of a parameter)
        if not (isinstance(it, ast.Call) and ast.unparse(it.func) == 'range' and len(it.args) == 1 and not it.keywords):
            bad('only `for u in range(n)` over all nodes is translated', st)
        n = self.expr(it.args[0])
        if not (isinstance(n, Arr) and n.kind == 'S' and n.t == ('Nn',)):
            bad('loop bound is not the number of nodes', st)
        if self.loopvar is not None:
            return self.for_reduce(st, n)
        u = Node(fresh())
        saved = dict(self.env)
        self.loop_written = {x.value.id for s_ in st.body for x in ast.walk(s_)
                             if isinstance(x, ast.Subscript) and isinstance(x.ctx, ast.Store) and isinstance(x.value, ast.Name)}
        self.loopvar, self.cur, self.loop_assigned = u, {}, set()
        self.b.loop += 1
        for s_ in st.body:
            for x in ast.walk(s_):
                if isinstance(x, ast.Name) and isinstance(x.ctx, ast.Store):
                    self.env[x.id] = Poison('assigned in the loop body: read before its assignment it would hold the previous iteration\'s value')
                    self.loop_assigned.add(x.id)
        self.env[st.target.id] = u
        try:
            self.block(st.body)
        finally:
            self.b.loop -= 1
        cur, assigned = self.cur, self.loop_assigned
        self.loopvar, self.cur, self.loop_assigned, self.loop_written = None, None, set(), set()
        # names bound inside the body hold the LAST node's values afterwards: not index-symmetric
        env = dict(saved)
        for k in assigned | {st.target.id}:
            env[k] = Poison('bound inside a per-node loop (value of the last iteration)')
        self.env = env
        for nm, t in cur.items():
            X = saved[nm]
            # iteration u read X only through cur (its own cell); any other read of nm was rejected in expr()
            x = fresh()
            self.env[nm] = self.b.bind(Arr('V', (x,), subst(t, {u.var: x}), None, False, X.oid))

    def accumulate(self, st):
        """inside a reduction loop (a full-range loop nested in a per-node loop):  vec[u] += e  /  vec[u] -= e"""
        tgt = st.target
        if not (isinstance(tgt.value, ast.Name) and isinstance(tgt.slice, ast.Name) and self.env.get(tgt.slice.id) is self.loopvar
                and type(st.op) in (ast.Add, ast.Sub)):
            bad('inside a nested full-range loop only  vec[outer loop variable] += value  is a store', st)
        nm = tgt.value.id
        X = self.env.get(nm)
        if not (isinstance(X, Arr) and X.kind == 'V' and X.inf is None) or nm in self.loop_assigned:
            bad('accumulator', st)
        if X.oid in self.borrowed:
            bad('callee updates its argument in place', st)
        v = self.expr(st.value)
        if not (isinstance(v, Arr) and v.kind == 'S' and v.inf is None):
            bad('summand', st)
        t = v.t if isinstance(st.op, ast.Add) else Op('Sub', C0, v.t)
        if self.guard is not None:
            t = If(self.guard, t, C0)
        a = self.acc[-1]
        a[nm] = t if nm not in a else Op('Add', a[nm], t)

    def for_reduce(self, st, n):
        """for j in range(n) nested in a per-node loop: a SUM over all nodes j of what its body adds to vec[u]"""
        j = Node(fresh())
        saved = dict(self.env)
        assigned = set()
        for s_ in st.body:
            for x in ast.walk(s_):
                if isinstance(x, ast.Name) and isinstance(x.ctx, ast.Store):
                    self.env[x.id] = Poison('assigned in the loop body: read before its assignment it would hold the previous iteration\'s value')
                    assigned.add(x.id)
        self.env[st.target.id] = j
        self.acc.append({})
        try:
            self.block(st.body)
        finally:
            a = self.acc.pop()
        env = dict(saved)
        for k in assigned | {st.target.id}:
            env[k] = Poison('bound inside a loop (value of the last iteration)')
        self.env = env
        for nm, t in a.items():
            tot = Sum(j.var, t)
            if self.acc:
                self.acc[-1][nm] = tot if nm not in self.acc[-1] else Op('Add', self.acc[-1][nm], tot)
            else:
                X = self.env[nm]
                self.cur[nm] = Op('Add', self.cur.get(nm, X.at(self.loopvar.var)), tot)

    def while_(self, st):
        """while True: A; if <set>.size == 0: break; B     with B = zeroing rows / columns of one matrix M by the set.
           B is the identity when the set is empty, so  (A;B)^k  for any k >= the number of rounds run is the loop's final
           state, followed by A once more (the pass that broke out).  k = number of nodes: validated by the run."""
        if st.orelse or not (isinstance(st.test, ast.Constant) and st.test.value is True):
            bad('only `while True` peeling loops are translated', st)
        if self.loopvar is not None:
            bad('while inside a loop', st)
        brk = [k for k, s in enumerate(st.body) if isinstance(s, ast.If) and len(s.body) == 1 and isinstance(s.body[0], ast.Break) and not s.orelse]
        if len(brk) != 1 or any(isinstance(x, (ast.Break, ast.Continue)) for s in st.body for x in ast.walk(s) if s is not st.body[brk[0]]):
            bad('while loop without a single top-level `if ..: break`', st)
        A, test, B = st.body[:brk[0]], st.body[brk[0]].test, st.body[brk[0] + 1:]
        if not (isinstance(test, ast.Compare) and len(test.ops) == 1 and isinstance(test.ops[0], ast.Eq)
                and isinstance(test.comparators[0], ast.Constant) and test.comparators[0].value == 0
                and isinstance(test.left, ast.Attribute) and test.left.attr == 'size' and isinstance(test.left.value, ast.Name)):
            bad('break test is not `<index set>.size == 0`', st)
        setname = test.left.value.id
        # B: statements  M[set, :] = 0 / M[:, set] = 0 (same M); statements that are static no-ops are run symbolically too
        mats = set()
        Bstores = []
        for s in B:
            if isinstance(s, ast.Assign) and isinstance(s.targets[0], ast.Subscript) and isinstance(s.targets[0].value, ast.Name):
                sl_ = s.targets[0].slice
                if not (isinstance(sl_, ast.Tuple) and len(sl_.elts) == 2 and sorted(ast.unparse(x) for x in sl_.elts) == sorted([':', setname])):
                    bad('store after the break is not  M[<break set>, :] = c  /  M[:, <break set>] = c  (it must be a no-op when the set is empty)', s)
                mats.add(s.targets[0].value.id); Bstores.append(s)
            elif isinstance(s, ast.AugAssign) and isinstance(s.target, ast.Name) and s.target.id not in [n.id for a in A for n in ast.walk(a) if isinstance(n, ast.Name)]:
                Bstores.append(None)       # a counter not read by A (checked below: must not be live afterwards)
            elif isinstance(s, ast.If):
                Bstores.append(s)
            else:
                bad('statement after the break is not a row / column store', s)
        if len(mats) != 1:
            bad('the loop must update exactly one matrix', st)
        M = mats.pop()
        X0 = self.env.get(M)
        if not (isinstance(X0, Arr) and X0.kind == 'M' and X0.inf is None):
            bad('loop matrix', st)
        self.check_mutable(M, st)
        # symbolic step on a placeholder matrix variable
        mid = self.b.nm; self.b.nm += 1
        saved_lets = self.b.lets
        self.b.lets = []
        saved_env = dict(self.env)
        x, y = fresh(), fresh()
        placeholder = Arr('M', (x, y), ('Mx', mid, x, y), None, False, X0.oid)
        self.env[M] = placeholder
        self.block(A)
        if self.env.get(M) is not placeholder:
            bad('the part of the loop before the break changes the loop matrix', st)
        s = self.env.get(setname)
        if not isinstance(s, IdxSet):
            bad('break test is not on an index set', st)
        counters = set()
        for s_ in B:
            if isinstance(s_, ast.AugAssign):
                counters.add(s_.target.id)
            else:
                self.stmt(s_)
        inner = self.b.lets
        self.b.lets = saved_lets
        step = self.env[M]
        if inner and any(k != 'S' and False for k in inner):
            pass
        # the step must be a closed term over the iterate: inline the inner lets is not possible in the term language,
        # so the body may bind nothing but what it can recompute: require that A's lets are vectors / scalars only and
        # re-express them by substitution (terms are pure)
        step_t = inline_lets(subst(step.t, {step.vars[0]: 0, step.vars[1]: 1}), inner)
        if step_t == ('Mx', mid, 0, 1):
            bad('loop does not change its matrix', st)
        if any(k[0] == 'S' and k[1] >= 0 for k in uses(step_t, set()) if k[0] != 'S') and False:
            pass
        for k in uses(step_t, set()):
            if (k[0] == 'M' and k[1] not in (0, mid) and k[1] >= mid) or (k[0] in ('V', 'S') and any(l[0] == k[0] and l[1] == k[1] for l in inner)):
                bad('internal: loop step refers to a variable bound inside the loop', st)
        # names changed by the body
        changed = [k for k in self.env if saved_env.get(k) is not self.env[k]]
        self.env = saved_env
        init_t = subst(X0.t, {X0.vars[0]: 0, X0.vars[1]: 1})
        self.b.lets.append(('IterM', mid, init_t, step_t))
        x, y = fresh(), fresh()
        self.env[M] = Arr('M', (x, y), ('Mx', mid, x, y), None, False, X0.oid)
        for k in changed:
            if k != M:
                self.env[k] = Poison('bound inside a while loop')
        for k in counters:
            self.env[k] = Poison('iteration counter of a while loop (number of rounds is not modelled)')
        # the pass that broke out
        self.block(A)

    # ---------- expressions
    def expr(self, e):
        if isinstance(e, ast.Constant):
            return self.tr.const(e.value, e)
        if isinstance(e, ast.Name):
            if e.id not in self.env:
                bad('unknown name %s' % e.id, e)
            v = self.env[e.id]
            if isinstance(v, Poison):
                bad('use of %s: %s' % (e.id, v.why), e)
            if self.loopvar is not None and e.id in self.loop_written:
                bad('a vector written by the loop is read inside the loop other than at its own cell (cross-iteration dependency)', e)
            return v
        if isinstance(e, ast.Tuple):
            return PyTuple([self.expr(x) for x in e.elts])
        if isinstance(e, ast.Attribute):
            return self.attribute(e)
        if isinstance(e, ast.BinOp):
            return self.binop(e)
        if isinstance(e, ast.UnaryOp):
            return self.unop(e)
        if isinstance(e, ast.Compare):
            return self.compare(e)
        if isinstance(e, ast.BoolOp):
            vals = [self.expr(v) for v in e.values]
            if all(isinstance(v, Py) for v in vals):
                r = vals[0].v
                for v in vals[1:]:
                    r = (r and v.v) if isinstance(e.op, ast.And) else (r or v.v)
                return Py(r)
            if all(isinstance(v, Arr) and v.kind == 'S' and v.inf is None for v in vals) and self.loopvar is not None:
                t = Nz(vals[0].t)
                for v in vals[1:]:
                    t = And(t, v.t) if isinstance(e.op, ast.And) else Or(t, v.t)
                return Arr('S', (), t, None, True)
            bad('and / or on arrays', e)
        if isinstance(e, ast.Call):
            return self.call(e)
        if isinstance(e, ast.Subscript):
            return self.subscript(e)
        bad('expression %s' % type(e).__name__, e)

    def attribute(self, e):
        src = ast.unparse(e)
        if src == 'np.inf':
            return InfConst()
        if src in ('np.nan', 'np.pi', 'np.e'):
            bad('constant ' + src, e)
        v = self.expr(e.value)
        if e.attr == 'dtype' and isinstance(v, Arr):
            return DType(v)
        if e.attr == 'T':
            return self.transpose(v, e)
        if e.attr == 'size':
            return self.count(v, e, size=True)
        if e.attr == 'flat':
            if isinstance(v, Arr) and v.kind == 'M':
                return Flat(v)
            if isinstance(v, Bag):
                return v
        bad('attribute .%s' % e.attr, e)

    def transpose(self, v, e):
        if isinstance(v, Arr) and v.kind == 'M':
            return Arr('M', (v.vars[1], v.vars[0]), v.t, v.inf, v.isbool, v.oid)     # a view: same buffer
        if isinstance(v, Arr):
            return v
        bad('transpose of %s' % type(v).__name__, e)

    def count(self, v, e, size=False):
        """len(..) / .size / np.size(..) of an index set or of what it selects"""
        if isinstance(v, IdxComp):
            v = v.set
            mult = 1
        elif isinstance(v, IdxSet):
            mult = v.dim if (size and v.dim > 1) else 1
            if not size and v.dim != 1:
                bad('len of an np.where tuple', e)
        elif isinstance(v, Bag):
            v, mult = v.set, 1
        elif isinstance(v, Arr) and v.kind in ('V', 'M'):
            n = ('Nn',)
            return Arr('S', (), Op('Mul', n, n) if (size and v.kind == 'M') else n)
        elif isinstance(v, Flat):
            if not size:
                return Arr('S', (), Op('Mul', ('Nn',), ('Nn',)))
            return Arr('S', (), Op('Mul', ('Nn',), ('Nn',)))
        else:
            bad('len / size of %s' % type(v).__name__, e)
        t = v.guard
        t = Nz(t)
        for x in reversed(v.vars):
            t = Sum(x2 := fresh(), subst(t, {x: x2}))
        if mult != 1:
            t = Op('Mul', Cst(mult), t)
        return Arr('S', (), t)

    def binop(self, e):
        a, b = self.expr(e.left), self.expr(e.right)
        op = type(e.op)
        if op is ast.MatMult:
            return self.dot(a, b, e)
        if isinstance(a, Py) or isinstance(b, Py):
            bad('arithmetic on a non-numeric constant', e)
        if isinstance(a, Node) or isinstance(b, Node):
            bad('arithmetic on a node index', e)
        if op in (ast.Add, ast.Sub, ast.Mult, ast.Div):
            name = {ast.Add: 'Add', ast.Sub: 'Sub', ast.Mult: 'Mul', ast.Div: 'Div'}[op]
            ab, bb = getattr(a, 'isbool', False), getattr(b, 'isbool', False)
            if ab and bb:
                if op is ast.Mult:
                    return elementwise(lambda x: (Op('Mul', x[0][0], x[1][0]), None), a, b, isbool=True)
                if op is ast.Add:
                    return elementwise(lambda x: (Or(x[0][0], x[1][0]), None), a, b, isbool=True)
                bad('numpy boolean %s' % name, e)
            if isinstance(a, InfConst) or isinstance(b, InfConst):
                bad('arithmetic on np.inf', e)
            return elementwise(arith(name), a, b, allow_inf=True)
        if op is ast.Pow:
            if isinstance(b, Arr) and b.kind == 'S' and b.t[0] == 'Cst' and b.t[1].denominator == 1 and 1 <= b.t[1] <= 4:
                k = int(b.t[1])

                def f(x):
                    t = x[0][0]
                    r = t
                    for _ in range(k - 1):
                        r = Op('Mul', r, t)
                    return r, None
                return elementwise(f, a)
            bad('power with an exponent other than 1..4', e)
        if op in (ast.BitAnd, ast.BitOr):
            if getattr(a, 'isbool', False) and getattr(b, 'isbool', False):
                g = And if op is ast.BitAnd else Or
                return elementwise(lambda x: (g(x[0][0], x[1][0]), None), a, b, isbool=True)
            bad('& / | on non-boolean arrays', e)
        bad('operator %s' % op.__name__, e)

    def unop(self, e):
        v = self.expr(e.operand)
        if isinstance(e.op, ast.USub):
            if getattr(v, 'isbool', False):
                bad('numpy boolean negative', e)
            return elementwise(lambda x: (Op('Sub', C0, x[0][0]), None), v)
        if isinstance(e.op, ast.UAdd):
            return v
        if isinstance(e.op, ast.Not):
            if isinstance(v, DynDtype):
                return DynDtype(not v.neg)
            if isinstance(v, Py):
                return Py(not v.v)
            if isinstance(v, Arr) and v.kind == 'S' and v.inf is None:
                if v.t[0] == 'Cst':
                    return Py(v.t[1] == 0)
                if self.loopvar is not None:
                    return Arr('S', (), Not(v.t), None, True)
            bad('`not` on a computed value', e)
        if isinstance(e.op, ast.Invert):
            if getattr(v, 'isbool', False):
                return elementwise(lambda x: (Not(x[0][0]), None), v, isbool=True)
            bad('~ on a non-boolean array', e)
        bad('unary operator', e)

    def compare(self, e):
        if len(e.ops) != 1:
            bad('chained comparison', e)
        a, b = self.expr(e.left), self.expr(e.comparators[0])
        op = type(e.ops[0])
        if op in (ast.In, ast.NotIn):
            def cv(v):
                if isinstance(v, Py):
                    return ('py', v.v)
                if isinstance(v, Arr) and v.kind == 'S' and v.t[0] == 'Cst':
                    return ('num', v.t[1])
                bad('membership test on a computed value', e)
            if not isinstance(b, PyTuple):
                bad('membership test in something that is not a literal tuple', e)
            r = cv(a) in [cv(x) for x in b.items]
            return Py(r if op is ast.In else not r)
        if isinstance(a, Py) or isinstance(b, Py):
            def pv(v):
                if isinstance(v, Py):
                    return v.v
                if isinstance(v, Arr) and v.kind == 'S' and v.t[0] == 'Cst':
                    return v.t[1]
                bad('comparison of a computed value with a non-numeric constant', e)
            x, y = pv(a), pv(b)
            if op in (ast.Is, ast.Eq):
                return Py(x == y if op is ast.Eq else (x is y or (x is None and y is None)))
            if op in (ast.IsNot, ast.NotEq):
                return Py(x != y if op is ast.NotEq else not (x is y))
            bad('ordering of non-numeric constants', e)
        if isinstance(a, Node) and isinstance(b, Node) and op in (ast.Eq, ast.NotEq):
            t = ('IEq', a.var, b.var)        # the only thing that may be asked about two nodes: are they the same node
            return Arr('S', (), t if op is ast.Eq else Not(t), None, True)
        if isinstance(a, Node) or isinstance(b, Node):
            bad('comparison involving a node index', e)
        if isinstance(a, InfConst) or isinstance(b, InfConst):
            bad('comparison with np.inf', e)
        if isinstance(a, Arr) and isinstance(b, Arr) and a.kind == 'S' and b.kind == 'S' and a.t[0] == 'Cst' and b.t[0] == 'Cst':
            x, y = a.t[1], b.t[1]
            r = {ast.Eq: x == y, ast.NotEq: x != y, ast.Lt: x < y, ast.LtE: x <= y, ast.Gt: x > y, ast.GtE: x >= y}.get(op)
            if r is None:
                bad('comparison operator', e)
            return Py(bool(r))
        table = {ast.Eq: lambda s, t: Op('Eqq', s, t), ast.NotEq: lambda s, t: Not(Op('Eqq', s, t)),
                 ast.Lt: lambda s, t: Op('Lt', s, t), ast.LtE: lambda s, t: Op('Le', s, t),
                 ast.Gt: lambda s, t: Op('Lt', t, s), ast.GtE: lambda s, t: Op('Le', t, s)}
        if op not in table:
            bad('comparison operator', e)
        g = table[op]
        # a side that may be +inf (0/1 flag) against a FINITE side: where the flag is set the answer is the one IEEE gives for +inf
        # (inf == c, inf < c, inf <= c are False; inf != c, inf > c, inf >= c are True; mirrored when inf is on the right)
        inf_left = {ast.Eq: C0, ast.NotEq: C1, ast.Lt: C0, ast.LtE: C0, ast.Gt: C1, ast.GtE: C1}[op]
        inf_right = {ast.Eq: C0, ast.NotEq: C1, ast.Lt: C1, ast.LtE: C1, ast.Gt: C0, ast.GtE: C0}[op]

        def cmp(x):
            (ta, ia), (tb, ib) = x
            if ia is not None and ib is not None:
                bad('comparison of two values that may both be inf', e)
            r = g(ta, tb)
            if ia is not None:
                r = If(ia, inf_left, r)
            if ib is not None:
                r = If(ib, inf_right, r)
            return r, None
        return elementwise(cmp, a, b, isbool=True, allow_inf=True)

    def dot(self, a, b, e):
        if not (isinstance(a, Arr) and isinstance(b, Arr)) or a.inf is not None or b.inf is not None:
            bad('dot operands', e)
        k = fresh()
        if a.kind == 'M' and b.kind == 'M':
            x, y = fresh(), fresh()
            return Arr('M', (x, y), Sum(k, Op('Mul', a.at(x, k), b.at(k, y))))
        if a.kind == 'M' and b.kind == 'V':
            x = fresh()
            return Arr('V', (x,), Sum(k, Op('Mul', a.at(x, k), b.at(k))))
        if a.kind == 'V' and b.kind == 'M':
            y = fresh()
            return Arr('V', (y,), Sum(k, Op('Mul', a.at(k), b.at(k, y))))
        if a.kind == 'V' and b.kind == 'V':
            return Arr('S', (), Sum(k, Op('Mul', a.at(k), b.at(k))))
        return elementwise(arith('Mul'), a, b)

    def shape_arg(self, a, e):
        """np.zeros((n, n)) / (n,) / n  with n the number of nodes -> 'M' / 'V'"""
        def isn(x):
            v = self.expr(x)
            return isinstance(v, Arr) and v.kind == 'S' and v.t == ('Nn',)
        if isinstance(a, ast.Tuple):
            if all(isn(x) for x in a.elts) and len(a.elts) in (1, 2):
                return 'VM'[len(a.elts) - 1]
        elif isn(a):
            return 'V'
        bad('array shape is not (number of nodes[, number of nodes])', e)

    def reduce_axis(self, call, e):
        axis = None
        args = list(call.args[1:])
        for kw in call.keywords:
            if kw.arg == 'axis':
                args = [kw.value] + args
            else:
                bad('keyword %s' % kw.arg, e)
        if len(args) > 1:
            bad('arguments', e)
        if args:
            a = self.expr(args[0])
            if isinstance(a, Py) and a.v is None:
                axis = None
            elif isinstance(a, Arr) and a.kind == 'S' and a.t[0] == 'Cst' and a.t[1] in (0, 1):
                axis = int(a.t[1])
            else:
                bad('axis', e)
        return axis

    def np_sum(self, v, axis, e):
        if isinstance(v, Flat):
            v, axis = v.arr, (None if axis in (None, 0) else bad('axis of a flattened array', e))
        if isinstance(v, Bag):
            if axis not in (None, 0):
                bad('axis on a selected array', e)
            t = If(v.set.guard, v.t, C0)
            for x in reversed(v.set.vars):
                t = Sum(x2 := fresh(), subst(t, {x: x2}))
            return Arr('S', (), t)
        if not isinstance(v, Arr) or v.inf is not None:
            bad('np.sum of %s' % type(v).__name__, e)
        if v.kind == 'S':
            return v
        k = fresh()
        if v.kind == 'V':
            if axis not in (None, 0):
                bad('axis 1 of a vector', e)
            return Arr('S', (), Sum(k, v.at(k)))
        if axis is None:
            k2 = fresh()
            return Arr('S', (), Sum(k, Sum(k2, v.at(k, k2))))
        x = fresh()
        return Arr('V', (x,), Sum(k, v.at(k, x) if axis == 0 else v.at(x, k)))

    def np_big(self, o, v, axis, e):
        if not isinstance(v, Arr) or v.inf is not None or v.kind == 'S':
            bad('np.max / np.min of %s' % type(v).__name__, e)
        k = fresh()
        if v.kind == 'V':
            if axis not in (None, 0):
                bad('axis', e)
            return Arr('S', (), Big(o, k, C1, v.at(k), C0))
        if axis is None:
            k2 = fresh()
            return Arr('S', (), Big(o, k, C1, Big(o, k2, C1, v.at(k, k2), C0), C0))
        x = fresh()
        return Arr('V', (x,), Big(o, k, C1, v.at(k, x) if axis == 0 else v.at(x, k), C0))

    def call(self, e):
        fn = ast.unparse(e.func)
        kw = {k.arg: k.value for k in e.keywords}
        if None in kw:
            bad('**kwargs', e)
        A = e.args

        def only(nargs, kws=()):
            if len(A) != nargs or set(kw) - set(kws):
                bad('arguments of %s' % fn, e)

        def ev(k=0):
            return self.expr(A[k])
        # ---- methods
        if isinstance(e.func, ast.Attribute) and not (isinstance(e.func.value, ast.Name) and e.func.value.id == 'np'):
            meth = e.func.attr
            recv = e.func.value
            if meth == 'copy':
                only(0)
                v = self.expr(recv)
                if isinstance(v, Arr):
                    return Arr(v.kind, v.vars, v.t, v.inf, v.isbool)
                bad('.copy() of %s' % type(v).__name__, e)
            if meth == 'astype':
                only(1)
                return self.astype(self.expr(recv), ast.unparse(A[0]), e)
            if meth in ('flatten', 'ravel'):
                only(0)
                v = self.expr(recv)
                if isinstance(v, Arr) and v.kind == 'M':
                    return Flat(v)
                if isinstance(v, Arr) and v.kind == 'V':
                    return v
                bad('.%s() of %s' % (meth, type(v).__name__), e)
            if meth == 'sum':
                return self.np_sum(self.expr(recv), self.reduce_axis(ast.Call(e.func, [recv] + list(A), e.keywords), e), e)
            if meth in ('max', 'min'):
                return self.np_big('BMax' if meth == 'max' else 'BMin', self.expr(recv), self.reduce_axis(ast.Call(e.func, [recv] + list(A), e.keywords), e), e)
            if meth == 'dot':
                only(1)
                return self.dot(self.expr(recv), ev(0), e)
            if meth == 'transpose':
                only(0)
                return self.transpose(self.expr(recv), e)
            if meth == 'any' or meth == 'all':
                bad('.%s()' % meth, e)
            bad('method .%s' % meth, e)
        # ---- numpy
        if fn == 'np.issubdtype':
            only(2)
            d = ev(0)
            if not (isinstance(d, DType) and ast.unparse(A[1]) in ('np.inexact', 'np.floating')):
                bad('np.issubdtype form', e)
            # a boolean array certainly is not floating; otherwise the model (exact rationals, no dtypes) cannot tell
            return Py(False) if d.arr.isbool else DynDtype()
        if fn == 'np.sum':
            return self.np_sum(ev(0), self.reduce_axis(e, e), e)
        if fn in ('np.max', 'np.amax', 'np.min', 'np.amin'):
            return self.np_big('BMax' if 'max' in fn else 'BMin', ev(0), self.reduce_axis(e, e), e)
        if fn == 'np.dot':
            only(2)
            return self.dot(ev(0), ev(1), e)
        if fn == 'np.diag':
            only(1)
            v = ev(0)
            if isinstance(v, Arr) and v.kind == 'M' and v.inf is None:
                x = fresh()
                return Arr('V', (x,), v.at(x, x), None, v.isbool)
            if isinstance(v, Arr) and v.kind == 'V' and v.inf is None:
                x, y = fresh(), fresh()
                return Arr('M', (x, y), If(('IEq', x, y), v.at(x), C0))
            bad('np.diag argument', e)
        if fn == 'np.trace':
            only(1)
            v = ev(0)
            if isinstance(v, Arr) and v.kind == 'M' and v.inf is None:
                k = fresh()
                return Arr('S', (), Sum(k, v.at(k, k)))
            bad('np.trace argument', e)
        if fn == 'np.transpose':
            only(1)
            return self.transpose(ev(0), e)
        if fn in ('np.logical_and', 'np.logical_or'):
            only(2)
            g = And if fn.endswith('and') else Or
            return elementwise(lambda x: (g(x[0][0], x[1][0]), None), ev(0), ev(1), isbool=True)
        if fn == 'np.logical_not':
            only(1)
            return elementwise(lambda x: (Not(x[0][0]), None), ev(0), isbool=True)
        if fn in ('np.abs', 'np.absolute', 'abs'):
            only(1)
            return elementwise(lambda x: (Op('Max', x[0][0], Op('Sub', C0, x[0][0])), None), ev(0))
        if fn == 'np.sign':
            only(1)
            return elementwise(lambda x: (If(Op('Lt', C0, x[0][0]), C1, If(Op('Lt', x[0][0], C0), Cst(-1), C0)), None), ev(0))
        if fn == 'np.square':
            only(1)
            return elementwise(lambda x: (Op('Mul', x[0][0], x[0][0]), None), ev(0))
        if fn == 'np.sqrt':
            only(1)
            return elementwise(lambda x: (('Prim', 0, x[0][0]), None), ev(0))
        if fn in ('np.maximum', 'np.minimum'):
            only(2)
            o = 'Max' if fn.endswith('maximum') else 'Min'
            return elementwise(lambda x: (Op(o, x[0][0], x[1][0]), None), ev(0), ev(1))
        if fn == 'np.where':
            if len(A) == 3 and not kw:
                return elementwise(lambda x: (If(x[0][0], x[1][0], x[2][0]), None), ev(0), ev(1), ev(2))
            only(1)
            v = ev(0)
            if isinstance(v, Flat):
                a = v.arr
                if a.inf is not None:
                    bad('np.where of inf', e)
                return IdxSet(a.vars, Nz(a.t), 1)
            if isinstance(v, Arr) and v.kind in ('V', 'M') and v.inf is None:
                return IdxSet(v.vars, Nz(v.t), v.rank)
            bad('np.where argument', e)
        if fn in ('np.zeros', 'np.ones'):
            if len(A) != 1 or set(kw) - {'dtype'}:
                bad('arguments of %s' % fn, e)
            kind = self.shape_arg(A[0], e)
            return Arr(kind, holes(kind), C0 if fn == 'np.zeros' else C1)
        if fn == 'np.eye':
            only(1)
            if self.shape_arg(A[0], e) != 'V':
                bad('np.eye argument', e)
            x, y = fresh(), fresh()
            return Arr('M', (x, y), ('IEq', x, y))
        if fn in ('np.array', 'np.asarray', 'np.copy'):
            if len(A) != 1 or set(kw) - {'dtype', 'copy'}:
                bad('arguments of %s' % fn, e)
            v = ev(0)
            if not isinstance(v, Arr):
                bad('%s of %s' % (fn, type(v).__name__), e)
            v = Arr(v.kind, v.vars, v.t, v.inf, v.isbool, v.oid if (fn == 'np.asarray' and 'dtype' not in kw) else None)
            if 'dtype' in kw:
                return self.astype(v, ast.unparse(kw['dtype']), e)
            return v
        if fn == 'np.tile':
            only(2)
            v = ev(0)
            r = A[1]
            if (isinstance(v, Arr) and v.kind == 'V' and v.inf is None and isinstance(r, ast.Tuple) and len(r.elts) == 2
                    and self.shape_arg(r.elts[0], e) == 'V' and isinstance(r.elts[1], ast.Constant) and r.elts[1].value == 1):
                x, y = fresh(), fresh()
                return Arr('M', (x, y), v.at(y), None, v.isbool)
            bad('np.tile form', e)
        if fn == 'np.size':
            if len(A) != 1 or kw:
                bad('np.size with an axis', e)
            return self.count(ev(0), e, size=True)
        if fn == 'len':
            only(1)
            return self.count(ev(0), e, size=False)
        if fn == 'np.ix_':
            bad('np.ix_ outside a subscript', e)
        if fn in ('float', 'np.float64'):
            only(1)
            v = ev(0)
            if isinstance(v, Arr) and v.kind == 'S':
                return Arr('S', (), v.t, v.inf, False)
            bad('float() argument', e)
        if fn.startswith('np.') or fn in ('int', 'range', 'sorted', 'zip', 'enumerate', 'list', 'set', 'max', 'min', 'sum', 'round', 'isinstance'):
            bad('%s is not in the index-symmetric subset' % fn, e)
        # ---- other bct functions: translate THEIR source
        if isinstance(e.func, ast.Name):
            if fn == 'cuberoot':
                only(1)
                fd = self.tr.funcs.get('cuberoot')
                if fd in (None, 'ambiguous'):
                    bad('cuberoot not found', e)
                body = [s for s in fd.body if not (isinstance(s, ast.Expr) and isinstance(s.value, ast.Constant))]
                # a leading value-preserving float cast of the argument (since /repo cebc7a5: np.sign has no bool loop) is the identity
                # in the rational model - same reading as the dtype guards
                if len(body) == 2 and ast.unparse(body[0]) in CUBEROOT_CASTS:
                    body = body[1:]
                if len(body) != 1 or ast.unparse(body[0]) != CUBEROOT_SRC:
                    bad('cuberoot is not the function modelled as the abstract primitive 1', e)
                return elementwise(lambda x: (('Prim', 1, x[0][0]), None), ev(0))
            args = [self.expr(a) for a in A]
            kws = {k: self.expr(v) for k, v in kw.items()}
            saved_loop = (self.loopvar, self.cur, self.guard)
            if self.loopvar is not None:
                bad('call of a bct function inside a loop', e)
            return self.tr.call_function(fn, args, kws, e)
        bad('call of %s' % fn, e)

    def astype(self, v, ty, e):
        if not isinstance(v, (Arr, Bag)):
            bad('astype of %s' % type(v).__name__, e)
        ty = ty.replace('np.', '').strip('\'"')
        if ty in ('float', 'float64', 'float_'):
            if isinstance(v, Arr):
                return Arr(v.kind, v.vars, v.t, v.inf, False)
            return Bag(v.set, v.t, False)
        if ty in ('bool', 'bool_'):
            return truthy(v)
        if ty in ('int', 'int64', 'int32', 'int_'):
            if getattr(v, 'isbool', False):
                return Arr(v.kind, v.vars, v.t, v.inf, False) if isinstance(v, Arr) else Bag(v.set, v.t, False)
            bad('astype(int) of values not known to be integers (truncation is not modelled)', e)
        bad('astype(%s)' % ty, e)

    def subscript(self, e):
        sl = e.slice
        if self.loopvar is not None and isinstance(e.value, ast.Name) and e.value.id in self.loop_written:
            # the loop's own output vector: only its cell at the loop node may be read
            nm = e.value.id
            X = self.env.get(nm)
            if isinstance(sl, ast.Name) and self.env.get(sl.id) is self.loopvar and isinstance(X, Arr) and X.kind == 'V' and X.inf is None and not self.acc:
                return Arr('S', (), self.cur.get(nm, X.at(self.loopvar.var)))
            bad('a vector written by the loop is read inside the loop other than at its own cell (cross-iteration dependency)', e)
        # tuple results of inlined calls: f(X)[k]
        base = self.expr(e.value)
        if isinstance(base, PyTuple):
            if isinstance(sl, ast.Constant) and isinstance(sl.value, int) and 0 <= sl.value < len(base.items):
                return base.items[sl.value]
            bad('tuple subscript', e)
        if isinstance(base, Bag):
            bad('subscript of a selected array', e)
        if not isinstance(base, Arr) or base.kind == 'S':
            bad('subscript of %s' % type(base).__name__, e)
        if base.inf is not None:
            bad('subscript of a value that may be inf', e)
        name = e.value.id if isinstance(e.value, ast.Name) else None
        if self.loopvar is not None and name is not None and name in (self.cur or {}):
            pass   # handled in expr(Name): unreachable
        # np.ix_(V, W)
        if isinstance(sl, ast.Call) and ast.unparse(sl.func) == 'np.ix_':
            if base.kind != 'M' or len(sl.args) != 2 or sl.keywords:
                bad('np.ix_ form', e)
            s1 = self.as_set(self.expr(sl.args[0]), 1, e)
            s2 = self.as_set(self.expr(sl.args[1]), 1, e)
            x, y = fresh(), fresh()
            s = IdxSet((x, y), And(s1.inst(x), s2.inst(y)), 2)
            return Bag(s, base.at(x, y), base.isbool)
        if isinstance(sl, ast.Tuple):
            if len(sl.elts) != 2 or base.kind != 'M':
                bad('subscript rank', e)
            parts = []
            for el in sl.elts:
                if isinstance(el, ast.Slice):
                    if el.lower is not None or el.upper is not None or el.step is not None:
                        bad('partial slice (positions in the numbering)', e)
                    parts.append(':')
                else:
                    parts.append(self.expr(el))
            a, b = parts
            if isinstance(a, Node) and b == ':':
                y = fresh()
                return Arr('V', (y,), base.at(a.var, y), None, base.isbool)
            if a == ':' and isinstance(b, Node):
                x = fresh()
                return Arr('V', (x,), base.at(x, b.var), None, base.isbool)
            if isinstance(a, Node) and isinstance(b, Node):
                return Arr('S', (), base.at(a.var, b.var), None, base.isbool)
            if isinstance(a, IdxComp) and isinstance(b, IdxComp) and a.set is b.set and (a.pos, b.pos) == (0, 1):
                return Bag(a.set, base.at(*a.set.vars), base.isbool)
            bad('matrix subscript (explicit positions / unsupported form)', e)
        if isinstance(sl, ast.Slice):
            bad('slice (positions in the numbering)', e)
        idx = self.expr(sl)
        if isinstance(idx, Node):
            if base.kind != 'V':
                bad('matrix[node]', e)
            return Arr('S', (), base.at(idx.var), None, base.isbool)
        if isinstance(idx, IdxComp):
            if base.kind != 'V':
                bad('matrix[edge endpoint list]', e)
            return Bag(idx.set, base.at(idx.set.vars[idx.pos]), base.isbool)
        if isinstance(idx, IdxSet) or (isinstance(idx, Arr) and idx.isbool and idx.kind != 'S'):
            s = self.as_set(idx, base.rank, e)
            if isinstance(idx, Arr):
                vs = holes(base.kind)
                s = IdxSet(vs, s.inst(*vs), base.rank)
            return Bag(s, base.at(*s.vars), base.isbool)
        if isinstance(idx, Arr) and idx.kind == 'S':
            bad('explicit node index', e)
        bad('subscript by %s' % type(idx).__name__, e)


def inline_lets(t, lets):
    """substitute let-bound S / V / M variables (bound while translating a loop body) back into the step term"""
    for kind, i, body in reversed(lets):
        if kind not in ('S', 'V', 'M'):
            bad('nested iteration inside a loop body')
        t = inline_one(t, kind, i, body)
    return t


def inline_one(t, kind, i, body):
    k = t[0]
    if k in ('Cst', 'Nn', 'IEq'):
        return t
    if k == 'Sc':
        return body if kind == 'S' and t[1] == i else t
    if k == 'Vc':
        if kind == 'V' and t[1] == i:
            return rename_bound(subst(body, {0: t[2]}))
        return t
    if k == 'Mx':
        if kind == 'M' and t[1] == i:
            a, b = fresh(), fresh()
            return rename_bound(subst(subst(body, {0: a, 1: b}), {a: t[2], b: t[3]}))
        return t
    if k == 'Op':
        return ('Op', t[1], inline_one(t[2], kind, i, body), inline_one(t[3], kind, i, body))
    if k == 'If':
        return ('If',) + tuple(inline_one(x, kind, i, body) for x in t[1:])
    if k == 'Prim':
        return ('Prim', t[1], inline_one(t[2], kind, i, body))
    if k == 'Sum':
        return ('Sum', t[1], inline_one(t[2], kind, i, body))
    if k == 'Big':
        return ('Big', t[1], t[2]) + tuple(inline_one(x, kind, i, body) for x in t[3:])
    raise AssertionError(k)


def rename_bound(t):
    """fresh names for every binder of a copied term (keeps bound names globally unique)"""
    k = t[0]
    if k in ('Cst', 'Nn', 'Sc', 'Mx', 'Vc', 'IEq'):
        return t
    if k == 'Op':
        return ('Op', t[1], rename_bound(t[2]), rename_bound(t[3]))
    if k == 'If':
        return ('If',) + tuple(rename_bound(x) for x in t[1:])
    if k == 'Prim':
        return ('Prim', t[1], rename_bound(t[2]))
    if k == 'Sum':
        x = fresh()
        return ('Sum', x, rename_bound(subst(t[2], {t[1]: x})))
    if k == 'Big':
        x = fresh()
        return ('Big', t[1], x, rename_bound(subst(t[3], {t[2]: x})), rename_bound(subst(t[4], {t[2]: x})), rename_bound(t[5]))
    raise AssertionError(k)


# ------------------------------------------------------------------------------------------------ programs
def make_prog(lets, out):
    """out: Arr -> ('prog' tree) with dead lets dropped and canonical binder names"""
    if not isinstance(out, Arr):
        bad('the returned value is %s, not a scalar / per-node vector / per-pair matrix' % type(out).__name__)
    if out.inf is not None:
        bad('the returned value may be inf (not representable in the term language)')
    if out.kind == 'S':
        ot = out.t
    elif out.kind == 'V':
        ot = subst(out.t, {out.vars[0]: 0})
    else:
        if out.vars[0] == out.vars[1]:
            bad('internal: repeated hole')
        a, b = fresh(), fresh()
        ot = subst(subst(out.t, {out.vars[0]: a, out.vars[1]: b}), {a: 0, b: 1})
    allowed = {'S': set(), 'V': {0}, 'M': {0, 1}}
    if free_vars(ot) - allowed[out.kind]:
        bad('internal: stray index holes in the output')
    live = uses(ot, set())
    keep = []
    for let in reversed(lets):
        kind, i = let[0], let[1]
        key = ('M' if kind == 'IterM' else kind, i)
        if key in live:
            keep.append(let)
            for t in let[2:]:
                uses(t, live)
    keep.reverse()
    prog = ('Out' + out.kind, canon(ot))
    for let in reversed(keep):
        kind, i = let[0], let[1]
        for t in let[2:]:
            if free_vars(t) - allowed['M' if kind == 'IterM' else kind]:
                bad('internal: stray index holes in a let')
        if kind == 'IterM':
            prog = ('IterM', 'CNodes', i, canon(let[2]), canon(let[3]), prog)
        else:
            prog = ('Let' + kind, i, canon(let[2]), prog)
    return prog


def coq_q(q):
    q = F(q)
    if q.denominator == 1:
        return str(q.numerator) if q >= 0 else '(%d)' % q.numerator
    return '(%d # %d)' % (q.numerator, q.denominator)


def coq_tm(t):
    k = t[0]
    if k == 'Cst':
        return '(Cst %s)' % coq_q(t[1])
    if k == 'Nn':
        return 'Nn'
    if k == 'Sc':
        return '(Sc %d)' % t[1]
    if k == 'Mx':
        return '(Mx %d %d %d)' % t[1:]
    if k == 'Vc':
        return '(Vc %d %d)' % t[1:]
    if k == 'IEq':
        return '(IEq %d %d)' % t[1:]
    if k == 'Op':
        return '(Op %s %s %s)' % (t[1], coq_tm(t[2]), coq_tm(t[3]))
    if k == 'If':
        return '(If %s %s %s)' % (coq_tm(t[1]), coq_tm(t[2]), coq_tm(t[3]))
    if k == 'Prim':
        return '(Prim %d %s)' % (t[1], coq_tm(t[2]))
    if k == 'Sum':
        return '(Sum %d %s)' % (t[1], coq_tm(t[2]))
    if k == 'Big':
        return '(Big %s %d %s %s %s)' % (t[1], t[2], coq_tm(t[3]), coq_tm(t[4]), coq_tm(t[5]))
    raise AssertionError(k)


def coq_prog(p, ind='  '):
    k = p[0]
    if k.startswith('Out'):
        return '%s(%s %s)' % (ind, k, coq_tm(p[1]))
    if k == 'IterM':
        return '%s(IterM %s %d %s\n%s   %s\n%s)' % (ind, p[1], p[2], coq_tm(p[3]), ind, coq_tm(p[4]), coq_prog(p[5], ind))
    return '%s(%s %d %s\n%s)' % (ind, k, p[1], coq_tm(p[2]), coq_prog(p[3], ind))


def prog_size(p):
    if p[0].startswith('Out'):
        return size(p[1])
    if p[0] == 'IterM':
        return size(p[3]) + size(p[4]) + prog_size(p[5])
    return size(p[2]) + prog_size(p[3])


def prog_kind(p):
    while not p[0].startswith('Out'):
        p = p[-1]
    return p[0][3:]


# ------------------------------------------------------------------------------------------------ targets
# one entry = one Python function of /repo/bct called with its first argument = the network (matrix variable 0),
# `scalars`: numeric parameters that stay symbolic (Sc 0, Sc 1, .. in this order), `fixed`: parameters specialised to a
# constant (flags).  Every entry the translator is ASKED to translate is listed here; what it cannot translate is reported.
def T(name, func=None, scalars=(), fixed=None):
    return {'name': name, 'func': func or name, 'scalars': list(scalars), 'fixed': dict(fixed or {})}


TARGETS = [
    T('degrees_und'), T('degrees_dir'), T('strengths_und'), T('strengths_dir'), T('strengths_und_sign'), T('jdegree'),
    T('density_und'), T('density_dir'),
    T('clustering_coef_bu'), T('clustering_coef_bd'), T('clustering_coef_wu'), T('clustering_coef_wd'),
    T('clustering_coef_wu_sign'), T('clustering_coef_wu_sign:zhang', 'clustering_coef_wu_sign', fixed={'coef_type': 'zhang'}),
    T('clustering_coef_wu_sign:costantini', 'clustering_coef_wu_sign', fixed={'coef_type': 'costantini'}),
    T('transitivity_bu'), T('transitivity_bd'), T('transitivity_wu'), T('transitivity_wd'),
    T('binarize'), T('normalize'), T('invert'), T('threshold_absolute', scalars=['thr']),
    T('weight_conversion:binarize', 'weight_conversion', fixed={'wcm': 'binarize'}),
    T('weight_conversion:normalize', 'weight_conversion', fixed={'wcm': 'normalize'}),
    T('weight_conversion:lengths', 'weight_conversion', fixed={'wcm': 'lengths'}),
    T('assortativity_bin:0', 'assortativity_bin', fixed={'flag': 0}),
] + [T('assortativity_bin:%d' % f, 'assortativity_bin', fixed={'flag': f}) for f in (1, 2, 3, 4)] + [
    T('assortativity_wei:0', 'assortativity_wei', fixed={'flag': 0}),
] + [T('assortativity_wei:%d' % f, 'assortativity_wei', fixed={'flag': f}) for f in (1, 2, 3, 4)] + [
    T('kcore_bu', scalars=['k']), T('kcore_bd', scalars=['k']), T('score_wu', scalars=['s']),
    T('rich_club_bu'), T('rich_club_bd'), T('rich_club_wu'), T('rich_club_wd'),
    T('local_assortativity_wu_sign'),
    T('matching_ind'), T('matching_ind_und'), T('edge_nei_overlap_bu'), T('edge_nei_overlap_bd'),
    T('gtom:1', 'gtom', fixed={'nr_steps': 1}), T('gtom:2', 'gtom', fixed={'nr_steps': 2}),
    T('dice_pairwise_und'), T('get_components'), T('threshold_proportional', scalars=['p']), T('autofix'), T('logtransform'),
]


def load_funcs(repo):
    funcs = {}
    for path in sorted(glob.glob(os.path.join(repo, 'bct', '**', '*.py'), recursive=True)):
        try:
            tree = ast.parse(open(path).read())
        except SyntaxError:
            continue
        for node in tree.body:
            if isinstance(node, ast.FunctionDef):
                if node.name in funcs:
                    # the same name defined in two modules: only a problem if the definitions differ
                    if funcs[node.name] != 'ambiguous' and ast.dump(funcs[node.name]) != ast.dump(node):
                        funcs[node.name] = 'ambiguous'
                else:
                    funcs[node.name] = node
    return funcs


def translate_target(funcs, tg):
    """-> dict(name, outputs: [dict(name, prog | None, why)], why (whole-function failure) )"""
    res = {'name': tg['name'], 'func': tg['func'], 'outputs': [], 'why': None, 'sha': None, 'dtype_guards': 0}
    fd = funcs.get(tg['func'])
    if fd is None or fd == 'ambiguous':
        res['why'] = 'function not found' if fd is None else 'ambiguous name'
        return res
    res['sha'] = hashlib.sha1(ast.unparse(fd).encode()).hexdigest()[:12]
    try:
        tr = Tr(funcs, len(tg['scalars']))
        names = [a.arg for a in fd.args.args]
        if not names:
            bad('no parameters')
        x, y = fresh(), fresh()
        kwargs = {names[0]: Arr('M', (x, y), ('Mx', 0, x, y))}
        for k, s in enumerate(tg['scalars']):
            kwargs[s] = Arr('S', (), ('Sc', k))
        for k, v in tg['fixed'].items():
            kwargs[k] = tr.const(v)
        ret = tr.call_function(tg['func'], [], kwargs, None, top=True)
    except Untranslatable as ex:
        res['why'] = str(ex)
        return res
    except RecursionError:
        res['why'] = 'recursion limit'
        return res
    res['dtype_guards'] = tr.dtype_guards
    items = ret.items if isinstance(ret, PyTuple) else [ret]
    for k, it in enumerate(items):
        oname = tg['name'] if not isinstance(ret, PyTuple) else '%s#%d' % (tg['name'], k)
        try:
            p = make_prog(tr.b.lets, it)
            res['outputs'].append({'name': oname, 'index': k if isinstance(ret, PyTuple) else None, 'prog': p, 'why': None,
                                   'kind': prog_kind(p), 'size': prog_size(p)})
        except Untranslatable as ex:
            res['outputs'].append({'name': oname, 'index': k if isinstance(ret, PyTuple) else None, 'prog': None, 'why': str(ex)})
    return res


def build(repo):
    _fresh[0] = 100
    funcs = load_funcs(repo)
    results = [translate_target(funcs, tg) for tg in TARGETS]
    table = []          # (name, coq identifier, prog, kind, target, output index)
    for r, tg in zip(results, TARGETS):
        for o in r['outputs']:
            if o['prog'] is not None:
                ident = 'gen_' + ''.join(c if c.isalnum() else '_' for c in o['name'])
                table.append({'name': o['name'], 'ident': ident, 'prog': o['prog'], 'kind': o['kind'], 'target': tg, 'index': o['index'], 'size': o['size'],
                              'dtype_guards': r['dtype_guards']})
    untranslatable = {}
    for r in results:
        if r['why']:
            untranslatable[r['name']] = r['why']
        for o in r['outputs']:
            if o['prog'] is None:
                untranslatable[o['name']] = o['why']
    return {'results': results, 'table': table, 'untranslatable': untranslatable, 'names': [t['name'] for t in table]}


def emit(res):
    L = ['(* Gen/SymTermGen.v -- GENERATED by harness/translate_symterm.py from the Python source of the current tree;',
         '   regenerated by every ./check C04 and ./check setup.  Do not edit.',
         '   gen_<function> : the bctpy function read as a program of the index-symmetric term language (Model/SymTerm.v):',
         '   matrix variable 0 = the network, scalars 0.. = the numeric parameters.  Every entry of gen_table is equivariant',
         '   by the ONE theorem C04_gen_equivariant (Properties/C04.v), whatever this file contains. *)',
         'From Coq Require Import QArith List String.',
         'From BCT Require Import Model.SymTerm.',
         'Import ListNotations.',
         'Open Scope Q_scope.',
         '']
    for t in res['table']:
        tg = t['target']
        L.append('(* %s%s  [source sha1 %s]%s *)' % (
            tg['func'], (' output %d' % t['index']) if t['index'] is not None else '',
            next(r['sha'] for r in res['results'] if r['name'] == tg['name']),
            ('  scalars: ' + ', '.join('%s = Sc %d' % (s, k) for k, s in enumerate(tg['scalars']))) if tg['scalars'] else ''
            + (('  specialised: ' + ', '.join('%s=%r' % kv for kv in tg['fixed'].items())) if tg['fixed'] else '')))
        L.append('Definition %s : prog :=\n%s.' % (t['ident'], coq_prog(t['prog'])))
        L.append('')
    L.append('(* the programs, in the order the harness addresses them (run_gen idx), and their names *)')
    L.append('Definition gen_list : list prog :=')
    L.append('  [' + ';\n   '.join(t['ident'] for t in res['table']) + '].')
    L.append('Definition gen_names : list string :=')
    L.append('  [' + ';\n   '.join('"%s"%%string' % t['name'] for t in res['table']) + '].')
    L.append('Definition gen_table : list (string * prog) := combine gen_names gen_list.')
    L.append('Example gen_table_progs : map snd gen_table = gen_list.')
    L.append('Proof. reflexivity. Qed.')
    L.append('')
    fp = int(hashlib.sha1('\n'.join(L).encode()).hexdigest()[:12], 16)
    res['fingerprint'] = fp
    L.append('(* fingerprint of the table above: the harness asks the extracted driver for it, so that a driver built from a')
    L.append('   different tree (a concurrent run with another VERIF_REPO) is never compared with this run\'s implementation *)')
    L.append('Definition gen_fingerprint : Z := %d%%Z.' % fp)
    L.append('')
    L.append('(* asked for but NOT translatable (outside the index-symmetric subset, reported by the check):')
    for k, v in res['untranslatable'].items():
        L.append('   %s : %s' % (k, v.replace('(*', '( *').replace('*)', '* )').replace('"', "'")))
    L.append('*)')
    return '\n'.join(L) + '\n'


def generate(repo, verif):
    res = build(repo)
    txt = emit(res)
    path = os.path.join(verif, 'coq', 'theories', 'Gen', 'SymTermGen.v')
    os.makedirs(os.path.dirname(path), exist_ok=True)
    if not os.path.exists(path) or open(path).read() != txt:
        open(path, 'w').write(txt)
    res['path'] = path
    return res


if __name__ == '__main__':
    import sys
    r = build(sys.argv[1] if len(sys.argv) > 1 else '/repo')
    for t in r['table']:
        print('OK   %-32s %s size=%d' % (t['name'], t['kind'], t['size']))
    for k, v in r['untranslatable'].items():
        print('--   %-32s %s' % (k, v))
    if len(sys.argv) > 2:
        for t in r['table']:
            if t['name'].startswith(sys.argv[2]):
                print(coq_prog(t['prog']))


# ------------------------------------------------------------------------------------------------ self-test (fail-closed)
NEGATIVE = {
    'two values that may be inf compared': "def f(A):\n    K = np.sum(A, axis=0)\n    L = np.sum(A, axis=1)\n    K[K == 0] = np.inf\n    L[L == 0] = np.inf\n    return 1.0 * (K == L)",
    'explicit node index': "def f(A):\n    return A[0, :]",
    'explicit cell': "def f(A):\n    d = np.sum(A, axis=0)\n    return d[0]",
    'node 0 special in a loop': "def f(A):\n    n = len(A)\n    C = np.zeros((n,))\n    for u in range(n):\n        if u == 0:\n            C[u] = 1\n    return C",
    'position arithmetic': "def f(A):\n    n = len(A)\n    C = np.zeros((n,))\n    for u in range(n):\n        C[u] = A[u, u + 1]\n    return C",
    'short range': "def f(A):\n    n = len(A)\n    C = np.zeros((n,))\n    for u in range(n - 1):\n        C[u] = 1\n    return C",
    'previous iteration': "def f(A):\n    n = len(A)\n    C = np.zeros((n,))\n    t = 0\n    for u in range(n):\n        C[u] = t\n        t = np.sum(A[u, :])\n    return C",
    'cross-iteration read': "def f(A):\n    n = len(A)\n    C = np.zeros((n,))\n    for u in range(n):\n        C[u] = np.sum(C) + 1\n    return C",
    'last iteration leaks': "def f(A):\n    n = len(A)\n    C = np.zeros((n,))\n    for u in range(n):\n        t = np.sum(A[u, :])\n        C[u] = t\n    return t",
    'triu': "def f(A):\n    return np.sum(np.triu(A))",
    'argsort': "def f(A):\n    return np.argsort(np.sum(A, axis=0))",
    'slice': "def f(A):\n    return np.sum(A[1:, :], axis=0)",
    'alias then mutate': "def f(A):\n    B = A\n    np.fill_diagonal(B, 0)\n    return A",
    'view then mutate': "def f(A):\n    B = A.T\n    np.fill_diagonal(A, 5)\n    return B",
    'bool minus': "def f(A):\n    return (A > 0) - (A < 0)",
    'astype int truncation': "def f(A):\n    return (A * 0.5).astype(int)",
    'while general': "def f(A):\n    k = 0\n    while k < 3:\n        k += 1\n    return A",
    'np.where as sequence': "def f(A):\n    i, j = np.where(A)\n    return i[0]",
    'two index sets mixed': "def f(A):\n    d = np.sum(A, axis=0)\n    i, j = np.where(A > 0)\n    k, l = np.where(A < 0)\n    return np.sum(d[i] * d[l])",
    'inf escapes': "def f(A):\n    K = np.sum(A, axis=0)\n    K[K == 0] = np.inf\n    return K",
    'unknown numpy': "def f(A):\n    return np.cumsum(np.sum(A, axis=0))",
    'shape': "def f(A):\n    return np.zeros(A.shape)",
    'order of two nodes': "def f(A):\n    n = len(A)\n    C = np.zeros((n,))\n    for u in range(n):\n        for j in range(n):\n            if j < u:\n                C[u] += A[u, j]\n    return C",
    'last inner iteration wins': "def f(A):\n    n = len(A)\n    C = np.zeros((n,))\n    for u in range(n):\n        for j in range(n):\n            C[u] = A[u, j]\n    return C",
    'running sum read': "def f(A):\n    n = len(A)\n    C = np.zeros((n,))\n    for u in range(n):\n        for j in range(n):\n            C[u] += A[u, j] * C[u]\n    return C",
    'dtype-dependent value': "def f(A):\n    if np.issubdtype(A.dtype, np.inexact):\n        A = A * 2\n    return A",
    'enumerate': "def f(A):\n    n = len(A)\n    C = np.zeros((n,))\n    for u, r in enumerate(A):\n        C[u] = np.sum(r)\n    return C",
}
POSITIVE = {
    'dtype guard': ("def f(W, copy=True):\n    if not np.issubdtype(W.dtype, np.inexact):\n        if not copy:\n            raise ValueError('x')\n        W = W.astype(float)\n    elif copy:\n        W = W.copy()\n    W /= 2\n    return W",
                    ('LetM', 1, ('Op', 'Div', ('Mx', 0, 0, 1), ('Cst', F(2))), ('OutM', ('Mx', 1, 0, 1)))),
    'reduction': ("def f(A):\n    n = len(A)\n    C = np.zeros((n,))\n    for u in range(n):\n        for j in range(n):\n            if j != u:\n                C[u] += A[j, u]\n    return C",
                  ('LetV', 1, ('Sum', 2, ('If', ('If', ('IEq', 2, 0), ('Cst', F(0)), ('Cst', F(1))), ('Mx', 0, 2, 0), ('Cst', F(0)))), ('OutV', ('Vc', 1, 0)))),
    'degree': ("def f(A):\n    return np.sum(A != 0, axis=0)", ('OutV', ('Sum', 2, ('If', ('Op', 'Eqq', ('Mx', 0, 2, 0), ('Cst', F(0))), ('Cst', F(0)), ('Cst', F(1)))))),
    'fill_diagonal': ("def f(A):\n    A = A.copy()\n    np.fill_diagonal(A, 0)\n    return A",
                      ('LetM', 1, ('If', ('IEq', 0, 1), ('Cst', F(0)), ('Mx', 0, 0, 1)), ('OutM', ('Mx', 1, 0, 1)))),
    'loop': ("def f(A):\n    n = len(A)\n    C = np.zeros((n,))\n    for u in range(n):\n        C[u] = np.sum(A[u, :])\n    return C",
             ('LetV', 1, ('Sum', 2, ('Mx', 0, 0, 2)), ('OutV', ('Vc', 1, 0)))),
}


def selftest():
    """-> list of failures: every NEGATIVE snippet must be rejected, every POSITIVE one must give exactly the expected program"""
    out = []
    for nm, src in NEGATIVE.items():
        fd = ast.parse(src).body[0]
        r = translate_target({'f': fd}, T('f'))
        if any(o['prog'] is not None for o in r['outputs']):
            out.append('NOT REJECTED: ' + nm)
    for nm, (src, want) in POSITIVE.items():
        fd = ast.parse(src).body[0]
        r = translate_target({'f': fd}, T('f'))
        got = r['outputs'][0]['prog'] if r['outputs'] else None
        if got != want:
            out.append('WRONG: %s: %r (%s)' % (nm, got, r['why']))
    return out
