"""./check setup — offline build of the whole framework from files on disk:
   (re)generate Gen/*.v from /repo, coq_makefile + make (full .vo), extraction, ocamlfind ocamlopt of every driver."""
import os, sys, glob, importlib
import common


def main():
    rc_all = 0
    # generated theories (translators) — each property module may define pregen()
    for f in sorted(glob.glob(os.path.join(common.VERIF, 'harness', 'c[0-9][0-9].py'))):
        name = os.path.basename(f)[:-3]
        try:
            mod = importlib.import_module(name)
            if hasattr(mod, 'pregen'):
                mod.pregen()
        except Exception as e:
            print('pregen %s failed: %r' % (name, e))
            rc_all = 1
    rc, log = common.build_coq(None)
    print(log[-3000:])
    if rc != 0:
        print('coq build: some files failed (see above); continuing so that the other properties still build')
        rc_all = 1
    for f in sorted(glob.glob(os.path.join(common.OCAML, 'drv_c*.ml'))):
        pid = os.path.basename(f)[4:-3]
        rc, out = common.build_driver(pid)
        print('driver %s: %s' % (pid, 'ok' if rc == 0 else 'FAILED ' + out[-500:]))
        rc_all = rc_all or rc
    if rc_all:
        print('setup finished with failures in some files/drivers (listed above); the checks of the affected properties will report them')
    # the build itself ran: individual checks rebuild and report what is broken for their own property
    return 0


if __name__ == '__main__':
    sys.exit(main())
