"""harness/drift.py — source pins for the hand-written models.

The hand-written Coq models were written against, and validated by correspondence with, one particular
revision of each anchored source file.  `source_pins.json` (committed, produced by `tools/pin_sources.py`)
records a normalised-AST hash of every top-level function of those files (docstrings, comments and
formatting do not count).  A check compares the current tree with the pins; when a function that belongs to
the property's anchor files has changed, the sampled agreement on record no longer speaks about the code
that exists, so the check ESCALATES its search for a failing input / a disagreement (thorough-tier generators
under a wall-clock cap) before giving its verdict.  A drift alone is never reported as a violation."""
import ast, hashlib, json, os

VERIF = os.path.dirname(os.path.dirname(os.path.abspath(__file__)))
PINS = os.path.join(VERIF, 'source_pins.json')


def _strip_doc(node):
    for n in ast.walk(node):
        if isinstance(n, (ast.FunctionDef, ast.AsyncFunctionDef, ast.ClassDef, ast.Module)):
            b = n.body
            if b and isinstance(b[0], ast.Expr) and isinstance(getattr(b[0], 'value', None), ast.Constant) and isinstance(b[0].value.value, str):
                n.body = b[1:] or [ast.Pass()]
    return node


def file_hashes(path):
    """{function name or '<module>': sha256 of the normalised AST}"""
    src = open(path).read()
    tree = _strip_doc(ast.parse(src))
    out = {}
    rest = []
    for n in tree.body:
        if isinstance(n, (ast.FunctionDef, ast.AsyncFunctionDef, ast.ClassDef)):
            out[n.name] = hashlib.sha256(ast.dump(n, annotate_fields=True, include_attributes=False).encode()).hexdigest()[:16]
        else:
            rest.append(ast.dump(n, include_attributes=False))
    out['<module>'] = hashlib.sha256('\n'.join(rest).encode()).hexdigest()[:16]
    return out


def anchor_files(pid):
    for l in open(os.path.join(VERIF, 'properties.jsonl')):
        p = json.loads(l)
        if p['id'] == pid:
            return list(p['anchors'].get('files', []))
    return []


def compute(repo, pid):
    res = {}
    for f in anchor_files(pid):
        p = os.path.join(repo, f)
        try:
            res[f] = file_hashes(p)
        except Exception as e:        # unreadable / does not parse: everything in it counts as changed
            res[f] = {'<unparsable>': repr(e)[:80]}
    return res


def drift(repo, pid):
    """sorted list of 'file:function' whose normalised AST differs from the pin (added / removed / changed)"""
    try:
        pins = json.load(open(PINS)).get(pid, {})
    except Exception:
        return ['<no source_pins.json>']
    cur = compute(repo, pid)
    out = []
    for f in sorted(set(pins) | set(cur)):
        a, b = pins.get(f, {}), cur.get(f, {})
        for k in sorted(set(a) | set(b)):
            if a.get(k) != b.get(k):
                out.append('%s:%s' % (f, k))
    return out
