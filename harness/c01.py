"""C01 — degree-preserving rewiring keeps every node's degree and the weight multiset."""
import os
from fractions import Fraction as F
import numpy as np
from common import *
from rewire_common import *

import translate_rewire

ID = 'C01'
COQ_FILES = ['Properties/C01.v', 'Gen/RewireTable.v']


def pregen():
    """regenerate Gen/RewireTable.v from the CURRENT source tree (tie by translation)"""
    return translate_rewire.generate(REPO, os.path.join(COQ, 'theories', 'Gen', 'RewireTable.v'))


PREGEN_NOTES = pregen()   # at import: before the framework builds the Coq files
THEOREMS = ['C01_run_invariant', 'C01_run_caller', 'C01_rgpu_run', 'C01_rgpu_caller', 'C01_attempt', 'C01_rbu_step',
            'C01_nothing_to_do', 'C01_nothing_to_do_latt', 'C01_rgpu_nothing_to_do',
            'C01_source_table', 'C01_engine_is_table', 'C01_rgpu_is_table', 'C01_rbu_source_table', 'C01_rbu_is_table', 'C01_rbu_full', 'C01_rbu_start_degrees', 'C01_rbu_zero_identity',
            'C01_und_diagonal', 'C01_und_diagonal_states', 'C01_rgpu_diagonal']
RULE = ('8 engine routines + randomize_graph_partial_und + randomizer_bin_und on generated graphs n=4..9 and (one in eight) '
        'n=10..20 (ER at several densities, ring+chords, tree+chords, bridges, isolated nodes, exactly two disjoint edges, long ring, '
        'path+chords, two cliques+bridge; binary, integer, signed and dyadic (k/8) weights in float64/float32/int64/bool arrays; '
        'self-connections for the directed routines; domain filter: at least two vertex-disjoint edges, connected input for the '
        '_connected routines); itr in {0,1,2,5}; caller-supplied D integer or dyadic (k/4, also negative); fractional / signed masks; '
        'randomizer_bin_und on 0/1, weighted, int/bool and diagonal-bearing input with alpha in {0,0.05,0.3,1}; separate streams: '
        'asymmetric input to randmio_und (BCTParamError <-> model precheck), degenerate inputs (n<2, no edge, one edge with itr=0), '
        'undirected routines on input with self-connections (repaired defect: regression stream + pinned corpus case), exhaustive slice (all graphs n=5 und / n=4 dir). '
        'Every run is recorded (all RandomState draws + the state after every accepted swap through the BCTPY_VERIF hook) and '
        'replayed by the extracted Coq model, which must end in the same outcome (Done/Rejected/Raises) and reproduce every state; '
        'the implementation always gets a copy and the caller\'s array is compared afterwards; '
        'non-trivial = at least one accepted swap; distinct by hash of (routine, matrix, itr, seed)')
ASSUMES = ['integer or small dyadic weights (k/8), D (k/4) and mask values: moving, comparing and multiplying them is exact in binary64; the '
           'model is over Z and receives them multiplied by a power of two (the engine only moves weights and tests them against 0, the '
           'lattice condition is homogeneous in R and in D, the mask is only tested against 0)',
           'np.round(n*k/(n*(n-1))) equals the exact rational rounding (half to even) for these sizes']
TRUSTED = ['recording RandomState subclass (harness/common.Rec) leaves the draws unchanged; hook lines in reference.py only copy state']


def degs(X):
    S = (X != 0)
    return S.sum(axis=1), S.sum(axis=0)


def oracle(ctx, fn, A, res, case):
    """every clause of C01 on the implementation's output"""
    if res['error']:
        ctx.fail(fn + ':raises', 'raised/timeout on an input in the documented domain: ' + res['error'], case)
        return
    X = res['out']
    und = fn in UND
    o0, i0 = degs(A); o1, i1 = degs(X)
    ctx.check(np.array_equal(o0, o1), fn + ':outdegree', 'out-degree of some node changed (caller numbering)', case)
    ctx.check(np.array_equal(i0, i1), fn + ':indegree', 'in-degree of some node changed (caller numbering)', case)
    ctx.check(np.array_equal(np.sort(A[A != 0]), np.sort(X[X != 0])), fn + ':weights', 'multiset of connection weights changed', case)
    ctx.check(not np.any((np.diag(X) != 0) & (np.diag(A) == 0)), fn + ':diag', 'new self-connection', case)
    if und:
        ctx.check(np.array_equal(X, X.T), fn + ':sym', 'undirected routine returned an asymmetric matrix', case)
        if fn != 'randomizer_bin_und':
            ctx.check(np.array_equal(np.diag(X), np.diag(A)), fn + ':diag', 'a self-connection was moved, changed or created', case)
    else:
        ctx.check(np.array_equal(A.sum(axis=1), X.sum(axis=1)), fn + ':outstrength', 'out-strength of some node changed', case)
    if case['itr'] == 0 or res['eff'] == 0:
        ctx.check(np.array_equal(A, X), fn + ':zero-identity', 'zero rewirings requested/reported but output differs from input', case)
    if res['perm'] is not None:
        p = res['perm']
        # the theorems take "ind_rp is a permutation of 0..n-1" as a hypothesis on the stream: check it on the real draw
        if ctx.check(sorted(int(v) for v in p) == list(range(len(A))), fn + ':reindex', 'returned node ordering is not a permutation of 0..n-1', case):
            ctx.check(np.array_equal(X[np.ix_(p, p)], res['rp']), fn + ':reindex', 'Rlatt[ix_(ind_rp,ind_rp)] != Rrp', case)
    # per-swap hook: the edge list mirrors the matrix after every accepted swap
    for t, e in enumerate(res['events']):
        R = e['R']
        if 'i' in e:
            ii = np.asarray(e['i']); jj = np.asarray(e['j'])
            cells = set(zip(ii.tolist(), jj.tolist()))
            ok = all(R[x, y] != 0 for x, y in cells) and len(cells) == len(ii)
            if und:
                sup = {(max(x, y), min(x, y)) for x, y in zip(*np.where(R != 0)) if x != y}   # a self-connection is not an edge of the list
                ok = ok and {(max(x, y), min(x, y)) for x, y in cells} == sup
            else:
                ok = ok and cells == set(zip(*[z.tolist() for z in np.where(R != 0)]))
            if not ctx.check(ok, fn + ':edge-list', 'after accepted swap %d the edge list (i,j) does not name exactly the present edges' % t, case):
                break


def one_case(ctx, fn, lines, pend):
    r = ctx.nprng
    und = fn in UND
    A, fam = gen_graph(r, und, connected=fn in CONN)
    n = len(A)
    if not und and A.dtype != bool and r.rand() < 0.15:
        # directed routines: self-connections are ordinary edges of the list np.where(R) (C01_run_caller needs no
        # empty-diagonal hypothesis for them); they may move, but no NEW one may appear
        for z in r.choice(n, int(r.randint(1, 3)), replace=False):
            A[z, z] = 1
        fam += '+selfloops'
    itr = int(r.choice([0, 1, 1, 2, 5])) if n < 10 else int(r.choice([0, 1, 1, 2]))
    seed = int(r.randint(1, 2 ** 31 - 1))
    D = None
    if fn in LATT and r.rand() < 0.4:
        D, dk = gen_D(r, n, und or r.rand() < 0.5)
        ctx.count('D:' + dk)
    res = run_impl(fn, A, itr, seed, D=D)
    case = {'fn': fn, 'A': jmat(A), 'dtype': str(A.dtype), 'itr': itr, 'seed': seed, 'D': jmat(D)}
    nacc = len(res['events'])
    ctx.case(case, nontrivial=nacc > 0)
    ctx.count('%s:%s' % (fn, fam)); ctx.count('accepted_swaps', nacc); ctx.count('n=%d' % len(A)); ctx.count('dtype:' + str(A.dtype))
    if res.get('error') == 'timeout':
        ctx.count('timeout'); return
    oracle(ctx, fn, A, res, case)
    if not res['error']:
        lines.append(model_line(fn, A, itr, res['draws'], D=D)); pend.append((fn, case, res))
        lines.append(precheck_line(fn, A)); pend.append(('precheck', case, True))


def selfloop_case(ctx, fn, lines, pend, pinned=None):
    """undirected engine routines on a symmetric input with a NON-EMPTY diagonal.  Until /repo fabf520 the self-connection
    (a,a) was listed as an edge and the output could be asymmetric with a changed degree (then a known finding); now the edge
    list is the strict lower triangle and the ordinary oracle applies (C01_run_caller has no empty-diagonal hypothesis any
    more, C01_und_diagonal: the diagonal is carried over).  corpus/C01.json pins the old witness as a regression case."""
    r = ctx.nprng
    if pinned:
        A, _, _ = case_arrays(pinned); itr = pinned['itr']; seed = pinned['seed']; fam = 'pinned'
    else:
        A, fam = gen_graph(r, True, connected=fn in CONN, big=False)
        A = A.astype(float) if A.dtype == bool else A.copy()
        for z in r.choice(len(A), int(r.randint(1, 3)), replace=False):
            A[z, z] = 1 if A.dtype.kind == 'i' else float(r.choice([1, 1, 5, -2, 0.5]))
        itr = int(r.choice([1, 2])); seed = int(r.randint(1, 2 ** 31 - 1))
    res = run_impl(fn, A, itr, seed)
    case = {'fn': fn, 'A': jmat(A), 'dtype': str(A.dtype), 'itr': itr, 'seed': seed, 'D': None, 'kind': 'nonempty-diagonal'}
    ctx.case(case, nontrivial=len(res['events']) > 0); ctx.count(fn + ':nonempty-diagonal(' + fam.split('+')[0] + ')')
    if res.get('error') == 'timeout':
        ctx.count('timeout'); return
    oracle(ctx, fn, A, res, case)
    if not res['error']:
        lines.append(model_line(fn, A, itr, res['draws'])); pend.append((fn, case, res))


def degenerate_case(ctx, lines, pend):
    """the endings other than a normal return: n < 2 (ZeroDivisionError -> Raises), no edge or one edge with itr = 0 and no
    edge with itr > 0 (the copy is returned), randomize_graph_partial_und without an edge (ValueError -> Raises)"""
    r = ctx.nprng
    fn = str(r.choice(ROUTINES + ['randomize_graph_partial_und']))
    kind = str(r.choice(['n<2', 'no-edge', 'one-edge-itr0', 'no-edge-itr0']))
    n = int(r.randint(2, 6))
    A = np.zeros((n, n))
    itr = int(r.choice([1, 2, 3]))
    if kind == 'n<2':
        n = int(r.randint(0, 2)); A = np.zeros((n, n))
    elif kind == 'one-edge-itr0':
        x, y = r.choice(n, 2, replace=False); A[x, y] = 3
        if fn in UND:
            A[y, x] = 3
        itr = 0
    elif kind == 'no-edge-itr0':
        itr = 0
    seed = int(r.randint(1, 2 ** 31 - 1))
    B = np.zeros((n, n)) if fn == 'randomize_graph_partial_und' else None
    res = run_impl(fn, A, itr, seed, B=B, t=2.0)
    case = {'fn': fn, 'A': jmat(A), 'dtype': 'float64', 'itr': itr, 'seed': seed, 'D': None, 'B': jmat(B), 'kind': kind}
    ctx.case(case, nontrivial=True); ctx.count('degenerate:' + kind)
    if res.get('error') == 'timeout':
        ctx.count('timeout'); return
    if not res['error']:
        ctx.check(np.array_equal(res['out'], A), fn + ':zero-identity', 'nothing to rewire but the output differs from the input', case)
    lines.append(model_line(fn, A, itr, res['draws'], B=B)); pend.append((fn, case, res))


def reject_case(ctx, lines, pend):
    """randmio_und raises BCTParamError on asymmetric input (latmio_und has no such check): the model's precheck must agree"""
    import bct
    r = ctx.nprng
    fn = 'randmio_und'
    A, fam = gen_graph(r, True)
    A = A.astype(float); n = len(A)
    x, y = r.choice(n, 2, replace=False)
    kind = str(r.choice(['cell', 'weight']))
    if kind == 'weight' and A[x, y] != 0:
        A[x, y] = A[x, y] + float(r.choice([0.125, 1, -0.5]))      # same support unless the sum is 0, other weight
    else:
        A[x, y] = 0 if A[x, y] != 0 else 1                          # one-sided connection
    if np.array_equal(A, A.T):
        return
    case = {'fn': fn, 'A': jmat(A), 'dtype': 'float64', 'itr': 1, 'seed': 1, 'D': None, 'kind': 'asymmetric-' + kind}
    ctx.case(case, nontrivial=True); ctx.count(fn + ':malformed-asymmetric-' + kind)
    try:
        call(bct.randmio_und, A.copy(), 1, seed=1, _t=2.0)
        raised = False
    except bct.utils.BCTParamError:
        raised = True
    except Timeout:
        raised = False
    except Exception as e:
        ctx.fail(fn + ':raises', 'asymmetric input raised %s instead of BCTParamError' % type(e).__name__, case); return
    ctx.check(raised, fn + ':rejects', 'asymmetric input accepted (BCTParamError expected)', case)
    lines.append(precheck_line(fn, A)); pend.append(('precheck', case, not raised))


def partial_case(ctx, lines, pend):
    r = ctx.nprng
    fn = 'randomize_graph_partial_und'
    A, fam = gen_graph(r, True)
    n = len(A)
    B = np.triu((r.rand(n, n) < float(r.choice([0, 0.1, 0.3]))).astype(float), 1)
    if r.rand() < 0.4:       # "nonzero" is what counts: fractional / signed marks
        B = B * r.choice([-2, -0.5, 0.25, 0.5, 0.75, 3], size=(n, n)); ctx.count(fn + ':fractional-mask')
    B = B + B.T
    maxswap = int(r.choice([0, 1, 2, 4]))
    seed = int(r.randint(1, 2 ** 31 - 1))
    res = run_impl(fn, A, maxswap, seed, B=B, t=1.0)
    case = {'fn': fn, 'A': jmat(A), 'dtype': str(A.dtype), 'B': jmat(B), 'itr': maxswap, 'seed': seed}
    ctx.case(case, nontrivial=len(res['events']) > 0)
    ctx.count('%s:%s' % (fn, fam)); ctx.count('dtype:' + str(A.dtype))
    if res.get('error') == 'timeout':
        ctx.count('timeout(partial_und: no admissible swap)'); return
    res['eff'] = None
    oracle(ctx, fn, A, res, case)
    if not res['error']:
        new = (res['out'] != 0) & (A == 0)
        ctx.check(not np.any(new & (B != 0)), fn + ':mask', 'connection created where the mask is nonzero', case)
        lines.append(model_line(fn, A, maxswap, res['draws'], B=B)); pend.append((fn, case, res))


def rbu_case(ctx, lines=None, pend=None):
    """randomizer_bin_und: direct oracle (its model is checked at the level of the swap step, see Properties/C01.v)"""
    import bct
    from bct.utils import _verif
    r = ctx.nprng
    fn = 'randomizer_bin_und'
    n = int(r.randint(4, 10)); dens = float(r.choice([0.2, 0.4, 0.6, 0.8]))
    A = np.triu((r.rand(n, n) < dens).astype(float), 1); A = A + A.T
    # branches of the wrapper: full nodes (masked, restored), isolated nodes (= full nodes of the complement of a dense graph)
    shape = r.rand()
    if shape < 0.3:
        z = int(r.randint(n)); A[z, :] = 0; A[:, z] = 0; ctx.count('rbu:isolated-node')
    elif shape < 0.6:
        z = int(r.randint(n)); A[z, :] = 1; A[:, z] = 1; A[z, z] = 0; ctx.count('rbu:full-node')
    elif shape < 0.7:
        z, w = r.choice(n, 2, replace=False); A[z, :] = 0; A[:, z] = 0; A[w, :] = 1; A[:, w] = 1; A[w, w] = 0; A[z, w] = A[w, z] = 0
        ctx.count('rbu:isolated+almost-full')
    ctx.count('rbu:dense' if A.sum() / 2 > (n * n - n) / 4 else 'rbu:sparse')
    alpha = float(r.choice([0.0, 0.05, 0.3, 0.3, 1.0, 1.0])); seed = int(r.randint(1, 2 ** 31 - 1))
    u = r.rand()
    if u < 0.2:
        A = A.astype(int); ctx.count('rbu:int-dtype')      # integer 0/1 input (raised OverflowError before the fix)
    elif u < 0.3:
        A = A.astype(bool); ctx.count('rbu:bool-dtype')
    elif u < 0.5:                                          # weighted symmetric input: the routine binarises it
        W = np.triu(r.choice([-3, -0.5, 0.125, 0.5, 2, 7], size=(n, n)), 1); A = A * (W + W.T); ctx.count('rbu:weighted')
    if A.dtype != bool and r.rand() < 0.2:                 # self-connections: saved, masked by the sentinel, restored (binarised)
        for z in r.choice(n, int(r.randint(1, 3)), replace=False):
            A[z, z] = 1 if A.dtype.kind == 'i' else float(r.choice([1, 0.5, -2]))
        ctx.count('rbu:nonzero-diagonal')
    case = {'fn': fn, 'A': jmat(A), 'dtype': str(A.dtype), 'itr': alpha, 'seed': seed}
    A0 = A.copy()
    _verif.reset()
    try:
        X = call(bct.randomizer_bin_und, A, alpha, seed=seed, _t=5.0)
    except bct.utils.BCTParamError:
        ctx.count('rbu:no-possible-randomization'); ctx.case(case, nontrivial=False)
        if lines is not None:    # the model must refuse the same inputs (code 1), before any draw
            lines.append('rbufull %s %s 0 ' % (enc_zmat(A0), enc_q(F(alpha)))); pend.append(('rbureject', case, None))
        return
    except Exception as e:
        ctx.case(case, nontrivial=True)
        ctx.fail(fn + ':raises', 'raised %s: %s' % (type(e).__name__, str(e)[:80]), case); return
    ev = [kw for tag, kw in _verif.LOG if tag == 'swap']; _verif.reset()
    ctx.case(case, nontrivial=len(ev) > 0); ctx.count('rbu:swaps', len(ev))
    if not np.array_equal(A, A0):
        ctx.mismatch(fn, "the implementation modified its caller's array", case)
    A = A0
    if lines is not None:
        # full-routine correspondence: re-run with the recording generator, replay the draws in the model
        rec = Rec(seed); _verif.reset()
        X2 = call(bct.randomizer_bin_und, A.copy(), alpha, seed=rec, _t=5.0)
        ev2 = [kw for tag, kw in _verif.LOG if tag == 'swap']; _verif.reset()
        draws = flatten_draws(rec.log)
        lines.append('rbufull %s %s %d %s' % (enc_zmat(A), enc_q(F(alpha)), len(draws), ' '.join(draws)))
        pend.append(('rbufull', case, (np.asarray(X2, dtype=float), ev2)))
    X = np.asarray(X, dtype=float)
    Ab = (np.asarray(A) != 0).astype(float)                # the property speaks of connections: the binarised input
    ctx.check(np.array_equal(degs(A)[0], degs(X)[0]), fn + ':degree', 'degree of some node changed', case)
    ctx.check(np.array_equal(X, X.T), fn + ':sym', 'asymmetric output', case)
    ctx.check(set(np.unique(X)) <= {0.0, 1.0} and X.sum() == Ab.sum(), fn + ':weights', 'not binary / edge count changed', case)
    ctx.check(not np.any((np.diag(X) != 0) & (np.diag(Ab) == 0)), fn + ':diag', 'new self-connection', case)
    ctx.check(np.array_equal(np.diag(X), np.diag(Ab)), fn + ':diag-kept', 'the (binarised) diagonal of the input is not returned', case)
    if len(ev) == 0:
        ctx.count('rbu:nothing-rewired')
        ctx.check(np.array_equal(X, Ab), fn + ':zero-identity', 'nothing was rewired but the output is not the (binarised) input', case)
    # every step: each swap keeps the working matrix symmetric with the same row sums off the diagonal
    prev = None
    for e in ev:
        R = np.where(np.isinf(e['R']), 0, e['R']).astype(float)
        np.fill_diagonal(R, 0)
        if prev is not None:
            if not ctx.check(np.array_equal(prev.sum(0), R.sum(0)) and np.array_equal(R, R.T), fn + ':step', 'a swap changed a degree of the working matrix', case):
                break
            # correspondence of the swap step: model's rbu_swap applied to the previous working matrix
            if lines is not None and len(lines) < 4000:
                a, b, c, d = [int(v) for v in e['abcd']]
                lines.append('rbu %s %d %d %d %d' % (enc_mat(prev.astype(int).tolist()), a, b, c, d))
                pend.append(('rbu', case, R))
        prev = R


def exhaustive_slice(ctx, lines, pend):
    """all undirected graphs on 5 nodes / all digraphs on 4 nodes that lie in the domain (two vertex-disjoint edges),
    one recorded run each (quick: every 16th graph)"""
    import itertools
    step = 1 if ctx.thorough else 16
    cnt = 0
    n = 5
    pairs = [(i, j) for i in range(n) for j in range(i)]
    for code in range(0, 2 ** len(pairs), step):
        A = np.zeros((n, n))
        for b, (i, j) in enumerate(pairs):
            if code >> b & 1:
                A[i, j] = A[j, i] = 1
        if not two_disjoint_edges(A, True):
            continue
        fn = ['randmio_und', 'latmio_und', 'randmio_und_connected'][cnt % 3]
        cnt += 1
        if fn in CONN and not connected_und(A):
            fn = 'randmio_und'
        res = run_impl(fn, A, 1, 1000 + code)
        case = {'fn': fn, 'A': jmat(A), 'dtype': 'float64', 'itr': 1, 'seed': 1000 + code, 'D': None}
        ctx.case(case, nontrivial=len(res['events']) > 0); ctx.count('exhaustive:und5')
        oracle(ctx, fn, A, res, case)
        if not res['error']:
            lines.append(model_line(fn, A, 1, res['draws'])); pend.append((fn, case, res))
    n = 4
    cells_ = [(i, j) for i in range(n) for j in range(n) if i != j]
    for code in range(0, 2 ** len(cells_), step):
        A = np.zeros((n, n))
        for b, (i, j) in enumerate(cells_):
            if code >> b & 1:
                A[i, j] = 1
        if not two_disjoint_edges(A, False):
            continue
        fn = ['randmio_dir', 'latmio_dir'][cnt % 2]
        cnt += 1
        res = run_impl(fn, A, 1, 2000 + code)
        case = {'fn': fn, 'A': jmat(A), 'dtype': 'float64', 'itr': 1, 'seed': 2000 + code, 'D': None}
        ctx.case(case, nontrivial=len(res['events']) > 0); ctx.count('exhaustive:dir4')
        oracle(ctx, fn, A, res, case)
        if not res['error']:
            lines.append(model_line(fn, A, 1, res['draws'])); pend.append((fn, case, res))


def run(ctx):
    ctx.extra['translator_unrecognised'] = PREGEN_NOTES
    lines, pend = [], []
    corpus = os.path.join(VERIF, 'corpus', 'C01.json')
    if os.path.exists(corpus):
        import json
        for c in json.load(open(corpus)):
            if c.get('kind') == 'nonempty-diagonal':
                selfloop_case(ctx, c['fn'], lines, pend, pinned=c)
    exhaustive_slice(ctx, lines, pend)
    per = ctx.scale(28, 300)
    for fn in ROUTINES:
        for _ in range(per):
            one_case(ctx, fn, lines, pend)
    for _ in range(per):
        partial_case(ctx, lines, pend)
    for _ in range(per // 2):
        reject_case(ctx, lines, pend)
    for fn in ['randmio_und', 'randmio_und_connected', 'latmio_und', 'latmio_und_connected']:
        for _ in range(max(3, per // 6)):
            selfloop_case(ctx, fn, lines, pend)
    for _ in range(per // 2):
        degenerate_case(ctx, lines, pend)
    for _ in range(per * 2):
        rbu_case(ctx, lines, pend)
    res = run_model(ID, lines)
    ctx.model_cases = len(lines)
    for (fn, case, r), m in zip(pend, res):
        if is_err(m):
            ctx.mismatch(fn, 'model error: ' + m['error'], case); continue
        if fn == 'precheck':
            if bool(m) != bool(r):
                ctx.mismatch(case['fn'] + ':precheck', 'model precheck = %s, implementation %s BCTParamError' % (m, 'does not raise' if r else 'raises'), case)
            continue
        if fn == 'rbureject':
            if m['code'] != 1:
                ctx.mismatch('randomizer_bin_und', 'implementation raises BCTParamError, model code %d' % m['code'], case)
            continue
        if fn == 'rbufull':
            X2, ev2 = r
            if m['code'] != 0:
                ctx.mismatch('randomizer_bin_und', 'model code %d where the implementation returns' % m['code'], case); continue
            M = np.array(dec_deep(m['out'], dec_z), dtype=float).reshape(X2.shape)
            if not np.array_equal(M, X2):
                ctx.mismatch('randomizer_bin_und', 'returned matrix differs', case, M, X2); continue
            if m['left'] != 0 or len(m['trace']) != len(ev2):
                ctx.mismatch('randomizer_bin_und', 'draws unread (%d) or number of swaps differs (%d vs %d)' % (m['left'], len(m['trace']), len(ev2)), case); continue
            for t, (e, me) in enumerate(zip(ev2, m['trace'])):
                Rw = np.where(np.isinf(e['R']), 2, e['R']).astype(float)
                Mw = np.array(dec_deep(me['R'], dec_z), dtype=float).reshape(Rw.shape)
                kk = len(e['i'])
                if [int(v) for v in e['abcd']] != me['abcd'] or not np.array_equal(Rw, Mw) or \
                   [int(v) for v in e['i']] != me['i'][:kk] or [int(v) for v in e['j']] != me['j'][:kk]:
                    ctx.mismatch('randomizer_bin_und', 'working state after swap %d differs' % t, case); break
            continue
        if fn == 'rbu':
            adm, rows = m
            M = np.array(dec_deep(rows, dec_z), dtype=float).reshape(r.shape)
            if not adm:
                ctx.mismatch('randomizer_bin_und:mate', 'implementation swapped a pair the model calls inadmissible', case)
            elif not np.array_equal(M, r):
                ctx.mismatch('randomizer_bin_und:swap', 'working matrix after the swap differs', case, M, r)
            continue
        compare_run(ctx, fn, case, r, dec_result(m))
