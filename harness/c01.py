"""C01 — degree-preserving rewiring keeps every node's degree and the weight multiset."""
import os
from fractions import Fraction as F
import numpy as np
from common import *
from rewire_common import *

import translate_rewire

ID = 'C01'
COQ_FILES = ['Properties/C01.v', 'Gen/RewireTable.v']


def pregen():
    """regenerate Gen/RewireTable.v from the CURRENT source tree (tie by translation)"""
    return translate_rewire.generate(REPO, os.path.join(COQ, 'theories', 'Gen', 'RewireTable.v'))


PREGEN_NOTES = pregen()   # at import: before the framework builds the Coq files
THEOREMS = ['C01_run_invariant', 'C01_run_caller', 'C01_partial_und', 'C01_attempt', 'C01_rbu_step_partial',
            'C01_source_table', 'C01_engine_is_table', 'C01_rbu_full', 'C01_rbu_start_degrees']
RULE = ('8 engine routines + randomize_graph_partial_und + randomizer_bin_und on generated graphs n=4..9 (ER at several '
        'densities, ring+chords, tree+chords, bridges, isolated nodes; binary and integer weights 1..9; domain filter: at least '
        'two vertex-disjoint edges, connected input for the _connected routines); itr in {0,1,2,5}; every run is recorded '
        '(all RandomState draws + the state after every accepted swap through the BCTPY_VERIF hook) and replayed by the '
        'extracted Coq model; non-trivial = at least one accepted swap; distinct by hash of (routine, matrix, itr, seed)')
ASSUMES = ['integer weights: moving and comparing them is exact in binary64',
           'np.round(n*k/(n*(n-1))) equals the exact rational rounding (half to even) for these sizes']
TRUSTED = ['recording RandomState subclass (harness/common.Rec) leaves the draws unchanged; hook lines in reference.py only copy state']


def degs(X):
    S = (X != 0)
    return S.sum(axis=1), S.sum(axis=0)


def oracle(ctx, fn, A, res, case):
    """every clause of C01 on the implementation's output"""
    if res['error']:
        ctx.fail(fn + ':raises', 'raised/timeout on an input in the documented domain: ' + res['error'], case)
        return
    X = res['out']
    und = fn in UND
    o0, i0 = degs(A); o1, i1 = degs(X)
    ctx.check(np.array_equal(o0, o1), fn + ':outdegree', 'out-degree of some node changed (caller numbering)', case)
    ctx.check(np.array_equal(i0, i1), fn + ':indegree', 'in-degree of some node changed (caller numbering)', case)
    ctx.check(np.array_equal(np.sort(A[A != 0]), np.sort(X[X != 0])), fn + ':weights', 'multiset of connection weights changed', case)
    ctx.check(not np.any((np.diag(X) != 0) & (np.diag(A) == 0)), fn + ':diag', 'new self-connection', case)
    if und:
        ctx.check(np.array_equal(X, X.T), fn + ':sym', 'undirected routine returned an asymmetric matrix', case)
    else:
        ctx.check(np.array_equal(A.sum(axis=1), X.sum(axis=1)), fn + ':outstrength', 'out-strength of some node changed', case)
    if case['itr'] == 0 or res['eff'] == 0:
        ctx.check(np.array_equal(A, X), fn + ':zero-identity', 'zero rewirings requested/reported but output differs from input', case)
    if res['perm'] is not None:
        p = res['perm']
        ctx.check(np.array_equal(X[np.ix_(p, p)], res['rp']), fn.replace('_connected', '') .replace('latmio', 'latmio') + ':reindex'
                  if False else fn + ':reindex', 'Rlatt[ix_(ind_rp,ind_rp)] != Rrp', case)
    # per-swap hook: the edge list mirrors the matrix after every accepted swap
    for t, e in enumerate(res['events']):
        R = e['R']
        if 'i' in e:
            ii = np.asarray(e['i']); jj = np.asarray(e['j'])
            cells = set(zip(ii.tolist(), jj.tolist()))
            ok = all(R[x, y] != 0 for x, y in cells) and len(cells) == len(ii)
            if und:
                sup = {(max(x, y), min(x, y)) for x, y in zip(*np.where(R != 0))}
                ok = ok and {(max(x, y), min(x, y)) for x, y in cells} == sup
            else:
                ok = ok and cells == set(zip(*[z.tolist() for z in np.where(R != 0)]))
            if not ctx.check(ok, fn + ':edge-list', 'after accepted swap %d the edge list (i,j) does not name exactly the present edges' % t, case):
                break


def one_case(ctx, fn, lines, pend):
    r = ctx.nprng
    und = fn in UND
    A, fam = gen_graph(r, und, connected=fn in CONN)
    itr = int(r.choice([0, 1, 1, 2, 5]))
    seed = int(r.randint(1, 2 ** 31 - 1))
    D = None
    if fn in LATT and r.rand() < 0.4:
        n = len(A)
        D = r.randint(0, 6, size=(n, n)).astype(float)
        if und or r.rand() < 0.5:
            D = np.triu(D, 1); D = D + D.T
    res = run_impl(fn, A, itr, seed, D=D)
    case = {'fn': fn, 'A': A.astype(int).tolist(), 'itr': itr, 'seed': seed, 'D': None if D is None else D.astype(int).tolist()}
    nacc = len(res['events'])
    ctx.case(case, nontrivial=nacc > 0)
    ctx.count('%s:%s' % (fn, fam)); ctx.count('accepted_swaps', nacc); ctx.count('n=%d' % len(A))
    if res.get('error') == 'timeout':
        ctx.count('timeout'); return
    oracle(ctx, fn, A, res, case)
    if not res['error']:
        lines.append(model_line(fn, A, itr, res['draws'], D=D)); pend.append((fn, case, res))


def partial_case(ctx, lines, pend):
    r = ctx.nprng
    fn = 'randomize_graph_partial_und'
    A, fam = gen_graph(r, True)
    n = len(A)
    B = np.triu((r.rand(n, n) < float(r.choice([0, 0.1, 0.3]))).astype(float), 1); B = B + B.T
    maxswap = int(r.choice([0, 1, 2, 4]))
    seed = int(r.randint(1, 2 ** 31 - 1))
    res = run_impl(fn, A, maxswap, seed, B=B, t=1.0)
    case = {'fn': fn, 'A': A.astype(int).tolist(), 'B': B.astype(int).tolist(), 'itr': maxswap, 'seed': seed}
    ctx.case(case, nontrivial=len(res['events']) > 0)
    ctx.count('%s:%s' % (fn, fam))
    if res.get('error') == 'timeout':
        ctx.count('timeout(partial_und: no admissible swap)'); return
    res['eff'] = None
    oracle(ctx, fn, A, res, case)
    if not res['error']:
        new = (res['out'] != 0) & (A == 0)
        ctx.check(not np.any(new & (B != 0)), fn + ':mask', 'connection created where the mask is nonzero', case)
        lines.append(model_line(fn, A, maxswap, res['draws'], B=B)); pend.append((fn, case, res))


def rbu_case(ctx, lines=None, pend=None):
    """randomizer_bin_und: direct oracle (its model is checked at the level of the swap step, see Properties/C01.v)"""
    import bct
    from bct.utils import _verif
    r = ctx.nprng
    fn = 'randomizer_bin_und'
    n = int(r.randint(4, 10)); dens = float(r.choice([0.2, 0.4, 0.6, 0.8]))
    A = np.triu((r.rand(n, n) < dens).astype(float), 1); A = A + A.T
    # branches of the wrapper: full nodes (masked, restored), isolated nodes (= full nodes of the complement of a dense graph)
    shape = r.rand()
    if shape < 0.3:
        z = int(r.randint(n)); A[z, :] = 0; A[:, z] = 0; ctx.count('rbu:isolated-node')
    elif shape < 0.6:
        z = int(r.randint(n)); A[z, :] = 1; A[:, z] = 1; A[z, z] = 0; ctx.count('rbu:full-node')
    elif shape < 0.7:
        z, w = r.choice(n, 2, replace=False); A[z, :] = 0; A[:, z] = 0; A[w, :] = 1; A[:, w] = 1; A[w, w] = 0; A[z, w] = A[w, z] = 0
        ctx.count('rbu:isolated+almost-full')
    ctx.count('rbu:dense' if A.sum() / 2 > (n * n - n) / 4 else 'rbu:sparse')
    alpha = float(r.choice([0.3, 1.0])); seed = int(r.randint(1, 2 ** 31 - 1))
    if r.rand() < 0.25:
        A = A.astype(int); ctx.count('rbu:int-dtype')      # integer 0/1 input (raised OverflowError before the fix)
    case = {'fn': fn, 'A': A.astype(int).tolist(), 'itr': alpha, 'seed': seed}
    _verif.reset()
    try:
        X = call(bct.randomizer_bin_und, A, alpha, seed=seed, _t=5.0)
    except bct.utils.BCTParamError:
        ctx.count('rbu:no-possible-randomization'); ctx.case(case, nontrivial=False); return
    except Exception as e:
        ctx.case(case, nontrivial=True)
        ctx.fail(fn + ':raises', 'raised %s: %s' % (type(e).__name__, str(e)[:80]), case); return
    ev = [kw for tag, kw in _verif.LOG if tag == 'swap']; _verif.reset()
    ctx.case(case, nontrivial=len(ev) > 0); ctx.count('rbu:swaps', len(ev))
    if lines is not None:
        # full-routine correspondence: re-run with the recording generator, replay the draws in the model
        rec = Rec(seed); _verif.reset()
        X2 = call(bct.randomizer_bin_und, A, alpha, seed=rec, _t=5.0)
        ev2 = [kw for tag, kw in _verif.LOG if tag == 'swap']; _verif.reset()
        draws = flatten_draws(rec.log)
        lines.append('rbufull %s %s %d %s' % (enc_mat(A.astype(int).tolist()), enc_q(F(alpha)), len(draws), ' '.join(draws)))
        pend.append(('rbufull', case, (np.asarray(X2, dtype=float), ev2)))
    X = np.asarray(X, dtype=float)
    ctx.check(np.array_equal(degs(A)[0], degs(X)[0]), fn + ':degree', 'degree of some node changed', case)
    ctx.check(np.array_equal(X, X.T), fn + ':sym', 'asymmetric output', case)
    ctx.check(set(np.unique(X)) <= {0.0, 1.0} and X.sum() == A.sum(), fn + ':weights', 'not binary / edge count changed', case)
    ctx.check(np.all(np.diag(X) == 0), fn + ':diag', 'new self-connection', case)
    # every step: each swap keeps the working matrix symmetric with the same row sums off the diagonal
    prev = None
    for e in ev:
        R = np.where(np.isinf(e['R']), 0, e['R']).astype(float)
        np.fill_diagonal(R, 0)
        if prev is not None:
            if not ctx.check(np.array_equal(prev.sum(0), R.sum(0)) and np.array_equal(R, R.T), fn + ':step', 'a swap changed a degree of the working matrix', case):
                break
            # correspondence of the swap step: model's rbu_swap applied to the previous working matrix
            if lines is not None and len(lines) < 4000:
                a, b, c, d = [int(v) for v in e['abcd']]
                lines.append('rbu %s %d %d %d %d' % (enc_mat(prev.astype(int).tolist()), a, b, c, d))
                pend.append(('rbu', case, R))
        prev = R


def exhaustive_slice(ctx, lines, pend):
    """all undirected graphs on 5 nodes / all digraphs on 4 nodes that lie in the domain (two vertex-disjoint edges),
    one recorded run each (quick: every 16th graph)"""
    import itertools
    step = 1 if ctx.thorough else 16
    cnt = 0
    n = 5
    pairs = [(i, j) for i in range(n) for j in range(i)]
    for code in range(0, 2 ** len(pairs), step):
        A = np.zeros((n, n))
        for b, (i, j) in enumerate(pairs):
            if code >> b & 1:
                A[i, j] = A[j, i] = 1
        if not two_disjoint_edges(A, True):
            continue
        fn = ['randmio_und', 'latmio_und', 'randmio_und_connected'][cnt % 3]
        cnt += 1
        if fn in CONN and not connected_und(A):
            fn = 'randmio_und'
        res = run_impl(fn, A, 1, 1000 + code)
        case = {'fn': fn, 'A': A.astype(int).tolist(), 'itr': 1, 'seed': 1000 + code, 'D': None}
        ctx.case(case, nontrivial=len(res['events']) > 0); ctx.count('exhaustive:und5')
        oracle(ctx, fn, A, res, case)
        if not res['error']:
            lines.append(model_line(fn, A, 1, res['draws'])); pend.append((fn, case, res))
    n = 4
    cells_ = [(i, j) for i in range(n) for j in range(n) if i != j]
    for code in range(0, 2 ** len(cells_), step):
        A = np.zeros((n, n))
        for b, (i, j) in enumerate(cells_):
            if code >> b & 1:
                A[i, j] = 1
        if not two_disjoint_edges(A, False):
            continue
        fn = ['randmio_dir', 'latmio_dir'][cnt % 2]
        cnt += 1
        res = run_impl(fn, A, 1, 2000 + code)
        case = {'fn': fn, 'A': A.astype(int).tolist(), 'itr': 1, 'seed': 2000 + code, 'D': None}
        ctx.case(case, nontrivial=len(res['events']) > 0); ctx.count('exhaustive:dir4')
        oracle(ctx, fn, A, res, case)
        if not res['error']:
            lines.append(model_line(fn, A, 1, res['draws'])); pend.append((fn, case, res))


def run(ctx):
    ctx.extra['translator_unrecognised'] = PREGEN_NOTES
    lines, pend = [], []
    exhaustive_slice(ctx, lines, pend)
    per = ctx.scale(28, 300)
    for fn in ROUTINES:
        for _ in range(per):
            one_case(ctx, fn, lines, pend)
    for _ in range(per):
        partial_case(ctx, lines, pend)
    for _ in range(per * 2):
        rbu_case(ctx, lines, pend)
    res = run_model(ID, lines)
    ctx.model_cases = len(lines)
    for (fn, case, r), m in zip(pend, res):
        if is_err(m):
            ctx.mismatch(fn, 'model error: ' + m['error'], case); continue
        if fn == 'rbufull':
            X2, ev2 = r
            if m['code'] != 0:
                ctx.mismatch('randomizer_bin_und', 'model code %d where the implementation returns' % m['code'], case); continue
            M = np.array(dec_deep(m['out'], dec_z), dtype=float).reshape(X2.shape)
            if not np.array_equal(M, X2):
                ctx.mismatch('randomizer_bin_und', 'returned matrix differs', case, M, X2); continue
            if m['left'] != 0 or len(m['trace']) != len(ev2):
                ctx.mismatch('randomizer_bin_und', 'draws unread (%d) or number of swaps differs (%d vs %d)' % (m['left'], len(m['trace']), len(ev2)), case); continue
            for t, (e, me) in enumerate(zip(ev2, m['trace'])):
                Rw = np.where(np.isinf(e['R']), 2, e['R']).astype(float)
                Mw = np.array(dec_deep(me['R'], dec_z), dtype=float).reshape(Rw.shape)
                kk = len(e['i'])
                if [int(v) for v in e['abcd']] != me['abcd'] or not np.array_equal(Rw, Mw) or \
                   [int(v) for v in e['i']] != me['i'][:kk] or [int(v) for v in e['j']] != me['j'][:kk]:
                    ctx.mismatch('randomizer_bin_und', 'working state after swap %d differs' % t, case); break
            continue
        if fn == 'rbu':
            adm, rows = m
            M = np.array(dec_deep(rows, dec_z), dtype=float).reshape(r.shape)
            if not adm:
                ctx.mismatch('randomizer_bin_und:mate', 'implementation swapped a pair the model calls inadmissible', case)
            elif not np.array_equal(M, r):
                ctx.mismatch('randomizer_bin_und:swap', 'working matrix after the swap differs', case, M, r)
            continue
        compare_run(ctx, fn, case, r, dec_result(m))
