"""C05 — seeded calls are reproducible and never touch the global random stream.

Shape (B): the tie between the Coq development and the code is the TRANSLATOR: on every run
harness/translate_effects.py abstracts the current <REPO>/bct tree to coq/theories/Gen/Effects.v
(`Example all_safe : prog_safe program = true`), which ./check recompiles together with the
soundness theorem (Properties/C05.v).  run(ctx) validates the abstraction dynamically on every
seed-accepting public function and searches for a concrete failing call."""
import io, contextlib, inspect, random
from common import *
import translate_effects as TE

ID = 'C05'
COQ_FILES = ['Model/EffectLang.v', 'Proofs/EffectLang.v', 'Gen/Effects.v', 'Properties/C05.v']
THEOREMS = ['C05_seed_safe_sound', 'C05_bct_all_safe', 'C05_bct_get_rng_is_the_one_modelled', 'C05_bct_no_unmodelled_callables', 'C05_bct',
            'C05_refines_reference', 'C05_nonvacuous', 'C05_stray_global_draw_refuted', 'C05_reseeding_refuted',
            'C05_seed_not_forwarded_refuted']
RULE = ('every public function of bct, bct.nbs, bct.nbs_parallel whose signature has `seed` x small valid inputs (n=6..9, several '
        'families per function) x seeds {0,7,2**32-1,-1 (ValueError fallback)} x two different prior histories of the global '
        'generators; non-trivial = the call consumed at least one draw from the recording RandomState; distinct by hash of '
        '(function, input variant, seed). Static part: all functions reachable from a seed-accepting one are translated and checked in Coq.')
ASSUMES = ['the translator (harness/translate_effects.py, fail-closed) over-approximates the generator-related effects of each Python function body: validated dynamically, not proved',
           'control flow and draw arguments are a function of the call arguments and of the draws obtained (oracle `decide`); sources of nondeterminism other than the generators (time, hash order, threads, os.urandom) are not modelled',
           'a RandomState passed as seed is not numpy\'s global instance itself; the fallback RandomState(random.Random(seed).randint(0,2**32-1)) cannot raise']
TRUSTED = ['harness/translate_effects.py (Python ast -> EffectLang; unknown constructs touching seed / rng names / np.random / random become DrawNpGlobal/DrawPyGlobal which the checker always rejects)',
           'hand-written Gallina model of bct.utils.get_rng (the translator compares a hash of the source with the version modelled and emits get_rng_as_modelled)',
           'ExtrOcamlString (stdlib) for the diagnostic extracted checker ocaml/drv_c05 (not part of the tie)']


# Outside the static model whatever the state of the code: the seed travels inside pickled task tuples to worker
# PROCESSES (multiprocessing.Pool.map); process boundaries and pickling of generator objects are not expressible in
# EffectLang.  This routine is covered by the dynamic clauses only (and currently violates one: known finding).
STATIC_OUT_OF_MODEL = {'nbs_parallel.nbs_bct': 'multiprocessing.Pool.map over task tuples carrying the seed (dynamic clauses only)'}


def _exclusions():
    ex = set(STATIC_OUT_OF_MODEL)
    for f in load_findings():
        if f.get('property') == ID and f.get('status') == 'open':
            ex |= set(f.get('static_exclude', []))
    return tuple(sorted(ex))


_RES = None
FALLBACK_FNS = ('get_rng', 'randmio_und', 'makerandCIJ_und', 'modularity_louvain_und', 'pick_four_unique_nodes_quickly')


def pregen():
    """regenerate coq/theories/Gen/Effects.v from the CURRENT source tree (called by ./check setup and at import)"""
    global _RES
    _RES = TE.generate(REPO, VERIF, _exclusions())
    return _RES


pregen()      # ./check imports this module before it builds the Coq files


# ---------------------------------------------------------------------------------------------- dynamic part
def canon(x):
    if isinstance(x, (tuple, list)):
        return tuple(canon(y) for y in x)
    if isinstance(x, np.ndarray):
        y = x
        if y.dtype.kind in 'fc':
            y = y.copy()
            y[np.isnan(y)] = np.nan
        return ('arr', y.shape, str(y.dtype), y.tobytes())
    if isinstance(x, dict):
        return tuple(sorted((str(k), canon(v)) for k, v in x.items()))
    if isinstance(x, float) and x != x:
        return 'nan'
    if isinstance(x, (np.floating, np.integer)):
        return canon(x.item())
    return x


def world():
    return (np.random.get_state()[1].tobytes(), np.random.get_state()[2:], random.getstate())


def set_world(h):
    """a prior history of the global generators"""
    np.random.seed(1000 + h)
    random.seed(77 + h)
    np.random.rand(h % 5)
    for _ in range(h % 3):
        random.random()


def mats(v):
    r = np.random.RandomState(500 + v)
    n = 7 + v % 3
    Wd = r.randint(1, 5, size=(n, n)).astype(float) * (r.rand(n, n) < 0.55)
    np.fill_diagonal(Wd, 0)
    Wu = np.triu(Wd, 1); Wu = Wu + Wu.T
    Ws = np.triu(Wu * np.where(r.rand(n, n) < 0.3, -1, 1), 1); Ws = Ws + Ws.T
    D8 = r.rand(8, 8) + 1; D8 = (D8 + D8.T) / 2
    A8 = np.triu((r.rand(8, 8) < 0.4).astype(float), 1); A8 = A8 + A8.T
    return dict(n=n, Wd=Wd, Wu=Wu, Ws=Ws, Ab=(Wu != 0).astype(float), Abd=(Wd != 0).astype(float), xyz=r.rand(n, 3),
                D8=D8, A8=A8, x=r.rand(5, 5, 6), y=r.rand(5, 5, 7) + 0.3, P=(lambda a: (a + a.T) / 2)(r.rand(n, n)))


def builders(bct, P):
    """name -> function(variant) -> (callable taking seed kw only)"""
    def mk(f, fa):
        def at(v):
            m = mats(v)
            g = lambda **kw: f(*fa(m, v)[0], **dict(fa(m, v)[1], **kw))     # fresh copies of the arguments on every call
            g.args = tolist(fa(m, v))
            return g
        return at
    A = lambda *a, **k: (a, k)
    gm = ['matching', 'neighbors', 'euclidean', 'clu-avg', 'deg-avg', 'clu-prod']
    T = {
        'randmio_und': lambda m, v: A(m['Wu'].copy(), 2), 'randmio_dir': lambda m, v: A(m['Wd'].copy(), 2),
        'randmio_und_connected': lambda m, v: A(m['Wu'].copy(), 2), 'randmio_dir_connected': lambda m, v: A(m['Wd'].copy(), 2),
        'randmio_und_signed': lambda m, v: A(m['Ws'].copy(), 2), 'randmio_dir_signed': lambda m, v: A(m['Wd'].copy(), 2),
        'latmio_und': lambda m, v: A(m['Wu'].copy(), 2), 'latmio_dir': lambda m, v: A(m['Wd'].copy(), 2),
        'latmio_und_connected': lambda m, v: A(m['Wu'].copy(), 2), 'latmio_dir_connected': lambda m, v: A(m['Wd'].copy(), 2),
        'randomize_graph_partial_und': lambda m, v: A(m['Wu'].copy(), np.zeros((m['n'], m['n'])), 3),
        'randomizer_bin_und': lambda m, v: A(m['Ab'].copy(), 0.5),
        'null_model_und_sign': lambda m, v: A(m['Ws'].copy(), 2, 0.5), 'null_model_dir_sign': lambda m, v: A(m['Wd'].copy(), 2, 0.5),
        'makerandCIJ_und': lambda m, v: A(8, 10 + v), 'makerandCIJ_dir': lambda m, v: A(8, 10 + v),
        'makeringlatticeCIJ': lambda m, v: A(8, 20 + v), 'maketoeplitzCIJ': lambda m, v: A(8, 10 + v, 2.0),
        'makeevenCIJ': lambda m, v: A(8, 30 + v, 2), 'makefractalCIJ': lambda m, v: A(3, 2, 2),
        'makerandCIJdegreesfixed': lambda m, v: A(m['Abd'].sum(0).astype(int), m['Abd'].sum(1).astype(int)),
        'community_louvain': lambda m, v: A(m['Wu'].copy()), 'modularity_louvain_und': lambda m, v: A(m['Wu'].copy()),
        'modularity_louvain_dir': lambda m, v: A(m['Wd'].copy()), 'modularity_louvain_und_sign': lambda m, v: A(m['Ws'].copy()),
        'modularity_finetune_und': lambda m, v: A(m['Wu'].copy()), 'modularity_finetune_dir': lambda m, v: A(m['Wd'].copy()),
        'modularity_finetune_und_sign': lambda m, v: A(m['Ws'].copy()), 'modularity_probtune_und_sign': lambda m, v: A(m['Ws'].copy()),
        'core_periphery_dir': lambda m, v: A(m['Wd'].copy()), 'consensus_und': lambda m, v: A(m['P'].copy(), 0.3, reps=4),
        'rentian_scaling': lambda m, v: A(m['Ab'].copy(), m['xyz'].copy(), 5),
        'pick_four_unique_nodes_quickly': lambda m, v: A(5 + v),
        'nbs_bct': lambda m, v: A(m['x'].copy(), m['y'].copy(), 1.0, k=5),
        'nbs_parallel.nbs_bct': lambda m, v: A((m['x'] + m['x'].transpose(1, 0, 2)).copy(), (m['y'] + m['y'].transpose(1, 0, 2)).copy(), 1.0, k=6, workers=1),
        'generative_model': lambda m, v: A(np.zeros((8, 8)), m['D8'].copy(), 6, np.array([-1.0]), np.array([0.3]), model_type=gm[v % len(gm)]),
        'evaluate_generative_model': lambda m, v: A(np.zeros((8, 8)), m['A8'].copy(), m['D8'].copy(), np.array([-1.0]), np.array([0.3]), model_type=gm[v % 3]),
        'get_rng': None,
        'generate_fc': lambda m, v: A(m['Wu'].copy(), np.array([0.1] * 5)),
        'mleme_constraint_model': lambda m, v: A(2, m['Wd'].copy()),
    }
    out = {k: mk(P[k], fa) for k, fa in T.items() if k in P and fa is not None}
    if 'get_rng' in P:      # the hand-modelled function itself: observe the stream it hands out
        out['get_rng'] = lambda v: (lambda seed=None: P['get_rng'](seed).random_sample(3 + v))
    return out


def public_seeded():
    import bct, bct.nbs
    out = {}
    for ns, pre in ((bct, ''), (bct.nbs, '')):
        for nm in sorted(dir(ns)):
            f = getattr(ns, nm)
            if inspect.isfunction(f) and (f.__module__ or '').startswith('bct') and not nm.startswith('_'):
                try:
                    if 'seed' in inspect.signature(f).parameters:
                        out.setdefault(pre + nm, f)
                except (TypeError, ValueError):
                    pass
    try:
        import bct.nbs_parallel as npar
        if 'seed' in inspect.signature(npar.nbs_bct).parameters:
            out['nbs_parallel.nbs_bct'] = npar.nbs_bct
    except Exception:
        pass
    return out


def qname(f):
    return (f.__module__ or '')[4:] + '.' + f.__name__


def quiet(g, t, **kw):
    with contextlib.redirect_stdout(io.StringIO()):
        return canon(call(g, _t=t, **kw))


def exercise(ctx, name, f, g, v, s, static_ok, may_draw, t=8.0):
    """one (function, input variant, seed): clauses (a)-(e); returns 'ok' / reason not exercised"""
    case = {'function': name, 'variant': v, 'seed': s, 'args_kwargs': getattr(g, 'args', None)}
    try:
        set_world(1)
        rec = Rec(s if 0 <= s < 2 ** 32 else 0)
        st0 = rec.get_state()[1].tobytes(), rec.get_state()[2]
        r_rec = quiet(g, t, seed=rec) if 0 <= s < 2 ** 32 else None
        drew = (rec.get_state()[1].tobytes(), rec.get_state()[2]) != st0 or bool(rec.log)
    except Timeout:
        return 'timeout'
    except Exception as e:
        return '%s: %s' % (type(e).__name__, str(e)[:80])
    ctx.case(case, nontrivial=drew or r_rec is None)
    ctx.count('drew' if drew else 'no-draw')
    try:
        # (a)+(c): same int seed under two different prior histories of the global generators
        set_world(2); w = world(); r1 = quiet(g, t, seed=s)
        ctx.check(world() == w, name + ':global_untouched', 'seeded call (int seed) changed np.random / random global state', case)
        set_world(3); w = world(); r2 = quiet(g, t, seed=s)
        ctx.check(world() == w, name + ':global_untouched', 'seeded call (int seed) changed np.random / random global state', case)
        ctx.check(r1 == r2, name + ':same_seed_same_result', 'two calls with equal arguments and seed differ (prior global history differed)', case)
        if r_rec is not None:
            # (b)+(c): RandomState(seed) == int seed
            set_world(4); w = world(); r3 = quiet(g, t, seed=np.random.RandomState(s))
            ctx.check(world() == w, name + ':global_untouched', 'seeded call (RandomState) changed np.random / random global state', case)
            ctx.check(r1 == r3, name + ':int_vs_randomstate', 'integer seed and RandomState(seed) give different results', case)
            ctx.check(r_rec == r3, name + ':int_vs_randomstate', 'recording RandomState subclass and plain RandomState give different results', case)
        # (d): unseeded, after np.random.seed: function of the numpy global state only (Python's random differs between the runs)
        np.random.seed(s % 2 ** 32); random.seed(1); pw = random.getstate(); r4 = quiet(g, t)
        ctx.check(random.getstate() == pw, name + ':py_random_untouched', "unseeded call changed Python's random state", case)
        np.random.seed(s % 2 ** 32); random.seed(2); r5 = quiet(g, t)
        ctx.check(r4 == r5, name + ':unseeded_function_of_global', 'unseeded calls after np.random.seed(s) differ', case)
        # (e) static summary vs recorder
        if static_ok is not None:
            ctx.check(not drew or may_draw, name + ':summary_no_draw', 'static summary has no local draw but the recorder saw draws', case)
    except Timeout:
        return 'timeout'
    except Exception as e:
        ctx.fail(name + ':raises_after_first_run', 'a later call raised although the first succeeded: %s %s' % (type(e).__name__, str(e)[:80]), case)
    return 'ok'


def static_part(ctx):
    res = _RES or pregen()
    prog = dict(res['program']); full = dict(prog); full.update(res['excluded'])
    pyv = TE.py_verdicts(prog)
    out = run_model(ID, [TE.enc_program(prog), TE.enc_program(full)])
    ctx.model_cases += 2
    rejected = {}
    if is_err(out[0]) or is_err(out[1]):
        ctx.mismatch('extracted-checker', 'driver error %s' % (out,), {'n': len(prog)})
    else:
        for (q, _), ok in zip(prog.items(), out[0][1]):
            if (pyv[q] is None) != ok:
                ctx.mismatch('py_check-port', 'python diagnostic port and extracted Coq checker disagree on ' + q, {'function': q}, ok, pyv[q])
            if not ok:
                rejected[q] = pyv[q] or 'rejected by the Coq checker'
        for (q, _), ok in zip(full.items(), out[1][1]):
            if q in res['excluded'] and not ok:
                ctx.count('static:excluded_rejected')
    # fuzz the diagnostic port against the extracted checker (keeps the port honest; not part of the tie)
    r, lines, progs = ctx.rng, [], []
    names, vars_ = ['f', 'g', 'h'], ['a', 'b']
    def rnd(d):
        k = r.randint(0, 8 if d > 0 else 5)
        e = lambda: r.choice(['ESeed', ('EVar', r.choice(vars_)), 'ENone', 'EOther'])
        return [TE.SKIP, ('GetRng', r.choice(vars_), e()), ('DrawLocal', r.choice(vars_)), TE.NP, TE.PY, ('Call', r.choice(names + ['zz']), e())][k] if k < 6 else \
            ('Loop', rnd(d - 1)) if k == 8 else (('Seq', 'Choice')[k - 6], rnd(d - 1), rnd(d - 1))
    for _ in range(ctx.scale(300, 3000)):
        p = {q: (r.choice(['Seeded', 'Pure']), rnd(3)) for q in names}
        progs.append(p); lines.append(TE.enc_program(p))
    for p, o in zip(progs, run_model(ID, lines)):
        pv = TE.py_verdicts(p)
        if is_err(o) or [pv[q] is None for q in p] != o[1] or o[0] != all(o[1]):
            ctx.mismatch('py_check-port', 'fuzz: port and extracted checker disagree', {'program': {q: TE.coq(c) for q, (k, c) in p.items()}}, o, [pv[q] for q in p])
    ctx.model_cases += len(lines)
    ctx.extra.update({'programs': len(prog), 'seeded_roots': len(res['roots']), 'functions_scanned': res['n_functions_scanned'],
                      'statically_rejected': rejected, 'excluded_from_static_program': sorted(res['excluded']), 'static_out_of_model': STATIC_OUT_OF_MODEL,
                      'out_of_scope_no_seed_not_reachable': res['out_of_scope'], 'get_rng_as_modelled': res['get_rng_ok'], 'unmodelled_callables_with_effects': res['unmodelled'],
                      'gen_file': 'coq/theories/Gen/Effects.v (regenerated this run)'})
    return prog, full, rejected, res


def run(ctx):
    import bct
    prog, full, rejected, res = static_part(ctx)
    P = public_seeded()
    B = builders(bct, P)
    not_ex, partly, exercised = {}, {}, []
    missing_static = [n for n, f in P.items() if qname(f) not in full]
    for n in [x for x in missing_static if x != 'get_rng']:      # get_rng is modelled by hand
        ctx.mismatch('translator-scope', 'public seeded function %s (%s) is not in the translated program' % (n, qname(P[n])), {'function': n})
    suspects = {n for n, f in P.items() if qname(f) in rejected or any(c in rejected for c in TE.closure({q: c for q, (k, c) in full.items()}, [qname(f)]))}
    seeds_q = [7, 0, 2 ** 32 - 1]
    for name in sorted(P):
        f, q = P[name], qname(P[name])
        if name not in B:
            not_ex[name] = 'no argument builder'
            continue
        hot = name in suspects
        nv = ctx.scale(4, 8) + (4 if hot else 0)
        seeds = (seeds_q + [2 ** 32 - 1, 12345] if ctx.thorough or hot else seeds_q)
        static_ok = None if q not in full else (q in prog and q not in rejected)
        md = TE.may_draw({k: v for k, v in full.items()}, q)
        n_ok, why_not = 0, []
        for v in range(nv):
            try:
                g = B[name](v)
            except Exception as e:
                why_not.append('builder: %r' % e)
                break
            extra = [-1] if (v == 0 and (ctx.thorough or hot or name in FALLBACK_FNS)) else []
            for s in seeds + extra:
                why = exercise(ctx, name, f, g, v, s, static_ok, md, t=(10.0 if 'nbs' in name else 6.0))
                if why == 'ok':
                    n_ok += 1
                else:
                    why_not.append('variant %d seed %d: %s' % (v, s, why))
                    break
        if n_ok:
            exercised.append(name)
        if why_not:
            (partly if n_ok else not_ex)[name] = why_not[0] + (' (+%d more)' % (len(why_not) - 1) if len(why_not) > 1 else '')
        ctx.count('fn:' + name, n_ok)
    if ctx.thorough:       # independent re-check of the compiled property (and of everything it depends on) by coqchk
        rc, out = sh('timeout 900 coqchk -silent -o -R theories BCT BCT.Properties.C05', cwd=COQ)
        ctx.extra['coqchk'] = ' '.join(out.split())[-400:]
        if rc != 0 or 'Axioms: <none>' not in out:
            ctx.mismatch('coqchk', 'coqchk does not confirm an axiom-free Properties/C05.vo', {'rc': rc}, None, out[-500:])
    ctx.extra.update({'seeded_public_functions': len(P), 'exercised': exercised, 'not_exercised': not_ex, 'partly_not_exercised': partly, 'suspects_searched_harder': sorted(suspects)})


def replay(ctx, payload):
    import bct
    print(json.dumps(payload, indent=1)[:3000])
    c = payload.get('case', {})
    P = public_seeded()
    if payload.get('kind') == 'failing-input' and c.get('function') in P:
        B = builders(bct, P)
        static_part(ctx)
        why = exercise(ctx, c['function'], P[c['function']], B[c['function']](c['variant']), c['variant'], c['seed'], None, True)
        print('replay:', why, 'failures:', [(f['key'], f['what']) for f in ctx.oracle_fail], 'known:', list(ctx.known_hits))
        return 1 if ctx.oracle_fail else 0
    return 0
