"""C05 — seeded calls are reproducible and never touch the global random stream.

Shape (B): the tie between the Coq development and the code is the TRANSLATOR: on every run
harness/translate_effects.py abstracts the current <REPO>/bct tree to coq/theories/Gen/Effects.v
(`Example all_safe : prog_safe program = true`), which ./check recompiles together with the
soundness theorem (Properties/C05.v).  run(ctx) validates the abstraction dynamically on every
seed-accepting public function and searches for a concrete failing call."""
import io, sys, os, json, contextlib, inspect, random
from common import *
import translate_effects as TE
import c05_corpus as CORPUS

ID = 'C05'
COQ_FILES = ['Model/EffectLang.v', 'Proofs/EffectLang.v', 'Gen/Effects.v', 'Gen/EffectsNeg.v', 'Properties/C05.v']
THEOREMS = ['C05_seed_safe_sound', 'C05_bct_all_safe', 'C05_bct_get_rng_is_the_one_modelled', 'C05_bct_no_unmodelled_callables',
            'C05_bct_covers_every_seeded_function', 'C05_bct', 'C05_refines_reference', 'C05_nonvacuous', 'C05_substream_nonvacuous',
            'C05_stray_global_draw_refuted', 'C05_reseeding_refuted', 'C05_seed_not_forwarded_refuted', 'C05_nondeterminism_refuted',
            'C05_translator_corpus']
RULE = ('every public function of bct, bct.nbs, bct.nbs_parallel whose signature has `seed` x every OPTION SET of harness/c05_inputs.py (paired/unpaired/tails of nbs, '
        'workers 1 and 2, every objective of community_louvain, all 13 generative model types x 2 variants, wei_freq, hierarchy, initial partitions, D given, ...) '
        'x small valid inputs (n=7..10) x seeds {0,7,2**32-1,-1 (ValueError fallback)} x different prior histories of the global generators; per call: int seed twice, '
        'RandomState(seed), recording RandomState, unseeded twice; on the first option sets also seeds np.int64 / np.uint32 / tuple / np.random / str / float; a call '
        'that raises is an outcome like any other (compared, counted, never ends the search); every (function, option set, seed 7) is re-run in two fresh '
        'interpreters with different PYTHONHASHSEED and must reproduce the parent\'s result; non-trivial = the call consumed at least one draw from the recording '
        'RandomState; distinct by hash of (function, variant, options, seed). Static part: all functions reachable from a seed-accepting one are translated and '
        'checked in Coq; the negative corpus harness/c05_corpus.py is re-translated and must be rejected.')
ASSUMES = ['the translator (harness/translate_effects.py, whitelist-based, fail-closed) over-approximates the generator-related and environment-related effects of each Python function body: pinned by a negative corpus checked in Coq on every run and validated dynamically, not proved',
           'control flow, draw arguments and THE RESULT are a function of the call arguments and of the draws obtained (oracle `decide`); the syntactic sources of other nondeterminism (time, os, uuid, hash(), id(), np.empty, iteration over a set, rng.seed()) are flagged by the translator as NonDet and rejected; what no syntactic scan sees (C extensions, threads, BLAS reduction order) is covered by the cross-process re-run only',
           'a RandomState passed as seed is not numpy\'s global instance itself and exists in the heap (o < nxt st); the fallback RandomState(random.Random(seed).randint(0,2**32-1)) cannot raise',
           'seeds that get_rng cannot turn into a generator (str, float: TypeError) are outside the model (VInt never raises); tested: same exception every time, global generators untouched']
TRUSTED = ['harness/translate_effects.py (Python ast -> EffectLang; whitelist-based: every name / callee that is not classified — local value, pure builtin, member of a module known to be deterministic, bct function or class, module-level constant — becomes DrawNpGlobal/DrawPyGlobal/NonDet which the checker always rejects; pinned by the negative corpus harness/c05_corpus.py re-translated and re-checked in Coq on every run)',
           'the whitelist of deterministic modules in harness/translate_effects.py (PURE_MODULES, PURE_MEMBERS, PURE_BUILTINS) and its hand-vouched exceptions: ' + '; '.join('%s — %s' % kv for kv in sorted(TE.TRUSTED_PATHS.items())),
           'multiprocessing.Pool.map(f, tasks) is modelled as a sequential loop of calls f(task) in input order (order preservation of Pool.map and value-preserving pickling of the task tuples are trusted; validated on every run by workers=1 vs workers=2)',
           'hand-written Gallina model of bct.utils.get_rng (the translator compares a hash of the source with the version modelled and emits get_rng_as_modelled)',
           'ExtrOcamlString (stdlib) for the diagnostic extracted checker ocaml/drv_c05 (not part of the tie)']


# Functions declared outside the static model whatever the state of the code: none.  (nbs_parallel.nbs_bct used to be here; its
# Pool.map over task tuples is now translated: a loop of calls of the task function, each seeded by a number drawn from the rng —
# sexp EDrawn, sub-stream rule of the checker.)
STATIC_OUT_OF_MODEL = {}


def _exclusions():
    ex = set(STATIC_OUT_OF_MODEL)
    for f in load_findings():
        if f.get('property') == ID and f.get('status') == 'open':
            ex |= set(f.get('static_exclude', []))
    return tuple(sorted(ex))


_RES = None
FALLBACK_FNS = ('get_rng', 'randmio_und', 'makerandCIJ_und', 'modularity_louvain_und', 'pick_four_unique_nodes_quickly')


def pregen():
    """regenerate coq/theories/Gen/Effects.v from the CURRENT source tree (called by ./check setup and at import)"""
    global _RES
    _RES = TE.generate(REPO, VERIF, _exclusions(), CORPUS)
    return _RES


pregen()      # ./check imports this module before it builds the Coq files


# ---------------------------------------------------------------------------------------------- dynamic part
from c05_inputs import canon, digest, outcome, mats, builders, public_seeded, seed_of      # noqa: E402


def world():
    return (np.random.get_state()[1].tobytes(), np.random.get_state()[2:], random.getstate())


def set_world(h):
    """a prior history of the global generators"""
    np.random.seed(1000 + h)
    random.seed(77 + h)
    np.random.rand(h % 5)
    for _ in range(h % 3):
        random.random()


def qname(f):
    return (f.__module__ or '')[4:] + '.' + f.__name__


def raised(r):
    return isinstance(r, tuple) and len(r) == 2 and r[0] == 'raised'


def exercise(ctx, name, g, v, s, static_ok, may_draw, t=8.0):
    """one (function, input variant + option set, seed): clauses (a)-(e).  An exception is an outcome like any other: it must be the
    same outcome in every run that the property says is equal, and the global generators must be left alone by it.
    -> (status, canonical result of the int-seeded call)"""
    case = {'function': name, 'variant': v, 'options': g.label, 'seed': s, 'args_kwargs': getattr(g, 'args', None)}
    try:
        set_world(1)
        rec = Rec(s if 0 <= s < 2 ** 32 else 0)
        st0 = rec.get_state()[1].tobytes(), rec.get_state()[2]
        r_rec = outcome(g, t, seed=rec) if 0 <= s < 2 ** 32 else None
        drew = (rec.get_state()[1].tobytes(), rec.get_state()[2]) != st0 or bool(rec.log)
    except Timeout:
        return 'timeout', None
    ctx.case(case, nontrivial=drew or r_rec is None)
    ctx.count('drew' if drew else 'no-draw')
    try:
        # (a)+(c): same int seed under two different prior histories of the global generators
        set_world(2); w = world(); r1 = outcome(g, t, seed=s)
        ctx.check(world() == w, name + ':global_untouched', 'seeded call (int seed) changed np.random / random global state', case)
        set_world(3); w = world(); r2 = outcome(g, t, seed=s)
        ctx.check(world() == w, name + ':global_untouched', 'seeded call (int seed) changed np.random / random global state', case)
        ctx.check(r1 == r2, name + ':same_seed_same_result', 'two calls with equal arguments and seed differ (prior global history differed)', case)
        if r_rec is not None:
            # (b)+(c): RandomState(seed) == int seed
            set_world(4); w = world(); r3 = outcome(g, t, seed=np.random.RandomState(s))
            ctx.check(world() == w, name + ':global_untouched', 'seeded call (RandomState) changed np.random / random global state', case)
            ctx.check(r1 == r3, name + ':int_vs_randomstate', 'integer seed and RandomState(seed) give different results', case)
            ctx.check(r_rec == r3, name + ':int_vs_randomstate', 'recording RandomState subclass and plain RandomState give different results', case)
        # (d): unseeded, after np.random.seed: function of the numpy global state only (Python's random differs between the runs)
        np.random.seed(s % 2 ** 32); random.seed(1); pw = random.getstate(); r4 = outcome(g, t)
        ctx.check(random.getstate() == pw, name + ':py_random_untouched', "unseeded call changed Python's random state", case)
        np.random.seed(s % 2 ** 32); random.seed(2); r5 = outcome(g, t)
        ctx.check(r4 == r5, name + ':unseeded_function_of_global', 'unseeded calls after np.random.seed(s) differ', case)
        # (e) static summary vs recorder
        if static_ok is not None:
            ctx.check(not drew or may_draw, name + ':summary_no_draw', 'static summary has no local draw but the recorder saw draws', case)
    except Timeout:
        return 'timeout', None
    if raised(r1):
        ctx.count('outcome:raised:' + r1[1])
        return 'raised ' + r1[1], r1
    return 'ok', r1


def seed_kinds(ctx, name, g, v, s, r_int, t):
    """other kinds of seed for the same call: numpy integer scalars (== the int), a sequence (what RandomState accepts), the module
    np.random itself (get_rng: the global generator), kinds get_rng cannot turn into a generator (the same exception every time)"""
    case = {'function': name, 'variant': v, 'options': g.label, 'seed': s, 'args_kwargs': getattr(g, 'args', None)}
    try:
        for mk, lab in ((np.int64, 'np.int64'), (np.uint32, 'np.uint32')):
            set_world(5); w = world(); r = outcome(g, t, seed=mk(s))
            ctx.check(world() == w, name + ':global_untouched', 'seeded call (%s seed) changed np.random / random global state' % lab, case)
            ctx.check(r == r_int, name + ':numpy_integer_seed', 'seed %s(%d) and seed %d give different results' % (lab, s, s), case)
            ctx.count('seedkind:' + lab)
        tup = (s, 11)
        set_world(6); w = world(); ra = outcome(g, t, seed=tup)
        ctx.check(world() == w, name + ':global_untouched', 'seeded call (tuple seed) changed np.random / random global state', case)
        set_world(7); rb = outcome(g, t, seed=tup); rc = outcome(g, t, seed=np.random.RandomState(tup))
        ctx.check(ra == rb, name + ':same_seed_same_result', 'two calls with equal arguments and tuple seed %r differ' % (tup,), case)
        ctx.check(ra == rc, name + ':int_vs_randomstate', 'tuple seed %r and RandomState(%r) give different results' % (tup, tup), case)
        ctx.count('seedkind:tuple')
        np.random.seed(s % 2 ** 32); rm = outcome(g, t, seed=np.random)
        np.random.seed(s % 2 ** 32); ru = outcome(g, t)
        ctx.check(rm == ru, name + ':np_random_module_is_global', 'seed=np.random does not behave like the unseeded call', case)
        ctx.count('seedkind:np.random')
        for bad in ('abc', 1.5):
            set_world(8); w = world(); r6 = outcome(g, t, seed=bad)
            ctx.check(world() == w, name + ':global_untouched', 'call with seed %r changed np.random / random global state' % (bad,), case)
            set_world(9); r7 = outcome(g, t, seed=bad)
            ctx.check(r6 == r7, name + ':same_seed_same_result', 'two calls with seed %r differ' % (bad,), case)
            ctx.count('seedkind:%s:%s' % (type(bad).__name__, r6[1] if raised(r6) else 'accepted'))
    except Timeout:
        return 'timeout'
    return 'ok'


class CrossProcess:
    """the same (function, options, seed) in two FRESH interpreters with different PYTHONHASHSEED (and so different hash order of str
    keys, different addresses) must give the digests the parent computed: clause "identical results for identical arguments and
    seed" across processes"""
    HASHSEEDS = ('1', '4242')

    def __init__(self, jobs):
        import subprocess, tempfile
        self.jobs, self.procs = jobs, []
        self.dir = tempfile.mkdtemp(prefix='c05xp_')
        inp = os.path.join(self.dir, 'jobs.json')
        json.dump(jobs, open(inp, 'w'))
        for hs in self.HASHSEEDS:
            out = os.path.join(self.dir, 'out_%s.json' % hs)
            env = dict(os.environ, PYTHONHASHSEED=hs, VERIF_REPO=REPO)
            p = subprocess.Popen([sys.executable, os.path.join(VERIF, 'harness', 'c05_inputs.py'), 'child'], stdin=open(inp), stdout=open(out, 'w'),
                                 stderr=subprocess.PIPE, env=env)
            self.procs.append((hs, p, out))

    def collect(self, ctx, parent):
        import shutil
        res = {}
        for hs, p, out in self.procs:
            try:
                _, err = p.communicate(timeout=600)
                res[hs] = json.load(open(out))['digests']
            except Exception as e:
                ctx.errors.append('cross-process child (PYTHONHASHSEED=%s) failed: %r %s' % (hs, e, (locals().get('err') or b'')[-400:]))
        shutil.rmtree(self.dir, ignore_errors=True)
        n = 0
        for name, v, spec, t in self.jobs:
            key = '%s|%d|%s' % (name, v, json.dumps(spec))
            ds = {hs: r.get(key) for hs, r in res.items()}
            ds['parent'] = parent.get(key)
            vals = {d for d in ds.values() if d is not None and d != 'timeout'}
            if len(vals) > 1:
                ctx.fail(name + ':cross_process_same_result', 'the same call (equal arguments and seed) gives different results in different interpreter '
                         'processes (PYTHONHASHSEED %s / parent): %s' % ('/'.join(self.HASHSEEDS), ds), {'function': name, 'variant': v, 'seed': spec})
            n += len(vals) >= 1 and len([d for d in ds.values() if d is not None and d != 'timeout']) >= 2
        ctx.count('cross_process_compared', n)
        ctx.extra['cross_process'] = {'jobs': len(self.jobs), 'compared': n, 'hashseeds': list(self.HASHSEEDS) + ['parent (%s)' % os.environ.get('PYTHONHASHSEED')]}


def static_part(ctx):
    res = _RES or pregen()
    prog = dict(res['program']); full = dict(prog); full.update(res['excluded'])
    pyv = TE.py_verdicts(prog)
    out = run_model(ID, [TE.enc_program(prog), TE.enc_program(full)])
    ctx.model_cases += 2
    rejected = {}
    if is_err(out[0]) or is_err(out[1]):
        ctx.mismatch('extracted-checker', 'driver error %s' % (out,), {'n': len(prog)})
    else:
        for (q, _), ok in zip(prog.items(), out[0][1]):
            if (pyv[q] is None) != ok:
                ctx.mismatch('py_check-port', 'python diagnostic port and extracted Coq checker disagree on ' + q, {'function': q}, ok, pyv[q])
            if not ok:
                rejected[q] = pyv[q] or 'rejected by the Coq checker'
        for (q, _), ok in zip(full.items(), out[1][1]):
            if q in res['excluded'] and not ok:
                ctx.count('static:excluded_rejected')
    # fuzz the diagnostic port against the extracted checker (keeps the port honest; not part of the tie)
    r, lines, progs = ctx.rng, [], []
    names, vars_ = ['f', 'g', 'h'], ['a', 'b']
    def rnd(d):
        e = lambda: r.choice(['ESeed', ('EVar', r.choice(vars_)), 'ENone', 'EOther', ('EDrawn', r.choice(vars_)), 'EComputed'])
        leaves = [lambda: TE.SKIP, lambda: ('GetRng', r.choice(vars_), e()), lambda: ('DrawLocal', r.choice(vars_)), lambda: TE.NP, lambda: TE.PY,
                  lambda: TE.ND, lambda: ('Call', r.choice(names + ['zz']), e())]
        k = r.randint(0, 9 if d > 0 else 6)
        if k <= 6:
            return leaves[k]()
        return ('Loop', rnd(d - 1)) if k == 9 else (('Seq', 'Choice')[k - 7], rnd(d - 1), rnd(d - 1))
    for _ in range(ctx.scale(300, 3000)):
        p = {q: (r.choice(['Seeded', 'Pure']), rnd(3)) for q in names}
        progs.append(p); lines.append(TE.enc_program(p))
    for p, o in zip(progs, run_model(ID, lines)):
        pv = TE.py_verdicts(p)
        if is_err(o) or [pv[q] is None for q in p] != o[1] or o[0] != all(o[1]):
            ctx.mismatch('py_check-port', 'fuzz: port and extracted checker disagree', {'program': {q: TE.coq(c) for q, (k, c) in p.items()}}, o, [pv[q] for q in p])
    ctx.model_cases += len(lines)
    ctx.extra.update({'programs': len(prog), 'seeded_roots': len(res['roots']), 'functions_scanned': res['n_functions_scanned'],
                      'statically_rejected': rejected, 'excluded_from_static_program': sorted(res['excluded']), 'static_out_of_model': STATIC_OUT_OF_MODEL,
                      'out_of_scope_no_seed_not_reachable': {q: (res.get('why', {}).get(q) or ['uses np.random / random directly'])[0] for q in res['out_of_scope']}, 'get_rng_as_modelled': res['get_rng_ok'], 'unmodelled_callables_with_effects': res['unmodelled'],
                      'gen_file': 'coq/theories/Gen/Effects.v (regenerated this run)'})
    return prog, full, rejected, res


# input-representation layer of common.py: off.  Every clause of C05 compares the results of several calls with EQUAL arguments
# (same seed same result, seed kinds, other process) byte for byte, dtype included; a representation chosen per call would make
# equal calls unequal.
VARIANTS_OFF = True
VARIANTS_OFF_WHY = 'C05 compares calls with equal arguments byte for byte (dtype included), also across processes'


def run(ctx):
    import bct
    prog, full, rejected, res = static_part(ctx)
    P = public_seeded()
    B = builders(P)
    not_ex, partly, exercised, outcomes = {}, {}, [], {}
    missing_static = [n for n, f in P.items() if qname(f) not in full]
    for n in [x for x in missing_static if x != 'get_rng']:      # get_rng is modelled by hand
        ctx.mismatch('translator-scope', 'public seeded function %s (%s) is not in the translated program' % (n, qname(P[n])), {'function': n})
    suspects = {n for n, f in P.items() if qname(f) in rejected or any(c in rejected for c in TE.closure({q: c for q, (k, c) in full.items()}, [qname(f)]))}
    seeds_q = [0, 7, 2 ** 32 - 1]
    # cross-process re-run: every function x every option set x seed 7, + seed 0 / a tuple seed on the first option set
    jobs = []
    for name in sorted(B):
        nc, tt = B[name][0], (10.0 if 'nbs' in name else 6.0)
        jobs += [[name, v, 7, tt] for v in range(nc)] + [[name, 0, 0, tt], [name, 0, ['tuple', [7, 11]], tt], [name, 0, ['np.int64', 7], tt]]
    xp = CrossProcess(jobs)
    parent = {}
    for name in sorted(P):
        f, q = P[name], qname(P[name])
        if name not in B:
            not_ex[name] = 'no argument builder'
            continue
        ncfg, at = B[name]
        hot = name in suspects
        nv = max(ctx.scale(4, 8), ncfg) + (4 if hot else 0)                 # every option set at least once
        seeds = seeds_q + [12345] + ([2, 3, 5, 11] if hot else []) if ctx.thorough or hot else seeds_q
        static_ok = None if q not in full else (q in prog and q not in rejected)
        md = TE.may_draw({k: v for k, v in full.items()}, q)
        tt = 10.0 if 'nbs' in name else 6.0
        n_ok, why_not, groups = 0, [], {}
        for v in range(nv):
            try:
                g = at(v)
            except Exception as e:
                why_not.append('builder: %r' % e)
                continue
            extra = [-1] if (v == 0 and (ctx.thorough or hot or name in FALLBACK_FNS)) else []
            for s in seeds + extra:
                why, r1 = exercise(ctx, name, g, v, s, static_ok, md, t=tt)
                if why == 'ok':
                    n_ok += 1
                else:                                                       # counted, and the other seeds / option sets still run
                    why_not.append('variant %d (%s) seed %d: %s' % (v, g.label, s, why))
                    outcomes[why.split()[0]] = outcomes.get(why.split()[0], 0) + 1
                if r1 is None:
                    continue
                if v < ncfg and s in (0, 7):
                    parent['%s|%d|%s' % (name, v, json.dumps(s))] = digest(r1)
                if g.group is not None:       # option sets that must not matter (number of worker processes)
                    k = (g.group, g.mv, s)
                    if k in groups:
                        ctx.check(groups[k][0] == r1, name + ':workers_independent', 'options %s and %s give different results for the same input and seed'
                                  % (groups[k][1], g.label), {'function': name, 'variant': v, 'options': g.label, 'seed': s, 'args_kwargs': g.args})
                        ctx.count('option-pairs compared')
                    groups.setdefault(k, (r1, g.label))
                if v < min(ncfg, ctx.scale(2, 4)) and s == 7:
                    if seed_kinds(ctx, name, g, v, s, r1, tt) != 'ok':
                        why_not.append('variant %d (%s): timeout in the seed-kind clauses' % (v, g.label))
                    elif v == 0:
                        for spec in (['tuple', [7, 11]], ['np.int64', 7]):
                            parent['%s|%d|%s' % (name, 0, json.dumps(spec))] = digest(outcome(g, tt, seed=seed_of(spec)))
        if n_ok:
            exercised.append(name)
        if why_not:
            (partly if n_ok else not_ex)[name] = '%d of %d (option set, seed) pairs did not return normally; first: %s' % (len(why_not), len(why_not) + n_ok, why_not[0])
        ctx.count('fn:' + name, n_ok)
        ctx.count('option_sets:' + name, ncfg)
    xp.collect(ctx, parent)
    if ctx.thorough:       # independent re-check of the compiled property (and of everything it depends on) by coqchk
        rc, out = sh('timeout 900 coqchk -silent -o -R theories BCT BCT.Properties.C05', cwd=COQ)
        ctx.extra['coqchk'] = ' '.join(out.split())[-400:]
        if rc != 0 or 'Axioms: <none>' not in out:
            ctx.mismatch('coqchk', 'coqchk does not confirm an axiom-free Properties/C05.vo', {'rc': rc}, None, out[-500:])
    ctx.extra.update({'seeded_public_functions': len(P), 'exercised': exercised, 'not_exercised': not_ex, 'partly_not_exercised': partly,
                      'calls_that_did_not_return_normally': outcomes, 'suspects_searched_harder': sorted(suspects)})


def replay(ctx, payload):
    import bct
    print(json.dumps(payload, indent=1)[:3000])
    c = payload.get('case', {})
    P = public_seeded()
    if payload.get('kind') == 'failing-input' and c.get('function') in P and isinstance(c.get('seed'), int):
        B = builders(P)
        static_part(ctx)
        g = B[c['function']][1](c['variant'])
        why, r1 = exercise(ctx, c['function'], g, c['variant'], c['seed'], None, True)
        if r1 is not None:
            seed_kinds(ctx, c['function'], g, c['variant'], c['seed'], r1, 10.0)
            for v2 in range(B[c['function']][0]):       # option sets of the same group (workers)
                g2 = B[c['function']][1](v2)
                if g.group is not None and g2.group == g.group and g2.mv == g.mv and g2.label != g.label:
                    ctx.check(outcome(g2, 10.0, seed=c['seed']) == r1, c['function'] + ':workers_independent', 'options differ', c)
            xp = CrossProcess([[c['function'], c['variant'], c['seed'], 10.0]])
            xp.collect(ctx, {'%s|%d|%s' % (c['function'], c['variant'], json.dumps(c['seed'])): digest(r1)})
        print('replay:', why, 'failures:', [(f['key'], f['what']) for f in ctx.oracle_fail], 'known:', list(ctx.known_hits))
        return 1 if ctx.oracle_fail else 0
    return 0
