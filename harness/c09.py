"""C09 — clustering coefficients and transitivity equal their triangle definitions."""
import itertools
from fractions import Fraction as F
import numpy as np
from common import *

ID = 'C09'
COQ_FILES = ['Base/Mat.v', 'Base/SumQ.v', 'Model/Clustering.v', 'Proofs/ClusteringSpec.v', 'Proofs/Clustering.v',
             'Proofs/ClusteringRange.v', 'Proofs/ClusteringSign.v', 'Proofs/ClusteringCount.v', 'Proofs/ClusteringSelfloop.v', 'Properties/C09.v']
THEOREMS = ['C09_diag_cube_is_triples', 'C09_cbrt_laws', 'C09_cbrt_mul', 'C09_cc_bu_def', 'C09_cc_bd_fagiolo', 'C09_cc_wu_onnela',
            'C09_cc_wd_def', 'C09_cc_wu_sign_def', 'C09_cc_zhang_def', 'C09_cc_costantini_def',
            'C09_trans_bu_def', 'C09_trans_bd_def', 'C09_trans_wu_def', 'C09_trans_wd_def',
            'C09_no_triangle_zero', 'C09_deg_lt2_zero',
            'C09_range_01_bu', 'C09_range_01_bd', 'C09_range_01_wu', 'C09_range_01_wd', 'C09_range_01_wu_sign',
            'C09_range_01_trans', 'C09_no_division_by_zero',
            'C09_cuberoot_is_cube_root', 'C09_cuberoot_odd', 'C09_wu_sign_code', 'C09_wu_sign_no_triangle_zero',
            'C09_wu_sign_deg_lt2_zero', 'C09_range_01_zhang', 'C09_range_costantini', 'C09_no_division_by_zero_sign',
            'C09_tri_dir_counts', 'C09_cc_bd_counting', 'C09_tri_dir_weighted_enumeration', 'C09_deg_lt2_zero_any_diagonal']
RULE = ('all undirected 0/1 graphs n<=4 (quick) / n<=5 (thorough) and all digraphs n<=3 / n<=4 with empty diagonal; '
        'all weighted graphs n=3 (und. 4 weight values; directed 3 values) and n=4 (und., 3 values; every 5th in quick), random weighted graphs n<=8 (undirected, directed, signed) with weights m^3/512, m in 1..8, so that the cube root is exact; '
        'NEGATIVE weights fed straight into clustering_coef_wu/wd and transitivity_wu/wd (random + every sign pattern on K3 and K4-e), '
        'tiny cube weights (m/N)^3 with N up to 50 (triangle intensities far below 1e-4), MIXED magnitudes in one matrix (cubes 2^-30, 27*2^-30, 2^-39 next to m^3/512; non-cube 3*2^-32 next to k/64 with the float oracle; every graph on 3 nodes over {0, 2^-30, 1}), weights that are NOT cubes (float oracle with np.cbrt, 1e-9, no model run); '
        'bct.utils.cuberoot itself on +-m^3/N^3; families without triangles (paths, stars, even rings, bipartite, trees), graphs with isolated nodes, complete graphs, '
        'integer-dtype arrays (per-node routines, the four transitivities, wu_sign on -1/0/1), the empty graph n=0, coef_type spellings '
        "'Zhang' / 'Costantini' and unknown strings (fall-through: None); non-trivial = at least one node lies on a triangle; distinct by hash of (function, matrix)")
ASSUMES = ['weights are perfect cubes (m/N)^3: the exact cube root used by the extracted model (the code\'s sign/abs decomposition around the integer cube '
           'root of numerator and denominator) is the true cube root; values through cube roots / quotients are compared with tolerance 1e-9',
           'with non-cube weights only the implementation is compared (float oracle); with negative weights the [0,1] range clause is replaced by [-1,1]',
           'empty diagonal (the property\'s domain); clustering_coef_wu_sign is also fed nonzero diagonals because it clears them itself; '
           'outside the domain, 0/1 matrices WITH self-connections are fed to the per-node routines for the one clause proved there '
           '(C09_deg_lt2_zero_any_diagonal: at most one neighbour, the node itself counted -> exactly 0; all values finite)']
TRUSTED = ['cbrt is a Section variable in the proofs (hypothesis: a cube root of the entries at hand; 0, 1, odd, monotone, multiplicative are derived); '
           'the extracted model is run with cuberoot(cbrt_exact) = sign(x) * exact root of |x|, which satisfies it only on quotients of perfect cubes (the generated weights)']

TOL = 1e-9


# ----------------------------------------------------------------------------- generators
def all_und(n):
    pairs = [(i, j) for i in range(n) for j in range(i + 1, n)]
    for bits in itertools.product((0, 1), repeat=len(pairs)):
        A = [[0] * n for _ in range(n)]
        for (i, j), b in zip(pairs, bits):
            A[i][j] = A[j][i] = b
        yield A


def all_dir(n):
    cells = [(i, j) for i in range(n) for j in range(n) if i != j]
    for bits in itertools.product((0, 1), repeat=len(cells)):
        A = [[0] * n for _ in range(n)]
        for (i, j), b in zip(cells, bits):
            A[i][j] = b
        yield A


def cube_w(r):
    m = int(r.randint(1, 9))
    return F(m ** 3, 512)


def tiny_cube_w(r):
    """perfect cubes far below 1/512 (m/N)^3, N up to 50: triangles whose intensity is tiny but not zero"""
    N = int(r.choice([10, 20, 50])); m = int(r.randint(1, 4))
    return F(m ** 3, N ** 3)


TINY_CUBES = [F(1, 2 ** 30), F(27, 2 ** 30), F(1, 2 ** 39)]        # (2^-10)^3, (3*2^-10)^3, (2^-13)^3: all far below 1e-8, exact in binary64


def mixed_cube_w(r):
    """mixed magnitudes in ONE matrix: links weaker than 1e-8 next to ordinary ones (all perfect cubes: exact model)"""
    return TINY_CUBES[int(r.randint(0, 3))] if r.rand() < 0.4 else cube_w(r)


def mixed_noncube_w(r):
    """the same with weights that are not cubes (float oracle only): 3*2^-32, 5*2^-41 next to k/64"""
    return [F(3, 2 ** 32), F(5, 2 ** 41), F(1, 2 ** 27)][int(r.randint(0, 3))] if r.rand() < 0.4 else F(int(r.randint(1, 64)), 64)


def noncube_w(r):
    """weights whose cube root is irrational: only the float oracle applies (tolerance 1e-9), no model run"""
    return F(int(r.randint(1, 64)), 64) if r.rand() < 0.7 else F(int(r.randint(1, 1000)), 1000)


def flip_signs(r, W, p=0.4, symmetric=True):
    n = len(W)
    W = [row[:] for row in W]
    for i in range(n):
        for j in range(i + 1 if symmetric else 0, n):
            if i != j and r.rand() < p:
                W[i][j] = -W[i][j]
                if symmetric:
                    W[j][i] = -W[j][i]
    return W


def fo_und(W):
    """float oracle (Onnela), independent cube root np.cbrt: (C vector, transitivity or None)"""
    n = len(W); A = npm(W); c = np.cbrt(A)
    C, st, sT = [], 0.0, 0.0
    for i in range(n):
        nb = [v for v in range(n) if v != i and A[i, v] != 0]
        t = sum(c[i, j] * c[j, k] * c[k, i] for j in nb for k in nb if j != k)
        T = len(nb) * (len(nb) - 1)
        st += t; sT += T
        C.append(0.0 if (T == 0 or not any(A[j, k] != 0 for j in nb for k in nb if j != k)) else t / T)
    return C, (st / sT if sT else None)


def fo_dir(W):
    """float oracle (Fagiolo weighted)"""
    n = len(W); A = npm(W); c = np.cbrt(A); a = (A != 0).astype(float)
    C, st, sT = [], 0.0, 0.0
    for i in range(n):
        t = 0.0; has = False
        for j in range(n):
            for k in range(j + 1, n):
                if i != j and i != k:
                    x = (c[i, j] + c[j, i]) * (c[j, k] + c[k, j]) * (c[k, i] + c[i, k])
                    t += x
                    has = has or ((a[i, j] + a[j, i]) * (a[j, k] + a[k, j]) * (a[k, i] + a[i, k]) != 0)
        dtot = sum(a[i, j] + a[j, i] for j in range(n) if j != i)
        dbi = sum(a[i, j] * a[j, i] for j in range(n) if j != i)
        T = dtot * (dtot - 1) - 2 * dbi
        st += t; sT += T
        C.append(t / T if has else 0.0)
    return C, (st / sT if sT else None)


def rand_und(r, n, dens, weight=None, signed=False):
    W = [[F(0)] * n for _ in range(n)]
    for i in range(n):
        for j in range(i + 1, n):
            if r.rand() < dens:
                w = weight(r) if weight else F(1)
                if signed and r.rand() < 0.4:
                    w = -w
                W[i][j] = W[j][i] = w
    return W


def rand_dir(r, n, dens, weight=None, recip=0.3):
    W = [[F(0)] * n for _ in range(n)]
    for i in range(n):
        for j in range(n):
            if i != j and r.rand() < dens:
                W[i][j] = weight(r) if weight else F(1)
    for i in range(n):
        for j in range(n):
            if i != j and W[i][j] != 0 and W[j][i] == 0 and r.rand() < recip:
                W[j][i] = weight(r) if weight else F(1)
    return W


def triangle_free(r, n, weight=None):
    """paths, stars, even rings, complete bipartite, random trees"""
    W = [[F(0)] * n for _ in range(n)]
    kind = int(r.randint(0, 5))
    edges = []
    if kind == 0:
        edges = [(i, i + 1) for i in range(n - 1)]
    elif kind == 1:
        edges = [(0, i) for i in range(1, n)]
    elif kind == 2 and n >= 4:
        m = n - n % 2
        edges = [(i, (i + 1) % m) for i in range(m)]
    elif kind == 3:
        a = max(1, n // 2)
        edges = [(i, j) for i in range(a) for j in range(a, n)]
    else:
        edges = [(int(r.randint(0, i)), i) for i in range(1, n)]
    for i, j in edges:
        w = weight(r) if weight else F(1)
        W[i][j] = W[j][i] = w
    return W, ('path', 'star', 'ring', 'bipartite', 'tree')[kind]


def isolate(r, W):
    n = len(W)
    if n:
        v = int(r.randint(0, n))
        for j in range(n):
            W[v][j] = W[j][v] = F(0)
    return W


def npm(W, dtype=float):
    n = len(W)
    return np.array([[float(x) for x in row] for row in W], dtype=float).reshape(n, n).astype(dtype)


def strs(W):
    return [[str(F(x)) for x in row] for row in W]


# ----------------------------------------------------------------------------- oracles (exact, O(n^3) enumeration)
def icbrt(m):
    r = int(round(abs(m) ** (1.0 / 3)))
    for c in (r - 1, r, r + 1):
        if c >= 0 and c ** 3 == abs(m):
            return c if m >= 0 else -c
    raise ValueError('not a perfect cube: %r' % m)


def cbrtF(x):
    x = F(x)
    return F(icbrt(x.numerator), icbrt(x.denominator))


def o_cc_bu(A):
    """fraction of a node's neighbour pairs that are themselves connected"""
    n = len(A)
    C = []
    for u in range(n):
        nb = [v for v in range(n) if v != u and A[u][v] != 0]
        k = len(nb)
        if k < 2:
            C.append(F(0)); continue
        linked = sum(1 for a, b in itertools.combinations(nb, 2) if A[a][b] != 0)
        C.append(F(linked, k * (k - 1) // 2))
    return C


def o_dir_parts(W, weighted):
    """Fagiolo: per node (number / total intensity of directed triangles, number of possible ones)"""
    n = len(W)
    a = [[1 if W[i][j] != 0 else 0 for j in range(n)] for i in range(n)]
    c = [[cbrtF(W[i][j]) for j in range(n)] for i in range(n)] if weighted else a
    t, T = [], []
    for i in range(n):
        s = F(0)
        for j in range(n):
            for k in range(j + 1, n):
                if i != j and i != k:
                    # the 8 candidate triangles on {i,j,k}: one arc per side, either direction
                    s += (c[i][j] + c[j][i]) * (c[j][k] + c[k][j]) * (c[k][i] + c[i][k])
        dtot = sum(a[i][j] + a[j][i] for j in range(n) if j != i)
        dbi = sum(a[i][j] * a[j][i] for j in range(n) if j != i)
        t.append(s); T.append(dtot * (dtot - 1) - 2 * dbi)
    return t, T


def o_cc_dir(W, weighted):
    t, T = o_dir_parts(W, weighted)
    return [F(0) if ti == 0 else F(ti) / Ti for ti, Ti in zip(t, T)]


def o_und_parts(W):
    """Onnela: per node (sum over ordered pairs of distinct neighbours of the triangle intensity, k(k-1))"""
    n = len(W)
    t, T = [], []
    for i in range(n):
        nb = [v for v in range(n) if v != i and W[i][v] != 0]
        s = F(0)
        for j in nb:
            for k in nb:
                if j != k and W[j][k] != 0:
                    s += cbrtF(W[i][j] * W[j][k] * W[k][i])
        t.append(s); T.append(len(nb) * (len(nb) - 1))
    return t, T


def o_cc_wu(W):
    t, T = o_und_parts(W)
    return [F(0) if (Ti == 0 or ti == 0) else ti / Ti for ti, Ti in zip(t, T)]


def parts(W):
    n = len(W)
    Z = [[(F(0) if i == j else F(W[i][j])) for j in range(n)] for i in range(n)]
    P = [[(x if x > 0 else F(0)) for x in row] for row in Z]
    N = [[(-x if x < 0 else F(0)) for x in row] for row in Z]
    return Z, P, N


def o_zhang(W):
    """Zhang & Horvath: sum_{j,q} w_ij w_iq w_jq / ((sum_j w_ij)^2 - sum_j w_ij^2)"""
    n = len(W)
    C = []
    for i in range(n):
        num = sum(W[i][j] * W[i][q] * W[j][q] for j in range(n) for q in range(n))
        den = sum(W[i][j] for j in range(n)) ** 2 - sum(W[i][j] ** 2 for j in range(n))
        C.append(F(0) if num == 0 else (F(num) / den if den != 0 else None))
    return C


def o_costantini(W):
    n = len(W)
    C = []
    for i in range(n):
        num = sum(W[i][j] * W[i][q] * W[j][q] for j in range(n) for q in range(n))
        den = sum(abs(W[i][j] * W[i][q]) for j in range(n) for q in range(n) if j != q)
        C.append(F(0) if num == 0 else (F(num) / den if den != 0 else None))
    return C


def o_trans_bu(A):
    """3 * triangles / connected triples"""
    n = len(A)
    tri = sum(1 for i, j, k in itertools.combinations(range(n), 3) if A[i][j] != 0 and A[j][k] != 0 and A[i][k] != 0)
    trip = 0
    for i in range(n):
        k = sum(1 for v in range(n) if v != i and A[i][v] != 0)
        trip += k * (k - 1) // 2
    return F(3 * tri, trip) if trip else None


def o_trans_sum(t, T):
    return F(sum(t)) / sum(T) if sum(T) != 0 else None


def vec_close(exact, got, tol=TOL):
    got = np.asarray(got, dtype=float).ravel()
    if len(exact) != len(got):
        return False
    return all(frac_close(e, g, tol) for e, g in zip(exact, got))


def sc_close(exact, got, tol=TOL):
    got = float(got)
    if exact is None:
        return not np.isfinite(got)
    return bool(np.isfinite(got)) and abs(float(exact) - got) <= tol * max(1.0, abs(float(exact)))


def on_triangle(W):
    """nodes that lie on at least one (undirected-sense) triangle of the support"""
    n = len(W)
    adj = [[(W[i][j] != 0 or W[j][i] != 0) and i != j for j in range(n)] for i in range(n)]
    return [any(adj[i][j] and adj[j][k] and adj[k][i] for j in range(n) for k in range(n)) for i in range(n)]


def n_neigh(W):
    n = len(W)
    return [sum(1 for j in range(n) if j != i and (W[i][j] != 0 or W[j][i] != 0)) for i in range(n)]


# ----------------------------------------------------------------------------- the check
class Bag:
    def __init__(self, ctx, bct):
        self.ctx, self.bct, self.lines, self.pend = ctx, bct, [], []

    def zero_and_range(self, fn, W, C, case, signed_ok=False):
        ctx = self.ctx
        C = np.asarray(C, dtype=float).ravel()
        tri, nn = on_triangle(W), n_neigh(W)
        for i in range(len(W)):
            if nn[i] < 2:
                ctx.check(C[i] == 0.0, fn + ':deg_lt2_zero', 'node %d has %d neighbours but C=%r' % (i, nn[i], C[i]), case)
            if not tri[i]:
                ctx.check(C[i] == 0.0, fn + ':no_triangle_zero', 'node %d lies on no triangle but C=%r' % (i, C[i]), case)
        lo = -1.0 if signed_ok else 0.0
        ctx.check(bool(np.all(np.isfinite(C)) and np.all(C >= lo - TOL) and np.all(C <= 1 + TOL)), fn + ':range_01',
                  'value outside [0,1]: %r' % C.tolist(), case)

    def vec(self, fn, mfn, W, oracle, dtype=float, family='', margs='', signed=False):
        """per-node routine: direct oracle + zero clauses + range, and queue the model run"""
        ctx, bct = self.ctx, self.bct
        case = {'fn': fn, 'W': strs(W), 'dtype': np.dtype(dtype).name}
        ctx.case(case, nontrivial=any(on_triangle(W)))
        ctx.count('%s:n=%d' % (fn, len(W)))
        if family:
            ctx.count('family:' + family)
        try:
            C = call(getattr(bct, fn), npm(W, dtype)); tie_variants(case)    # (input-representation layer: the model comparison comes later)
        except Exception as e:
            ctx.fail(fn + (':int_dtype' if dtype is not float else ':raises'), 'raised %r' % e, case)
            return
        ctx.check(vec_close(oracle, C), fn + ':definition', 'differs from the triple-enumeration definition: got %r expected %r'
                  % (np.asarray(C).tolist(), [str(x) for x in oracle]), case)
        self.zero_and_range(fn, W, C, case, signed_ok=signed)
        if dtype is float and mfn:
            self.lines.append(mfn + ' ' + enc_mat(W, enc_q) + margs)
            self.pend.append(('vec', fn, case, C))

    def sign(self, W, ty, name, family='', dtype=float):
        """ty: 0 default, 1 zhang, 2 costantini, 3 'Zhang', 4 'Costantini', 5 any other string (falls through: None)"""
        ctx, bct = self.ctx, self.bct
        fn = 'clustering_coef_wu_sign'
        case = {'fn': fn, 'coef_type': name, 'W': strs(W), 'dtype': np.dtype(dtype).name}
        Z, P, N = parts(W)
        ctx.case(case, nontrivial=any(on_triangle(P)) or any(on_triangle(N)))
        ctx.count('%s[%s]:n=%d' % (fn, name, len(W)))
        if family:
            ctx.count('family:' + family)
        try:
            with np.errstate(all='ignore'):
                R = call(bct.clustering_coef_wu_sign, npm(W, dtype), name); tie_variants(case)   # works on a copy of the argument
        except Exception as e:
            ctx.fail(fn + ':raises', 'raised %r' % e, case)
            return
        kind = {0: 0, 1: 1, 2: 2, 3: 1, 4: 2}.get(ty, 3)
        if kind == 3:
            ctx.check(R is None, fn + ':dispatch', 'unknown coef_type must fall through (None), got %r' % (R,), case)
        elif R is None or (kind != 2 and (not isinstance(R, tuple) or len(R) != 2)):
            ctx.fail(fn + ':dispatch', 'coef_type %r returned %r' % (name, R), case)
            return
        elif kind == 0:
            ok = vec_close(o_cc_wu(P), R[0]) and vec_close(o_cc_wu(N), R[1])
            ctx.check(ok, fn + ':definition_default', 'differs from Onnela on the positive / negative part', case)
            self.zero_and_range(fn, P, R[0], case); self.zero_and_range(fn, N, R[1], case)
        elif kind == 1:
            op, on = o_zhang(P), o_zhang(N)     # None (zero denominator under a nonzero numerator) cannot occur: C09_no_division_by_zero
            ctx.check(None not in op and None not in on and vec_close(op, R[0]) and vec_close(on, R[1]), fn + ':definition_zhang',
                      'differs from Zhang-Horvath: got %r' % ([np.asarray(x).tolist() for x in R],), case)
            self.zero_and_range(fn, P, R[0], case); self.zero_and_range(fn, N, R[1], case)
        else:
            oc = o_costantini(Z)
            ctx.check(None not in oc and vec_close(oc, R), fn + ':definition_costantini',
                      'differs from Costantini-Perugini: got %r' % (np.asarray(R).tolist(),), case)
            self.zero_and_range(fn, Z, R, case, signed_ok=True)
        if dtype is float:
            self.lines.append('cc_sign ' + enc_mat(W, enc_q) + ' %d' % ty)
            self.pend.append(('sign%d' % kind, fn, case, R))

    def trans(self, fn, which, W, oracle, family='', signed=False, dtype=float):
        ctx, bct = self.ctx, self.bct
        case = {'fn': fn, 'W': strs(W), 'dtype': np.dtype(dtype).name}
        ctx.case(case, nontrivial=any(on_triangle(W)))
        ctx.count('%s:n=%d' % (fn, len(W)))
        if family:
            ctx.count('family:' + family)
        try:
            with np.errstate(all='ignore'):
                T = call(getattr(bct, fn), npm(W, dtype)); tie_variants(case)
        except Exception as e:
            ctx.fail(fn + ':raises', 'raised %r' % e, case)
            return
        ctx.check(sc_close(oracle, T), fn + ':definition', 'differs from triangles/triples by enumeration: got %r expected %s'
                  % (float(T), oracle), case)
        if oracle is not None:
            ctx.check((-1 if signed else 0) - TOL <= float(T) <= 1 + TOL, fn + ':range_01', 'value outside [0,1]: %r' % float(T), case)
            if not any(on_triangle(W)):
                ctx.check(float(T) == 0.0, fn + ':no_triangle_zero', 'no triangle but T=%r' % float(T), case)
        if dtype is float:
            self.lines.append('trans ' + enc_mat(W, enc_q) + ' %d' % which)
            self.pend.append(('sc', fn, case, T))

    def float_only(self, W, directed, family):
        """weights that are not perfect cubes: implementation against the float oracle at 1e-9 (no exact model)"""
        ctx, bct = self.ctx, self.bct
        fnc, fnt = ('clustering_coef_wd', 'transitivity_wd') if directed else ('clustering_coef_wu', 'transitivity_wu')
        case = {'fn': fnc, 'W': strs(W), 'oracle': 'float'}
        ctx.case(case, nontrivial=any(on_triangle(W))); ctx.count('family:' + family)
        oc, ot = (fo_dir if directed else fo_und)(W)
        try:
            with np.errstate(all='ignore'):
                C = np.asarray(call(getattr(bct, fnc), npm(W)), dtype=float); tie_variants(case); T = float(call(getattr(bct, fnt), npm(W))); tie_variants(case)
        except Exception as e:
            ctx.fail(fnc + ':raises', 'raised %r' % e, case); return
        ok = len(C) == len(oc) and all(np.isfinite(g) and abs(g - e) <= TOL * max(1.0, abs(e)) for e, g in zip(oc, C))
        ctx.check(ok, fnc + ':definition', 'differs from the definition evaluated in floats (np.cbrt): got %r expected %r' % (C.tolist(), oc), case)
        ctx.check((ot is None and not np.isfinite(T)) or (ot is not None and np.isfinite(T) and abs(T - ot) <= TOL * max(1.0, abs(ot))),
                  fnt + ':definition', 'differs from the definition evaluated in floats: got %r expected %r' % (T, ot), case)
        self.zero_and_range(fnc, W, C, case, signed_ok=True)

    def cuberoot(self, x):
        """bct.utils.cuberoot on a scalar (as a 1-element array): the real odd cube root"""
        ctx = self.ctx
        from bct.utils import cuberoot
        case = {'fn': 'cuberoot', 'x': str(x)}
        ctx.case(case, nontrivial=x != 0); ctx.count('cuberoot:' + ('neg' if x < 0 else 'pos' if x > 0 else 'zero'))
        try:
            with np.errstate(all='ignore'):
                y = float(np.asarray(call(cuberoot, np.array([float(x)])))[0])
        except Exception as e:
            ctx.fail('cuberoot:raises', 'raised %r' % e, case); return
        want = cbrtF(x)
        ctx.check(np.isfinite(y) and abs(y - float(want)) <= 1e-12 * max(1.0, abs(float(want))), 'cuberoot:odd_cube_root',
                  'cuberoot(%s) = %r, expected %s' % (x, y, want), case)
        self.lines.append('cbrt ' + enc_q(x)); self.pend.append(('cbrt', 'cuberoot', case, y))

    # ---- per input kind
    def selfloop_zero(self, A, family=''):
        """OUTSIDE the property's domain (0/1 matrix WITH self-connections), the clause that survives there
        (C09_deg_lt2_zero_any_diagonal, true since the repair 366dab6): a node with at most one index j -- j = i counts --
        with A[i][j] != 0 or A[j][i] != 0 gets exactly 0 from the per-node routines, and every value is finite"""
        ctx, bct = self.ctx, self.bct
        A = [[F(x) for x in row] for row in A]
        n = len(A)
        sym = all(A[i][j] == A[j][i] for i in range(n) for j in range(n))
        few = [sum(1 for j in range(n) if A[i][j] != 0 or A[j][i] != 0) < 2 for i in range(n)]
        for fn in ('clustering_coef_bd', 'clustering_coef_wd') + (('clustering_coef_bu', 'clustering_coef_wu') if sym else ()):
            case = {'fn': fn, 'W': strs(A), 'selfloops': True}
            ctx.case(case, nontrivial=any(few)); ctx.count('%s:selfloop' % fn)
            if family:
                ctx.count('family:' + family)
            try:
                C = np.asarray(call(getattr(bct, fn), npm(A)), dtype=float).ravel(); tie_variants(case)
            except Exception as e:
                ctx.fail(fn + ':raises', 'raised %r' % e, case); continue
            bad = [i for i in range(n) if few[i] and C[i] != 0.0]
            ctx.check(not bad, fn + ':deg_lt2_zero_selfloop', 'node(s) %r have at most one neighbour (self-connection counted) but C=%r' % (bad, C.tolist()), case)
            ctx.check(bool(np.all(np.isfinite(C))), fn + ':finite_selfloop', 'non-finite value: %r' % C.tolist(), case)

    def und_binary(self, A, family=''):
        A = [[F(x) for x in row] for row in A]
        self.vec('clustering_coef_bu', 'cc_bu', A, o_cc_bu(A), family=family)
        self.trans('transitivity_bu', 0, A, o_trans_bu(A))
        # the directed / weighted routines on the same graph must give the same definition values
        self.vec('clustering_coef_bd', 'cc_bd', A, o_cc_dir(A, False))
        self.vec('clustering_coef_wu', 'cc_wu', A, o_cc_wu(A))

    def dir_binary(self, A, family=''):
        A = [[F(x) for x in row] for row in A]
        t, T = o_dir_parts(A, False)
        self.vec('clustering_coef_bd', 'cc_bd', A, o_cc_dir(A, False), family=family)
        self.trans('transitivity_bd', 1, A, o_trans_sum(t, T))

    def und_weighted(self, W, family='', signed=False):
        t, T = o_und_parts(W)
        self.vec('clustering_coef_wu', 'cc_wu', W, o_cc_wu(W), family=family, signed=signed)
        self.trans('transitivity_wu', 2, W, o_trans_sum(t, T), signed=signed)

    def dir_weighted(self, W, family='', signed=False):
        t, T = o_dir_parts(W, True)
        self.vec('clustering_coef_wd', 'cc_wd', W, o_cc_dir(W, True), family=family, signed=signed)
        self.trans('transitivity_wd', 3, W, o_trans_sum(t, T), signed=signed)


def run(ctx):
    import bct
    r = ctx.nprng
    B = Bag(ctx, bct)

    # ---- exhaustive small binary graphs
    for n in range(1, ctx.scale(4, 5) + 1):
        for A in all_und(n):
            B.und_binary(A, family='exhaustive_und')
    for n in range(1, ctx.scale(3, 4) + 1):
        for A in all_dir(n):
            B.dir_binary(A, family='exhaustive_dir')
    if not ctx.thorough:           # a slice of the next size in quick
        for A in itertools.islice(all_und(5), 0, 1024, 13):
            B.und_binary(A, family='slice_und5')
        for A in itertools.islice(all_dir(4), 0, 4096, 41):
            B.dir_binary(A, family='slice_dir4')

    # ---- exhaustive small weighted graphs (weights from a small set of cubes), so that failing inputs are small
    vals = [F(0), F(1, 8), F(27, 64), F(1)]
    step = 1 if ctx.thorough else 5
    for n, vs in ((3, vals), (4, vals[:3])):
        pairs = [(i, j) for i in range(n) for j in range(i + 1, n)]
        for t, ws in enumerate(itertools.product(vs, repeat=len(pairs))):
            if n == 4 and t % step:
                continue
            W = [[F(0)] * n for _ in range(n)]
            for (i, j), w in zip(pairs, ws):
                W[i][j] = W[j][i] = w
            B.und_weighted(W, family='exhaustive_weighted_und')
            if t % 3 == 0:
                Ws = [[(-x if (i + j) % 3 == 0 else x) for j, x in enumerate(row)] for i, row in enumerate(W)]
                for ty, name in ((0, 'default'), (1, 'zhang'), (2, 'costantini')):
                    B.sign(Ws, ty, name, family='exhaustive_signed')
    cells3 = [(i, j) for i in range(3) for j in range(3) if i != j]
    for t, ws in enumerate(itertools.product(vals[:3], repeat=6)):
        if t % step:
            continue
        W = [[F(0)] * 3 for _ in range(3)]
        for (i, j), w in zip(cells3, ws):
            W[i][j] = w
        B.dir_weighted(W, family='exhaustive_weighted_dir')

    # ---- outside the domain: 0/1 matrices WITH self-connections, the zero clause that holds there
    for n in range(1, ctx.scale(3, 4) + 1):
        for gen in (all_und, all_dir):
            if gen is all_dir and n > ctx.scale(2, 3):
                continue
            for A0 in gen(n):
                for bits in itertools.product((0, 1), repeat=n):
                    if any(bits):
                        A = [row[:] for row in A0]
                        for i, b_ in enumerate(bits):
                            A[i][i] = b_
                        B.selfloop_zero(A, family='exhaustive_selfloop')
    for t in range(ctx.scale(12, 120)):
        n = int(r.randint(3, 9))
        A = rand_und(r, n, float(r.choice([0.15, 0.3]))) if t % 2 else rand_dir(r, n, 0.2)
        for i in range(n):
            if r.rand() < 0.4:
                A[i][i] = F(1)
        B.selfloop_zero(A, family='random_selfloop')

    # ---- random binary / weighted / signed, triangle-free families, isolated nodes
    N = ctx.scale(60, 600)
    for t in range(N):
        n = int(r.randint(2, 9)); dens = float(r.choice([0.25, 0.5, 0.8, 1.0]))
        A = rand_und(r, n, dens)
        if t % 4 == 0:
            isolate(r, A)
        B.und_binary(A, family='random_und' + ('_isolated' if t % 4 == 0 else ''))
        D = rand_dir(r, n, dens * 0.7)
        B.dir_binary(D, family='random_dir')
        W = rand_und(r, n, dens, cube_w)
        if t % 4 == 1:
            isolate(r, W)
        B.und_weighted(W, family='weighted_und')
        B.dir_weighted(W, family='weighted_sym_as_dir')
        Wd = rand_dir(r, n, dens * 0.7, cube_w)
        if t % 4 == 2:
            isolate(r, Wd)
        B.dir_weighted(Wd, family='weighted_dir')
        # signed
        Ws = rand_und(r, n, dens, cube_w, signed=True)
        if t % 3 == 0:   # clustering_coef_wu_sign clears the diagonal of its copy itself
            for i in range(n):
                if r.rand() < 0.5:
                    Ws[i][i] = cube_w(r)
        for ty, name in ((0, 'default'), (1, 'zhang'), (2, 'costantini')):
            B.sign(Ws, ty, name, family='signed')
        # no triangles
        Tf, kind = triangle_free(r, n, cube_w if t % 2 else None)
        if t % 2:
            B.und_weighted(Tf, family='trianglefree_' + kind)
            B.dir_weighted(Tf, family='trianglefree_' + kind)
            B.sign(Tf, 0, 'default', family='trianglefree_' + kind)
        else:
            B.und_binary(Tf, family='trianglefree_' + kind)
            B.dir_binary(Tf, family='trianglefree_' + kind)
    # complete graphs (every value 1) and integer-dtype arrays
    for n in range(2, 8):
        K = [[F(int(i != j)) for j in range(n)] for i in range(n)]
        B.und_binary(K, family='complete'); B.dir_binary(K, family='complete')
        B.und_weighted(K, family='complete'); B.dir_weighted(K, family='complete')
    for t in range(ctx.scale(10, 60)):
        n = int(r.randint(2, 7))
        A = rand_und(r, n, 0.5) if t % 2 else rand_dir(r, n, 0.4)
        for fn, orc in (('clustering_coef_bd', o_cc_dir(A, False)), ('clustering_coef_wd', o_cc_dir(A, False))) + \
                ((('clustering_coef_bu', o_cc_bu(A)), ('clustering_coef_wu', o_cc_wu(A))) if t % 2 else ()):
            B.vec(fn, '', A, orc, dtype=int, family='int_dtype')

    # ---- cuberoot itself: negative arguments, tiny and large magnitudes (np.sign(x) * np.abs(x)**(1/3))
    for N in (1, 2, 8, 50):
        for m in range(0, 13 if ctx.thorough else 7):
            for sg in ((1, -1) if m else (1,)):
                B.cuberoot(F(sg * m ** 3, N ** 3))
    # ---- negative weights straight into wu / wd / transitivity_wu / _wd (cuberoot's sign handling; K counts every
    #      nonzero entry), tiny triangles (weights far below 1/512), weights that are not cubes (float oracle)
    for t in range(ctx.scale(40, 300)):
        n = int(r.randint(3, 8)); dens = float(r.choice([0.5, 0.8, 1.0]))
        Ws = flip_signs(r, rand_und(r, n, dens, cube_w), 0.4, True)
        B.und_weighted(Ws, family='negative_weights_und', signed=True)
        B.dir_weighted(flip_signs(r, rand_dir(r, n, dens * 0.7, cube_w), 0.4, False), family='negative_weights_dir', signed=True)
        if t % 2 == 0:
            B.dir_weighted(Ws, family='negative_weights_sym_as_dir', signed=True)
        Wt = rand_und(r, n, dens, tiny_cube_w)
        B.und_weighted(Wt, family='tiny_weights'); B.dir_weighted(rand_dir(r, n, dens * 0.7, tiny_cube_w), family='tiny_weights')
        if t % 3 == 0:
            B.sign(flip_signs(r, Wt, 0.4, True), 0, 'default', family='tiny_weights')
        B.float_only(rand_und(r, n, dens, noncube_w), False, 'noncube_weights')
        B.float_only(flip_signs(r, rand_dir(r, n, dens * 0.7, noncube_w), 0.3, False), True, 'noncube_weights')
    # ---- mixed magnitudes: nonzero weights below 1e-8 next to ordinary ones in the same matrix (a link is a link however weak:
    #      it counts in K and in the adjacency of wd exactly like a strong one), every weighted routine
    for t in range(ctx.scale(30, 250)):
        n = int(r.randint(3, 8)); dens = float(r.choice([0.5, 0.8, 1.0]))
        Wm = rand_und(r, n, dens, mixed_cube_w)
        B.und_weighted(Wm, family='mixed_magnitude'); B.dir_weighted(Wm, family='mixed_magnitude')
        B.dir_weighted(rand_dir(r, n, dens * 0.7, mixed_cube_w), family='mixed_magnitude')
        Wms = flip_signs(r, Wm, 0.4, True)
        B.und_weighted(Wms, family='mixed_magnitude_signed', signed=True)
        for ty, name in ((0, 'default'), (1, 'zhang'), (2, 'costantini')):
            B.sign(Wms, ty, name, family='mixed_magnitude_signed')
        B.float_only(rand_und(r, n, dens, mixed_noncube_w), False, 'mixed_magnitude_noncube')
        B.float_only(rand_dir(r, n, dens * 0.7, mixed_noncube_w), True, 'mixed_magnitude_noncube')
    # the smallest such graphs exhaustively: every undirected weighted graph on 3 nodes (and a slice on 4) over {0, 2^-30, 1}
    mv = [F(0), F(1, 2 ** 30), F(1)]
    for n, stepm in ((3, 1), (4, 1 if ctx.thorough else 4)):
        prs = [(i, j) for i in range(n) for j in range(i + 1, n)]
        for t, ws in enumerate(itertools.product(mv, repeat=len(prs))):
            if t % stepm:
                continue
            W = [[F(0)] * n for _ in range(n)]
            for (i, j), w in zip(prs, ws):
                W[i][j] = W[j][i] = w
            B.und_weighted(W, family='mixed_magnitude_exhaustive'); B.dir_weighted(W, family='mixed_magnitude_exhaustive')
            if t % 3 == 0:
                B.sign(W, 0, 'default', family='mixed_magnitude_exhaustive'); B.sign(W, 1, 'zhang', family='mixed_magnitude_exhaustive')
    # ---- the smallest signed triangles exhaustively: every sign pattern on K3 and K4 minus an edge
    for n, edges in ((3, [(0, 1), (1, 2), (0, 2)]), (4, [(0, 1), (1, 2), (0, 2), (2, 3), (1, 3)])):
        for sg in itertools.product((1, -1), repeat=len(edges)):
            for w in (F(1), F(1, 8), F(1, 125000)):
                W = [[F(0)] * n for _ in range(n)]
                for (i, j), s_ in zip(edges, sg):
                    W[i][j] = W[j][i] = s_ * w
                B.und_weighted(W, family='signed_exhaustive', signed=True); B.dir_weighted(W, family='signed_exhaustive', signed=True)
    # ---- coef_type dispatch: capitalised aliases and the silent fall-through; integer dtype; the empty graph
    for t in range(ctx.scale(12, 60)):
        n = int(r.randint(2, 7))
        Ws = rand_und(r, n, 0.7, cube_w, signed=True)
        for ty, name in ((3, 'Zhang'), (4, 'Costantini'), (5, ('onnela', 'Default', '', 'zhang ')[t % 4])):
            B.sign(Ws, ty, name, family='coef_type_alias')
        Wi = [[F(int(np.sign(x))) for x in row] for row in Ws]           # entries -1 / 0 / 1 as an int array
        for ty, name in ((0, 'default'), (1, 'zhang'), (2, 'costantini')):
            B.sign(Wi, ty, name, family='int_dtype', dtype=int)
        A = rand_und(r, n, 0.6); D = rand_dir(r, n, 0.5)
        B.trans('transitivity_bu', 0, A, o_trans_bu(A), family='int_dtype', dtype=int)
        B.trans('transitivity_wu', 2, A, o_trans_sum(*o_und_parts(A)), family='int_dtype', dtype=int)
        B.trans('transitivity_bd', 1, D, o_trans_sum(*o_dir_parts(D, False)), family='int_dtype', dtype=int)
        B.trans('transitivity_wd', 3, D, o_trans_sum(*o_dir_parts(D, True)), family='int_dtype', dtype=int)
    E0 = []
    B.und_binary(E0, family='empty_graph'); B.dir_binary(E0, family='empty_graph')
    B.und_weighted(E0, family='empty_graph'); B.dir_weighted(E0, family='empty_graph')
    for ty, name in ((0, 'default'), (1, 'zhang'), (2, 'costantini')):
        B.sign(E0, ty, name, family='empty_graph')

    # ---- correspondence: extracted Coq model (cuberoot := sign * exact root of |x|) on the same inputs
    res = run_model(ID, B.lines)
    ctx.model_cases = len(B.lines)
    for (kind, fn, case, R), m in zip(B.pend, res):
        if is_err(m):
            ctx.mismatch('model-error', m['error'], case); continue
        if kind == 'vec':
            M = [dec_q(x) for x in m]
            if not vec_close(M, R):
                ctx.mismatch(fn, 'model and implementation differ', case, [str(x) for x in M], np.asarray(R).tolist())
        elif kind == 'sc':
            M = None if m is None else dec_q(m)
            if not sc_close(M, R):
                ctx.mismatch(fn, 'model and implementation differ', case, str(M), float(R))
        elif kind == 'sign3':
            if not (m is None and R is None):
                ctx.mismatch(fn + ':dispatch', 'model and implementation differ on the fall-through', case, str(m), repr(R))
        elif m is None:
            ctx.mismatch(fn + ':dispatch', 'model falls through, implementation returned a value', case, None, repr(R))
        elif kind in ('sign0', 'sign1'):
            M0, M1 = [dec_q(x) for x in m[0]], [dec_q(x) for x in m[1]]
            if not (vec_close(M0, R[0]) and vec_close(M1, R[1])):      # a non-finite output is a mismatch (vec_close is False)
                ctx.mismatch(fn + ':' + case['coef_type'], 'model and implementation differ', case,
                             [[str(x) for x in M0], [str(x) for x in M1]], [np.asarray(R[0]).tolist(), np.asarray(R[1]).tolist()])
        elif kind == 'cbrt':
            M = dec_q(m)
            if not frac_close(M, float(R), 1e-12):
                ctx.mismatch(fn, 'model and implementation differ', case, str(M), float(R))
        else:
            M0 = [dec_q(x) for x in m[0]]
            if not vec_close(M0, R):
                ctx.mismatch(fn + ':costantini', 'model and implementation differ', case, [str(x) for x in M0], np.asarray(R).tolist())
