"""C04 — graph measures are equivariant under renumbering of the nodes.

Two halves (DESIGN §6 C04):
 (1) metamorphic run of the IMPLEMENTATION = the search for a failing input: for every public deterministic
     measure in MEASURES, f(A[ix_(p,p)]) is compared with p.f(A) (vectors permuted, matrices permuted on both
     axes, scalars / distributions unchanged, partitions compared as partitions) for ALL n! permutations on
     small matrices and random permutations on larger ones;
 (2) correspondence: the measures that Model/SymTerm.v expresses as index-symmetric TERMS are evaluated by the
     extracted Coq evaluator on the same matrices and must give the implementation's values (exact for
     integer-valued measures, 1e-9 otherwise).  Equivariance of every term is the generic theorem
     C04_symterm_equivariant; the per-measure theorems are its instances.
 (3) translation: harness/translate_symterm.py re-reads the Python source of ~45 functions on EVERY run and regenerates
     coq/theories/Gen/SymTermGen.v (gen_table); C04_gen_equivariant is ONE theorem over that table.  The extracted
     evaluator runs every generated program on the same inputs as the implementation (validates the translator's
     reading of NumPy) and as the hand-written term of the same measure (syntactic identity decided in Coq where it
     holds, evaluation otherwise).  A function of GEN_EXPECTED that no longer translates is reported.
"""
import io, itertools, contextlib
from fractions import Fraction as F
import numpy as np
from common import *
import traceback
import translate_symterm as TS

ID = 'C04'
COQ_FILES = ['Base/Mat.v', 'Base/SumQ.v', 'Model/SymTerm.v', 'Proofs/SymTerm.v', 'Proofs/SymTermLib.v', 'Gen/SymTermGen.v',
             'Model/SymTermGenRun.v', 'Proofs/SymTermGenThm.v', 'Model/SymTermKinds.v', 'Proofs/SymTermKinds.v',
             # equivariance of the STATEMENT-LEVEL models of C03 / C16 / C08 / C15 / C18 (their files are pulled in as dependencies)
             'Proofs/EquivModels.v', 'Proofs/EquivModelsEff.v', 'Proofs/EquivModelsComp.v', 'Proofs/EquivModelsBetw.v', 'Proofs/EquivModelsCore.v',
             'Proofs/EquivModelsWalks.v', 'Proofs/EquivModelsLinear.v', 'Proofs/SymTermFull.v',
             # FULL statements for the two spectral measures (subgraph_centrality over Coq's reals; eigenvector_centrality_und from LAPACK's specification)
             'Proofs/EquivModelsExpm.v', 'Proofs/EquivModelsExpmTerm.v', 'Proofs/EquivModelsSpectral.v', 'Properties/C04.v']
THEOREMS = ['C04_sumQ_reindex', 'C04_symterm_equivariant', 'C04_prog_equivariant', 'C04_measure_equivariant_scalar',
            'C04_measure_equivariant_vector', 'C04_measure_equivariant_matrix', 'C04_measure_equivariant_kinded', 'C04_library_equivariant',
            'C04_library_instances', 'C04_pagerank_equation', 'C04_eigenvector_equation', 'C04_pagerank_full',
            'C04_eigenvector_full', 'C04_residual_terms_denote', 'C04_subgraph_truncation', 'C04_inverse_renumbering',
            'C04_floyd_model_equivariant', 'C04_distance_wei_floyd_model_equivariant', 'C04_distance_bin_model_equivariant', 'C04_distance_wei_model_equivariant',
            'C04_breadthdist_model_equivariant', 'C04_reachdist_model_equivariant', 'C04_efficiency_model_equivariant', 'C04_ext_eq_unfold',
            'C04_get_components_model_equivariant', 'C04_number_of_components_model_equivariant', 'C04_betweenness_model_equivariant', 'C04_edge_betweenness_model_equivariant',
            'C04_kcore_model_equivariant', 'C04_core_outputs_unfold', 'C04_kcoreness_model_equivariant', 'C04_findwalks_model_equivariant',
            'C04_pagerank_model_equivariant', 'C04_eigenvector_model_equivariant', 'C04_list_permutation', 'C04_run_equivariant',
            'C04_every_term_measure_equivariant', 'C04_denote_degrees_und', 'C04_denote_transitivity_bu', 'C04_gen_equivariant',
            'C04_gen_run_equivariant', 'C04_gen_same_as_hand_sound',
            'C04_eigenvector_abs_full', 'C04_subgraph_expm_equivariant', 'C04_subgraph_term_is_series']
RULE = ('structured graphs (cycles, complete, complete bipartite, stars, paths, disjoint copies, cube: repeated eigenvalues; '
        'isolated nodes) and Erdos-Renyi matrices n=2..8, binary/weighted (dyadic weights from a 2-4 element set: many '
        'ties), directed/undirected, signed, with label vectors (non-contiguous labels); every n! permutation for n<=4 '
        '(quick) / n<=5 (thorough), random permutations beyond; plus networks with self-connections, the one-node network and '
        'Erdos-Renyi n=9..12; eigenvector_centrality_und additionally on every generated undirected network (binary and weighted) that is NOT '
        'connected but has a SIMPLE largest eigenvalue (gap > 1e-3: one dominant component next to isolated nodes / smaller components; '
        'families K3+iso, ring4+iso, K3+K2, iso+paw, iso+K3, K2+K3, K2+iso+K4 and the random skeletons with an isolated node), where the '
        'renumberings put a node from OUTSIDE the dominant component first (table entry eigenvector_centrality_und:disconnected; the '
        'histogram dominant_component:node0_inside/outside counts the base numberings); second arguments that belong to the nodes (labels, the pagerank prior falff, a position-distance matrix '
        'for navigation) are renumbered with them; one case = (measure, matrix, permutation); '
        'non-trivial = permutation is not the identity and the matrix has an edge; distinct by hash')
ASSUMES = ['outputs the property leaves free are not compared: eigenvector sign (abs is returned), component label numbering '
           '(compared as partitions), edge-list ordered outputs (ec, degij), number-of-edges / hops / predecessor matrices of '
           'shortest paths under ties, search_information / path_transitivity / erange Eshort (depend on which shortest path)',
           'spectral measures are run on their documented domain (mean first passage time, diffusion efficiency: connected graphs; '
           'eigenvector centrality: connected graphs, and disconnected ones whose largest eigenvalue is simple - there |v| is still unique; '
           'with a repeated largest eigenvalue the vector depends on LAPACK\'s choice of basis and is not compared)',
           'correspondence inputs are 0/1 or dyadic so that sums and products the terms treat as exact are exact in binary64; '
           'quotients, sqrt, cbrt, LAPACK results are compared with relative tolerance 1e-9']
TRUSTED = ['harness/translate_symterm.py (Python ast -> SymTerm programs, fail-closed: anything outside the index-symmetric NumPy subset makes the '
           'function "not translatable"; its reading of NumPy is validated on every run by evaluating each generated program against the implementation)',
           'ocaml/drv_c04.ml interprets the abstract primitives sqrt/cbrt through binary64 (only used by tolerance-compared measures)']

TOL = 1e-9

# ---------------------------------------------------------------- translator (Gen/SymTermGen.v is regenerated at import)
GEN, GEN_ERROR = None, None


def pregen():
    """(re)generate coq/theories/Gen/SymTermGen.v from the CURRENT source tree (called by ./check setup and at import)"""
    global GEN, GEN_ERROR
    try:
        GEN = TS.generate(REPO, VERIF)
        GEN_ERROR = None
    except Exception:
        GEN, GEN_ERROR = None, traceback.format_exc()
        # never leave a stale table behind: the build must fail visibly
        p = os.path.join(COQ, 'theories', 'Gen', 'SymTermGen.v')
        os.makedirs(os.path.dirname(p), exist_ok=True)
        open(p, 'w').write('(* translator crashed *)\nExample translator_crashed : 0 = 1.\nProof. reflexivity. Qed.\n')
    return GEN


pregen()      # ./check imports this module before it builds the Coq files

# what translates on the unchanged tree: a name that disappears from the generated table is reported (the source of
# that function left the index-symmetric subset: e.g. it now mentions a node position)
GEN_EXPECTED = ['degrees_und', 'degrees_dir#0', 'degrees_dir#1', 'degrees_dir#2', 'strengths_und', 'strengths_dir',
                'strengths_und_sign#0', 'strengths_und_sign#1', 'strengths_und_sign#2', 'strengths_und_sign#3',
                'density_dir#0', 'density_dir#1', 'density_dir#2',
                'clustering_coef_bu', 'clustering_coef_bd', 'clustering_coef_wu', 'clustering_coef_wd',
                'transitivity_bu', 'transitivity_bd', 'transitivity_wu', 'transitivity_wd',
                'clustering_coef_wu_sign#0', 'clustering_coef_wu_sign#1', 'clustering_coef_wu_sign:zhang#0', 'clustering_coef_wu_sign:zhang#1',
                'clustering_coef_wu_sign:costantini',
                'binarize', 'normalize', 'invert', 'threshold_absolute',
                'weight_conversion:binarize', 'weight_conversion:normalize', 'weight_conversion:lengths',
                'assortativity_bin:1', 'assortativity_bin:2', 'assortativity_bin:3', 'assortativity_bin:4',
                'assortativity_wei:1', 'assortativity_wei:2', 'assortativity_wei:3', 'assortativity_wei:4',
                'kcore_bu#0', 'kcore_bu#1', 'kcore_bd#0', 'kcore_bd#1', 'score_wu#0', 'score_wu#1', 'gtom:1']
# input kinds per translated Python function, sampled scalar parameters, hand-written term (measure id, k) per output
GEN_DOMAIN = {'degrees_und': ['wu', 'bu'], 'degrees_dir': ['wd', 'bd'], 'strengths_und': ['wu'], 'strengths_dir': ['wd'],
              'strengths_und_sign': ['su'], 'density_dir': ['bd', 'wd'], 'clustering_coef_bu': ['bu'], 'clustering_coef_bd': ['bd'],
              'clustering_coef_wu': ['wu'], 'clustering_coef_wd': ['wd'], 'clustering_coef_wu_sign': ['su'], 'transitivity_bu': ['bu'], 'transitivity_bd': ['bd'],
              'transitivity_wu': ['wu'], 'transitivity_wd': ['wd'], 'binarize': ['wd', 'su'], 'normalize': ['wd', 'su'], 'invert': ['wd', 'su'],
              'threshold_absolute': ['wd', 'su'], 'weight_conversion': ['wd', 'su'], 'assortativity_bin': ['bd', 'su'], 'assortativity_wei': ['wd'],
              'kcore_bu': ['bu'], 'kcore_bd': ['bd'], 'score_wu': ['wu'], 'gtom': ['bu']}
GEN_SCALARS = {'threshold_absolute': [(0.5,), (0.75,), (-0.25,)], 'kcore_bu': [(1,), (2,), (3,)], 'kcore_bd': [(1,), (2,), (3,)],
               'score_wu': [(1.0,), (1.5,)]}
GEN_HAND = {'degrees_und': (0, 0), 'degrees_dir#0': (1, 0), 'degrees_dir#1': (2, 0), 'degrees_dir#2': (3, 0), 'strengths_und': (4, 0),
            'strengths_dir': (5, 0), 'density_dir#0': (6, 0), 'clustering_coef_bu': (8, 0), 'clustering_coef_bd': (9, 0),
            'transitivity_bd': (10, 0), 'transitivity_bu': (11, 0), 'clustering_coef_wu': (12, 0), 'transitivity_wu': (13, 0),
            'clustering_coef_wd': (45, 0), 'transitivity_wd': (46, 0), 'gtom:1': (18, 1),
            'kcore_bu#0': (31, 0), 'kcore_bd#0': (32, 0), 'kcore_bu#1': (33, 0), 'kcore_bd#1': (34, 0), 'score_wu#0': (35, 0)}
for _f in (1, 2, 3, 4):
    GEN_HAND['assortativity_bin:%d' % _f] = (38, _f)
    GEN_HAND['assortativity_wei:%d' % _f] = (39, _f)
# current behaviour of the unchanged tree: len(intersection)/len(union) with an empty union (an edge whose endpoints have no other neighbour)
RAISES_OK = {('edge_nei_overlap_bu', 'ZeroDivisionError'), ('edge_nei_overlap_bd', 'ZeroDivisionError')}


# ---------------------------------------------------------------- inputs
def sym(A):
    A = np.triu(A, 1)
    return A + A.T


def structured():
    """(name, binary undirected adjacency)"""
    out = []

    def ring(n):
        A = np.zeros((n, n))
        for i in range(n):
            A[i, (i + 1) % n] = A[(i + 1) % n, i] = 1
        return A

    def kb(a, b):
        A = np.zeros((a + b, a + b)); A[:a, a:] = 1
        return A + A.T

    def disj(*Ms):
        n = sum(len(M) for M in Ms); A = np.zeros((n, n)); o = 0
        for M in Ms:
            A[o:o + len(M), o:o + len(M)] = M; o += len(M)
        return A
    K = lambda n: np.ones((n, n)) - np.eye(n)
    path = lambda n: np.diag(np.ones(n - 1), 1) + np.diag(np.ones(n - 1), -1)
    star = lambda n: kb(1, n - 1)
    out += [('ring3', ring(3)), ('ring4', ring(4)), ('path3', path(3)), ('path4', path(4)), ('star4', star(4)), ('K4', K(4)),
            ('K2+K2', disj(K(2), K(2))), ('K3+iso', disj(K(3), np.zeros((1, 1)))), ('paw', np.array([[0, 1, 1, 0], [1, 0, 1, 0], [1, 1, 0, 1], [0, 0, 1, 0.]])),
            ('ring5', ring(5)), ('K23', kb(2, 3)), ('K5', K(5)), ('star5', star(5)), ('K3+K2', disj(K(3), K(2))), ('ring4+iso', disj(ring(4), np.zeros((1, 1)))),
            ('house', np.array([[0, 1, 0, 0, 1], [1, 0, 1, 0, 1], [0, 1, 0, 1, 0], [0, 0, 1, 0, 1], [1, 1, 0, 1, 0.]])),
            ('ring6', ring(6)), ('K33', kb(3, 3)), ('K3+K3', disj(K(3), K(3))), ('prism', None), ('path6', path(6)), ('ring3+ring3+iso', disj(ring(3), ring(3), np.zeros((1, 1)))),
            ('ring7', ring(7)), ('ring8', ring(8)), ('cube', None), ('K44', kb(4, 4)), ('ring4+ring4', disj(ring(4), ring(4))), ('K24', kb(2, 4)),
            # not connected, simple largest eigenvalue, node 0 OUTSIDE the dominant component (its leading-eigenvector entry is 0)
            ('iso+K3', disj(np.zeros((1, 1)), K(3))), ('K2+K3', disj(K(2), K(3))), ('iso+paw', None), ('K2+iso+K4', disj(K(2), np.zeros((1, 1)), K(4)))]
    paw = np.array([[0, 1, 1, 0], [1, 0, 1, 0], [1, 1, 0, 1], [0, 0, 1, 0.]])
    prism = disj(ring(3), ring(3))
    for i in range(3):
        prism[i, i + 3] = prism[i + 3, i] = 1
    cube = np.zeros((8, 8))
    for i in range(8):
        for b in (1, 2, 4):
            cube[i, i ^ b] = 1
    return [(nm, {'prism': prism, 'cube': cube, 'iso+paw': disj(np.zeros((1, 1)), paw)}.get(nm, M)) for nm, M in out]


WSET = [0.25, 0.5, 0.75, 1.0]


def derive(ctx, name, B):
    """from a binary undirected skeleton make the four kinds (+ signed + labels)"""
    r = ctx.nprng
    n = len(B)
    k = int(r.randint(1, len(WSET) + 1))
    Wu = sym(B * r.choice(WSET[:k], size=(n, n)))
    # directed: orient / drop some arcs
    Bd = B * (r.rand(n, n) < 0.7)
    if not Bd.any():
        Bd = B.copy()
    Wd = Bd * r.choice(WSET[:k], size=(n, n))
    Ws = Wu * np.where(sym(r.rand(n, n)) < 0.35, -1, 1)
    m = int(r.randint(1, min(n, 3) + 1))
    lab = r.choice([2, 5, 9][:m], size=n)   # non-contiguous labels
    # distances between random node positions in the plane (symmetric, zero diagonal, generic: no ties)
    xy = r.rand(n, 2)
    pos = np.sqrt(((xy[:, None, :] - xy[None, :, :]) ** 2).sum(-1))
    return {'name': name, 'n': n, 'bu': B.copy(), 'wu': Wu, 'bd': Bd, 'wd': Wd, 'su': Ws, 'ci': lab.astype(float), 'pos': pos}


def with_loops(ctx, g):
    """the same bundle with self-connections on some nodes (never produced by sym(): the skeleton has a zero diagonal)"""
    r = ctx.nprng
    n = g['n']
    on = (r.rand(n) < 0.5).astype(float)
    if not on.any():
        on[int(r.randint(0, n))] = 1.0
    h = dict(g); h['name'] = g['name'] + '+loops'
    for kind in ('bu', 'bd'):
        h[kind] = g[kind] + np.diag(on)
    w = on * r.choice(WSET, size=n)
    for kind in ('wu', 'wd', 'su'):
        h[kind] = g[kind] + np.diag(w)
    return h


def random_skeleton(ctx, n):
    r = ctx.nprng
    dens = float(r.choice([0.25, 0.45, 0.7, 0.9]))
    B = sym((r.rand(n, n) < dens).astype(float))
    if r.rand() < 0.25 and n > 2:     # an isolated node
        v = int(r.randint(0, n)); B[v, :] = 0; B[:, v] = 0
    return B


def connected(B):
    n = len(B)
    if n == 0:
        return False
    seen = {0}; todo = [0]
    while todo:
        u = todo.pop()
        for v in range(n):
            if (B[u, v] or B[v, u]) and v not in seen:
                seen.add(v); todo.append(v)
    return len(seen) == n


def dominant_component(A):
    """None unless the undirected network A is NOT connected and still has a SIMPLE largest eigenvalue (one dominant component next to
    isolated nodes / smaller components: the leading eigenvector is unique up to sign, so its absolute value is a well-defined per-node
    measure); else the node set of the dominant component"""
    n = len(A)
    if n < 2 or connected(A):
        return None
    w, V = np.linalg.eigh(np.asarray(A, float))
    if not (w[-1] > 0 and w[-1] - w[-2] > 1e-3 * max(1.0, float(w[-1]))):
        return None
    return set(int(i) for i in np.flatnonzero(np.abs(V[:, -1]) > 1e-6))


# ---------------------------------------------------------------- the table of measures
# output kinds: 's' scalar, 'v' per-node vector, 'm' per-pair matrix, 'd' distribution / whole-network array (unchanged),
# 'part' label vector compared as a partition, 'ms' multiset (sorted), 't3' n x n x q tensor (first two axes permuted), '-' not compared
def table():
    import bct
    inv = bct.invert
    T = []

    def add(name, kinds, outs, f, labels=False, need=None, aux=None):
        # labels: the label vector g['ci'] is passed (and renumbered) with the matrix; aux: name of a second per-pair matrix of the
        # bundle passed (and renumbered on both axes) with it
        T.append({'name': name, 'kinds': kinds, 'outs': outs, 'f': f, 'labels': labels, 'need': need, 'aux': aux})
    # degree.py
    add('degrees_und', ['bu', 'wu'], 'v', bct.degrees_und)
    add('degrees_dir', ['bd', 'wd'], ('v', 'v', 'v'), bct.degrees_dir)
    add('strengths_und', ['wu', 'bu'], 'v', bct.strengths_und)
    add('strengths_dir', ['wd', 'bd'], 'v', bct.strengths_dir)
    add('strengths_und_sign', ['su'], ('v', 'v', 's', 's'), bct.strengths_und_sign)
    add('jdegree', ['bd'], ('d', 's', 's', 's'), lambda A: bct.jdegree(A.astype(int)))   # float input raises TypeError (index arrays)
    # physical_connectivity.py
    add('density_und', ['bu', 'wu'], ('s', 's', 's'), bct.density_und)
    add('density_dir', ['bd', 'wd'], ('s', 's', 's'), bct.density_dir)
    # clustering.py
    add('clustering_coef_bu', ['bu'], 'v', bct.clustering_coef_bu)
    add('clustering_coef_bd', ['bd'], 'v', bct.clustering_coef_bd)
    add('clustering_coef_wu', ['wu'], 'v', bct.clustering_coef_wu)
    add('clustering_coef_wd', ['wd'], 'v', bct.clustering_coef_wd)
    add('clustering_coef_wu_sign', ['su'], ('v', 'v'), bct.clustering_coef_wu_sign)
    add('clustering_coef_wu_sign:zhang', ['su'], ('v', 'v'), lambda W: bct.clustering_coef_wu_sign(W, 'zhang'))
    add('clustering_coef_wu_sign:costantini', ['su'], 'v', lambda W: bct.clustering_coef_wu_sign(W, 'costantini'))
    add('transitivity_bu', ['bu'], 's', bct.transitivity_bu)
    add('transitivity_bd', ['bd'], 's', bct.transitivity_bd)
    add('transitivity_wu', ['wu'], 's', bct.transitivity_wu)
    add('transitivity_wd', ['wd'], 's', bct.transitivity_wd)
    add('get_components', ['bu', 'wu'], ('part', 'ms'), bct.get_components)
    add('number_of_components', ['bu'], 's', bct.number_of_components)
    # core.py
    add('assortativity_bin:0', ['bu'], 's', lambda A: bct.assortativity_bin(A, 0))
    for fl in (1, 2, 3, 4):
        add('assortativity_bin:%d' % fl, ['bd'], 's', lambda A, fl=fl: bct.assortativity_bin(A, fl))
    add('assortativity_wei:0', ['wu'], 's', lambda A: bct.assortativity_wei(A, 0))
    for fl in (1, 2, 3, 4):
        add('assortativity_wei:%d' % fl, ['wd'], 's', lambda A, fl=fl: bct.assortativity_wei(A, fl))
    for k in (1, 2, 3):
        add('kcore_bu:%d' % k, ['bu'], ('m', 's'), lambda A, k=k: bct.kcore_bu(A, k))
        add('kcore_bd:%d' % k, ['bd'], ('m', 's'), lambda A, k=k: bct.kcore_bd(A, k))
    add('rich_club_bu', ['bu'], ('d', 'd', 'd'), bct.rich_club_bu)
    add('rich_club_bd', ['bd'], ('d', 'd', 'd'), bct.rich_club_bd)
    add('rich_club_wu', ['wu'], 'd', bct.rich_club_wu)
    add('rich_club_wd', ['wd'], 'd', bct.rich_club_wd)
    add('score_wu', ['wu'], ('m', 's'), lambda W: bct.score_wu(W, 1.0))
    add('kcore_bu:n-1', ['bu'], ('m', 's'), lambda A: bct.kcore_bu(A, len(A) - 1))
    add('clique_communities', ['bu'], 'sets', lambda A: bct.clique_communities(A, 3))       # rows = communities, in no particular order
    add('local_assortativity_wu_sign', ['su'], ('v', 'v'), bct.local_assortativity_wu_sign)
    # centrality.py
    add('betweenness_bin', ['bu', 'bd'], 'v', bct.betweenness_bin)
    add('betweenness_wei', ['wu', 'wd'], 'v', lambda W: bct.betweenness_wei(inv(W)))
    add('edge_betweenness_bin', ['bu', 'bd'], ('m', 'v'), bct.edge_betweenness_bin)
    add('edge_betweenness_wei', ['wu', 'wd'], ('m', 'v'), lambda W: bct.edge_betweenness_wei(inv(W)))
    add('eigenvector_centrality_und', ['bu', 'wu'], 'v', bct.eigenvector_centrality_und, need='connected')
    # outside the connected domain the measure is still well defined when the largest eigenvalue is simple (dominant component +
    # isolated nodes / smaller components): nodes outside the dominant component get 0, and NO numbering may flip the sign of the vector
    add('eigenvector_centrality_und:disconnected', ['bu', 'wu'], 'v', bct.eigenvector_centrality_und, need='dominant')
    add('pagerank_centrality', ['bu', 'wu', 'bd'], 'v', lambda A: bct.pagerank_centrality(A, 0.85))
    # the prior falff is a per-node vector: it is renumbered WITH the nodes (labels 2/5/9 as a non-uniform positive prior); other damping
    add('pagerank_centrality:falff', ['bu', 'wd'], 'v', lambda A, f: bct.pagerank_centrality(A, 0.5, falff=f), labels=True)
    add('subgraph_centrality', ['bu'], 'v', bct.subgraph_centrality)
    add('flow_coef_bd', ['bd', 'bu'], ('v', 's', 'v'), bct.flow_coef_bd)
    add('kcoreness_centrality_bu', ['bu'], ('v', 'd'), bct.kcoreness_centrality_bu)
    add('kcoreness_centrality_bd', ['bd'], ('v', 'd'), bct.kcoreness_centrality_bd)
    for fl in (0, 1, 2, 3):
        add('module_degree_zscore:%d' % fl, ['wu'] if fl == 0 else ['wd'], 'v', lambda W, ci, fl=fl: bct.module_degree_zscore(W, ci, fl), labels=True)
    add('participation_coef', ['wu', 'bu'], 'v', bct.participation_coef, labels=True)
    add('participation_coef:in', ['wd'], 'v', lambda W, ci: bct.participation_coef(W, ci, 'in'), labels=True)
    add('participation_coef:out', ['wd'], 'v', lambda W, ci: bct.participation_coef(W, ci, 'out'), labels=True)
    add('participation_coef_sparse', ['wu'], 'v', lambda W, ci: bct.participation_coef_sparse(_csr(W), ci), labels=True)
    add('participation_coef_sign', ['su'], ('v', 'v'), bct.participation_coef_sign, labels=True)
    add('diversity_coef_sign', ['su'], ('v', 'v'), bct.diversity_coef_sign, labels=True)
    add('gateway_coef_sign', ['su'], ('v', 'v'), bct.gateway_coef_sign, labels=True)
    add('erange', ['bd'], ('m', 's', '-', '-'), bct.erange)
    # distance.py
    add('distance_bin', ['bu', 'bd'], 'm', bct.distance_bin)
    add('distance_wei', ['wu', 'wd'], ('m', '-'), lambda W: bct.distance_wei(inv(W)))
    add('distance_wei_floyd', ['wu', 'wd'], ('m', '-', '-'), lambda W: bct.distance_wei_floyd(W, 'inv'))
    add('distance_wei_floyd:none', ['wu', 'wd'], ('m', '-', '-'), lambda W: bct.distance_wei_floyd(W))
    add('distance_wei_floyd:log', ['wu', 'wd'], ('m', '-', '-'), lambda W: bct.distance_wei_floyd(W, 'log'))      # weights in (0, 1]
    # breadth(CIJ, s) for every source s as the rows of one matrix (branch = which predecessor: tie-dependent, not compared)
    add('breadth', ['bd'], 'm', lambda A: np.array([bct.breadth(A, s)[0] for s in range(len(A))]))
    # findpaths raises on every input with this NumPy (TypeError in a print / IndexError): the entry is consistent as long as both
    # sides raise alike and starts comparing as soon as the routine runs again; cycprob on the walk tensor of findwalks
    add('findpaths', ['bd'], ('t3', 's', 'd', 's', '-', '-'), lambda A: bct.findpaths(A, min(3, len(A) - 1), np.arange(len(A))))
    add('cycprob', ['bd'], ('d', 'd'), lambda A: bct.cycprob(bct.findwalks(A)[0]))
    # the node sequence of THE shortest path, on networks where it is unique for every pair (trees, odd rings)
    add('retrieve_shortest_path', ['bu'], 'paths', _all_shortest_paths, need='unique_sp')
    # greedy navigation on a second matrix (distances between node positions: generic, so the greedy choice is unique)
    add('navigation_wu', ['wu'], ('s', 'm', 'm', 'm', '-'), lambda W, D: bct.navigation_wu(bct.invert(W), D), aux='pos', need='connected')
    add('breadthdist', ['bu', 'bd'], ('m', 'm'), bct.breadthdist)
    add('reachdist', ['bu', 'bd'], ('m', 'm'), bct.reachdist)
    add('charpath', ['bu', 'bd'], ('s', 's', 'v', 's', 's'), lambda A: bct.charpath(bct.distance_bin(A)))
    add('charpath:finite', ['bu', 'bd'], ('s', 's', 'v', 's', 's'), lambda A: bct.charpath(bct.distance_bin(A), include_infinite=False))
    add('findwalks', ['bd', 'bu'], ('t3', 's', 'd'), bct.findwalks)
    add('mean_first_passage_time', ['bu', 'wu'], 'm', bct.mean_first_passage_time, need='connected')
    # efficiency.py
    add('efficiency_bin', ['bu', 'bd'], 's', bct.efficiency_bin)
    add('efficiency_bin:local', ['bu', 'bd'], 'v', lambda A: bct.efficiency_bin(A, True))
    add('efficiency_wei', ['wu'], 's', bct.efficiency_wei)
    add('efficiency_wei:local', ['wu'], 'v', lambda W: bct.efficiency_wei(W, True))
    add('efficiency_wei:original', ['wu'], 'v', lambda W: bct.efficiency_wei(W, 'original'))
    add('resource_efficiency_bin', ['bu'], ('m', 'm'), lambda A: bct.resource_efficiency_bin(A, 0.5), need='connected')
    add('rout_efficiency:log', ['wu'], ('s', 'm', 'v'), lambda W: bct.rout_efficiency(W, 'log'), need='connected')
    add('diffusion_efficiency', ['bu', 'wu'], ('s', 'm'), bct.diffusion_efficiency, need='connected')
    add('rout_efficiency', ['wu'], ('s', 'm', 'v'), lambda W: bct.rout_efficiency(W, 'inv'), need='connected')
    # similarity.py
    add('edge_nei_overlap_bu', ['bu'], ('m', '-', '-'), bct.edge_nei_overlap_bu)
    add('edge_nei_overlap_bd', ['bd'], ('m', '-', '-'), bct.edge_nei_overlap_bd)
    for st in (0, 1, 2, 3, 4):
        add('gtom:%d' % st, ['bu'], 'm', lambda A, st=st: bct.gtom(A, st))
    add('matching_ind', ['bd', 'bu'], ('m', 'm', 'm'), bct.matching_ind)
    add('matching_ind_und', ['bu'], 'm', bct.matching_ind_und)
    # utils/other.py (weight conversions: per-pair matrices)
    add('binarize', ['wd', 'su'], 'm', bct.binarize)
    add('normalize', ['wd', 'su'], 'm', bct.normalize)
    add('invert', ['wd'], 'm', bct.invert)
    add('threshold_absolute', ['wd', 'su'], 'm', lambda W: bct.threshold_absolute(W, 0.5))
    for wcm in ('binarize', 'normalize', 'lengths'):
        add('weight_conversion:' + wcm, ['wd'], 'm', lambda W, wcm=wcm: bct.weight_conversion(W, wcm))
    return T


def _csr(W):
    import scipy.sparse
    return scipy.sparse.csr_matrix(W)


def _all_shortest_paths(A):
    import bct
    _, hops, Pmat = bct.distance_wei_floyd(A)
    n = len(A)
    return {(s, t): np.asarray(bct.retrieve_shortest_path(s, t, hops, Pmat)).ravel().astype(int).tolist()
            for s in range(n) for t in range(n) if s != t and hops[s, t] > 0}


def unique_shortest_paths(B):
    """every connected ordered pair of the binary undirected network B is joined by exactly one shortest path (brute force: BFS layers
    with path counts)"""
    n = len(B)
    for s in range(n):
        dist = {s: 0}; cnt = {s: 1}; layer = [s]
        while layer:
            nxt = []
            for u in layer:
                for v in range(n):
                    if B[u, v]:
                        if v not in dist:
                            dist[v] = dist[u] + 1; cnt[v] = 0; nxt.append(v)
                        if dist[v] == dist[u] + 1:
                            cnt[v] += cnt[u]
            layer = nxt
        if any(c > 1 for c in cnt.values()):
            return False
    return True


def quiet(f, *a):
    with contextlib.redirect_stdout(io.StringIO()):
        return call(f, *a, _t=20.0)


def canon_part(lab):
    lab = list(np.asarray(lab).tolist())
    blocks = {}
    for i, l in enumerate(lab):
        blocks.setdefault(l, []).append(i)
    return sorted(blocks.values())


def close(a, b):
    a = np.asarray(a, float); b = np.asarray(b, float)
    if a.shape != b.shape:
        return False
    fa, fb = np.isfinite(a), np.isfinite(b)
    if fa.all() and fb.all():           # the common case, without the nan / inf bookkeeping below (same verdict)
        if not a.size:
            return True
        return bool(np.all(np.abs(a - b) <= TOL * max(1.0, float(np.abs(a).max()))))
    if not np.array_equal(fa, fb):
        return False
    if not np.array_equal(np.where(fa, 0, np.nan_to_num(a, nan=7e300, posinf=8e300, neginf=-8e300)),
                          np.where(fb, 0, np.nan_to_num(b, nan=7e300, posinf=8e300, neginf=-8e300))):
        return False
    if not fa.any():
        return True
    scale = max(1.0, float(np.abs(a[fa]).max()))
    return bool(np.all(np.abs(a[fa] - b[fa]) <= TOL * scale))


def transport(kind, x, p):
    """p.x : the renumbered measure"""
    if kind == 'v':
        return np.asarray(x)[p]
    if kind == 'm':
        return np.asarray(x)[np.ix_(p, p)]
    if kind == 't3':
        return np.asarray(x)[np.ix_(p, p)]
    return x


def compare(outs, r0, r1, p):
    """r0 = f(A), r1 = f(A[ix_(p,p)]); returns None or a description of the first difference"""
    if not isinstance(outs, tuple):
        outs, r0, r1 = (outs,), (r0,), (r1,)
    if len(r0) != len(outs) or len(r1) != len(outs):
        return 'arity changed'
    for k, (kind, a, b) in enumerate(zip(outs, r0, r1)):
        if kind == '-':
            continue
        if kind == 'part':
            pa = canon_part(np.asarray(a)[p])
            if pa != canon_part(b):
                return 'output %d (partition): %s vs %s' % (k, pa, canon_part(b))
            continue
        if kind == 'ms':
            if not close(np.sort(np.asarray(a, float)), np.sort(np.asarray(b, float))):
                return 'output %d (multiset) differs' % k
            continue
        if kind == 'paths':
            # b[(i, j)] is a node sequence of the renumbered network: node x there is node p[x] of the original
            pl = list(p)
            want = {(i, j): a.get((pl[i], pl[j])) for (i, j) in b}
            got = {ij: [pl[x] for x in seq] for ij, seq in b.items()}
            if len(a) != len(b) or want != got:
                bad = [ij for ij in got if got[ij] != want[ij]][:1]
                return 'output %d (paths): pair %s: expected %s got %s' % (k, bad, [want[x] for x in bad], [got[x] for x in bad])
            continue
        if kind == 'sets':
            # rows are 0/1 membership vectors over the nodes; the ORDER of the rows is free
            ra = sorted(tuple(np.asarray(r)[p].astype(int).tolist()) for r in np.atleast_2d(np.asarray(a)).reshape(-1, len(p)))
            rb = sorted(tuple(np.asarray(r).astype(int).tolist()) for r in np.atleast_2d(np.asarray(b)).reshape(-1, len(p)))
            if ra != rb:
                return 'output %d (set of node sets): expected %s got %s' % (k, ra, rb)
            continue
        want = transport(kind, a, p)
        if not close(want, b):
            return 'output %d (%s): expected %s got %s' % (k, kind, np.asarray(want).tolist(), np.asarray(b).tolist())
    return None


def safe(f, *a):
    try:
        return quiet(f, *a), None
    except Timeout:
        return None, 'Timeout'
    except Exception as e:
        return None, type(e).__name__


# ---------------------------------------------------------------- correspondence table (term id in Model/SymTerm.v measure_by_id)
def enc_case(mid, k, A, ci=(), ks=()):
    return 'm %d %d %s %s %s' % (mid, k, enc_mat(A.tolist(), enc_q), enc_list(list(ci), enc_q), enc_list(list(ks), enc_q))


def infcode(x):
    x = np.array(x, float)
    x[np.isinf(x)] = -1
    return x


def corr_entries(bct, g):
    """yield (name, line, expected ndarray (2-D), exact?) for one graph bundle g"""
    bu, bd, wu, wd, ci, n = g['bu'], g['bd'], g['wu'], g['wd'], g['ci'], g['n']
    row = lambda v: np.asarray(v, float).reshape(1, -1)
    sc = lambda s: np.array([[float(s)]])
    E = []

    def add(name, mid, k, A, want, exact, ci_=(), ks=()):
        E.append((name, enc_case(mid, k, A, ci_, ks), want, exact, {'measure': name, 'A': A.tolist(), 'ci': list(ci_), 'ks': [str(x) for x in ks], 'k': k}))
    add('degrees_und', 0, 0, wu, lambda: row(bct.degrees_und(wu)), True)
    add('degrees_dir:in', 1, 0, wd, lambda: row(bct.degrees_dir(wd)[0]), True)
    add('degrees_dir:out', 2, 0, wd, lambda: row(bct.degrees_dir(wd)[1]), True)
    add('degrees_dir:deg', 3, 0, wd, lambda: row(bct.degrees_dir(wd)[2]), True)
    add('strengths_und', 4, 0, wu, lambda: row(bct.strengths_und(wu)), True)
    add('strengths_dir', 5, 0, wd, lambda: row(bct.strengths_dir(wd)), True)
    if n >= 2:
        add('density_dir', 6, 0, bd, lambda: sc(bct.density_dir(bd)[0]), False)
        add('density_und', 7, 0, bu, lambda: sc(bct.density_und(bu)[0]), False)
    add('clustering_coef_bu', 8, 0, bu, lambda: row(bct.clustering_coef_bu(bu)), False)
    add('clustering_coef_bd', 9, 0, bd, lambda: row(bct.clustering_coef_bd(bd)), False)
    add('transitivity_bd', 10, 0, bd, lambda: sc(bct.transitivity_bd(bd)), False)
    add('transitivity_bu', 11, 0, bu, lambda: sc(bct.transitivity_bu(bu)), False)
    add('clustering_coef_wu', 12, 0, wu, lambda: row(bct.clustering_coef_wu(wu)), False)
    add('transitivity_wu', 13, 0, wu, lambda: sc(bct.transitivity_wu(wu)), False)
    for w, nm in enumerate(('in', 'out', 'all')):
        add('matching_ind:' + nm, 14 + w, 0, bd, lambda w=w: bct.matching_ind(bd)[w], False)
    add('edge_nei_overlap_bu', 17, 0, bu, lambda: infcode(bct.edge_nei_overlap_bu(bu)[0]), False)
    add('edge_nei_overlap_bd', 17, 0, bd, lambda: infcode(bct.edge_nei_overlap_bd(bd)[0]), False)
    for st in (0, 1, 2, 3):
        add('gtom:%d' % st, 18, st, bu, lambda st=st: bct.gtom(bu, st), False)
    add('flow_coef_bd:total_flo', 19, 0, bd, lambda: row(bct.flow_coef_bd(bd)[2]), True)
    add('flow_coef_bd:fc', 20, 0, bd, lambda: row(bct.flow_coef_bd(bd)[0]), False)
    add('participation_coef', 21, 0, wu, lambda: row(bct.participation_coef(wu, ci)), False, ci_=ci)
    add('participation_coef:dir', 21, 0, wd, lambda: row(bct.participation_coef(wd, ci, 'out')), False, ci_=ci)
    add('module_degree_zscore', 22, 0, wu, lambda: row(bct.module_degree_zscore(wu, ci)), False, ci_=ci)
    add('distance_bin', 23, 0, bd, lambda: infcode(bct.distance_bin(bd)), True)
    L = np.where(wd != 0, 1.0 / np.where(wd != 0, wd, 1), 0)       # lengths 1, 4/3, 2, 4: use dyadic ones only
    Ld = np.where(wd != 0, np.round(wd * 4), 0)                      # integer lengths 1..4
    add('distance_wei', 24, 0, Ld, lambda: infcode(bct.distance_wei(Ld)[0]), True)
    if n >= 2:
        add('efficiency_bin', 25, 0, bd, lambda: sc(bct.efficiency_bin(bd)), False)
        add('charpath:lambda', 26, 0, bd, lambda: sc(bct.charpath(bct.distance_bin(bd), include_infinite=False)[0]), False)
    add('reachdist:R', 27, 0, bd, lambda: np.asarray(bct.reachdist(bd)[0], float), True)

    def comp_rel():
        c = bct.get_components(bu)[0]
        return (c[:, None] == c[None, :]).astype(float)

    def comp_size():
        c, s = bct.get_components(bu)
        return row(s[c - 1])
    add('get_components:relation', 28, 0, bu, comp_rel, True)
    add('get_components:size', 29, 0, bu, comp_size, True)
    add('number_of_components', 30, 0, bu, lambda: sc(bct.number_of_components(bu)), True)
    for k in (1, 2, 3):
        add('kcore_bu:%d' % k, 31, 0, bu, lambda k=k: bct.kcore_bu(bu, k)[0], True, ks=[k])
        add('kcore_bd:%d' % k, 32, 0, bd, lambda k=k: bct.kcore_bd(bd, k)[0], True, ks=[k])
        add('kcore_bu:kn:%d' % k, 33, 0, bu, lambda k=k: sc(bct.kcore_bu(bu, k)[1]), True, ks=[k])
        add('kcore_bd:kn:%d' % k, 34, 0, bd, lambda k=k: sc(bct.kcore_bd(bd, k)[1]), True, ks=[k])
    add('score_wu', 35, 0, wu, lambda: bct.score_wu(wu, 1.0)[0], True, ks=[1])
    for nm, mid, A, f in (('rich_club_bu', 36, bu, bct.rich_club_bu), ('rich_club_bd', 37, bd, bct.rich_club_bd)):
        R, err = safe(f, A)
        if err is None:
            for k in range(len(R[0])):
                add('%s:level%d' % (nm, k), mid, 0, A, lambda R=R, k=k: sc(R[0][k]), False, ks=[k + 1])
    add('assortativity_bin:0', 38, 0, bu, lambda: sc(bct.assortativity_bin(bu, 0)), False)
    add('assortativity_wei:0', 39, 0, wu, lambda: sc(bct.assortativity_wei(wu, 0)), False)
    for fl in (1, 2, 3, 4):
        add('assortativity_bin:%d' % fl, 38, fl, bd, lambda fl=fl: sc(bct.assortativity_bin(bd, fl)), False)
        add('assortativity_wei:%d' % fl, 39, fl, wd, lambda fl=fl: sc(bct.assortativity_wei(wd, fl)), False)
        add('assortativity_bin:%d:signed' % fl, 38, fl, g['su'], lambda fl=fl: sc(bct.assortativity_bin(g['su'], fl)), False)   # edges = nonzero cells
    if n >= 1:
        add('kcoreness_centrality_bu', 43, max(n - 1, 0), bu, lambda: row(bct.kcoreness_centrality_bu(bu)[0]), True)
        add('kcoreness_centrality_bd', 44, max(n - 1, 0), bd, lambda: row(bct.kcoreness_centrality_bd(bd)[0]), True)
    add('clustering_coef_wd', 45, 0, wd, lambda: row(bct.clustering_coef_wd(wd)), False)
    add('transitivity_wd', 46, 0, wd, lambda: sc(bct.transitivity_wd(wd)), False)
    if n >= 2:
        add('efficiency_wei', 47, 0, wu, lambda: sc(bct.efficiency_wei(wu)), False)
    add('betweenness_bin', 48, 0, bd, lambda: row(bct.betweenness_bin(bd)), False)
    add('betweenness_bin:und', 48, 0, bu, lambda: row(bct.betweenness_bin(bu)), False)
    Db = bct.distance_bin(bd)
    add('charpath:ecc', 49, 0, bd, lambda: row(np.asarray(bct.charpath(Db, include_infinite=False)[2], float)), True)
    if n >= 2 and np.isfinite(Db).all():
        add('charpath:radius', 50, 0, bd, lambda: sc(bct.charpath(Db, include_infinite=False)[3]), True)
        add('charpath:diameter', 51, 0, bd, lambda: sc(bct.charpath(Db, include_infinite=False)[4]), True)
    for q in range(1, n):
        add('findwalks:q%d' % q, 52, q, bd, lambda q=q: bct.findwalks(bd)[0][:, :, q], True)
    Ji, err = safe(bct.jdegree, bd.astype(int))
    if err is None:
        J = Ji[0]
        for a in range(J.shape[0]):
            for b in range(J.shape[1]):
                add('jdegree:J', 53, 0, bd, lambda a=a, b=b: sc(J[a, b]), True, ks=[a, b])
    return E


def metamorphic_on(ctx, T, g, perms, stats):
    n = g['n']
    conn = connected(g['bu'])
    usp = None
    for m in T:
        for kind in m['kinds']:
            if m['need'] == 'connected' and not conn:
                continue
            if m['need'] == 'unique_sp':
                usp = unique_shortest_paths(g['bu']) if usp is None else usp
                if not usp:
                    continue
            A = g[kind]
            if m['need'] == 'dominant':
                dom = dominant_component(A)
                if dom is None:
                    continue
                ctx.count('dominant_component:node0_%s' % ('inside' if 0 in dom else 'outside'))
            args0 = (A.copy(), g['ci'].copy()) if m['labels'] else ((A.copy(), g[m['aux']].copy()) if m['aux'] else (A.copy(),))
            ctx.take_variants()
            r0, e0 = safe(m['f'], *args0)
            v0 = ctx.take_variants() or []       # input-representation layer: the two calls of a pair may run on different representations
            for p in perms:
                Ap = A[np.ix_(p, p)].copy()
                args1 = (Ap, g['ci'][p].copy()) if m['labels'] else ((Ap, g[m['aux']][np.ix_(p, p)].copy()) if m['aux'] else (Ap,))
                r1, e1 = safe(m['f'], *args1)
                v1 = ctx.take_variants() or []
                case = {'measure': m['name'], 'kind': kind, 'graph': g['name'], 'A': A.tolist(), 'perm': p.tolist()}
                if v0 or v1:
                    case['_input_variant'] = v0 + v1
                if m['labels']:
                    case['ci'] = g['ci'].tolist()
                if m['aux']:
                    case['aux'] = g[m['aux']].tolist()
                ctx.case(case, nontrivial=bool(A.any()) and not np.array_equal(p, np.arange(n)))
                key = m['name'].split(':')[0] + ':equivariance'
                if e0 or e1:
                    if e0 != e1:
                        ctx.fail(key, 'raises %s on the original but %s on the renumbered network' % (e0, e1), case)
                    else:
                        ctx.count('both_raise:' + m['name'] + ':' + str(e0))
                    continue
                why = compare(m['outs'], r0, r1, p)
                if why:
                    ctx.fail(key, 'f(A[ix_(p,p)]) != p.f(A): ' + why, case)
                stats[m['name']] = stats.get(m['name'], 0) + 1


def run(ctx):
    import bct
    T = table()
    ctx.extra['measures_in_metamorphic_table'] = len(T)
    ctx.extra['measure_names'] = [t['name'] for t in T]
    # ------------------------------------------------------------ graphs
    nmax_all = ctx.scale(4, 5)
    graphs = []
    for nm, B in structured():
        if (len(B) <= 6 and nm not in ('iso+K3', 'K2+K3')) or ctx.thorough or nm in ('ring8', 'cube'):     # those two: renumberings of K3+iso / K3+K2
            graphs.append(derive(ctx, nm, B))
    for t in range(ctx.scale(22, 300)):
        n = int(ctx.nprng.randint(2, 9))
        graphs.append(derive(ctx, 'er', random_skeleton(ctx, n)))
    n_corr_pool = len(graphs)          # the correspondence below draws from these (terms are specifications on loop-free networks)
    # never produced by the families above: self-connections, a single node, more than 8 nodes
    for t in range(ctx.scale(2, 12)):
        graphs.append(with_loops(ctx, derive(ctx, 'er', random_skeleton(ctx, int(ctx.nprng.randint(3, 7))))))
    graphs.append(derive(ctx, 'single', np.zeros((1, 1))))
    graphs.append(with_loops(ctx, derive(ctx, 'single', np.zeros((1, 1)))))
    for t in range(ctx.scale(2, 12)):
        graphs.append(derive(ctx, 'er-large', random_skeleton(ctx, int(ctx.nprng.randint(9, 13)))))
    nrand = ctx.scale(3, 6)
    stats = {}
    for g in graphs:
        n = g['n']
        ctx.count('family:' + g['name']); ctx.count('n=%d' % n)
        # which permutations
        if n <= nmax_all and (g['name'] != 'er' or ctx.nprng.rand() < ctx.scale(0.35, 0.5)):
            perms = [np.array(p) for p in itertools.permutations(range(n))]
            ctx.count('exhaustive_perm_sets')
        else:
            perms = [ctx.nprng.permutation(n) for _ in range(nrand)]
            # transpositions involving node 0 and the last node catch "first/last index is special"
            if n >= 2:
                q = np.arange(n); q[0], q[n - 1] = q[n - 1], q[0]; perms.append(q)
                q = np.roll(np.arange(n), 1); perms.append(q)
        # n = 1 is about index handling (empty ranges, shape (1,1)); its arrays are 0/1-valued whatever the kind, so the input-
        # representation layer would turn nearly every call into a dtype experiment (charpath on a bool [[0]]): arguments as passed there
        with (no_variants() if n == 1 else contextlib.nullcontext()):
            metamorphic_on(ctx, T, g, perms, stats)
    ctx.extra['metamorphic_comparisons_per_measure'] = stats

    # ------------------------------------------------------------ correspondence with the extracted term evaluator
    lines, pend = [], []
    cg = [g for g in graphs[:n_corr_pool] if g['n'] <= 7]
    cg = cg[:ctx.scale(34, 200)]
    for g in cg:
        for name, line, want, exact, case in corr_entries(bct, g):
            ctx.take_variants()
            w, err = safe(want)
            case = ctx.tag_case(case)
            if err is not None:
                # the implementation raises where the term has a value: only the two documented-as-is cases are tolerated
                if (name.split(':')[0], err) in RAISES_OK:
                    ctx.count('corr_skipped_impl_raises:' + name.split(':')[0])
                else:
                    ctx.mismatch(name.split(':')[0] + ':raises', 'implementation raises %s on an input of its domain (the term evaluates)' % err, case, None, err)
                continue
            lines.append(line); pend.append((name, np.asarray(w, float), exact, case))
    # LAPACK measures: the defining equation (a term) is evaluated by the model on the implementation's result
    for g in cg:
        A = g['bu']; n = g['n']
        if n < 2 or not A.any():
            continue
        for kind in ('bu', 'wu'):
            A = g[kind]
            ctx.take_variants()
            r, err = safe(lambda: _pagerank_raw(bct, A, 0.85))
            if err is None:
                lines.append(enc_case(40, 0, A, [F(float(x)) for x in r], [F(0.85)]))
                pend.append(('pagerank_centrality:equation', None, 'const', ctx.tag_case({'measure': 'pagerank residual', 'A': A.tolist()})))
        if connected(g['bu']):
            ctx.take_variants()
            v, err = safe(bct.eigenvector_centrality_und, g['bu'])
            if err is None:
                lam = float(np.max(np.linalg.eigvalsh(g['bu'])))
                lines.append(enc_case(41, 0, g['bu'], [F(float(x)) for x in v], [F(lam)]))
                pend.append(('eigenvector_centrality_und:equation', None, 'zero', ctx.tag_case({'measure': 'eigenvector residual', 'A': g['bu'].tolist()})))
        if n <= 5:
            ctx.take_variants()
            s, err = safe(bct.subgraph_centrality, g['bu'])
            if err is None:
                lines.append(enc_case(42, 30, g['bu']))
                pend.append(('subgraph_centrality:series', np.asarray(s, float).reshape(1, -1), False, ctx.tag_case({'measure': 'subgraph truncation K=30', 'A': g['bu'].tolist()})))
    res = run_model(ID, lines)
    ctx.model_cases = len(lines)
    for (name, w, exact, case), m in zip(pend, res):
        if is_err(m):
            ctx.mismatch('model-error:' + name, m['error'], case); continue
        M = np.array([[float(dec_q(x)) for x in rowv] for rowv in m], float)
        ctx.count('corr:' + name.split(':')[0])
        if exact == 'zero':
            if not np.all(np.abs(M) <= 1e-9 * max(1.0, np.abs(np.array(case['A'])).sum())):
                ctx.mismatch(name, 'implementation result does not satisfy the defining equation (model residual)', case, M.tolist(), None)
            continue
        if exact == 'const':
            if M.size and float(M.max() - M.min()) > 1e-9:
                ctx.mismatch(name, 'implementation result does not satisfy the defining equation up to normalisation', case, M.tolist(), None)
            continue
        if M.shape != w.shape and M.size == w.size:
            M = M.reshape(w.shape)
        if not np.isfinite(w).all():
            # the term language has no nan/inf: entries where the implementation divides by zero are not compared
            ctx.count('corr_nonfinite_entries_skipped:' + name.split(':')[0])
            if M.shape != w.shape:
                ctx.mismatch(name, 'shape', case, M.tolist(), w.tolist()); continue
            mask = np.isfinite(w)
            ok = close(M[mask], w[mask]) if not exact else np.array_equal(M[mask], w[mask])
        else:
            ok = np.array_equal(M, w) if exact else close(M, w)
        if not ok:
            ctx.mismatch(name, 'term evaluator and implementation differ', case, M.tolist(), w.tolist())
    # ------------------------------------------------------------ output kinds
    # eval_s / eval_v / eval_m read a result of another kind as 0: the kinded theorems (C04_library_equivariant, C04_gen_equivariant)
    # select the reading by the kind computed from the syntax; here that kind (and the one the table kind_by_id pins) is compared
    # with the SHAPE of what the implementation returns for the entry
    kk = {}
    for (name, w, exact, case), line in zip(pend, lines):
        nn = len(case['A'])
        if nn >= 2:
            mid, k = (int(x) for x in line.split()[1:3])
            kk.setdefault((mid, k, 1 if w is None else shape_kind(np.asarray(w).shape, nn)), (name, case))
    kres = run_model(ID, ['mkind %d %d' % (mid, k) for (mid, k, _) in kk])
    ctx.model_cases += len(kk)
    for ((mid, k, want), (name, case)), r in zip(kk.items(), kres):
        ctx.count('kind_checked')
        if is_err(r) or list(r) != [want, want]:
            ctx.mismatch(name.split(':')[0] + ':kind', 'output kind of the term (measure_by_id %d %d: [from the syntax, from the table kind_by_id]) vs kind of the '
                         'implementation\'s output (0 scalar, 1 per-node vector, 2 per-pair matrix)' % (mid, k), case, r, want)
    # ------------------------------------------------------------ programs regenerated from the Python source
    # networks with self-connections too (the masks of 366dab6 act only there): generated program vs implementation only - the
    # hand-written terms are specifications on loop-free networks
    gen_correspondence(ctx, bct, cg + [g for g in graphs[n_corr_pool:] if g['name'].endswith('+loops') and 2 <= g['n'] <= 7][:ctx.scale(2, 12)])


def shape_kind(shape, n):
    """kind of an output already normalised to 2-D: (1,1) scalar, (1,n) per-node vector, (n,n) per-pair matrix (n >= 2)"""
    return 0 if tuple(shape) == (1, 1) else (1 if tuple(shape) == (1, n) else (2 if tuple(shape) == (n, n) else -1))


def has_prim(p):
    return isinstance(p, tuple) and (p[0] == 'Prim' or any(has_prim(x) for x in p[1:]))


def gen_correspondence(ctx, bct, cg):
    """every program regenerated from the source: (a) against the implementation on the same inputs, (b) against the
       hand-written term of the same measure (syntactic identity decided by the extracted prog_eqb, else evaluation)"""
    if GEN is None:
        ctx.errors.append('translate_symterm crashed:\n' + (GEN_ERROR or '')[-1500:])
        return
    names = GEN['names']
    st_fail = TS.selftest()
    ctx.extra['translator_selftest'] = {'negative_snippets_rejected': len(TS.NEGATIVE), 'positive_snippets_exact': len(TS.POSITIVE), 'failures': st_fail}
    if st_fail:
        ctx.errors.append('translate_symterm self-test (fail-closed snippets): ' + '; '.join(st_fail))
    ctx.extra['generated_programs'] = len(names)
    ctx.extra['not_translatable'] = {k: v[:200] for k, v in GEN['untranslatable'].items()}
    for nm in GEN_EXPECTED:
        if nm not in names:
            fn = nm.split('#')[0].split(':')[0]
            ctx.mismatch(fn + ':translation', 'the source of %s no longer translates into the index-symmetric term language '
                         '(it did on the unchanged tree): %s' % (nm, GEN['untranslatable'].get(nm) or GEN['untranslatable'].get(nm.split('#')[0], 'not generated')),
                         {'function': fn, 'output': nm}, None, None)
    fp = run_model(ID, ['gfp', 'gcount'])
    if is_err(fp[0]) or dec_z(fp[0]) != GEN['fingerprint'] or fp[1] != len(names):
        ctx.errors.append('the extracted driver was not built from the Gen/SymTermGen.v of this run (fingerprint %r, %r programs; expected %r, %d): '
                          'a concurrent ./check C04 on another tree? re-run' % (fp[0], fp[1], GEN['fingerprint'], len(names)))
        return
    lines, pend = [], []
    for idx, t in enumerate(GEN['table']):
        tg = t['target']
        kinds = GEN_DOMAIN.get(tg['func'])
        if kinds is None:
            ctx.count('gen_without_domain:' + t['name'])
            continue
        hand = GEN_HAND.get(t['name'])
        prim = has_prim(t['prog'])
        f = getattr(bct, tg['func'])
        for gi, g in enumerate(cg):
            for kind in kinds[:1] if (len(cg) > 60 and g['n'] > 5) else kinds:
                # dtypes: the model has exact rationals and no dtypes; the implementation is ALSO driven with integer arrays
                # (every function, a slice of the graphs) and, where the source has a dtype guard the translator merged
                # (`if not np.issubdtype(W.dtype, np.inexact)`: normalize, invert), with integer and boolean arrays on every graph
                variants = [('float', g[kind])]
                if t['dtype_guards'] or gi % 4 == 0:
                    variants.append(('int', (g[kind] if kind in ('bu', 'bd') else np.round(g[kind] * 4)).astype(int)))
                if t['dtype_guards']:
                    variants.append(('bool', g[kind] != 0))
                for dt, A in variants:
                    for ks in GEN_SCALARS.get(tg['func'], [()]):
                        ctx.take_variants()
                        r, err = safe(lambda: f(A.copy(), *ks, **tg['fixed']))
                        case = ctx.tag_case({'generated': t['name'], 'function': tg['func'], 'dtype': dt, 'A': A.astype(float).tolist(), 'ks': list(ks), 'fixed': tg['fixed']})
                        ctx.count('gen_dtype:' + dt)
                        if err is not None:
                            ctx.count('gen_impl_raises:%s:%s:%s' % (tg['func'], dt, err))
                            continue
                        w = r[t['index']] if t['index'] is not None else r
                        w = np.asarray(w, float)
                        w = w.reshape(1, 1) if w.ndim == 0 else (w.reshape(1, -1) if w.ndim == 1 else w)
                        kq = [F(k) for k in ks]
                        Af = A.astype(float)
                        lines.append('g %d %s %s %s' % (idx, enc_mat(Af.tolist(), enc_q), enc_list([], enc_q), enc_list(kq, enc_q)))
                        pend.append(('impl', t, w, case, prim))
                        if hand is not None and not g['name'].endswith('+loops'):
                            lines.append(enc_case(hand[0], hand[1], Af, (), kq))
                            pend.append(('hand', t, w, case, prim))
    gk = {}
    for (what, t, w, case, prim) in pend:
        if what == 'impl' and len(case['A']) >= 2:
            gk.setdefault(GEN['table'].index(t), (shape_kind(w.shape, len(case['A'])), t, case))
    for idx, (want, t, case) in gk.items():
        lines.append('gkind %d' % idx); pend.append(('kind', t, want, case, None))
    sync = {}
    for idx, t in enumerate(GEN['table']):
        hand = GEN_HAND.get(t['name'])
        if hand is not None:
            lines.append('gsame %d %d %d' % (idx, hand[0], hand[1])); pend.append(('same', t, None, None, None))
    res = run_model(ID, lines)
    ctx.model_cases += len(lines)
    last = None
    status = {}
    for (what, t, w, case, prim), m in zip(pend, res):
        name = t['name']
        fn = t['target']['func']
        if is_err(m):
            ctx.mismatch('model-error:gen:' + name, m['error'], case); continue
        if what == 'same':
            sync[name] = bool(m)
            continue
        if what == 'kind':
            ctx.count('gen_kind_checked')
            if m != w:
                ctx.mismatch(fn + ':generated-kind', 'output kind of the generated program (%s, from its syntax) vs kind of the implementation\'s output' % name, case, m, w)
            continue
        Mq = [[dec_q(x) for x in rowv] for rowv in m]
        M = np.array([[float(x) for x in rowv] for rowv in Mq], float)
        if what == 'impl':
            last = (Mq, M)
            ctx.count('gen:' + name)
            if M.shape != w.shape:
                ctx.mismatch(fn + ':generated', 'program generated from the source and implementation differ in shape', case, M.tolist(), w.tolist()); continue
            mask = np.isfinite(w)
            if not mask.all():
                ctx.count('gen_nonfinite_entries_skipped:' + name)
            if not close(M[mask], w[mask]):
                ctx.mismatch(fn + ':generated', 'the program generated from the current source (%s) and the implementation differ: the translator misreads NumPy here' % name,
                             case, M.tolist(), w.tolist())
                status[name] = 'DISAGREES with the implementation'
        else:
            gq, gM = last
            if gM.shape != M.shape:
                ctx.mismatch(fn + ':generated-vs-handwritten', 'shape', case, gM.tolist(), M.tolist()); continue
            mask = np.isfinite(w) if w.shape == M.shape else np.ones(M.shape, bool)
            if prim:
                ok = close(gM[mask], M[mask])
            else:
                ok = all(gq[i][j] == Mq[i][j] for i in range(M.shape[0]) for j in range(M.shape[1]) if mask[i, j])
            ctx.count('gen_vs_hand:' + name)
            if not ok:
                ctx.mismatch(fn + ':generated-vs-handwritten', 'the program generated from the current source (%s) and the hand-written library term (measure_by_id %d %d) '
                             'differ on this input: the code no longer computes the measure the term describes' % ((name,) + GEN_HAND[name]), case, gM.tolist(), M.tolist())
                status[name] = 'DIFFERS from the hand-written term'
    ctx.extra['generated_vs_handwritten'] = {t['name']: (status.get(t['name']) or ('syntactically identical (decided in Coq: gen_same_as_hand)' if sync.get(t['name'])
                                                                                   else ('equal on all sampled inputs (evaluated)' if t['name'] in GEN_HAND else 'no hand-written term; compared with the implementation only')))
                                             for t in GEN['table']}
    ctx.extra['generated_sizes'] = {t['name']: t['size'] for t in GEN['table']}


def _pagerank_raw(bct, A, d):
    return bct.pagerank_centrality(A, d)


def replay(ctx, payload):
    """./check C04 --replay replays/C04-input-….json : re-run one (measure, matrix, permutation) case on /repo"""
    import bct, json
    case = payload.get('case') or payload.get('detail', {}).get('case')
    print(json.dumps({k: payload.get(k) for k in ('property', 'kind', 'key', 'what')}, indent=1))
    if not case or 'perm' not in case:
        print(json.dumps(payload, indent=1)[:4000]); return 0
    m = [t for t in table() if t['name'] == case['measure']][0]
    A = np.array(case['A'], float); p = np.array(case['perm'])
    ci = np.array(case.get('ci', []), float)
    a0 = (A.copy(), ci.copy()) if m['labels'] else (A.copy(),)
    a1 = (A[np.ix_(p, p)].copy(), ci[p].copy()) if m['labels'] else (A[np.ix_(p, p)].copy(),)
    if m['aux']:
        X = np.array(case['aux'], float)
        a0, a1 = (A.copy(), X.copy()), (A[np.ix_(p, p)].copy(), X[np.ix_(p, p)].copy())
    r0, e0 = safe(m['f'], *a0); r1, e1 = safe(m['f'], *a1)
    print('A =', A.tolist()); print('perm =', p.tolist())
    print('f(A) =', tolist(r0), e0); print('f(A[ix_(p,p)]) =', tolist(r1), e1)
    why = ('raises %s vs %s' % (e0, e1)) if (e0 or e1) and e0 != e1 else (None if (e0 or e1) else compare(m['outs'], r0, r1, p))
    print('VIOLATION property=C04 (replayed): ' + why if why else 'equivariant on this case (no violation on the current tree)')
    return 1 if why else 0
