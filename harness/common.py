"""Shared machinery for every property check (see DESIGN.md §1, §3).

A property module harness/cXX.py defines
    ID          = 'C17'
    COQ_FILES   = ['Model/Threshold.v', 'Proofs/Threshold.v', 'Properties/C17.v']   (for obligation counting)
    THEOREMS    = ['tp_count', ...]      (names that must appear with Print Assumptions in Properties/CXX.v)
    def run(ctx): ...                    (generates cases, runs impl + model + oracle, reports through ctx)
and the entry point ./check drives it.
"""
import os, sys, json, time, hashlib, subprocess, signal, fcntl, re, random, traceback, functools, inspect, types, contextlib
from fractions import Fraction

VERIF = os.path.dirname(os.path.dirname(os.path.abspath(__file__)))
REPO = os.environ.get('VERIF_REPO', '/repo')
COQ = os.path.join(VERIF, 'coq')
OCAML = os.path.join(VERIF, 'ocaml')

os.environ.setdefault('BCTPY_VERIF', '1')
os.environ.setdefault('PYTHONHASHSEED', '0')
if REPO not in sys.path:
    sys.path.insert(0, REPO)

import numpy as np  # noqa: E402
import warnings  # noqa: E402
warnings.filterwarnings('ignore')
np.seterr(all='ignore')

FORBIDDEN = re.compile(r'\b(Admitted|admit|Axiom|Axioms|Parameter|Parameters|Conjecture|Hypothesis|Variable|Variables|Hypotheses)\b|Unset\s+Guard|bypass_check|Admit\s+Obligations|type-in-type|impredicative-set|native_compute')
STMT = re.compile(r'^\s*(?:Local\s+|Global\s+|#\[[^\]]*\]\s*)?(Theorem|Lemma|Corollary|Example|Fact|Remark|Proposition)\s+([A-Za-z_][A-Za-z0-9_\']*)', re.M)


# ---------------------------------------------------------------- timeouts
class Timeout(Exception):
    pass


def _alarm(signum, frame):
    raise Timeout()


signal.signal(signal.SIGALRM, _alarm)


def _load_factor():
    """wall-clock limits are meant for an idle machine: stretch them when the run queue is longer than the core count,
    so that a slow machine does not turn into spurious time-outs (never below 1, at most 8)"""
    try:
        return min(8.0, max(1.0, 1.5 * os.getloadavg()[0] / (os.cpu_count() or 1)))
    except Exception:
        return 1.0


def call(f, *a, _t=5.0, **k):
    """Run f under a wall-clock limit (many bct loops never terminate outside their domain)."""
    signal.setitimer(signal.ITIMER_REAL, _t * _load_factor())
    try:
        return f(*a, **k)
    finally:
        signal.setitimer(signal.ITIMER_REAL, 0)


# ---------------------------------------------------------------- recording RNG
class Rec(np.random.RandomState):
    """RandomState that logs every draw; get_rng passes RandomState instances through unchanged.
    Only the outermost call is logged (permutation() calls shuffle() internally)."""

    def __init__(self, seed):
        super().__init__(seed)
        self.log = []
        self._depth = 0

    def _wrap(self, name, meth, a, k, keep_args=True):
        self._depth += 1
        try:
            r = meth(*a, **k)
        finally:
            self._depth -= 1
        if self._depth == 0:
            self.log.append((name, a if keep_args else (), k if keep_args else {}, np.asarray(r).tolist()))
        return r

    def randint(self, *a, **k):
        return self._wrap('randint', super().randint, a, k)

    def random_sample(self, *a, **k):
        return self._wrap('random_sample', super().random_sample, a, k)

    def rand(self, *a, **k):
        return self._wrap('rand', super().rand, a, k)

    def random(self, *a, **k):
        return self._wrap('random', super().random, a, k)

    def permutation(self, *a, **k):
        return self._wrap('permutation', super().permutation, a, k, keep_args=False)

    def choice(self, *a, **k):
        return self._wrap('choice', super().choice, a, k, keep_args=False)

    def shuffle(self, x):
        self._depth += 1
        try:
            r = super().shuffle(x)
        finally:
            self._depth -= 1
        if self._depth == 0:
            self.log.append(('shuffle', (), {}, np.asarray(x).tolist()))
        return r


# ---------------------------------------------------------------- model I/O
def enc_int(x):
    return str(int(x))


def enc_q(x):
    f = Fraction(x) if not isinstance(x, float) else Fraction(x)
    return '%d/%d' % (f.numerator, f.denominator) if f.denominator != 1 else str(f.numerator)


def enc_list(xs, enc=enc_int):
    xs = list(xs)
    return ' '.join([str(len(xs))] + [enc(x) for x in xs])


def enc_mat(M, enc=enc_int):
    rows = [list(r) for r in M]
    return ' '.join([str(len(rows))] + [enc_list(r, enc) for r in rows])


def enc_bool(b):
    return '1' if b else '0'


def dec_z(s):
    return int(s, 0)


def dec_q(s):
    a, b = s.split('/')
    return Fraction(int(a, 0), int(b, 0))


def dec_deep(x, leaf):
    if isinstance(x, list):
        return [dec_deep(y, leaf) for y in x]
    if isinstance(x, str):
        return leaf(x)
    return x


def run_model(pid, lines, timeout=600):
    """Feed case lines to the extracted model's driver; returns a list of parsed JSON results."""
    exe = os.path.join(OCAML, 'build', 'drv_' + pid.lower())
    if not os.path.exists(exe):
        raise RuntimeError('model driver missing: ' + exe)
    inp = '\n'.join(lines) + '\n'
    pre = 'ulimit -s unlimited 2>/dev/null; '
    p = subprocess.run(['/bin/sh', '-c', pre + 'exec ' + exe], input=inp, capture_output=True, text=True, timeout=timeout)
    outs = p.stdout.split('\n')
    if outs and outs[-1] == '':
        outs.pop()
    res = []
    for o in outs:
        try:
            res.append(json.loads(o))
        except Exception:
            res.append({'error': 'unparsable: ' + o[:200]})
    while len(res) < len(lines):
        res.append({'error': 'driver died (rc=%s) %s' % (p.returncode, p.stderr[-200:])})
    return res


def is_err(r):
    return isinstance(r, dict) and 'error' in r


# ---------------------------------------------------------------- helpers
def tolist(x):
    if isinstance(x, np.ndarray):
        return x.tolist()
    if isinstance(x, (np.integer,)):
        return int(x)
    if isinstance(x, (np.floating,)):
        return float(x)
    if isinstance(x, (list, tuple)):
        return [tolist(y) for y in x]
    if isinstance(x, Fraction):
        return str(x)
    if isinstance(x, dict):
        return {str(k): tolist(v) for k, v in x.items()}
    return x


def jhash(x):
    return hashlib.sha1(json.dumps(tolist(x), sort_keys=True, default=str).encode()).hexdigest()[:16]


def frac_close(f, x, tol=1e-9):
    """exact rational f (Fraction or None for inf) against float x"""
    if f is None:
        return np.isinf(x)
    if not np.isfinite(x):
        return False
    ff = float(f)
    return abs(ff - x) <= tol * max(1.0, abs(ff))


# ---------------------------------------------------------------- build / proof status
def _locked(fn):
    os.makedirs(os.path.join(VERIF, '.locks'), exist_ok=True)
    with open(os.path.join(VERIF, '.locks', 'build.lock'), 'w') as lk:
        fcntl.flock(lk, fcntl.LOCK_EX)
        try:
            return fn()
        finally:
            fcntl.flock(lk, fcntl.LOCK_UN)


def sh(cmd, cwd=None, timeout=3600):
    p = subprocess.run(cmd, shell=True, cwd=cwd, capture_output=True, text=True, timeout=timeout)
    return p.returncode, p.stdout + p.stderr


def regen_coqproject():
    for d in (os.path.join(OCAML, 'gen'), os.path.join(OCAML, 'build'), os.path.join(COQ, 'theories', 'Gen'),
              os.path.join(VERIF, 'evidence'), os.path.join(VERIF, 'replays')):
        os.makedirs(d, exist_ok=True)
    files = []
    for root, _, fs in os.walk(os.path.join(COQ, 'theories')):
        for f in fs:
            if f.endswith('.v'):
                files.append(os.path.relpath(os.path.join(root, f), COQ))
    files.sort()
    head = open(os.path.join(COQ, '_CoqProject.head')).read()
    new = head + '\n'.join(files) + '\n'
    p = os.path.join(COQ, '_CoqProject')
    old = open(p).read() if os.path.exists(p) else ''
    if old != new or not os.path.exists(os.path.join(COQ, 'Makefile')):
        open(p, 'w').write(new)
        sh('coq_makefile -f _CoqProject -o Makefile', cwd=COQ)


def build_coq(targets=None, clean=False):
    """make (full .vo) of the listed targets, or everything; returns (rc, log)."""
    def go():
        regen_coqproject()
        if clean:
            sh('make clean', cwd=COQ)
        tg = ' '.join(targets) if targets else ''
        return sh('timeout 3000 make -k -j16 %s' % tg, cwd=COQ)
    return _locked(go)


def build_driver(pid):
    def go():
        return sh('./build.sh %s' % pid.lower(), cwd=OCAML)
    return _locked(go)


def coq_deps(relfiles):
    """transitive closure of `From BCT Require Import/Export A.B …` starting from the given theory files"""
    seen, todo = [], list(relfiles)
    while todo:
        f = todo.pop()
        if f in seen:
            continue
        path = os.path.join(COQ, 'theories', f)
        if not os.path.exists(path):
            continue
        seen.append(f)
        txt = strip_comments(open(path).read())
        for m in re.finditer(r'From\s+BCT\s+Require\s+(?:Import\s+|Export\s+)?(.*?)\.(?:\s|$)', txt, re.S):
            for name in m.group(1).split():
                todo.append(name.replace('.', '/') + '.v')
        for m in re.finditer(r'Require\s+(?:Import\s+|Export\s+)?(.*?)\.(?:\s|$)', txt, re.S):
            for name in m.group(1).split():
                if name.startswith('BCT.'):
                    todo.append(name[4:].replace('.', '/') + '.v')
    return sorted(seen)


def proof_status(mod, tier='quick'):
    """Rebuild the Coq development for this property and report what the kernel accepted.

    Returns dict(ok, obligations, discharged, assumptions{thm: text}, log, failing).
    """
    pid = mod.ID
    st = {'ok': True, 'obligations': 0, 'discharged': 0, 'assumptions': {}, 'log': '', 'failing': None,
          'forbidden': []}
    # 1. forbidden tokens anywhere in the files this property depends on (comments stripped)
    files = coq_deps(list(mod.COQ_FILES) + ['Properties/%s.v' % pid, 'Extract/%s.v' % pid])
    mod.COQ_FILES = [f for f in files if not f.startswith('Extract/')]
    if True:
        for f in files:
            txt = open(os.path.join(COQ, 'theories', f)).read()
            txt = strip_comments(txt)
            for m in FORBIDDEN.finditer(txt):
                word = m.group(0)
                # Variable/Hypothesis are allowed inside a Section only
                if word in ('Variable', 'Variables', 'Hypothesis', 'Hypotheses'):
                    if in_section(txt, m.start()):
                        continue
                st['forbidden'].append('%s:%s' % (f, word))
    if st['forbidden']:
        st['ok'] = False
        st['failing'] = 'forbidden tokens: ' + ', '.join(st['forbidden'][:5])
    # 2. build the files this property depends on
    vos = ['theories/' + f[:-2] + '.vo' for f in mod.COQ_FILES] + ['theories/Extract/%s.vo' % pid]
    rc, log = build_coq(vos)
    st['log'] = log[-4000:]
    # 3. count obligations per file; discharged = statements in files that make built / holds up to date
    for f in mod.COQ_FILES:
        path = os.path.join(COQ, 'theories', f)
        n = len(STMT.findall(strip_comments(open(path).read()))) if os.path.exists(path) else 0
        st['obligations'] += n
        vo = path[:-2] + '.vo'
        if rc == 0 and os.path.exists(vo):
            up = True                      # make succeeded for every requested target and its prerequisites
        elif os.path.exists(vo):
            up = sh('make -q theories/%s.vo' % f[:-2], cwd=COQ)[0] == 0
        else:
            up = False
        if up:
            st['discharged'] += n
        else:
            st['ok'] = False
            st['failing'] = st['failing'] or ('does not compile: ' + f + ' :: ' + first_error(log))
    if rc != 0 and st['ok']:
        st['ok'] = False
        st['failing'] = 'make failed: ' + first_error(log)
    # 4. Print Assumptions of the property theorems (re-run coqc on the property file, capture stdout)
    prop = 'theories/Properties/%s.v' % pid
    if os.path.exists(os.path.join(COQ, prop)) and st['ok']:
        def go():
            return sh('timeout 600 coqc -R theories BCT -w -notation-overridden %s' % prop, cwd=COQ)
        rc2, out = _locked(go)
        os.makedirs(os.path.join(COQ, 'assumptions'), exist_ok=True)
        open(os.path.join(COQ, 'assumptions', pid + '.txt'), 'w').write(out)
        if rc2 != 0:
            st['ok'] = False
            st['failing'] = 'property file fails: ' + first_error(out)
        st['assumptions'] = parse_assumptions(out, strip_comments(open(os.path.join(COQ, prop)).read()))
        for t in getattr(mod, 'THEOREMS', []):
            if t not in st['assumptions']:
                st['ok'] = False
                st['failing'] = st['failing'] or ('theorem %s not stated/printed in %s' % (t, prop))
    # 4b. thorough: independent re-check of the compiled property file and everything it depends on
    st['coqchk'] = None
    if tier == 'thorough' and st['ok'] and os.environ.get('VERIF_NO_COQCHK') != '1':
        def go():
            return sh('timeout 1500 coqchk -silent -o -R theories BCT BCT.Properties.%s' % pid, cwd=COQ, timeout=1600)
        rc4, out4 = _locked(go)
        tail = out4[out4.find('CONTEXT SUMMARY'):] if 'CONTEXT SUMMARY' in out4 else out4[-1500:]
        st['coqchk'] = {'rc': rc4, 'summary': tail[:3000]}
        if rc4 != 0:
            st['ok'] = False
            st['failing'] = st['failing'] or ('coqchk rejects Properties/%s.vo: %s' % (pid, out4[-300:]))
    # 5. the extracted driver
    rc3, out3 = build_driver(pid)
    if rc3 != 0:
        st['ok'] = False
        st['failing'] = st['failing'] or ('driver build failed: ' + out3[-300:])
    return st


def first_error(log):
    m = re.search(r'(File "[^"]+", line \d+[^\n]*\n(?:[^\n]*\n){0,6})', log)
    return (m.group(1) if m else log[-300:]).strip().replace('\n', ' | ')[:600]


def strip_comments(txt):
    out, depth, i = [], 0, 0
    while i < len(txt):
        if txt.startswith('(*', i):
            depth += 1
            i += 2
        elif txt.startswith('*)', i) and depth > 0:
            depth -= 1
            i += 2
        else:
            if depth == 0:
                out.append(txt[i])
            i += 1
    return ''.join(out)


def in_section(txt, pos):
    opened = len(re.findall(r'^\s*Section\s+\w+', txt[:pos], re.M))
    closed = len(re.findall(r'^\s*End\s+\w+', txt[:pos], re.M))
    mods = len(re.findall(r'^\s*Module\s+(?:Type\s+)?\w+', txt[:pos], re.M))
    return opened > max(0, closed - mods)


def parse_assumptions(out, src):
    """Pair each `Print Assumptions name.` of the source with the corresponding block of coqc output."""
    names = re.findall(r'Print\s+Assumptions\s+([A-Za-z_][A-Za-z0-9_\'.]*)\s*\.', src)
    blocks = []
    cur = None
    for line in out.split('\n'):
        if line.startswith('Closed under the global context'):
            blocks.append('Closed under the global context')
            cur = None
        elif line.startswith('Axioms:'):
            cur = ['Axioms:']
            blocks.append(cur)
        elif cur is not None and (line.startswith(' ') or line.strip() == '' or re.match(r'^[A-Za-z_].* :', line)):
            if line.strip():
                cur.append(line.rstrip())
        else:
            cur = None
    res = {}
    for n, b in zip(names, blocks):
        res[n] = b if isinstance(b, str) else '\n'.join(b)
    return res


# ---------------------------------------------------------------- known findings
def load_findings():
    """known_findings.json (committed; never written at run time)"""
    out = []
    p = os.path.join(VERIF, 'known_findings.json')
    if os.path.exists(p):
        out += json.load(open(p))['findings']
    import glob
    for f in sorted(glob.glob(os.path.join(VERIF, 'known_findings.d', '*.json'))):
        out += json.load(open(f))['findings']
    return out


# ---------------------------------------------------------------- context
class EscalationBudget(Exception):
    """the wall-clock cap of the escalated search pass is used up (not an error)"""


class Ctx:
    def __init__(self, mod, tier, seed):
        self.mod = mod
        self.pid = mod.ID
        self.tier = tier
        self.seed = seed
        self.rng = random.Random(seed * 1000003 + int(self.pid[1:]))
        self.nprng = np.random.RandomState((seed * 7919 + int(self.pid[1:])) % (2 ** 31))
        self.t0 = time.time()
        self.evaluations = 0
        self.nontrivial = set()
        self.samples = []
        self.dist = {}
        self.oracle_fail = []      # dict(key, what, case)
        self.disagree = []         # dict(key, what, case, model, impl)
        self.errors = []
        self.known_hits = {}
        self.findings = [f for f in load_findings() if f.get('property') == self.pid]
        self.extra = {}
        self.model_cases = 0
        self.escalated = False     # set by ./check when the anchored source differs from source_pins.json
        self.deadline = None
        self.last_variant = None   # input-representation layer: what the LAST wrapped bct call was given (None = as passed)
        self._variants_taken = []
        self._variants_since_case = []

    @property
    def thorough(self):
        return self.tier == 'thorough' or self.escalated

    def escalate(self, budget_s):
        """second pass after a source drift: thorough-tier generators, fresh random state, wall-clock cap"""
        self.escalated = True
        self.rng = random.Random((self.seed + 1) * 1000003 + int(self.pid[1:]) + 17)
        self.nprng = np.random.RandomState(((self.seed + 1) * 7919 + int(self.pid[1:]) + 17) % (2 ** 31))
        self.deadline = time.time() + budget_s

    def scale(self, quick, thorough):
        return thorough if self.thorough else quick

    def count(self, key, k=1):
        self.dist[key] = self.dist.get(key, 0) + k

    def case(self, case, nontrivial=True, sample_every=0):
        """register one explored case"""
        if self.deadline is not None and time.time() > self.deadline:
            raise EscalationBudget()
        self.evaluations += 1
        self._variants_since_case = []       # input-representation layer: tie_variants(case, since_case=True)
        if isinstance(case, dict) and ('_input_variant' in case or 'input_variant' in case):
            case = {k: v for k, v in case.items() if k not in ('_input_variant', 'input_variant')}    # a case is its values, not their storage
        if nontrivial:
            self.nontrivial.add(jhash(case))
        if len(self.samples) < 3 or (sample_every and self.evaluations % sample_every == 0 and len(self.samples) < 8):
            self.samples.append(tolist(case))

    def take_variants(self):
        """input-representation layer, for harnesses that judge a call LATER (batched model runs, metamorphic pairs): the variants
        applied since the last take, to be stored as case['_input_variant'] right after the implementation call(s) of the case"""
        v, self._variants_taken = getattr(self, '_variants_taken', []), []
        return v or None

    def tag_case(self, case):
        """-> the case with the variants applied since the last take_variants() attached (see take_variants)"""
        v = self.take_variants()
        if v and isinstance(case, dict):
            case = dict(case)
            case['_input_variant'] = list(case.get('_input_variant') or []) + v
        return case

    def _variant_key(self, key, case):
        """input-representation layer: a failure about the function whose last call ran on another representation of the
        harness's arguments is keyed '<key>[kind]' and its case says how the input has to be represented.
        -> (key, case, attributed variants [(function, kind)])"""
        v = (case.get('_input_variant') or case.get('input_variant')) if isinstance(case, dict) else None
        explicit = bool(v)
        if not v:
            v = self.last_variant
        if not v or str(key).startswith('model-error'):          # (a driver that died says nothing about the implementation)
            return key, case, []
        vs = [v] if isinstance(v, dict) else list(v)
        # which bct functions does the key name?  '<function>:<clause>', '<function>[..]:<clause>', pairs 'f/g', 'agree:f/g[..]'
        wrapped = _VAR['wrapped']
        named = [t for t in dict.fromkeys(re.findall(r'[A-Za-z_][A-Za-z_0-9]*', str(key))) if t in wrapped]
        if named:
            hit = [x for x in vs if x.get('function') in named]
            if not hit:
                return key, case, []
            tag = '+'.join(dict.fromkeys((x['kind'] if len(named) == 1 else '%s/%s' % (x['function'], x['kind'])) for x in hit))
        elif explicit:
            hit = vs                     # the key names no bct function; the harness tied these converted calls to the case
            tag = '+'.join(dict.fromkeys('%s/%s' % (x['function'], x['kind']) for x in hit))
        else:
            return key, case, []
        case = dict(case) if isinstance(case, dict) else {'case': case}
        case.pop('input_variant', None)
        case['_input_variant'] = [x if 'call' in x else variant_record(x) for x in (vs if explicit else hit)]
        return '%s[%s]' % (key, tag), case, [(x['function'], x['kind']) for x in hit]

    def _known(self, keys, what, case, need_corr=False, attributed=()):
        for f in self.findings:
            if f.get('status') != 'open' or (need_corr and not f.get('covers_correspondence')):
                continue
            # exact key, or a finding about (function, representation) pairs (known_findings.d/variants.json, grouped by root cause):
            # it covers every clause judged on a converted call of such a pair (the function is known to be wrong for that storage)
            if f.get('key') in keys or any(tuple(pr) in attributed for pr in f.get('variant_pairs', ())):
                key = f['key']
                if key not in self.known_hits:
                    self.known_hits[key] = {'what': what, 'case': tolist(case), 'n': 0, 'finding': f}
                self.known_hits[key]['n'] += 1
                return True
        return False

    def fail(self, key, what, case):
        """the implementation violates a clause of the property on `case` (direct oracle)"""
        vkey, case, att = self._variant_key(key, case)
        # a finding recorded for the plain key is not specific to a representation: it covers the tagged key as well
        if self._known({vkey, key}, what, case, attributed=att):
            return
        key = vkey
        if len(self.oracle_fail) < 50 or (len(self.oracle_fail) < 100 and all(x['key'] != key for x in self.oracle_fail)):   # (a key not seen yet still gets its replay)
            self.oracle_fail.append({'key': key, 'what': what, 'case': tolist(case)})
        self.count('oracle_fail:' + key)

    def mismatch(self, key, what, case, model=None, impl=None):
        """model and implementation disagree on `case` (correspondence)"""
        vkey, case, att = self._variant_key(key, case)
        if self._known({vkey, key}, what, case, need_corr=True, attributed=att):
            return
        key = vkey
        if len(self.disagree) < 50:
            self.disagree.append({'key': key, 'what': what, 'case': tolist(case), 'model': tolist(model), 'impl': tolist(impl)})
        self.count('mismatch:' + key)

    def check(self, cond, key, what, case):
        if not cond:
            self.fail(key, what, case)
        return bool(cond)


def write_replay(pid, kind, payload):
    os.makedirs(os.path.join(VERIF, 'replays'), exist_ok=True)
    h = jhash(payload)
    path = os.path.join(VERIF, 'replays', '%s-%s-%s.json' % (pid, kind, h))
    json.dump(payload, open(path, 'w'), indent=1, default=str)
    return os.path.relpath(path, VERIF)


def finish(ctx, st):
    """write evidence, print verdict, return exit code"""
    pid = ctx.pid
    mod = ctx.mod
    violations = []
    # a) direct counterexamples on the implementation
    seen = set()
    for f in ctx.oracle_fail:
        if f['key'] in seen:
            continue
        seen.add(f['key'])
        path = write_replay(pid, 'input', {'property': pid, 'kind': 'failing-input', **f})
        violations.append('VIOLATION property=%s replay=%s' % (pid, path))
    # b) correspondence broken without a failing input
    if ctx.disagree and not ctx.oracle_fail:
        d = ctx.disagree[0]
        path = write_replay(pid, 'corr', {'property': pid, 'kind': 'correspondence-broken',
                                          'correspondence': d['key'], 'detail': d,
                                          'n_disagreements': len(ctx.disagree),
                                          'note': 'model (Coq, extracted) and implementation differ; no input violating the property was found by the search'})
        violations.append('VIOLATION property=%s replay=%s no-failing-input-found' % (pid, path))
    # c) proof broken without failing input
    if not st['ok'] and not ctx.oracle_fail:
        path = write_replay(pid, 'proof', {'property': pid, 'kind': 'proof-obligation-broken',
                                           'theorem_or_file': st['failing'], 'log_tail': st['log'][-1500:]})
        violations.append('VIOLATION property=%s replay=%s no-failing-input-found' % (pid, path))
    for e in ctx.errors[:3]:
        path = write_replay(pid, 'harness', {'property': pid, 'kind': 'harness-error', 'detail': e})
        violations.append('VIOLATION property=%s replay=%s no-failing-input-found' % (pid, path))
    for key, h in ctx.known_hits.items():
        print('KNOWN-FINDING: property=%s %s (%s; %d cases this run)' % (pid, key, h['finding'].get('summary', h['what']), h['n']))
    axioms = sorted({a for a in st['assumptions'].values()})
    tb = [
        'Coq 8.16.1 kernel (coqc, full .vo build; vm_compute only for closed computations in Gen/ files and non-vacuity Examples; no native_compute)',
        'axioms per theorem as printed by Print Assumptions: ' + ('; '.join('%s: %s' % (k, v.replace('\n', ' ')) for k, v in sorted(st['assumptions'].items())) or 'n/a'),
        'extraction: Extraction Language OCaml + ExtrOcamlBasic (bool, option, unit, list, prod, sumbool, sumor mapped to OCaml); no Extract Constant / Extract Inductive of our own; OCaml 4.13.1; ocaml/common.ml + ocaml/drv_%s.ml parser/printer' % pid.lower(),
        'correspondence harness harness/%s.py + harness/common.py running /repo with NumPy (differential testing: samples, does not prove model = code)' % pid.lower(),
        'modelled, not verified: binary64 rounding, NumPy indexing/broadcasting semantics, LAPACK, Mersenne Twister (abstracted to an arbitrary stream), CPython',
        variants_trusted_line(ctx),
    ] + list(getattr(mod, 'TRUSTED', []))
    cov = {
        'obligations': st['obligations'], 'discharged': st['discharged'],
        'checker_cmd': 'cd /verif/coq && make -k -j16 (coq_makefile, full .vo) ; coqc theories/Properties/%s.v (Print Assumptions) ; ./check %s %s' % (pid, pid, ctx.tier),
        'trusted_base': tb,
        'theorems': sorted(st['assumptions'].keys()),
        'evaluations': ctx.evaluations,
        'distinct_nontrivial': len(ctx.nontrivial),
        'rule': getattr(mod, 'RULE', ''),
        'samples': ctx.samples[:8] or ['(no case generated)'],
        'model_cases_run': ctx.model_cases,
        'correspondence_disagreements': len(ctx.disagree),
        'oracle_failures': len(ctx.oracle_fail),
        'known_findings_hit': {k: v['n'] for k, v in ctx.known_hits.items()},
        'distribution': ctx.dist,
        'proof_ok': st['ok'],
        'coqchk': st.get('coqchk'),
    }
    cov.update(ctx.extra)
    ev = {
        'property_id': pid, 'tier': ctx.tier, 'seed': ctx.seed, 'level': 'proof',
        'coverage': cov,
        'assumptions': list(getattr(mod, 'ASSUMES', [])) + ['agreement of model and code on the generated cases extends to the whole domain (tested, not proved)'],
        'wall_s': round(time.time() - ctx.t0, 2),
        'violations': len(violations),
    }
    os.makedirs(os.path.join(VERIF, 'evidence'), exist_ok=True)
    json.dump(ev, open(os.path.join(VERIF, 'evidence', pid + '.json'), 'w'), indent=1, default=str)
    for v in violations:
        print(v)
    if violations:
        return 1
    print('OK property=%s tier=%s obligations=%d/%d cases=%d distinct_nontrivial=%d model_cases=%d wall=%.1fs' % (
        pid, ctx.tier, st['discharged'], st['obligations'], ctx.evaluations, len(ctx.nontrivial), ctx.model_cases, time.time() - ctx.t0))
    return 0


# ---------------------------------------------------------------- input-representation variant layer
# (design_notes/variants.md)  Every property quantifies over every input NETWORK, not over float64 C-ordered ndarrays: a
# matrix of 0/1 values is the same network whether it is stored as float64, bool, uint8 or int64, C- or Fortran-ordered, or
# as a transposed / strided view.  install_variants(ctx) puts a proxy in the place of sys.modules['bct'] whose public
# functions hand the REAL function another representation of the SAME values now and then, so that each harness's own oracle
# and model correspondence judge those calls too.  The layer makes no extra calls (one exception: when a call on a converted
# argument raises, the call is repeated on the arguments as given, to tell 'raises for this representation' from 'raises').
VARIANT_KINDS = ('fortran', 'tview', 'strided', 'int64', 'int32', 'uint8', 'int8', 'bool')
VARIANT_HOW = {
    'fortran': 'np.asfortranarray(A)',
    'tview': 'A.T.copy(order="C").T   (non-contiguous-in-C view of another array; same values)',
    'strided': 'big = np.full(tuple(2*d for d in A.shape), 9.0); big[::2, ...] = A; big[::2, ...]   (every other element of a larger array)',
    'int64': 'A.astype(np.int64)', 'int32': 'A.astype(np.int32)', 'uint8': 'A.astype(np.uint8)', 'int8': 'A.astype(np.int8)',
    'bool': 'A.astype(bool)',
    # call-sequence ("decoy") mode: not a storage kind - the SAME float64 values, handed over in a buffer the function has just seen
    # with other content (see the section `call-sequence mode` below)
    'after-decoy': 'B = decoy array (node renumbering of A, optionally halved); f(B, ...) [discarded]; B[...] = A; result = f(B, ...); '
                   'f(B2, ...) on another decoy [discarded]',
}
_INT_RANGE = {'int64': (-2.0 ** 53 + 1, 2.0 ** 53 - 1), 'int32': (-2.0 ** 31, 2.0 ** 31 - 1), 'uint8': (0.0, 255.0), 'int8': (-128.0, 127.0),
              'bool': (0.0, 1.0)}
_VAR = {'ctx': None, 'off': 0, 'real': None, 'proxy': None, 'wrapped': set(), 'retry': [], 'p': 0.25, 'counter': 0, 'pending': {}, 'ncalls': {}, 'skip': set(),
        'kinds': VARIANT_KINDS, 'salt': 0, 'sigs': {},
        'decoy': False, 'decoy_p': 0.15, 'decoy_pending': {}, 'decoy_ncalls': {}, 'decoy_bad': set(), 'decoy_stats': {}}
VARIANTS_DEFAULT = '1'    # the layer is on unless VERIF_VARIANTS=0
FORCE_WINDOW = 300        # per function: calls during which a not-yet-exercised kind is taken as soon as it applies
DECOY_DEFAULT = '1'       # the call-sequence mode is on unless VERIF_DECOY=0 (or the layer is off)
DECOY_STYLES = ('renumbered', 'halved')     # same multiset / total (state keyed by size or totals) ; other values (state keyed by the object)
DECOY_SEED = 20261002     # what a generator passed as `seed` is replaced by in a decoy call
DECOY_FULL = 100          # per function: eligible calls during which the probability is p; afterwards p * DECOY_FULL / (number of calls so far)
DECOY_AFTER = 1.0 / 3     # share of the sequences that also get the second decoy call (after the judged call)
DECOY_T = 1.0             # wall-clock limit of one decoy call (load-scaled); a function whose decoy timed out gets no further decoys


def apply_variant(kind, A):
    """the same values as the float64 array A in the representation `kind` (always a NEW buffer: the callee may write into
    it without touching the harness's array)"""
    if kind == 'fortran':
        return np.array(A, order='F', copy=True)
    if kind == 'tview':
        return A.T.copy(order='C').T
    if kind == 'strided':
        big = np.full(tuple(2 * d for d in A.shape), 9.0)
        sl = tuple(slice(None, None, 2) for _ in A.shape)
        big[sl] = A
        return big[sl]
    return A.astype({'int64': np.int64, 'int32': np.int32, 'uint8': np.uint8, 'int8': np.int8, 'bool': np.bool_}[kind])


def variant_kinds_of(A, kinds=VARIANT_KINDS):
    """the kinds that are value-preserving AND change something for this float64 array"""
    out = []
    if A.ndim >= 2 and not A.flags.f_contiguous:
        if 'fortran' in kinds:
            out.append('fortran')
        if A.ndim == 2 and 'tview' in kinds:
            out.append('tview')
    if 'strided' in kinds:
        out.append('strided')
    ints = [k for k in kinds if k in _INT_RANGE]
    if ints and bool(np.isfinite(A).all()) and bool((A == np.rint(A)).all()):
        lo, hi = float(A.min()), float(A.max())
        out += [k for k in ints if _INT_RANGE[k][0] <= lo and hi <= _INT_RANGE[k][1]]
    return out


@contextlib.contextmanager
def no_variants():
    """calls made inside this block get the harness's arguments exactly as passed (blocks that test dtype, object identity
    or mutation of the very array handed over)"""
    _VAR['off'] += 1
    try:
        yield
    finally:
        _VAR['off'] -= 1


@contextlib.contextmanager
def no_decoys():
    """calls made inside this block are never turned into a decoy / judged-call sequence (storage conversions stay on)"""
    prev, _VAR['decoy'] = _VAR['decoy'], False
    try:
        yield
    finally:
        _VAR['decoy'] = prev


def take_variants():
    """module-level form of Ctx.take_variants for helpers that have no ctx at hand (None when the layer is off)"""
    ctx = _VAR['ctx']
    return ctx.take_variants() if ctx is not None else None


def tie_variants(case, key='_input_variant', since_take=False, since_case=False):
    """for clauses that are judged LATER than the call (batched model runs, pairs of calls): attach the representation the most
    recent wrapped bct call ran on (if it was converted) to the case dict IN PLACE, accumulating over the calls of the case.
    since_take=True: everything converted since the last take_variants() instead (a case made of several bct calls);
    since_case=True: everything converted since the last ctx.case(...) (harnesses that register the case, then call).
    Use key='input_variant' where the harness strips keys that start with an underscore before reporting."""
    ctx = _VAR['ctx']
    if ctx is None or not isinstance(case, dict):
        return case
    v = list(ctx._variants_since_case) if since_case else (ctx.take_variants() or []) if since_take else ([ctx.last_variant] if ctx.last_variant is not None else [])
    have = list(case.get(key) or [])
    v = [x for x in v if not any(x is y for y in have)]
    if v:
        case[key] = have + v
    return case


@contextlib.contextmanager
def variant_retry(cleanup):
    """a harness that records side information while the implementation runs (a proxy for the module's `np`, a patched scipy
    routine) registers `cleanup()` for the block: when a call on a converted argument raises and is repeated on the arguments as
    given, what the aborted call left in the recording is dropped first"""
    _VAR['retry'].append(cleanup)
    try:
        yield
    finally:
        _VAR['retry'].remove(cleanup)


def _var_eligible(x):
    return type(x) is np.ndarray and x.dtype == np.float64 and 1 <= x.ndim <= 3 and x.size > 0


def _var_sig(name, f):
    s = _VAR['sigs'].get(name)
    if s is None:
        try:
            ps = [p.name for p in inspect.signature(f).parameters.values() if p.kind in (p.POSITIONAL_ONLY, p.POSITIONAL_OR_KEYWORD)]
        except (TypeError, ValueError):
            ps = []
        s = _VAR['sigs'][name] = ps
    return s


def _var_blocked(name, f, a, k):
    """copy=False (keyword or positional) and out=: the contract is about the caller's own array - never another buffer"""
    if 'out' in k or k.get('copy', True) is False:
        return True
    names = _var_sig(name, f)
    return 'copy' in names and names.index('copy') < len(a) and a[names.index('copy')] is False


def _scramble(key):
    z = (key * 0x9E3779B97F4A7C15 + 0xBF58476D1CE4E5B9) & 0xFFFFFFFFFFFFFFFF          # splitmix-style scramble
    z = ((z ^ (z >> 30)) * 0xBF58476D1CE4E5B9) & 0xFFFFFFFFFFFFFFFF
    z = ((z ^ (z >> 27)) * 0x94D049BB133111EB) & 0xFFFFFFFFFFFFFFFF
    return ((z ^ (z >> 31)) >> 11) / float(1 << 53)


def _var_plan(name, f, a, k, ctx):
    """-> (kind, [where...]) or None; `where` is a positional index or a keyword name"""
    st = _VAR
    cands = [(i, x) for i, x in enumerate(a) if _var_eligible(x)] + [(n, x) for n, x in k.items() if _var_eligible(x)]
    if not cands:
        return None
    if _var_blocked(name, f, a, k):
        return None
    key =((ctx.seed * 1000003 + int(ctx.pid[1:])) * 1000003 + st['salt']) * 1000003 + st['counter']
    z = (key * 0x9E3779B97F4A7C15 + 0xBF58476D1CE4E5B9) & 0xFFFFFFFFFFFFFFFF          # splitmix-style scramble of (seed, property, call counter)
    z = ((z ^ (z >> 30)) * 0xBF58476D1CE4E5B9) & 0xFFFFFFFFFFFFFFFF
    z = ((z ^ (z >> 27)) * 0x94D049BB133111EB) & 0xFFFFFFFFFFFFFFFF
    take = ((z ^ (z >> 31)) >> 11) / float(1 << 53) < st['p']
    n = st['ncalls'][name] = st['ncalls'].get(name, 0) + 1
    pend = st['pending'].setdefault(name, set(st['kinds']))
    look = bool(pend) and n <= FORCE_WINDOW
    if not (take or look):
        return None
    app = {}
    for w, x in cands:
        for kd in variant_kinds_of(x, st['kinds']):
            app.setdefault(kd, []).append(w)
    if not app:
        return None
    if look:
        for kd in st['kinds']:
            if kd in pend and kd in app:
                pend.discard(kd)
                return kd, app[kd]
    if not take:
        return None
    r = random.Random(key)
    kd = r.choice([x for x in st['kinds'] if x in app])
    ws = [w for w in app[kd] if r.random() < 0.7] or [app[kd][r.randrange(len(app[kd]))]]
    pend.discard(kd)
    return kd, ws


def _var_enc(x):
    if isinstance(x, np.ndarray):
        return {'ndarray': x.tolist(), 'dtype': str(x.dtype), 'shape': list(x.shape)} if x.size <= 4096 else 'ndarray%s' % (x.shape,)
    if isinstance(x, (str, int, float, bool, type(None))):
        return x
    if isinstance(x, (np.integer, np.floating, np.bool_)):
        return x.item()
    if isinstance(x, (list, tuple)) and len(x) <= 64:
        return [_var_enc(y) for y in x]
    return repr(x)[:80]


class VariantInfo(dict):
    """{'function', 'kind', 'arguments'} of one converted call; the call itself (references to the harness's own arguments) rides
    along as an attribute so that it is written out only when a failure is reported"""
    call_ref = ((), {})


def variant_record(info):
    """what goes into a replay file: function, kind, which arguments, the call as the harness made it, how to convert"""
    a, k = getattr(info, 'call_ref', ((), {}))
    if info['kind'] == 'after-decoy':
        return {'function': info['function'], 'kind': 'after-decoy', 'arguments': info['arguments'], 'decoy': info.get('decoy'),
                'call': info.get('call') or {'args': _var_enc(list(a)), 'kwargs': {str(q): _var_enc(v) for q, v in k.items()}},
                'how': 'CALL SEQUENCE.  With A = the listed ndarray argument of `call` (float64): (1) B = np.empty_like(A); B[...] = the decoy content '
                       '(`decoy.before`: A[p][:, p] for the node permutation p, or A.ravel()[q].reshape(A.shape) for the element permutation q, times 0.5 when '
                       'style is "halved"); (2) %s(B, other arguments) with every generator passed as seed replaced by the integer %d, result discarded, '
                       'exceptions swallowed; (3) B[...] = A; (4) result = %s(B, other arguments as in `call`) - the call the harness judged; (5) the same '
                       'function on a second decoy buffer (`decoy.after`), result discarded - `result` must not change.  On a fresh interpreter the single '
                       'call %s(A, ...) gives the expected result: the function carries state from one call to the next.  tools/variant_repro.py <this file> '
                       'runs the sequence and the single call.' % (info['function'], DECOY_SEED, info['function'], info['function'])}
    return {'function': info['function'], 'kind': info['kind'], 'arguments': info['arguments'],
            'call': info.get('call') or {'args': _var_enc(list(a)), 'kwargs': {str(q): _var_enc(v) for q, v in k.items()}},
            'how': 'the failing call is %s(*args, **kwargs) of `call` with the listed ndarray argument(s) A (float64, C-ordered in this '
                   'file) replaced by %s - the same values in another representation; on the arrays as written here the failure may '
                   'not show.  tools/variant_repro.py <this file> makes both calls.' % (info['function'], VARIANT_HOW[info['kind']])}


# ---- call-sequence ("decoy") mode of the same proxy (design_notes/variants.md, section `Call-sequence mode`)
# A correct routine is a function of its argument VALUES (and of the seed): its result may depend neither on the calls made
# before, nor on which buffer holds the values, and a result already returned may not change because the routine is called again.
# Every harness makes independent calls on fresh arrays, so state carried from call to call (a module-level table per network
# size that is handed out as the result, a cache keyed by (n, sum(W)), a memo keyed by the identity of the argument object) is
# invisible to it.  Now and then a wrapped call f(A, ...) therefore becomes
#     B = decoy(A);  f(B, ...) [discarded];  B[...] = A;  result = f(B, ...);  f(decoy2(A), ...) [discarded];  return result
# and the harness's own oracle and model judge `result`, which a correct f computes from the values of A alone.
def decoy_content(A, how):
    """the content of a decoy buffer for the float64 array A: `how` = {'style', 'node_permutation' | 'element_permutation'}"""
    if 'node_permutation' in how:
        p = np.asarray(how['node_permutation'], dtype=int)
        P = A[p][:, p]
    else:
        q = np.asarray(how['element_permutation'], dtype=int)
        P = np.ascontiguousarray(A).ravel()[q].reshape(A.shape)
    return P * 0.5 if how['style'] == 'halved' else P


def decoy_buffer(A, style, perm_seed):
    """-> (B, how) or None: a new buffer of the shape / dtype / layout of A whose content differs from A - a simultaneous row and
    column permutation for square matrices and stacks of them (node renumbering: same size, same multiset of entries, same total,
    still symmetric / binary / signed / zero-diagonal when A is), an element permutation otherwise; style 'halved' multiplies the
    content by 0.5 as well (another multiset, same sparsity pattern)"""
    r = np.random.RandomState(perm_seed % (2 ** 31))          # a generator of its own: the global np.random state is not touched
    for _ in range(4):
        if A.ndim >= 2 and A.shape[0] == A.shape[1] and A.shape[0] >= 2:
            p = r.permutation(A.shape[0])
            if (p == np.arange(len(p))).all():
                p = np.roll(p, 1)
            how = {'style': style, 'node_permutation': p.tolist()}
        else:
            q = r.permutation(A.size)
            how = {'style': style, 'element_permutation': q.tolist()}
        P = decoy_content(A, how)
        if not np.array_equal(P, A):
            B = np.empty_like(A)
            B[...] = P
            return B, how
    return None


def _decoy_plan(name, f, a, k, ctx):
    """-> {'where', 'style', 'perm_seed'} or None.  Decided by a stream of its own (seed, property, call counter); the first
    eligible calls of every function are taken (one per style)"""
    st = _VAR
    if not st['decoy'] or name in st['decoy_bad']:
        return None
    where = next((i for i, x in enumerate(a) if _var_eligible(x)), None)
    if where is None:
        where = next((q for q, x in k.items() if _var_eligible(x)), None)
    if where is None or _var_blocked(name, f, a, k):
        return None
    key = (((ctx.seed * 1000003 + int(ctx.pid[1:])) * 1000003 + st['salt']) * 1000003 + st['counter']) ^ 0x5DEC0DEC0
    n = st['decoy_ncalls'][name] = st['decoy_ncalls'].get(name, 0) + 1
    # p for the first DECOY_FULL eligible calls of a function, then p * DECOY_FULL / n: the number of sequences per function grows with the
    # logarithm of its call count (about p * DECOY_FULL * (1 + ln(n / DECOY_FULL))), spread over the whole run - the cost stays bounded
    # for routines the harness calls tens of thousands of times
    take = _scramble(key) < st['decoy_p'] * min(1.0, DECOY_FULL / float(n))
    pend = st['decoy_pending'].setdefault(name, list(DECOY_STYLES))
    forced = bool(pend) and n <= FORCE_WINDOW
    if forced:
        style = pend.pop(0)
    elif take:
        style = DECOY_STYLES[0] if _scramble(key + 1) < 0.6 else DECOY_STYLES[1]
    else:
        return None
    # the second decoy call (after the judged one): on the forced sequences and on every third of the others
    return {'where': where, 'style': style, 'perm_seed': int(_scramble(key + 2) * (2 ** 31 - 1)), 'after': forced or _scramble(key + 3) < DECOY_AFTER}


def _decoy_arg(x):
    """an argument of a decoy call: generators become a fixed integer seed (the decoy's draws must not touch the harness's recording
    generator), containers are copied (a decoy that writes into an argument must not reach the harness's objects)"""
    if isinstance(x, (np.random.RandomState, getattr(np.random, 'Generator', ()))):
        return DECOY_SEED
    if isinstance(x, np.ndarray):
        return x.copy()
    if isinstance(x, (list, dict, set)):
        import copy as _copy
        try:
            return _copy.deepcopy(x)
        except Exception:
            return x
    return x


def _run_decoy(name, f, a, k, where, B, cleanups=True):
    """f(B, other arguments), result discarded; exceptions and time-outs swallowed; afterwards the global np.random state, the
    `bct.utils._verif` hook log, the harness's own recordings (variant_retry) and the harness's wall-clock alarm are as before.
    -> 'returned' | 'raised' | 'timeout'"""
    st = _VAR
    a3 = [B if i == where else _decoy_arg(x) for i, x in enumerate(a)]
    k3 = {q: (B if q == where else _decoy_arg(x)) for q, x in k.items()}
    rem = signal.getitimer(signal.ITIMER_REAL)[0]          # the alarm of common.call, if the harness set one: paused, not spent
    glob = np.random.get_state()
    hooks = getattr(sys.modules.get('bct.utils._verif'), 'LOG', None)
    nhooks = len(hooks) if isinstance(hooks, list) else None
    lim = DECOY_T * _load_factor()
    out = 'returned'
    try:
        try:
            signal.setitimer(signal.ITIMER_REAL, lim)
            f(*a3, **k3)
        finally:
            signal.setitimer(signal.ITIMER_REAL, 0)
    except Timeout:
        out = 'timeout'
        st['decoy_bad'].add(name)
    except Exception:
        out = 'raised'
    np.random.set_state(glob)
    if nhooks is not None:
        del hooks[nhooks:]
    if cleanups:
        for cleanup in list(st['retry']):
            cleanup()
    if rem > 0:
        signal.setitimer(signal.ITIMER_REAL, rem)
    st['decoy_stats'][out] = st['decoy_stats'].get(out, 0) + 1
    return out


def _snap_result(x, depth=0):
    """a private copy of what a call returned (arrays, nested tuples / lists / dicts of them); None for what cannot be compared"""
    if isinstance(x, np.ndarray):
        return x.copy() if x.dtype != object else None
    if isinstance(x, (tuple, list)) and depth < 4:
        return [_snap_result(y, depth + 1) for y in x]
    if isinstance(x, dict) and depth < 4:
        return {q: _snap_result(y, depth + 1) for q, y in x.items()}
    if isinstance(x, (bool, int, float, complex, str, np.generic)):
        return x
    return None


def _snap_changed(s, x, path='result'):
    """-> None, or where the object x differs from the snapshot s taken earlier"""
    if s is None:
        return None
    if isinstance(x, np.ndarray):
        if not isinstance(s, np.ndarray) or s.shape != x.shape:
            return path
        try:
            return None if np.array_equal(s, x, equal_nan=True) else path
        except TypeError:
            return None if np.array_equal(s, x) else path
    if isinstance(x, (tuple, list)):
        if not isinstance(s, list) or len(s) != len(x):
            return path
        for i, (p, q) in enumerate(zip(s, x)):
            w = _snap_changed(p, q, '%s[%d]' % (path, i))
            if w:
                return w
        return None
    if isinstance(x, dict):
        if not isinstance(s, dict) or set(s) != set(x):
            return path
        for q in x:
            w = _snap_changed(s[q], x[q], '%s[%r]' % (path, q))
            if w:
                return w
    return None


def _wrap_variant(name, f):
    @functools.wraps(f)
    def variant_call(*a, **k):
        st = _VAR
        ctx = st['ctx']
        if ctx is None:
            return f(*a, **k)
        ctx.last_variant = None
        if st['off'] or name in st['skip']:
            return f(*a, **k)
        st['counter'] += 1
        plan = _var_plan(name, f, a, k, ctx)
        dec = None
        a2, k2 = list(a), dict(k)
        if plan is None:
            # call-sequence mode (never together with a storage conversion): decoy call on a private buffer, then the harness's call
            # on the SAME buffer overwritten in place with the harness's values
            t0 = time.process_time()
            dec = _decoy_plan(name, f, a, k, ctx)
            made = dec and decoy_buffer(a[dec['where']] if isinstance(dec['where'], int) else k[dec['where']], dec['style'], dec['perm_seed'])
            if not made:
                return f(*a, **k)
            w = dec['where']
            A = a[w] if isinstance(w, int) else k[w]
            B, how = made
            kind, ws = 'after-decoy', [w]
            dec['before'] = dict(how, outcome=_run_decoy(name, f, a, k, w, B))
            B[...] = A                                  # the very buffer the function has just seen, now holding the harness's values
            if isinstance(w, int):
                a2[w] = B
            else:
                k2[w] = B
            ctx.count('decoy:' + name)
            st['decoy_stats']['cpu_s'] = st['decoy_stats'].get('cpu_s', 0.0) + time.process_time() - t0
        else:
            kind, ws = plan
            for w in ws:
                if isinstance(w, int):
                    a2[w] = apply_variant(kind, a[w])
                else:
                    k2[w] = apply_variant(kind, k[w])
            ctx.count('variant:' + kind)
            ctx.count('variant_fn:' + name)
        info = VariantInfo({'function': name, 'kind': kind, 'arguments': [w if isinstance(w, str) else 'positional %d' % w for w in ws]})
        info.call_ref = (a, k)
        if dec is not None:
            info['decoy'] = {'seed_in_decoy_calls': DECOY_SEED, 'before': dec['before'], 'after': None}
        # generators passed as seed: remembered so that a call that raises can be repeated on the arguments as given
        rngs = [(x, x.get_state(), {q: (list(v) if isinstance(v, list) else v) for q, v in getattr(x, '__dict__', {}).items()})
                for x in list(a) + list(k.values()) if isinstance(x, np.random.RandomState)]      # (Rec.log, a scripted stream, ...)
        glob = np.random.get_state()
        hooks = getattr(sys.modules.get('bct.utils._verif'), 'LOG', None)      # observation hooks of the instrumented routines
        nhooks = len(hooks) if isinstance(hooks, list) else None
        ctx.last_variant = info
        ctx._variants_taken = (ctx._variants_taken + [info])[-16:]
        ctx._variants_since_case = (ctx._variants_since_case + [info])[-32:]
        try:
            res = f(*a2, **k2)
        except Timeout:
            raise                      # the one-shot alarm of common.call is spent: no second call; last_variant tags the harness's verdict
        except Exception as e:
            exc = e
        else:
            if dec is None:
                return res
            # a result that has been returned is a value: another call of the routine (second decoy, on a buffer of its own - `res` may
            # legitimately share memory with B) must not change it.  The harness judges `res` as it is AFTER that call.
            if st['retry'] or not dec['after']:
                return res             # (the harness records while the routine runs: a later call cannot be told from the judged one)
            t0 = time.process_time()
            made = decoy_buffer(A, dec['style'], dec['perm_seed'] + 1)
            if not made:
                return res
            snap = _snap_result(res)
            B2, how2 = made
            info['decoy']['after'] = dict(how2, outcome=_run_decoy(name, f, a, k, dec['where'], B2, cleanups=False))
            changed = _snap_changed(snap, res)
            st['decoy_stats']['cpu_s'] = st['decoy_stats'].get('cpu_s', 0.0) + time.process_time() - t0
            if changed:
                ctx.fail('%s:result-changed-by-later-call' % name, 'the object returned by %s (%s) changed when %s was called again on another array of the '
                         'same shape: the result of the first call is overwritten by the second' % (name, changed, name),
                         {'function': name, 'changed': changed, 'returned': tolist(snap), 'after_the_next_call': tolist(_snap_result(res))})
            return res
        # the converted call raised: is it the representation?  repeat on the arguments exactly as the harness passed them
        ctx.last_variant = None
        ctx._variants_taken = [x for x in ctx._variants_taken if x is not info]
        ctx._variants_since_case = [x for x in ctx._variants_since_case if x is not info]
        np.random.set_state(glob)
        if nhooks is not None:
            del hooks[nhooks:]
        for cleanup in list(st['retry']):
            cleanup()
        for x, state, attrs in rngs:
            x.set_state(state)
            for q, v in attrs.items():
                if isinstance(v, list) and isinstance(getattr(x, q, None), list):
                    getattr(x, q)[:] = v
                else:
                    setattr(x, q, v)
        try:
            res = f(*a, **k)           # raises as well -> the harness sees what it would have seen without the layer
        except Exception:
            if dec is not None:        # (state left by the decoy may be behind this one too: the harness's verdict stays tagged with the sequence)
                ctx.last_variant = info
                ctx._variants_taken = (ctx._variants_taken + [info])[-16:]
                ctx._variants_since_case = (ctx._variants_since_case + [info])[-32:]
            raise
        ctx.last_variant = info
        if dec is not None:
            ctx.fail('%s:raises-after-decoy' % name, '%s raises %s: %s when it is handed the harness\'s values in a buffer it has just been called on with other '
                     'content; the same call on a fresh array returns normally' % (name, type(exc).__name__, str(exc)[:200]),
                     {'function': name, 'exception': '%s: %s' % (type(exc).__name__, str(exc)[:300])})
        else:
            ctx.fail('%s:raises-for-representation' % name, '%s raises %s: %s when the argument(s) %s hold the same values as %s; it returns normally on the float64 arrays' % (
                name, type(exc).__name__, str(exc)[:200], info['arguments'], kind),
                {'function': name, 'exception': '%s: %s' % (type(exc).__name__, str(exc)[:300])})
        ctx.last_variant = None
        return res
    variant_call._verif_variant = True
    return variant_call


class _BctProxy(types.ModuleType):
    """stands for the package `bct` in sys.modules while a harness runs: the same namespace, public functions wrapped;
    sub-modules and everything else are the real objects"""

    def __getattr__(self, name):          # only reached for names that are not in the proxy's own namespace (late additions)
        return getattr(_VAR['real'], name)


def install_variants(ctx):
    """called by ./check right before mod.run(ctx) (normal and escalated pass); VERIF_VARIANTS=0 switches the layer off,
    VERIF_DECOY=0 only its call-sequence mode"""
    import importlib
    st = _VAR
    if st['real'] is None:
        real = sys.modules.get('bct')
        if isinstance(real, _BctProxy):
            real = st['real']
        if real is None:
            real = importlib.import_module('bct')
        st['real'] = real
    real = st['real']
    mod = ctx.mod
    off = os.environ.get('VERIF_VARIANTS', VARIANTS_DEFAULT) == '0' or bool(getattr(mod, 'VARIANTS_OFF', False))
    ctx.last_variant = None
    if off:
        sys.modules['bct'] = real
        st['ctx'] = None
        ctx.extra['input_variants'] = 'off' + (' (VARIANTS_OFF in harness/%s.py: %s)' % (ctx.pid.lower(), getattr(mod, 'VARIANTS_OFF_WHY', 'the harness tests the very objects it passes')) if getattr(mod, 'VARIANTS_OFF', False) else ' (VERIF_VARIANTS=0)')
        return None
    kinds = tuple(kd for kd in VARIANT_KINDS if kd in set(getattr(mod, 'VARIANT_KINDS', VARIANT_KINDS)))
    p_default = '0.25' if ctx.tier == 'quick' else '0.35'
    st.update(ctx=ctx, off=0, counter=0, pending={}, ncalls={}, skip=set(getattr(mod, 'VARIANT_SKIP', ())), kinds=kinds,
              p=float(os.environ.get('VERIF_VARIANT_P', p_default) or p_default), salt=1 if ctx.escalated else 0)
    # call-sequence ("decoy") mode: VERIF_DECOY=0 or DECOY_OFF = True in the harness module switch it off (VARIANTS_OFF / VARIANT_SKIP /
    # no_variants() switch off the whole layer, this mode included)
    decoy_on = os.environ.get('VERIF_DECOY', DECOY_DEFAULT) != '0' and not getattr(mod, 'DECOY_OFF', False)
    st.update(decoy=decoy_on, decoy_p=float(os.environ.get('VERIF_DECOY_P', '0.15') or 0.15), decoy_pending={}, decoy_ncalls={},
              decoy_bad=set(getattr(mod, 'DECOY_SKIP', ())), decoy_stats=st['decoy_stats'] if ctx.escalated else {})
    proxy = _BctProxy('bct', real.__doc__)
    ns = proxy.__dict__
    for key, v in vars(real).items():
        if inspect.isfunction(v) and (getattr(v, '__module__', '') or '').startswith('bct') and not key.startswith('_') \
                and not getattr(v, '_verif_variant', False):
            v = _wrap_variant(key, v)
            st['wrapped'].add(key)
        ns[key] = v                        # __name__, __path__, __spec__, __file__, __package__, __loader__, sub-modules: as they are
    st['proxy'] = proxy
    sys.modules['bct'] = proxy
    ctx.extra['input_variants'] = {'p': st['p'], 'kinds': list(kinds), 'skipped_functions': sorted(st['skip']),
                                   'rule': 'first applicable call of every (function, kind) is taken, then each call with probability p; '
                                           'decisions from random.Random(seed, property, call counter), never from ctx.rng / ctx.nprng',
                                   'decoy': ({'p': st['decoy_p'], 'styles': list(DECOY_STYLES), 'skipped_functions': sorted(st['decoy_bad']),
                                              'rule': 'call-sequence mode: the first eligible calls of every function (one per style), then each call that is not '
                                                      'converted with probability p: decoy call on a private buffer, the harness\'s values written into the same '
                                                      'buffer, the judged call on it, a second decoy call on another buffer'} if decoy_on else
                                             'off (%s)' % ('DECOY_OFF in harness/%s.py: %s' % (ctx.pid.lower(), getattr(mod, 'DECOY_OFF_WHY', '')) if getattr(mod, 'DECOY_OFF', False) else 'VERIF_DECOY=0'))}
    return proxy


def variants_trusted_line(ctx):
    iv = ctx.extra.get('input_variants')
    if not isinstance(iv, dict):
        return 'input-representation layer (harness/common.py install_variants): %s for this run' % (iv or 'not installed')
    n = sum(v for k, v in ctx.dist.items() if k.startswith('variant:'))
    nd = sum(v for k, v in ctx.dist.items() if k.startswith('decoy:'))
    if isinstance(iv.get('decoy'), dict):
        iv['decoy'].update(sequences=nd, decoy_call_outcomes={q: v for q, v in _VAR['decoy_stats'].items() if q != 'cpu_s'}, cpu_s=round(_VAR['decoy_stats'].get('cpu_s', 0.0), 2), functions_whose_decoy_timed_out=sorted(_VAR['decoy_bad'] - set(iv['decoy']['skipped_functions'])))
    dline = ('; call-sequence mode: %d more of the harness\'s bct calls were made as a sequence - decoy call f(B) on a private buffer B (a node renumbering of the harness\'s array '
             'A, in some sequences halved), B[...] = A, the judged call f(B), in a third of the sequences a second decoy call f(B2) - and judged by the same '
             'oracle and model (the layer\'s own clause: the returned object does not change during the second decoy call); trusted: fancy indexing and '
             'in-place assignment preserve values, a decoy call leaves nothing behind in the harness (global np.random state, _verif hook log and variant_retry '
             'recordings are put back, generators passed as seed are replaced by the integer %d, other containers are copied, the harness\'s wall-clock alarm is '
             'paused), and a correct routine is a function of its argument values and seed' % (nd, DECOY_SEED)
             if isinstance(iv.get('decoy'), dict) else '; call-sequence mode %s' % iv.get('decoy', 'off'))
    return dline.join(_variants_line(ctx, iv, n))


def _variants_line(ctx, iv, n):
    return ('input-representation layer (harness/common.py install_variants, design_notes/variants.md): %d of the harness\'s bct calls were made on another '
            'storage of the SAME values (kinds %s; value-preserving conversions only, decided by a generator of its own) and judged by the same oracle and '
            'model correspondence; trusted: numpy astype / asfortranarray / slicing preserve the values, and the harness\'s verdict does not depend on the '
            'identity of the array object it passed (harnesses that do depend on it opt out: VARIANTS_OFF / no_variants)' % (n, ', '.join(iv['kinds'])), '')


def uninstall_variants():
    if _VAR['real'] is not None:
        sys.modules['bct'] = _VAR['real']
    _VAR['ctx'] = None


# ---- replay of a failure found on a converted call (./check CXX --replay <file>, tools/variant_repro.py <file>)
def _var_dec(x):
    if isinstance(x, dict) and 'ndarray' in x:
        return np.array(x['ndarray'], dtype=np.dtype(x['dtype'])).reshape(x['shape'])
    if isinstance(x, list):
        return [_var_dec(y) for y in x]
    return x


def variant_records(payload):
    out = []

    def walk(x):
        if isinstance(x, dict):
            v = x.get('_input_variant')
            if v:
                out.extend([v] if isinstance(v, dict) else v)
            for q, y in x.items():
                if q != '_input_variant':
                    walk(y)
        elif isinstance(x, list):
            for y in x:
                walk(y)
    walk(payload)
    return [r for r in out if isinstance(r, dict) and 'call' in r]


def replay_variants(payload, limit=4):
    """for every `_input_variant` record of a replay file: make the recorded call on the float64 arrays as written and on the same
    values in the recorded representation; print both outcomes.  -> 1 when some pair of outcomes differs, else 0"""
    import bct
    real = _VAR['real'] or bct

    def outcome(f, a, k):
        try:
            return 'returns', call(f, *a, _t=60.0, **k)
        except Timeout:
            return 'raises', 'Timeout (60 s)'
        except Exception as e:
            return 'raises', '%s: %s' % (type(e).__name__, str(e)[:200])

    def same(x, y):
        if isinstance(x, (tuple, list)) and isinstance(y, (tuple, list)):
            return len(x) == len(y) and all(same(p, q) for p, q in zip(x, y))
        try:
            return bool(np.allclose(np.asarray(x, float), np.asarray(y, float), rtol=1e-9, atol=1e-12, equal_nan=True))
        except Exception:
            return repr(x) == repr(y)
    rc = 0
    for r in variant_records(payload)[:limit]:
        f = getattr(real, r['function'], None)
        if f is None:
            print('input representation: %s is not a public bct function of this tree' % r['function']); continue
        a, k = _var_dec(r['call']['args']), {q: _var_dec(v) for q, v in r['call']['kwargs'].items()}
        if r['kind'] == 'after-decoy':
            rc |= _replay_decoy(r, a, k, outcome, same)
            continue
        objs = [x for x in list(a) + list(k.values()) if isinstance(x, str) and ('RandomState' in x or ' at 0x' in x or x.startswith('<'))]
        a2, k2 = list(a), dict(k)
        for w in r['arguments']:
            if w.startswith('positional '):
                a2[int(w.split()[1])] = apply_variant(r['kind'], a[int(w.split()[1])])
            else:
                k2[w] = apply_variant(r['kind'], k[w])
        print('input representation: %s(...) with argument(s) %s stored as %s  [%s]' % (r['function'], ', '.join(r['arguments']), r['kind'], VARIANT_HOW[r['kind']]))
        if objs:
            print('  (an argument of the recorded call was an object the file cannot hold - %s - the call is not repeated here; see the case above)' % objs[0][:60])
            continue
        s0, r0 = outcome(f, [x.copy() if isinstance(x, np.ndarray) else x for x in a], k)
        s1, r1 = outcome(f, a2, k2)
        print('  float64, C-ordered : %s %s' % (s0, str(tolist(r0))[:500]))
        print('  %-19s: %s %s' % (r['kind'], s1, str(tolist(r1))[:500]))
        differ = s0 != s1 or (s0 == 'returns' and not same(r0, r1))
        print('  -> %s' % ('the two calls DIFFER although the values are the same' if differ else
                           'same outcome for both storages (the clause that failed is wrong for both, or compares with another call: see the case)'))
        rc |= int(differ)
    return rc


def _fresh_bct():
    """a newly imported bct package (state a routine keeps in module globals or default arguments starts empty)"""
    import importlib
    for m in [m for m in sys.modules if m == 'bct' or m.startswith('bct.')]:
        del sys.modules[m]
    return importlib.import_module('bct')


def _replay_decoy(r, a, k, outcome, same):
    """the recorded call sequence (decoy call on a private buffer B - B[...] = A - the judged call on B - second decoy call) on a newly
    imported bct, against the single call on the array as written on another newly imported bct.  -> 1 when they differ"""
    w = r['arguments'][0]
    w = int(w.split()[1]) if w.startswith('positional ') else w
    A = a[w] if isinstance(w, int) else k[w]
    d = r.get('decoy') or {}
    is_obj = lambda x: isinstance(x, str) and ('RandomState' in x or ' at 0x' in x or x.startswith('<'))
    nobj = sum(map(is_obj, list(a) + list(k.values())))
    if nobj:          # the harness's generator is not in the file: the same fresh integer seed in the sequence and in the single call
        a = [DECOY_SEED + 1 if is_obj(x) else x for x in a]
        k = {q: (DECOY_SEED + 1 if is_obj(x) else x) for q, x in k.items()}
    if not isinstance(A, np.ndarray) or not d.get('before'):
        print('call sequence: the record of %s is incomplete (array not in the file)' % r['function']); return 0

    def args(X, decoy=False):
        f = (lambda x: _decoy_arg(x)) if decoy else (lambda x: x.copy() if isinstance(x, np.ndarray) else x)
        return [X if i == w else f(x) for i, x in enumerate(a)], {q: (X if q == w else f(x)) for q, x in k.items()}
    name = r['function']
    print('call sequence on one buffer: %s, argument %s  (decoy seed %s%s)' % (name, r['arguments'][0], d.get('seed_in_decoy_calls', DECOY_SEED),
                                                                           '; generator argument(s) of the recorded call replaced by seed %d in both runs' % (DECOY_SEED + 1) if nobj else ''))
    f = getattr(_fresh_bct(), name, None)
    if f is None:
        print('  %s is not a public bct function of this tree' % name); return 0
    s0, r0 = outcome(f, *args(A.copy()))
    print('  single call, fresh interpreter state       : %s(A) %s %s' % (name, s0, str(tolist(r0))[:400]))
    f = getattr(_fresh_bct(), name)
    B = np.empty_like(A)
    B[...] = decoy_content(A, d['before'])
    how = lambda h: '%s%s' % ('node renumbering p=%s' % h['node_permutation'] if 'node_permutation' in h else 'element permutation q=%s' % str(h['element_permutation'])[:120],
                              ', times 0.5' if h.get('style') == 'halved' else '')
    sd, _ = outcome(f, *args(B, decoy=True))
    print('  1. decoy call  %s(B), B = %s : %s (discarded)' % (name, how(d['before']), sd))
    B[...] = A
    print('  2. B[...] = A  (the same buffer now holds the recorded values)')
    s1, r1 = outcome(f, *args(B))
    print('  3. judged call %s(B) %s %s' % (name, s1, str(tolist(r1))[:400]))
    differ = s0 != s1 or (s0 == 'returns' and not same(r0, r1))
    if d.get('after') and s1 == 'returns':
        snap = _snap_result(r1)
        B2 = np.empty_like(A)
        B2[...] = decoy_content(A, d['after'])
        sd2, _ = outcome(f, *args(B2, decoy=True))
        ch = _snap_changed(snap, r1)
        print('  4. decoy call  %s(B2), B2 = %s : %s (discarded); the object returned in step 3 %s' % (
            name, how(d['after']), sd2, ('CHANGED (%s): now %s' % (ch, str(tolist(r1))[:400])) if ch else 'is unchanged'))
        differ = differ or bool(ch) or (s0 == 'returns' and not same(r0, r1))
    print('  -> %s' % ('the judged call of the sequence DIFFERS from the single call on the same values: state is carried from one call to the next' if differ else
                       'same outcome for the sequence and the single call (the clause that failed is wrong for both, or compares with another call: see the case)'))
    for m in [m for m in sys.modules if m == 'bct' or m.startswith('bct.')]:
        del sys.modules[m]             # (later imports get a clean package)
    return int(differ)
