"""c05_inputs.py — inputs of the dynamic part of property C05: every seed-accepting public function, its argument
families and OPTION SETS (every branch that draws: paired / unpaired nbs, workers, every objective of community_louvain,
all 13 generative model types x 2 variants, wei_freq, hierarchy, initial partitions, ...), the canonical form of a result.

Also the CHILD of the cross-process re-run:  python c05_inputs.py child  <jobs.json  >digests.json
(harness/c05.py starts two fresh interpreters with different PYTHONHASHSEED; same arguments and seed must give the same
digests in both and in the parent — nondeterminism that does not come from a generator (hash order, id(), uninitialised
memory, clock) is invisible to a same-process comparison)."""
import sys, os, io, json, hashlib, inspect, contextlib
sys.path.insert(0, os.path.dirname(os.path.abspath(__file__)))
from common import np, call, Timeout, tolist


def canon(x):
    if isinstance(x, (tuple, list)):
        return tuple(canon(y) for y in x)
    if isinstance(x, np.ndarray):
        y = x
        if y.dtype.kind in 'fc':
            y = y.copy()
            y[np.isnan(y)] = np.nan
        if y.dtype == object:
            return ('objarr', y.shape, tuple(canon(z) for z in y.ravel().tolist()))
        return ('arr', y.shape, str(y.dtype), y.tobytes())
    if isinstance(x, dict):
        return tuple(sorted((str(k), canon(v)) for k, v in x.items()))
    if isinstance(x, (set, frozenset)):
        return ('set',) + tuple(sorted((canon(v) for v in x), key=repr))
    if isinstance(x, float) and x != x:
        return 'nan'
    if isinstance(x, (np.floating, np.integer, np.bool_)):
        return canon(x.item())
    return x


def digest(c):
    return hashlib.sha256(repr(c).encode()).hexdigest()[:24]


def outcome(g, t, **kw):
    """canonical result of one call, or ('raised', type name) — an exception is an outcome like any other (it must be the same
    outcome for the same arguments and seed, and the global generators must be untouched by it); Timeout propagates"""
    with contextlib.redirect_stdout(io.StringIO()):
        try:
            return canon(call(g, _t=t, **kw))
        except Timeout:
            raise
        except Exception as e:
            return ('raised', type(e).__name__)


def mats(v):
    r = np.random.RandomState(500 + v)
    n = 7 + v % 3
    Wd = r.randint(1, 5, size=(n, n)).astype(float) * (r.rand(n, n) < 0.55)
    np.fill_diagonal(Wd, 0)
    Wu = np.triu(Wd, 1); Wu = Wu + Wu.T
    Ws = np.triu(Wu * np.where(r.rand(n, n) < 0.3, -1, 1), 1); Ws = Ws + Ws.T
    D8 = r.rand(8, 8) + 1; D8 = (D8 + D8.T) / 2
    A8 = np.triu((r.rand(8, 8) < 0.4).astype(float), 1); A8 = A8 + A8.T
    Dn = r.rand(n, n) + 1; Dn = (Dn + Dn.T) / 2
    np.fill_diagonal(Dn, 0)
    mask = np.triu((r.rand(n, n) < 0.15).astype(float), 1); mask = mask + mask.T
    ci0 = (np.arange(n) % 3) + 1
    return dict(n=n, Wd=Wd, Wu=Wu, Ws=Ws, Ab=(Wu != 0).astype(float), Abd=(Wd != 0).astype(float), xyz=r.rand(n, 3),
                D8=D8, A8=A8, x=r.rand(5, 5, 6), y=r.rand(5, 5, 7) + 0.3, P=(lambda a: (a + a.T) / 2)(r.rand(n, n)), Dn=Dn, mask=mask, ci0=ci0,
                Bc=(lambda a: (a + a.T) / 2)(r.rand(n, n) - 0.4))


GEN_TYPES = ['matching', 'neighbors', 'euclidean', 'clu-avg', 'clu-min', 'clu-max', 'clu-diff', 'clu-prod', 'deg-avg', 'deg-min', 'deg-max',
             'deg-diff', 'deg-prod']
GEN_VARS = ['powerlaw', 'exponential']


def A(*a, **k):
    return a, k


def _sym(x):
    return x + x.transpose(1, 0, 2)


def option_sets():
    """name -> list of (label, lambda m: (args, kwargs)); GROUPED names: results of configurations with the same group label
    (second component of the label after '|') must be equal for the same input and seed"""
    T = {}
    T['randmio_und'] = [('itr2', lambda m: A(m['Wu'].copy(), 2)), ('bin', lambda m: A(m['Ab'].copy(), 3))]
    T['randmio_dir'] = [('itr2', lambda m: A(m['Wd'].copy(), 2)), ('bin', lambda m: A(m['Abd'].copy(), 3))]
    T['randmio_und_connected'] = [('itr2', lambda m: A(m['Wu'].copy(), 2))]
    T['randmio_dir_connected'] = [('itr2', lambda m: A(m['Wd'].copy(), 2))]
    T['randmio_und_signed'] = [('signed', lambda m: A(m['Ws'].copy(), 2)), ('positive', lambda m: A(m['Wu'].copy(), 2))]
    T['randmio_dir_signed'] = [('positive', lambda m: A(m['Wd'].copy(), 2)), ('signed', lambda m: A(m['Wd'].copy() * np.where(m['P'] < 0.3, -1, 1), 2))]
    for nm, key in (('latmio_und', 'Wu'), ('latmio_dir', 'Wd'), ('latmio_und_connected', 'Wu'), ('latmio_dir_connected', 'Wd')):
        T[nm] = [('D=None', lambda m, key=key: A(m[key].copy(), 2)), ('D given', lambda m, key=key: A(m[key].copy(), 2, D=m['Dn'].copy()))]
    T['randomize_graph_partial_und'] = [('mask=0', lambda m: A(m['Wu'].copy(), np.zeros((m['n'], m['n'])), 3)),
                                        ('mask', lambda m: A(m['Wu'].copy(), m['mask'].copy(), 4))]
    T['randomizer_bin_und'] = [('alpha.5', lambda m: A(m['Ab'].copy(), 0.5)), ('alpha1', lambda m: A(m['Ab'].copy(), 1.0))]
    T['null_model_und_sign'] = [('wf%s' % w, lambda m, w=w: A(m['Ws'].copy(), 2, w)) for w in (0.5, 0.1, 1)]
    T['null_model_dir_sign'] = [('wf%s' % w, lambda m, w=w: A(m['Wd'].copy() * (np.where(m['P'] < 0.25, -1, 1) if w != 0.5 else 1), 2, w)) for w in (0.5, 0.1, 1)]
    T['makerandCIJ_und'] = [('k', lambda m: A(8, 10 + m['n']))]
    T['makerandCIJ_dir'] = [('k', lambda m: A(8, 10 + m['n']))]
    T['makeringlatticeCIJ'] = [('k', lambda m: A(8, 20 + m['n']))]
    T['maketoeplitzCIJ'] = [('s2', lambda m: A(8, 10 + m['n'], 2.0))]
    T['makeevenCIJ'] = [('sz2', lambda m: A(8, 30 + m['n'], 2))]
    T['makefractalCIJ'] = [('E2', lambda m: A(3, 2, 2)), ('E3', lambda m: A(3, 3, 2))]
    T['makerandCIJdegreesfixed'] = [('sparse', lambda m: A(m['Abd'].sum(0).astype(int), m['Abd'].sum(1).astype(int))),
                                    ('dense', lambda m: (lambda G: A(G.sum(0).astype(int), G.sum(1).astype(int)))(
                                        (lambda r: (lambda X: X * (1 - np.eye(10)))((r.rand(10, 10) < 0.7).astype(int)))(np.random.RandomState(900 + m['n']))))]
    # (B and C0 are passed as lists: an ndarray B raises at `B in ('negative_sym', ..)`, an ndarray C0 at `C0 == None`)
    T['community_louvain'] = [('modularity', lambda m: A(m['Wu'].copy())), ('potts', lambda m: A(m['Ab'].copy(), B='potts')),
                              ('negative_sym', lambda m: A(m['Ws'].copy(), B='negative_sym')), ('negative_asym', lambda m: A(m['Ws'].copy(), B='negative_asym')),
                              ('B matrix', lambda m: A(m['Wu'].copy(), B=m['Bc'].tolist())), ('ci0+gamma', lambda m: A(m['Wu'].copy(), 0.7, m['ci0'].copy())),
                              ('directed', lambda m: A(m['Wd'].copy()))]
    T['modularity_louvain_und'] = [('default', lambda m: A(m['Wu'].copy())), ('hierarchy', lambda m: A(m['Wu'].copy(), 0.8, True))]
    T['modularity_louvain_dir'] = [('default', lambda m: A(m['Wd'].copy())), ('hierarchy', lambda m: A(m['Wd'].copy(), 0.8, True))]
    T['modularity_louvain_und_sign'] = [('q' + q, lambda m, q=q: A(m['Ws'].copy(), 1, q)) for q in ('sta', 'pos', 'smp', 'gja', 'neg')]
    T['modularity_finetune_und'] = [('default', lambda m: A(m['Wu'].copy())), ('ci0+gamma', lambda m: A(m['Wu'].copy(), m['ci0'].copy(), 0.7))]
    T['modularity_finetune_dir'] = [('default', lambda m: A(m['Wd'].copy())), ('ci0+gamma', lambda m: A(m['Wd'].copy(), m['ci0'].copy(), 0.7))]
    T['modularity_finetune_und_sign'] = [('q' + q, lambda m, q=q: A(m['Ws'].copy(), q)) for q in ('sta', 'pos', 'smp', 'gja', 'neg')] + \
                                        [('ci0', lambda m: A(m['Ws'].copy(), 'sta', 0.8, m['ci0'].copy()))]
    T['modularity_probtune_und_sign'] = [('default', lambda m: A(m['Ws'].copy())), ('p.3', lambda m: A(m['Ws'].copy(), 'sta', 1, m['ci0'].copy(), 0.3))]
    T['core_periphery_dir'] = [('default', lambda m: A(m['Wd'].copy())), ('gamma.7', lambda m: A(m['Wd'].copy(), 0.7)),
                               ('C0', lambda m: A(m['Wd'].copy(), 1, (np.arange(m['n']) % 2).tolist()))]
    ring = lambda N, w: np.maximum(0, 1 - np.minimum(np.abs(np.subtract.outer(np.arange(N), np.arange(N))), N - np.abs(np.subtract.outer(np.arange(N), np.arange(N)))) / w)
    T['consensus_und'] = [('tau.3', lambda m: A(m['P'].copy(), 0.3, reps=4)), ('tau.5', lambda m: A(m['P'].copy(), 0.5, reps=3)),
                          ('ring (several rounds)', lambda m: A(ring(24 + 2 * m['n'], 6.0), 0.2, reps=6))]
    T['rentian_scaling'] = [('n5', lambda m: A(m['Ab'].copy(), m['xyz'].copy(), 5))]
    T['pick_four_unique_nodes_quickly'] = [('n', lambda m: A(m['n'] - 2)), ('n4', lambda m: A(4))]
    T['nbs_bct'] = [('unpaired', lambda m: A(m['x'].copy(), m['y'].copy(), 1.0, k=5)),
                    ('paired', lambda m: A(m['x'].copy(), m['y'][:, :, :6].copy(), 0.5, k=5, paired=True)),
                    ('left', lambda m: A(m['x'].copy(), m['y'].copy(), 1.0, k=4, tail='left'))]
    T['nbs_parallel.nbs_bct'] = [('%s w%d|%s' % (lab, w, lab), lambda m, p=p, w=w: A(_sym(m['x']).copy(), _sym(m['y'])[:, :, :6 if p else 7].copy(), 1.0 if not p else 0.5, k=6,
                                                                                      paired=p, workers=w))
                                 for lab, p in (('unpaired', False), ('paired', True)) for w in (1, 2)]
    T['generative_model'] = [('%s/%s' % (t, mv), lambda m, t=t, mv=mv: A(np.zeros((8, 8)), m['D8'].copy(), 6, np.array([-1.0]), np.array([0.3]), model_type=t, model_var=mv))
                             for t in GEN_TYPES for mv in GEN_VARS]
    T['evaluate_generative_model'] = [('%s/%s' % (t, mv), lambda m, t=t, mv=mv: A(np.zeros((8, 8)), m['A8'].copy(), m['D8'].copy(), np.array([-1.0]), np.array([0.3]),
                                                                                 model_type=t, model_var=mv))
                                      for t, mv in (('matching', 'powerlaw'), ('euclidean', 'exponential'), ('clu-avg', 'powerlaw'), ('deg-prod', 'exponential'), ('neighbors', 'powerlaw'))]
    T['generate_fc'] = [('linear', lambda m: A(m['Wu'].copy(), np.array([0.1] * 5)))]
    T['mleme_constraint_model'] = [('default', lambda m: A(2, m['Wd'].copy()))]
    return T


GROUPED = {'nbs_parallel.nbs_bct'}        # configurations sharing a group label run on the same input matrices


def public_seeded():
    import bct, bct.nbs
    out = {}
    for ns, pre in ((bct, ''), (bct.nbs, '')):
        for nm in sorted(dir(ns)):
            f = getattr(ns, nm)
            if inspect.isfunction(f) and (f.__module__ or '').startswith('bct') and not nm.startswith('_'):
                try:
                    if 'seed' in inspect.signature(f).parameters:
                        out.setdefault(pre + nm, f)
                except (TypeError, ValueError):
                    pass
    try:
        import bct.nbs_parallel as npar
        if 'seed' in inspect.signature(npar.nbs_bct).parameters:
            out['nbs_parallel.nbs_bct'] = npar.nbs_bct
    except Exception:
        pass
    return out


def builders(P):
    """name -> (n_configs, at(v) -> callable taking the seed keyword only; .label .group .args)"""
    T, out = option_sets(), {}
    for name, cfgs in T.items():
        if name not in P:
            continue
        def at(v, name=name, cfgs=cfgs):
            ci = v % len(cfgs)
            mv = v // len(cfgs) if name in GROUPED else v
            lab, fa = cfgs[ci]
            m, f = mats(mv), P[name]
            g = lambda **kw: f(*fa(m)[0], **dict(fa(m)[1], **kw))        # fresh copies of the arguments on every call
            g.args, g.label, g.group, g.mv = tolist(fa(m)), lab.split('|')[0], (lab.split('|')[1] if '|' in lab else None), mv
            return g
        out[name] = (len(cfgs), at)
    if 'get_rng' in P:      # the hand-modelled function itself: observe the stream it hands out
        def at(v):
            g = lambda seed=None: P['get_rng'](seed).random_sample(3 + v)
            g.args, g.label, g.group, g.mv = [3 + v], 'stream', None, v
            return g
        out['get_rng'] = (1, at)
    return out


def seed_of(spec):
    """seed specifications that survive JSON: int | ['np.int64', k] | ['tuple', [..]] | ['RandomState', k]"""
    if isinstance(spec, list):
        kind, val = spec
        return {'np.int64': lambda: np.int64(val), 'tuple': lambda: tuple(val), 'RandomState': lambda: np.random.RandomState(val),
                'np.uint32': lambda: np.uint32(val)}[kind]()
    return spec


def child():
    jobs = json.load(sys.stdin)
    B = builders(public_seeded())
    out = {}
    for name, v, spec, t in jobs:
        key = '%s|%d|%s' % (name, v, json.dumps(spec))
        try:
            out[key] = digest(outcome(B[name][1](v), t, seed=seed_of(spec)))
        except Timeout:
            out[key] = 'timeout'
        except Exception as e:          # builder failure
            out[key] = 'builder:%s' % type(e).__name__
    json.dump({'hashseed': os.environ.get('PYTHONHASHSEED'), 'digests': out}, sys.stdout)


if __name__ == '__main__' and len(sys.argv) > 1 and sys.argv[1] == 'child':
    child()
