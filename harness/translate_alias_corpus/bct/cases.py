import numpy as np
import numpy as xp
import copy
import itertools
import operator
from scipy import linalg
from numpy import put as len2
from .elsewhere import something as round


def _doc():
    '''
    Parameters
    ----------
    W : NxN np.ndarray
        matrix
    '''


# ------------------------------------------------------------------ plain idioms (accepted)
def ok_copy_then_write(W):
    '''
    Parameters
    ----------
    W : NxN np.ndarray
        matrix
    '''
    W = W.copy()
    np.fill_diagonal(W, 0)
    W[W < 0] = 0
    return W


def ok_arith_fresh(W, X):
    '''
    Parameters
    ----------
    W : NxN np.ndarray
        matrix
    X : NxN np.ndarray
        matrix
    '''
    A = W + W.T
    A[0, 0] = 1
    B = np.dot(W, X)
    B += 1
    C = W[np.ix_(np.where(W.sum(axis=0) > 0)[0], np.arange(2))]
    C[0, 0] = 3
    D = np.array(W, dtype=float)
    D.sort()
    E = W.astype(float)
    E -= 1
    F = np.zeros((3, 3), dtype=int)
    F[np.ix_([0, 1], [0, 1])] = 1
    n = len(W)
    n += 1
    m = int(np.max(W))
    m -= 1
    G = np.nan_to_num(W)
    G[0, 0] = 2
    H = np.sum(W, axis=0)
    H[0] = 1
    I = np.unique(W, return_inverse=True)[1]
    I += 1
    with np.errstate(divide='ignore', invalid='ignore'):
        J = 1 / W
    J[0, 0] = 0
    K = np.ma.masked_where(np.isnan(W), W).max(axis=1)
    L = linalg.solve(W, X)
    L[0] = 0
    M = sorted(W.flat)
    return A, B, C, D, E, F, G, H, I, J, K, L, n, m


def ok_list_of_fresh(W):
    '''
    Parameters
    ----------
    W : NxN np.ndarray
        matrix
    '''
    out = []
    for i in range(3):
        out.append(W * i)
    out[0][0, 0] = 1
    tot = sum(map(len, out))
    q = [np.zeros(3)] + [np.ones(3)]
    q[0][0] = 1
    return out, tot


def ok_scalar_rebound_first(W, k):
    '''
    Parameters
    ----------
    W : NxN np.ndarray
        matrix
    k : int
        level
    '''
    k = int(k)
    k -= 1
    return W * k


def ok_out_fresh(W):
    '''
    Parameters
    ----------
    W : NxN np.ndarray
        matrix
    '''
    Z = np.zeros(W.shape)
    np.add(W, 1, out=Z)
    np.sqrt(W, Z)
    return Z


# ------------------------------------------------------------------ the audit's probe table: each of these aliases W, then writes
def bad_no_copy(W):
    '''
    Parameters
    ----------
    W : NxN np.ndarray
        matrix
    '''
    np.fill_diagonal(W, 0)
    return W.sum()


def bad_asarray(W):
    '''
    Parameters
    ----------
    W : NxN np.ndarray
        matrix
    '''
    W = np.asarray(W)
    np.fill_diagonal(W, 0)


def bad_slice(W):
    '''
    Parameters
    ----------
    W : NxN np.ndarray
        matrix
    '''
    A = W[:]
    A[0, 0] = 0


def bad_array_copy_none(W):
    '''
    Parameters
    ----------
    W : NxN np.ndarray
        matrix
    '''
    A = np.array(W, copy=None)
    A[0, 0] = 0


def bad_array_copy_var(W, c):
    '''
    Parameters
    ----------
    W : NxN np.ndarray
        matrix
    c : bool
        flag
    '''
    A = np.array(W, copy=c)
    A[0, 0] = 0


def bad_nan_to_num_inplace(W):
    '''
    Parameters
    ----------
    W : NxN np.ndarray
        matrix
    '''
    W = np.nan_to_num(W, copy=False)
    return W.sum()


def bad_nan_to_num_positional(W):
    '''
    Parameters
    ----------
    W : NxN np.ndarray
        matrix
    '''
    A = np.nan_to_num(W, False)
    return A.sum()


def bad_dtype_constructor(W):
    '''
    Parameters
    ----------
    W : NxN np.ndarray
        matrix
    '''
    A = np.float64(W)
    np.fill_diagonal(A, 0)


def bad_dtype_constructor_int(W):
    '''
    Parameters
    ----------
    W : NxN np.ndarray
        matrix
    '''
    A = np.int64(W)
    A[0] = 0


def bad_astype_positional(W):
    '''
    Parameters
    ----------
    W : NxN np.ndarray
        matrix
    '''
    A = W.astype(float, 'K', 'unsafe', True, False)
    A[0, 0] = 0


def bad_astype_kw(W):
    '''
    Parameters
    ----------
    W : NxN np.ndarray
        matrix
    '''
    A = W.astype(float, copy=False)
    A[0, 0] = 0


def bad_ix(idx):
    '''
    Parameters
    ----------
    idx : Nx1 np.ndarray
        indices
    '''
    A = np.ix_(idx)[0]
    A[0] = 0


def bad_masked_where(W):
    '''
    Parameters
    ----------
    W : NxN np.ndarray
        matrix
    '''
    A = np.ma.masked_where(W > 0, W, copy=False).data
    A[0, 0] = 0


def bad_ma_array(W):
    '''
    Parameters
    ----------
    W : NxN np.ndarray
        matrix
    '''
    A = np.ma.array(W)
    A[0, 0] = 0


def bad_max_of_two(W, X):
    '''
    Parameters
    ----------
    W : NxN np.ndarray
        matrix
    X : NxN np.ndarray
        matrix
    '''
    A = max(W, X)
    A[0, 0] = 0


def bad_sorted(W):
    '''
    Parameters
    ----------
    W : NxN np.ndarray
        matrix
    '''
    A = sorted([W])[0]
    A[0, 0] = 0


def bad_list_concat(W):
    '''
    Parameters
    ----------
    W : NxN np.ndarray
        matrix
    '''
    A = ([W] + [])[0]
    A[0, 0] = 0


def bad_tuple_repeat(W):
    '''
    Parameters
    ----------
    W : NxN np.ndarray
        matrix
    '''
    A = ((W,) * 2)[1]
    A[0, 0] = 0


def bad_list_param_concat(Ws):
    '''
    Parameters
    ----------
    Ws : list of NxN np.ndarray
        matrices
    '''
    A = Ws + []
    A[0][0, 0] = 0


def bad_shallow_list_copy(Ws):
    '''
    Parameters
    ----------
    Ws : list of NxN np.ndarray
        matrices
    '''
    A = Ws.copy()
    A[0][0, 0] = 0


def bad_overwrite_a(W, b):
    '''
    Parameters
    ----------
    W : NxN np.ndarray
        matrix
    b : Nx1 np.ndarray
        rhs
    '''
    return linalg.solve(W, b, overwrite_a=True)


def bad_overwrite_positional(W):
    '''
    Parameters
    ----------
    W : NxN np.ndarray
        matrix
    '''
    return linalg.inv(W, True)


def bad_out_kw(W):
    '''
    Parameters
    ----------
    W : NxN np.ndarray
        matrix
    '''
    np.add(W, 1, out=W)


def bad_out_positional(W):
    '''
    Parameters
    ----------
    W : NxN np.ndarray
        matrix
    '''
    np.sqrt(W, W)


def bad_out_positional_reduction(W, v):
    '''
    Parameters
    ----------
    W : NxN np.ndarray
        matrix
    v : Nx1 np.ndarray
        vector
    '''
    np.sum(W, 0, None, v)


def bad_out_result_is_out(W):
    '''
    Parameters
    ----------
    W : NxN np.ndarray
        matrix
    '''
    Z = W.T
    A = np.multiply(W, 2, out=Z)
    return A


def bad_method_out(W, v):
    '''
    Parameters
    ----------
    W : NxN np.ndarray
        matrix
    v : Nx1 np.ndarray
        vector
    '''
    W.sum(0, None, v)


def bad_ndarray_unbound_method(W):
    '''
    Parameters
    ----------
    W : NxN np.ndarray
        matrix
    '''
    np.ndarray.sort(W)


def bad_unknown_module_alias(W):
    '''
    Parameters
    ----------
    W : NxN np.ndarray
        matrix
    '''
    xp.put(W, [0], 1)


def bad_operator_module(W):
    '''
    Parameters
    ----------
    W : NxN np.ndarray
        matrix
    '''
    operator.iadd(W, 1)


def bad_imported_as_builtin(W):
    '''
    Parameters
    ----------
    W : NxN np.ndarray
        matrix
    '''
    len2(W, [0], 1)


def bad_unknown_keyword(W):
    '''
    Parameters
    ----------
    W : NxN np.ndarray
        matrix
    '''
    np.sum(W, sneaky=W)


def bad_map_writer(Ws):
    '''
    Parameters
    ----------
    Ws : list of NxN np.ndarray
        matrices
    '''
    return list(map(bad_no_copy, Ws))


def bad_sorted_key(Ws):
    '''
    Parameters
    ----------
    Ws : list of NxN np.ndarray
        matrices
    '''
    return sorted(Ws, key=bad_no_copy)


def bad_itertools(W, X):
    '''
    Parameters
    ----------
    W : NxN np.ndarray
        matrix
    X : NxN np.ndarray
        matrix
    '''
    for a, b in itertools.product([W], [X]):
        a[0, 0] = 0


def bad_shallow_copy_module(Ws):
    '''
    Parameters
    ----------
    Ws : list of NxN np.ndarray
        matrices
    '''
    A = copy.copy(Ws)
    A[0][0, 0] = 0


def bad_csr_adopts(data, indices, indptr):
    '''
    Parameters
    ----------
    data : Nx1 np.ndarray
        values
    indices : Nx1 np.ndarray
        columns
    indptr : Nx1 np.ndarray
        row pointers
    '''
    import scipy.sparse as sp
    M = sp.csr_matrix((data, indices, indptr))
    M.data[0] = 0


def bad_flat_base(W):
    '''
    Parameters
    ----------
    W : NxN np.ndarray
        matrix
    '''
    A = W.flat.base
    A[0, 0] = 0


def bad_getattr(W):
    '''
    Parameters
    ----------
    W : NxN np.ndarray
        matrix
    '''
    A = getattr(W, 'T').T
    A[0, 0] = 0


def bad_broadcast(W):
    '''
    Parameters
    ----------
    W : NxN np.ndarray
        matrix
    '''
    A, B = np.broadcast_arrays(W, 1)
    A.flags.writeable = True
    A[0, 0] = 0


def bad_ravel_reshape(W):
    '''
    Parameters
    ----------
    W : NxN np.ndarray
        matrix
    '''
    A = W.ravel().reshape(W.shape)
    A[0, 0] = 0


def bad_star_args(W, *opts):
    '''
    Parameters
    ----------
    W : NxN np.ndarray
        matrix
    '''
    A = np.array(W, *opts)
    np.copyto(*[W, 0])


def bad_error_path(W):
    '''
    Parameters
    ----------
    W : NxN np.ndarray
        matrix
    '''
    try:
        x = np.linalg.inv(W)
    except np.linalg.LinAlgError:
        W[0, 0] += 1
        raise


def bad_flag_moved(D, include_diagonal=False, include_infinite=True):
    '''
    Parameters
    ----------
    D : NxN np.ndarray
        matrix
    include_diagonal : bool
        flag
    include_infinite : bool
        flag
    '''
    if not include_diagonal:
        D = D.copy()
        np.fill_diagonal(D, np.nan)
    if not include_infinite:
        D[np.isinf(D)] = np.nan
    return np.nanmean(D)


def bad_conditional_expression(D, tau):
    '''
    Parameters
    ----------
    D : NxN np.ndarray
        matrix
    tau : float
        threshold
    '''
    dt = D * (D >= tau) if tau > 0 else D
    np.fill_diagonal(dt, 0)
    return dt


def bad_asarray_dtype(ci):
    '''
    Parameters
    ----------
    ci : Nx1 np.ndarray
        labels
    '''
    ci = np.asarray(ci, dtype=int)
    if not np.array_equal(np.unique(ci), np.arange(1, np.max(ci) + 1)):
        _, ci = np.unique(ci, return_inverse=True)
        ci += 1
    ci[0] = 2
    return ci


# ------------------------------------------------------------------ documented scalars that are written through by name
def bad_scalar_augassign(W, k):
    '''
    Parameters
    ----------
    W : NxN np.ndarray
        matrix
    k : int
        level
    '''
    k -= 1
    return W * k


def bad_scalar_forwarded(W, itr):
    '''
    Parameters
    ----------
    W : NxN np.ndarray
        matrix
    itr : int
        sweeps
    '''
    return bad_scalar_augassign(W, itr)


def bad_scalar_subscript_store(W, thr):
    '''
    Parameters
    ----------
    W : NxN np.ndarray
        matrix
    thr : float
        threshold
    '''
    thr[...] = 0
    return W > thr


# ------------------------------------------------------------------ results that share memory (fret must be true)
def alias_returns_view(W):
    '''
    Parameters
    ----------
    W : NxN np.ndarray
        matrix
    '''
    return W.T


def alias_returns_dtype_constructor(W):
    '''
    Parameters
    ----------
    W : NxN np.ndarray
        matrix
    '''
    return np.float64(W)


def alias_returns_max(W, X):
    '''
    Parameters
    ----------
    W : NxN np.ndarray
        matrix
    X : NxN np.ndarray
        matrix
    '''
    return max(W, X)


# ------------------------------------------------------------------ statements after a flag-guarded raise belong to the other branch only
def bad_guard_then_write(W, copy=True):
    '''
    Parameters
    ----------
    W : NxN np.ndarray
        matrix
    copy : bool
        flag
    '''
    if not copy:
        raise ValueError('needs a copy')
    np.fill_diagonal(W, 0)
    return W


def ok_guard_then_copy(W, copy=True):
    '''
    Parameters
    ----------
    W : NxN np.ndarray
        matrix
    copy : bool
        flag
    '''
    if not copy:
        raise ValueError('only copies')
    W = W.astype(float)
    W[0, 0] = 1
    return W
