from .cases import *
