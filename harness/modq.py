"""Shared machinery of the C02 and C07 checks (bct/algorithms/modularity.py).

* independent exact oracle: modularity straight from the definition with python Fractions (never uses aggregated
  matrices, node-to-module sums or anything else the library computes),
* generators (small integer weights so every sum the model treats as exact is exact in binary64),
* one `run_case` that calls the implementation with the verification hooks on, splits the hook log into levels and
  builds the input line of the extracted Coq model (which REPLAYS the recorded move sequence),
* comparison helpers model <-> implementation.
"""
from fractions import Fraction as F
import numpy as np
from common import *

GAMMAS = [F(1), F(3, 4), F(5, 4), F(13, 10)]
GAMMAS_WIDE = [F(0), F(1, 2), F(7, 8), F(3, 2), F(19, 10)]
QTYPES = ['sta', 'pos', 'smp', 'gja', 'neg']
KINDS = ['modularity', 'potts', 'negative_sym', 'negative_asym']
TOL = 1e-9


# ---------------------------------------------------------------- independent oracle (exact)
def same(ci):
    n = len(ci)
    return [(i, j) for i in range(n) for j in range(n) if ci[i] == ci[j]]


def q_half(W, ci, g, s, und=False):
    """sum over same-label pairs of W_ij - g*kout_i*kin_j/s  (und: k = column sums on both sides)"""
    n = len(W)
    ko = [sum(W[i]) for i in range(n)]
    ki = [sum(W[i][j] for i in range(n)) for j in range(n)]
    if und:
        ko = ki
    return sum(W[i][j] - g * ko[i] * ki[j] / s for (i, j) in same(ci))


def q_def(W, ci, g, und=False):
    s = sum(sum(r) for r in W)
    return q_half(W, ci, g, s, und) / s


def parts(W):
    W0 = [[x if x > 0 else 0 for x in r] for r in W]
    W1 = [[-x if x < 0 else 0 for x in r] for r in W]
    return W0, W1, sum(map(sum, W0)), sum(map(sum, W1))


def q_sign(W, ci, g, qtype):
    W0, W1, s0, s1 = parts(W)
    d0 = {'smp': lambda: F(1) / s0, 'gja': lambda: F(1) / (s0 + s1), 'sta': lambda: F(1) / s0, 'pos': lambda: F(1) / s0,
          'neg': lambda: F(0)}[qtype]() if s0 else F(0)
    d1 = {'smp': lambda: F(1) / s1, 'gja': lambda: F(1) / (s0 + s1), 'sta': lambda: F(1) / (s0 + s1), 'pos': lambda: F(0),
          'neg': lambda: F(1) / s1}[qtype]() if s1 else F(0)
    return d0 * q_half(W0, ci, g, s0 or 1) - d1 * q_half(W1, ci, g, s1 or 1)


def q_objective(W, ci, g, kind):
    """what community_louvain's q is documented to be for each built-in objective"""
    s = sum(map(sum, W))
    if kind == 'modularity':
        return q_def(W, ci, g)
    if kind == 'potts':
        return sum(W[i][j] - g * (1 if W[i][j] == 0 else 0) for (i, j) in same(ci)) / s
    W0, W1, s0, s1 = parts(W)
    a = q_half(W0, ci, g, s0)
    b = q_half(W1, ci, g, s1) if s1 else 0
    if kind == 'negative_sym':
        return a / (s0 + s1) - b / (s0 + s1)
    return a / s0 - b / (s0 + s1)


def valid_labels(ci, n):
    ci = list(ci)
    if len(ci) != n:
        return False
    if any(int(x) != x for x in ci):
        return False
    k = int(max(ci))
    return set(int(x) for x in ci) == set(range(1, k + 1))


def canon(ci):
    """partition as np.unique(return_inverse)+1 would label it (python reimplementation)"""
    vals = sorted(set(ci))
    return [vals.index(x) + 1 for x in ci]


# ---------------------------------------------------------------- routines
class Routine:
    def __init__(self, name, fn, family, directed=False, signed=False, takes_ci=False, levels=False, gain_scale='s/2'):
        self.name, self.fn, self.family = name, fn, family
        self.directed, self.signed, self.takes_ci, self.levels, self.gain_scale = directed, signed, takes_ci, levels, gain_scale


ROUTINES = {
    'modularity_finetune_und': Routine('modularity_finetune_und', 'finetune_und', 'und', takes_ci=True),
    'modularity_finetune_dir': Routine('modularity_finetune_dir', 'finetune_dir', 'dir', directed=True, takes_ci=True),
    'modularity_finetune_und_sign': Routine('modularity_finetune_und_sign', 'finetune_sign', 'sign', signed=True, takes_ci=True),
    'modularity_probtune_und_sign': Routine('modularity_probtune_und_sign', 'finetune_sign', 'sign', signed=True, takes_ci=True),
    'modularity_louvain_und': Routine('modularity_louvain_und', 'louvain_und', 'und', levels=True),
    'modularity_louvain_dir': Routine('modularity_louvain_dir', 'louvain_dir', 'dir', directed=True, levels=True),
    'modularity_louvain_und_sign': Routine('modularity_louvain_und_sign', 'louvain_sign', 'sign', signed=True, levels=True),
    'community_louvain': Routine('community_louvain', 'community_louvain', 'B', takes_ci=True, levels=True),
}


def true_q(case, ci):
    """definitional quality of partition ci for the case's network / gamma / type (exact Fraction)"""
    W, g = case['_W'], case['_g']
    fam = ROUTINES[case['fn']].family
    if fam == 'und':
        return q_def(W, ci, g, und=True)
    if fam == 'dir':
        return q_def(W, ci, g)
    if fam == 'sign':
        return q_sign(W, ci, g, case['qtype'])
    return q_objective(W, ci, g, case['kind'])


def gain_factor(case):
    """claimed gain = factor * (Q(after) - Q(before))"""
    W = case['_W']
    fam = ROUTINES[case['fn']].family
    s = sum(map(sum, W))
    if fam in ('und', 'dir'):
        return F(s, 2)
    if fam == 'sign':
        return F(1, 2)
    return F(s, 2) if case['kind'] in ('modularity', 'potts') else F(1, 2)


# ---------------------------------------------------------------- generators
class _WR:
    """random source whose randint(1, wmax) draws a WEIGHT: small integer (default), dyadic fraction k/4, large integer"""
    def __init__(self, r, mode):
        self.r, self.mode = r, mode

    def __getattr__(self, name):
        return getattr(self.r, name)

    def randint(self, a, b):
        if self.mode == 'dyadic':
            return F(self.r.randint(1, 10), 4)                  # 1/4 .. 5/2 (exact in binary64, some below 1)
        if self.mode == 'large':
            return self.r.randint(1, 1 << 15) if self.r.random() < 0.8 else self.r.randint(1, 4)
        return self.r.randint(a, b)


def gen_graph(r, n, directed, signed=False, binary=False, wmode='int'):
    fam = r.choice(['er', 'er', 'planted', 'planted', 'ring', 'star', 'disconnected', 'complete', 'isolated'])
    wmax = 1 if binary else 4
    W = [[0] * n for _ in range(n)]
    r0 = r
    if wmode in ('dyadic', 'large') and not binary:
        r = _WR(r0, wmode)

    def put(i, j, w):
        if i == j:
            return
        W[i][j] = w
        if not directed:
            W[j][i] = w
    if fam == 'er' or fam == 'isolated':
        p = r.choice([0.3, 0.5, 0.8])
        for i in range(n):
            for j in range(n):
                if (directed or i < j) and i != j and r.random() < p:
                    put(i, j, r.randint(1, wmax))
        if fam == 'isolated':
            v = r.randrange(n)
            for j in range(n):
                W[v][j] = 0
                W[j][v] = 0
    elif fam == 'planted':
        k = r.choice([2, 3])
        grp = [r.randrange(k) for _ in range(n)]
        for i in range(n):
            for j in range(n):
                if (directed or i < j) and i != j:
                    if grp[i] == grp[j]:
                        if r.random() < 0.9:
                            put(i, j, r.randint(max(1, wmax - 1), wmax))
                    elif r.random() < 0.25:
                        put(i, j, 1)
    elif fam == 'ring':
        for i in range(n):
            put(i, (i + 1) % n, r.randint(1, wmax))
            if directed and r.random() < 0.3:
                put((i + 1) % n, i, r.randint(1, wmax))
    elif fam == 'star':
        hub = r.randrange(n)
        for j in range(n):
            if j != hub:
                put(hub, j, r.randint(1, wmax))
                if directed and r.random() < 0.5:
                    put(j, hub, r.randint(1, wmax))
    elif fam == 'disconnected':
        cut = max(1, n // 2)
        for i in range(n):
            for j in range(n):
                if (directed or i < j) and i != j and (i < cut) == (j < cut) and r.random() < 0.8:
                    put(i, j, r.randint(1, wmax))
    else:
        for i in range(n):
            for j in range(n):
                if (directed or i < j) and i != j:
                    put(i, j, r.randint(1, wmax))
    if r.random() < 0.2:                      # self-loops: W[u,u] enters the gain and the trace
        for i in range(n):
            if r.random() < 0.4:
                W[i][i] = r.randint(1, wmax)
    if wmode == 'selfloops' and not binary:   # heavy self-loops: W[u,u] - gamma*k_u^2/s (the entry dq[ma] = 0 overwrites) can be the maximum
        for i in range(n):
            if r.random() < 0.6:
                W[i][i] = r.randint(5, 40)
    if n == 1 and not W[0][0]:
        W[0][0] = r.randint(1, wmax)          # a single node: the only possible weight is a self-loop
    if signed:
        p = r.choice([0.0, 0.2, 0.4, 1.0]) if r.random() < 0.3 else r.choice([0.2, 0.35])
        for i in range(n):
            for j in range(n):
                if (directed or i <= j) and W[i][j] and r.random() < p:
                    W[i][j] = -W[i][j]
                    if not directed:
                        W[j][i] = W[i][j]
    return W, fam


def gen_ci(r, n):
    """None (default singletons) or an initial partition: contiguous, shuffled singletons, one block, non-contiguous/negative labels"""
    ch = r.choice(['none', 'rand', 'rand', 'adversarial', 'adversarial', 'one', 'singletons'])
    if ch == 'none':
        return None, ch
    if ch == 'rand':
        k = r.randint(1, max(1, n // 2 + 1))
        return [r.randint(1, k) for _ in range(n)], ch
    if ch == 'adversarial':
        pool = r.sample([-7, -3, 0, 2, 5, 10, 11, 40, 100, 1000], r.randint(1, min(n, 5)))
        return [r.choice(pool) for _ in range(n)], ch
    if ch == 'one':
        return [3] * n, ch
    p = list(range(1, n + 1))
    r.shuffle(p)
    return p, ch


def _wit(fn, W, seed, **kw):
    c = {'fn': fn, 'n': len(W), 'family': 'coq-witness', 'W': W, 'gamma': '1', '_W': W, '_g': F(1), 'seed': seed, 'weights': 'int'}
    c.update(kw)
    return c


# the concrete witnesses of the `_refuted` lemmas (Proofs/ModularityQ.v, Proofs/ModularityGain.v) are replayed on the
# implementation first: with these seeds the implementation takes exactly the move sequences quoted in the lemmas
WITNESSES = {
    'modularity_louvain_dir': [
        _wit('modularity_louvain_dir', [[0, 1, 2], [0, 0, 2], [0, 1, 0]], 914),                        # q / bookkeeping
        _wit('modularity_louvain_dir', [[0, 0, 0, 0], [0, 0, 0, 2], [1, 0, 0, 0], [0, 0, 2, 0]], 782),  # monotone
    ],
    # the input on which modularity_finetune_dir lowered Q before the repair d18f46d (regression guard)
    'modularity_finetune_dir': [
        _wit('modularity_finetune_dir', [[0, 1, 4], [0, 0, 0], [1, 0, 0]], 0, ci=[1, 1, 3], ci_kind='witness'),
    ],
}


def near_tie(e, order):
    """two pairs A={a1,a2}, B={b1,b2}: internal weight sums w_AA = e-1, w_BB = e+1, weight e between them (e odd).
    Level 1 finds A and B; at level 2 merging them has exact gain (e^2 - w_AA*w_BB)/s = 1/s > 1e-10 but raises Q only by
    2/s^2 < 1e-10, so the level is computed and then discarded: the returned level must be the one BEFORE it."""
    a1, a2, b1, b2 = order
    W = [[0] * 4 for _ in range(4)]

    def put(i, j, w):
        W[i][j] = w
        W[j][i] = w
    put(a1, a2, (e - 1) // 2)
    put(b1, b2, (e + 1) // 2)
    q = e // 4
    put(a1, b1, e - 3 * q); put(a1, b2, q); put(a2, b1, q); put(a2, b2, q)
    return W


for _k, (_e, _o) in enumerate([(100001, (0, 1, 2, 3)), (300001, (2, 0, 3, 1)), (1000001, (3, 2, 1, 0)), (200001, (0, 2, 1, 3))]):
    WITNESSES.setdefault('modularity_louvain_und', []).append(
        dict(_wit('modularity_louvain_und', near_tie(_e, _o), 11 + _k), family='near-tie-level'))
_queue = {}


def path_inc(n):
    """path 0-1-...-(n-1) with weights 1, 2, ..., n-1: the local moving phase needs many sweeps (a merge front that advances
    a few nodes per sweep): 23..32 sweeps at n = 44 over 40 seeds — above any small `it` bound, far below 1000"""
    W = [[0] * n for _ in range(n)]
    for i in range(n - 1):
        W[i][i + 1] = W[i + 1][i] = i + 1
    return W


IT_GUARDED = ('modularity_louvain_und', 'modularity_louvain_und_sign', 'community_louvain', 'modularity_louvain_dir',
              'modularity_finetune_und_sign')


def big_sparse_case(r, fn):
    """143..150 nodes, a few edges among the first and among the LAST eight nodes (indices above 127), every other node
    isolated (never moved): more than 127 nodes AND more than 127 modules in the result — module vectors / labels held in
    a narrow integer type wrap. Half-integer weights (not integer-valued: the input-representation layer cannot re-store
    the matrix in an integer dtype, whose known arithmetic defects would mask a failure). Too large for the model
    (aggregation is O(n^4)): `_nomodel`, direct oracle only."""
    n = r.randint(143, 150)         # at most 14 merges among the 16 connected nodes: at least 129 modules
    W = [[0] * n for _ in range(n)]
    desc = {}
    for lo in (0, n - 8):
        for _ in range(r.randint(3, 5)):
            i, j = r.sample(range(lo, lo + 8), 2)
            W[i][j] = W[j][i] = F(r.choice([1, 3, 5, 7]), 2)
            desc['%d-%d' % (min(i, j), max(i, j))] = float(W[i][j])
    case = {'fn': fn, 'n': n, 'family': 'big-sparse', 'W': 'zeros(%d,%d) + symmetric edges %s' % (n, n, desc),
            'gamma': '1', '_W': W, '_g': F(1), 'seed': r.randrange(1 << 30), 'weights': 'dyadic', '_nomodel': True}
    if ROUTINES[fn].signed:
        case['qtype'] = 'sta'
    if fn == 'community_louvain':
        case.update(kind='modularity', directed=False, ci=None, ci_kind='none')
    elif ROUTINES[fn].takes_ci:
        case.update(ci=None, ci_kind='none')
    return case


def over256_case(r, fn):
    """257..300 nodes AND a supplied start partition: above 256 two equal Python integers are no longer the same object (an
    `is` / `is not` between len(ci) and n, or between two len()s, changes its answer), above 255 a uint8 count wraps. About
    forty connected nodes - half among the lowest numbers, half among the highest (several numbered >= 257) - in three planted
    groups that straddle both ends, half-integer weights (not integer-valued, see big_sparse_case; some negative between the
    groups for the signed routines, one-way for the directed one); every other node isolated (never moved).  The start partition
    has 3..5 groups over ALL nodes with non-contiguous labels, unrelated to the planted groups: the optimiser has to move most of
    the connected nodes.  Too large for the model: `_nomodel`, direct oracle only."""
    R = ROUTINES[fn]
    n = r.randint(257, 300)
    low = r.sample(range(0, 60), 20)
    high = r.sample(range(n - 30, n), 20)
    if not any(v >= 257 for v in high):
        high[0] = n - 1
    nodes = low + high
    r.shuffle(nodes)
    grp = {v: i % 3 for i, v in enumerate(nodes)}
    directed = R.directed or (fn == 'community_louvain' and r.random() < 0.3)
    W = [[0] * n for _ in range(n)]
    desc = {}
    for a in range(len(nodes)):
        for b in range(a + 1, len(nodes)):
            i, j = nodes[a], nodes[b]
            same = grp[i] == grp[j]
            if r.random() < (0.55 if same else 0.06):
                w = F(r.choice([1, 3, 5]), 2)
                if R.signed and not same and r.random() < 0.6:
                    w = -w
                if directed and r.random() < 0.5:
                    if r.random() < 0.5:
                        i, j = j, i
                    W[i][j] = w
                    desc['%d>%d' % (i, j)] = float(w)
                else:
                    W[i][j] = W[j][i] = w
                    desc['%d-%d' % (min(i, j), max(i, j))] = float(w)
    k = r.randint(3, 5)
    labels = r.sample([2, 5, 10, 11, 40, 100, 1000], k)
    ci = [r.choice(labels) for _ in range(n)]
    g = r.choice([F(1), F(1), F(3, 4), F(5, 4)])
    case = {'fn': fn, 'n': n, 'family': 'over-256-with-ci',
            'W': 'zeros(%d,%d) + entries (a-b symmetric, a>b one-way) %s' % (n, n, desc), 'gamma': str(g), '_W': W, '_g': g,
            'seed': r.randrange(1 << 30), 'weights': 'dyadic', '_nomodel': True, 'ci': ci, 'ci_kind': 'rand-over-256'}
    if r.random() < 0.25:
        case['ci_as'] = 'list'
    if R.signed:
        case['qtype'] = r.choice(QTYPES[:4])
    if fn == 'community_louvain':
        case.update(kind='modularity', directed=directed)
    return case


def jsonable(W):
    return [[int(x) if F(x).denominator == 1 else float(x) for x in row] for row in W]


def make_case(ctx, fn, n=None):
    """a random applicable input for routine fn (None if the draw is outside the routine's domain)"""
    key = (id(ctx), fn)
    if key not in _queue:
        _queue[key] = [dict(c) for c in WITNESSES.get(fn, [])]
        # many-sweep witness for the routines with an `it > 1000` / `h > 1000` guard (quick tier: two of them)
        if fn in IT_GUARDED and (getattr(ctx, 'thorough', False) or fn in ('modularity_louvain_und', 'community_louvain')):
            extra = {'family': 'long-sweeps', 'n': 44}
            if fn == 'community_louvain':
                extra.update(kind='modularity', directed=False, ci=None, ci_kind='none')
            if ROUTINES[fn].signed:
                extra.update(qtype='sta')
                if fn == 'modularity_finetune_und_sign':
                    extra.update(ci=None, ci_kind='none')
            # halved weights (1/2, 1, 3/2, ...): same sweeps (the gains scale), but not integer-valued — see big_sparse_case
            Wp = [[F(x, 2) for x in row] for row in path_inc(44)]
            c = _wit(fn, Wp, 7 + len(fn), **extra)
            c['W'] = jsonable(Wp); c['weights'] = 'dyadic'
            _queue[key].append(c)
        if getattr(ctx, 'big_sparse', False) and fn in ('modularity_louvain_und', 'modularity_louvain_und_sign', 'community_louvain'):
            _queue[key].append(big_sparse_case(ctx.rng, fn))
    q = _queue[key]
    if q and n is None:
        return q.pop(0)
    r = ctx.rng
    R = ROUTINES[fn]
    if n is None:
        x = r.random()
        n = r.randint(1, 2) if x < 0.06 else (r.randint(10, 16) if x < 0.18 else r.randint(3, 9))
    case = {'fn': fn, 'n': n}
    kind = None
    x = r.random()
    wmode = 'int' if x < 0.55 else 'dyadic' if x < 0.72 else 'large' if x < 0.80 else 'tiny' if x < 0.90 else 'selfloops'
    if fn == 'community_louvain':
        kind = r.choice(KINDS)
        case['kind'] = kind
        directed = r.random() < 0.5
        signed = kind.startswith('negative')
        W, fam = gen_graph(r, n, directed, signed=signed, binary=(kind == 'potts'), wmode=wmode)
        case['directed'] = directed
        if kind == 'potts':
            wmode = 'int'
    else:
        W, fam = gen_graph(r, n, R.directed, signed=R.signed, wmode=wmode)
    if wmode == 'large' and n > 9:
        return None                                # keep total weight < 2^23 (see ASSUMES: float gain noise below 1/(20 s))
    if wmode == 'tiny':
        # whole matrix scaled by 2^-k: the gains of the und / dir / 'modularity' routines scale with it into the
        # neighbourhood of the ABSOLUTE threshold 1e-10 (2^-33 = 1.2e-10); exact in binary64, scale-free for the others
        c = F(1, 1 << r.randint(26, 38))
        W = [[x * c for x in row] for row in W]
    case['family'] = fam
    case['weights'] = wmode
    s = sum(map(sum, W))
    if R.signed or (kind or '').startswith('negative'):
        W0, W1, s0, s1 = parts(W)
        if s0 + s1 == 0:
            return None
        if kind and (s0 == 0 or s <= 0):     # negative_*: B0/s0 needs positive weights; total weight must be positive
            return None
        case['qtype'] = r.choice(QTYPES) if R.signed else None
    elif s <= 0:
        return None
    g = r.choice(GAMMAS) if r.random() < 0.75 else r.choice(GAMMAS_WIDE)
    case['W'] = jsonable(W)
    case['gamma'] = str(g)
    case['_W'] = W
    case['_g'] = g
    if all(F(x).denominator == 1 for row in W for x in row) and r.random() < 0.15:
        case['dtype'] = 'int'                      # integer ndarray input (the routines accept it)
    if R.takes_ci:
        ci, how = gen_ci(r, n)
        case['ci'] = ci
        case['ci_kind'] = how
        if ci is not None and r.random() < 0.1:
            case['ci_as'] = 'list'                 # a python list instead of an int ndarray
    case['seed'] = r.randrange(1 << 30)
    if r.random() < 0.03:                          # seed=None: numpy's global state (seeded here so that the case replays)
        case['global_seed'] = case['seed']
        case['seed'] = None
    return case


def pub(case):
    return {k: v for k, v in case.items() if not k.startswith('_')}


# ---------------------------------------------------------------- running the implementation
def call_impl(case, hierarchy=False, ci_override=None):
    """returns (ci, q, levels) with levels = list of dict(moves=[event...], labels=..., q=...)"""
    import bct
    from bct.utils import _verif
    fn = case['fn']
    W = np.array([[float(x) for x in r] for r in case['_W']], dtype=DTYPES[case.get('dtype', 'float')])
    g = float(case['_g'])
    if case['seed'] is None:         # seed=None: the routine draws from numpy's global state (no recording possible)
        np.random.seed(case['global_seed'])
        rec = None
    else:
        rec = Rec(case['seed'])      # same draws as seed=case['seed']; logs every rng.permutation call of the run
    kw = {'seed': rec}
    ci0 = ci_override if ci_override is not None else case.get('ci')
    if ROUTINES[fn].takes_ci and ci0 is not None:
        kw['ci'] = list(ci0) if case.get('ci_as') == 'list' else np.array(ci0, dtype=int)
    if ROUTINES[fn].signed:
        kw['qtype'] = case['qtype']
    if fn == 'community_louvain':
        kw['B'] = case['kind']
    if fn in ('modularity_louvain_und', 'modularity_louvain_dir'):
        kw['hierarchy'] = hierarchy
    _verif.reset()
    ci, q = call(getattr(bct, fn), W, gamma=g, _t=20.0, **kw)
    tie_variants(case, 'input_variant')   # input-representation layer: the clauses of this case are judged later (batched model run), so
    #                                       the representation this call ran on is tied to the case (pub() keeps the key)
    levels, cur = [], []
    for tag, d in _verif.LOG:
        if tag == 'move':
            cur.append(d)
        elif tag == 'level':
            levels.append({'moves': cur, 'labels': [int(x) for x in d['labels']], 'q': float(d['q'])})
            cur = []
    if not ROUTINES[fn].levels:
        levels = [{'moves': cur, 'labels': None, 'q': None}]
    _verif.reset()
    global LAST_PERMS
    LAST_PERMS = None if rec is None else [[int(x) for x in e[3]] for e in rec.log if e[0] == 'permutation']
    return ci, q, levels


LAST_PERMS = None
DTYPES = {'float': float, 'int': int, 'float32': np.float32}
THR = F(1e-10)      # the exact rational value of the double 1e-10 the code compares with
MAXIT = {'finetune_und': None, 'finetune_dir': None, 'finetune_sign': 1000, 'louvain_und': 1000, 'louvain_sign': 1000,
         'community_louvain': 1000}


def auto_line(case, perms, ci_override=None):
    """input line of the extracted DECISION-RULE model (Model/ModularitySelect.v): the network, gamma, the threshold, the
    `it` bound and the recorded permutation stream; the model produces every visit (node, chosen module or none, margin)"""
    R = ROUTINES[case['fn']]
    assert R.fn in MAXIT
    n = case['n']
    ci0 = ci_override if ci_override is not None else case.get('ci')
    if ci0 is None:
        ci0 = list(range(1, n + 1))
    mx = MAXIT[R.fn]
    head = ('auto_' + R.fn + ' ' + enc_mat(case['_W'], enc_qb) + ' ' + enc_qb(case['_g']) + ' ' + enc_qb(THR) + ' '
            + ('1 %d' % mx if mx is not None else '0'))
    pm = ' %d ' % len(perms) + ' '.join(enc_list(p) for p in perms)
    if R.fn in ('finetune_und', 'finetune_dir'):
        return head + ' ' + enc_list(ci0) + pm
    if R.fn == 'finetune_sign':
        return head + ' %d ' % QTYPES_IDX[case['qtype']] + enc_list(ci0) + pm
    if R.fn == 'louvain_und':
        return head + pm
    if R.fn == 'louvain_sign':
        return head + ' %d' % QTYPES_IDX[case['qtype']] + pm
    return head + ' %d ' % KINDS.index(case['kind']) + enc_list(ci0) + pm


def gain_scale(case):
    """magnitude of the terms the float gain vector is built from (its rounding error is ~1e-16 of that): the total
    absolute weight for the routines whose gains are homogeneous of degree 1 in W, 1 for the normalised (signed) ones"""
    fam = ROUTINES[case['fn']].family
    tot = sum(abs(x) for r in case['_W'] for x in r)
    if fam in ('und', 'dir') or (fam == 'B' and case['kind'] in ('modularity', 'potts')):
        return max(tot, F(1, 10 ** 30))
    return F(1)


def compare_auto(case, auto, levels):
    """model-chosen moves against the accepted moves of the implementation. Returns ('ok' | 'ambiguous' | 'mismatch', text).
    The exact argmax / threshold test and the float one can only differ where the exact decision is within float noise of
    flipping: a divergence is forgiven (fallback: the accepted-move replay) iff some visit since the last agreed move has a
    margin (exact gap max-threshold, or max - best slot with DIFFERENT inputs: slots with identical node-to-module / module
    sums have bitwise identical float gains and tie identically on both sides) below 1e-9 * gain scale."""
    lv, left, out = auto
    tol = F(1, 10 ** 9) * gain_scale(case)
    impl = [[(int(d['u']), int(d['mb'])) for d in L['moves']] for L in levels]
    window = None
    def amb(extra=None):
        w = window if extra is None else (extra if window is None else min(window, extra))
        return w is not None and w <= tol
    for h in range(max(len(lv), len(impl))):
        if h >= len(lv) or h >= len(impl):
            return ('ambiguous' if amb() else 'mismatch'), 'model runs %d levels, implementation %d' % (len(lv), len(impl))
        mv = impl[h]
        k = 0
        for sw in lv[h]:
            for (u, ch, mg) in sw:
                mg = dec_q(mg)
                window = mg if window is None else min(window, mg)
                if ch is None:
                    continue
                if k < len(mv) and mv[k] == (u, ch):
                    k += 1
                    window = None
                    continue
                return ('ambiguous' if amb() else 'mismatch'), ('level %d: the decision rule moves node %d to module %d (margin %.3g), '
                        'the implementation\'s next accepted move is %s' % (h + 1, u, ch, float(mg), mv[k] if k < len(mv) else None))
        if k < len(mv):
            return ('ambiguous' if amb() else 'mismatch'), ('level %d: the implementation accepted move %s that the decision rule '
                    'does not make' % (h + 1, mv[k]))
    if out != 0 or left != 0:
        return ('ambiguous' if amb() else 'mismatch'), 'outcome %s with %d permutations left over (0 = all sweeps completed)' % (out, left)
    return 'ok', ''


def spectral_capture(f, A, g):
    """modularity_und / modularity_dir without kci, with the recursion observed from outside: scipy.linalg.eig/eigh are
    wrapped to log the size of the module of every `recur` call (preorder), bct.algorithms.modularity.ls2ci to capture the
    final `modules` list. Returns (ci, q, table) with table = [(module, None | final mod_asgn as booleans)] in preorder:
    the decision oracle of the extracted run_spectral_table."""
    import scipy.linalg as sl
    import bct.algorithms.modularity as bm
    sizes, mods = [], []
    o_eig, o_eigh, o_ls = sl.eig, sl.eigh, bm.ls2ci

    def w_eig(a, *x, **k):
        sizes.append(len(a)); return o_eig(a, *x, **k)

    def w_eigh(a, *x, **k):
        sizes.append(len(a)); return o_eigh(a, *x, **k)

    def w_ls(ls, *x, **k):
        mods.append([list(map(int, b)) for b in ls]); return o_ls(ls, *x, **k)
    sl.eig, sl.eigh, bm.ls2ci = w_eig, w_eigh, w_ls
    try:
        with variant_retry(lambda: (sizes.clear(), mods.clear())):      # (input layer: a repeated / decoy call leaves nothing in the recording)
            ci, q = call(f, A, gamma=g, _t=20.0)
    finally:
        sl.eig, sl.eigh, bm.ls2ci = o_eig, o_eigh, o_ls
    if len(mods) != 1:
        raise ValueError('ls2ci called %d times' % len(mods))
    leaves = mods[0]
    pos = [0, 0]

    def parse():
        s = sizes[pos[0]]; pos[0] += 1
        if pos[1] < len(leaves) and len(leaves[pos[1]]) == s:
            lf = leaves[pos[1]]; pos[1] += 1
            return ('leaf', lf)
        a = parse(); b = parse()
        return ('node', a, b)

    def elems(t):
        return set(t[1]) if t[0] == 'leaf' else elems(t[1]) | elems(t[2])
    tree = parse()
    if pos[0] != len(sizes) or pos[1] != len(leaves):
        raise ValueError('recursion tree does not match the eig calls')
    table = []

    def walk(t, md):
        if t[0] == 'leaf':
            if list(md) != list(t[1]):
                raise ValueError('leaf %s reached as %s' % (t[1], md))
            table.append((list(md), None)); return
        left = elems(t[1])
        a = [x in left for x in md]
        table.append((list(md), a))
        walk(t[1], [x for x in md if x in left]); walk(t[2], [x for x in md if x not in left])
    walk(tree, list(range(len(A))))
    return ci, q, table


def spectral_line(directed, W, g, table):
    tb = ' '.join(enc_list(md) + ' ' + ('0' if a is None else '1 ' + enc_list(a, enc_bool)) for md, a in table)
    return 'spectral %d ' % bool(directed) + enc_mat(W, enc_qb) + ' ' + enc_qb(g) + ' %d ' % len(table) + tb


def model_line(case, levels, ci_override=None):
    fn = case['fn']
    R = ROUTINES[fn]
    n = case['n']
    ci0 = ci_override if ci_override is not None else case.get('ci')
    if ci0 is None:
        ci0 = list(range(1, n + 1))
    mv = lambda L: ' '.join([str(len(L['moves']))] + ['%d %d' % (int(d['u']), int(d['mb'])) for d in L['moves']])
    head = R.fn + ' ' + enc_mat(case['_W'], enc_qb) + ' ' + enc_qb(case['_g'])
    if R.fn in ('finetune_und', 'finetune_dir'):
        return head + ' ' + enc_list(ci0) + ' ' + mv(levels[0])
    if R.fn == 'finetune_sign':
        return head + ' %d ' % QTYPES_IDX[case['qtype']] + enc_list(ci0) + ' ' + mv(levels[0])
    lv = str(len(levels)) + ' ' + ' '.join(mv(L) for L in levels) if levels else '0'
    if R.fn in ('louvain_und', 'louvain_dir'):
        return head + ' ' + lv
    if R.fn == 'louvain_sign':
        return head + ' %d ' % QTYPES_IDX[case['qtype']] + lv
    return head + ' %d ' % KINDS.index(case['kind']) + enc_list(ci0) + ' ' + lv


QTYPES_IDX = {'sta': 0, 'pos': 1, 'smp': 2, 'gja': 3, 'neg': 4}


def good_line(case, levels):
    """input line of the extracted DECIDER of the hypotheses of the whole-run theorems (symmetric input, positive total
    weight, every recorded move legal with exact gain > 0) for the three multi-level routines that have such a theorem"""
    fnm = ROUTINES[case['fn']].fn
    assert fnm in ('louvain_und', 'louvain_sign', 'community_louvain')
    line = model_line(case, levels)
    assert line.startswith(fnm + ' ')
    return fnm + '_good' + line[len(fnm):]


def probtune_stream(case, p):
    """modularity_probtune_und_sign with a RECORDING RandomState: the permutation and every later draw become the explicit
    stream of the extracted model run_probtune (Model/ModularityProb.v); the float-decided outcome of each deterministic
    node (argmax / > 1e-10) is taken from the hook events. Returns (ci, q, steps, model line)."""
    import bct
    from bct.utils import _verif
    W = np.array(case['_W'], dtype=float)
    n = case['n']
    rec = Rec(case['seed'] if case['seed'] is not None else case['global_seed'])
    kw = {'seed': rec, 'qtype': case['qtype'], 'p': p}
    if case.get('ci') is not None:
        kw['ci'] = np.array(case['ci'], dtype=int)
    _verif.reset()
    ci, q = call(bct.modularity_probtune_und_sign, W, gamma=float(case['_g']), _t=20.0, **kw)
    tie_variants(case, 'input_variant')
    moves = [d for tag, d in _verif.LOG if tag == 'move']
    _verif.reset()
    steps = [[int(d['u']), bool(d.get('random')), int(d['mb'])] for d in moves]
    by_node = {int(d['u']): d for d in moves}
    log = list(rec.log)
    if not log or log[0][0] != 'permutation':
        raise ValueError('unexpected draw sequence: %s' % [e[0] for e in log[:3]])
    perm = [int(x) for x in log[0][3]]
    draws, orc, i = [], [], 1
    for u in perm:
        if i >= len(log) or log[i][0] != 'random_sample':
            raise ValueError('unexpected draw sequence at node %d' % u)
        x = float(log[i][3]); i += 1
        draws.append('0 ' + enc_qb(x))
        if x < p:
            if i >= len(log) or log[i][0] != 'randint':
                raise ValueError('unexpected draw sequence at node %d' % u)
            draws.append('1 %d' % int(log[i][3])); i += 1
        else:
            d = by_node.get(u)
            orc.append('1 %d' % int(d['mb']) if (d is not None and not d.get('random')) else '0')
    if i != len(log):
        raise ValueError('%d unconsumed draws' % (len(log) - i))
    ci0 = case.get('ci')
    if ci0 is None:
        ci0 = list(range(1, n + 1))
    line = ('probtune ' + enc_mat(case['_W'], enc_qb) + ' ' + enc_qb(case['_g']) + ' %d ' % QTYPES_IDX[case['qtype']] + enc_list(ci0)
            + ' ' + enc_qb(p) + ' ' + enc_list(perm) + ' %d ' % len(draws) + ' '.join(draws) + ' %d ' % len(orc) + ' '.join(orc))
    return ci, q, steps, line


def dec_qf(s):
    """"0b101/0b11" -> correctly rounded float of the exact fraction"""
    a, b = s.split('/')
    return int(a, 0) / int(b, 0)


def dec_result(m):
    """model output -> dict"""
    lv = []
    for (moves, labels, q, qd) in m[0]:
        mvs = []
        for (g, (lab, ca, cb)) in moves:
            # node-to-module / module sums: only ever compared with float arrays (arr_close) -> decoded straight to floats
            mvs.append({'gain': dec_q(g), 'labels': lab,
                        'ca': (dec_deep(ca[0], dec_qf), dec_deep(ca[1], dec_qf)),
                        'cb': (dec_deep(cb[0], dec_qf), dec_deep(cb[1], dec_qf))})
        lv.append({'moves': mvs, 'labels': labels, 'q': dec_q(q), 'qd': dec_q(qd)})
    return {'levels': lv, 'ci': m[1], 'q': dec_q(m[2]), 'qd': dec_q(m[3]), 'qstart': dec_q(m[4])}


def close(exact, x, tol=TOL, extra=0.0):
    """|exact - x| <= tol*max(1, |exact|) + extra   (extra: absolute allowance for a float value obtained as a DIFFERENCE of
    terms much larger than itself, e.g. 1e-13 * total weight for a gain)"""
    try:
        x = float(x)
    except Exception:
        return False
    if not np.isfinite(x):
        return False
    e = float(exact)
    return abs(e - x) <= tol * max(1.0, abs(e)) + float(extra)


def arr_close(exact_rows, A, tol=TOL):
    """exact nested list (model, size N) against a float array (impl, possibly smaller: compared on the common grid,
    the rest of the model's grid must be zero)"""
    E = np.array([[float(x) for x in row] for row in exact_rows]) if exact_rows and isinstance(exact_rows[0], list) \
        else np.array([float(x) for x in exact_rows])
    A = np.asarray(A, dtype=float)
    if E.ndim != A.ndim:
        return False
    if E.shape != A.shape:
        return False
    return bool(np.all(np.abs(E - A) <= tol * np.maximum(1.0, np.abs(E))))


CHAN_FIELDS = {
    'und': (('knm', 'km'), None),
    'dir': (('knm_o', 'km_o'), ('knm_i', 'km_i')),
    'sign': (('knm0', 'km0'), ('knm1', 'km1')),
    'B': (('knm', 'km'), None),
}


def full_labels(prev_full, m):
    """labels of the original nodes after a level: supernode i (= previous label i+1) gets label m[i]"""
    return [m[p - 1] if 1 <= p <= len(m) else 0 for p in prev_full]


def enc_qb(x):
    """exact rational of a float / Fraction, big integers in binary (the driver's decimal reader is limited to 62 bits)"""
    f = F(x)
    zb = lambda k: ('-0b' + bin(-k)[2:]) if k < 0 else ('0b' + bin(k)[2:] if k else '0')
    return zb(f.numerator) if f.denominator == 1 else zb(f.numerator) + '/' + zb(f.denominator)
