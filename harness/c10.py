"""C10 — weighted measures reduce to binary on 0/1 input, directed to undirected on symmetric input."""
import itertools
from fractions import Fraction as F
import numpy as np
from common import *
import c09 as G9          # generators / exact oracles shared with C09 (same directory)

ID = 'C10'
COQ_FILES = ['Base/Mat.v', 'Base/SumQ.v', 'Model/Clustering.v', 'Proofs/ClusteringSpec.v', 'Proofs/Clustering.v',
             'Proofs/ClusteringReduce.v', 'Model/Distance.v', 'Model/EfficiencyLocal.v', 'Model/Assortativity.v',
             'Model/IgnoreWeights.v', 'Model/Walks.v',
             'Proofs/ReduceDistance.v', 'Proofs/ReduceEfficiencyLocal.v', 'Proofs/ReduceAssortativity.v',
             'Proofs/ReduceTotal.v', 'Proofs/ReduceIgnore.v', 'Model/ClusteringInf.v', 'Proofs/ReduceSelfloop.v',
             'Proofs/ReduceElocDiv.v', 'Proofs/ReduceBinFirst.v', 'Model/Between.v', 'Proofs/BetweenPow.v', 'Properties/C10.v']
THEOREMS = ['C10_cc_wu_bin_eq_bu', 'C10_cc_wd_bin_eq_bd', 'C10_trans_wu_bin_eq_bu', 'C10_trans_wd_bin_eq_bd',
            'C10_cc_bd_sym_eq_bu', 'C10_cc_wd_sym_eq_wu', 'C10_trans_bd_sym_eq_bu', 'C10_trans_wd_sym_eq_wu',
            'C10_cbrt_exact_ok_binary', 'C10_strengths_bin_eq_degrees', 'C10_in_out_deg_sym', 'C10_degrees_ignore_weights',
            'C10_distance_wei_bin_eq_bin', 'C10_efficiency_wei_bin_eq_bin', 'C10_efficiency_local_wei_bin_eq_bin',
            'C10_efficiency_local_cbrt_exact', 'C10_assortativity_wei_bin_eq_bin', 'C10_assortativity_bin_ignores_weights',
            'C10_density_ignores_weights', 'C10_jdegree_ignores_weights', 'C10_edge_nei_overlap_ignores_weights',
            'C10_findwalks_reachdist_ignore_weights', 'C10_distance_efficiency_bin_ignore_weights',
            'C10_betweenness_wei_bin_eq_bin', 'C10_edge_betweenness_wei_bin_eq_bin', 'C10_cc_visible_quotient',
            'C10_cc_any_diagonal', 'C10_eloc_no_division_by_zero', 'C10_binarize_first_suffices']
RULE = ('pairs of public functions evaluated on the same matrix: all undirected 0/1 graphs n<=4 (quick) / n<=5 (thorough), all '
        'digraphs n<=3 / n<=4, random 0/1 graphs and symmetric weighted graphs n<=8 (weights m^3/512), disconnected graphs, '
        'isolated nodes; weighted (directed and undirected, weights k/8 and >1) vs binarised input for the routines whose '
        'docstring says weights are ignored/discarded; symmetric weights of both signs (random + every sign pattern on K3 and K4-e) for the '
        'directed = undirected clause; every documented spelling of `local` (False, True, \'global\', \'local\', \'original\') of efficiency_wei / '
        'efficiency_bin on 0/1 input, shape and value against a brute-force BFS oracle; SELF-CONNECTIONS: every nonempty 0/1 diagonal on all '
        'undirected graphs n<=3 / n<=4 and digraphs n<=2 / n<=3 (+ slices of the next size), the random 0/1 graphs again with random self-connections, '
        'symmetric weighted graphs with weighted self-connections, weighted matrices with weighted self-connections for the ignore clause -- every '
        'pair, and every modelled member against its model (per-node clustering through the statement-level model with the visible quotient); the inexpensive '
        'pairs (clustering, transitivity, degrees/strengths, distance, global efficiency, assortativity flags 0-4) on random graphs n = 9..16 with and '
        'without self-connections; assortativity_wei/_bin flags 1-4 as direct pairs on every 0/1 matrix; the AST fact `first use of the matrix is '
        'binarize(matrix)` for the eight binarising routines; STRESS FAMILIES (pairs only; the two members carry very different numbers for the same answer): dense block + long '
        'tail (K8..K20 + chain of 33..70, one-way or both ways, n = 52..80; walk counts beyond binary32 in the matrix-power routines) for distance_wei / distance_bin, the hop counts and '
        'the global efficiencies; braids (41..47 layers of 3 / 63..69 layers of 2 nodes between two end nodes, n = 125..140, >= 2^63 shortest routes) for betweenness_wei / _bin and '
        'edge_betweenness_wei / _bin - one of each per quick run, eight + six in the thorough tier = the escalated pass on a changed tree (run FIRST there); '
        'non-trivial = the matrix has at least one edge (self-connection cases: at least one self-connection); distinct by hash of (pair, matrix)')
ASSUMES = ['PROVED between the Coq models: clustering_coef wu/bu wd/bd bd/bu wd/wu, transitivity likewise, strengths/degrees, '
           'in/out-degree on symmetric input; distance_wei/distance_bin (D and hop counts), efficiency_wei/efficiency_bin global and '
           'local, assortativity_wei/assortativity_bin (flags 0-4) on 0/1 input; f(W)==f(binarize(W)) for degrees_*, assortativity_bin '
           '(any weights), density_und/dir, jdegree, edge_nei_overlap_bu/bd, findwalks, reachdist, distance_bin, efficiency_bin',
           'betweenness_wei/bin and edge_betweenness_wei/bin on 0/1 input: PROVED between C08\'s models (re-export of C08_wei_eq_bin_on_binary; the '
           'models are tied to the code by C08\'s correspondence, here the two public functions are compared); findpaths raises (known finding)',
           'self-connections: no theorem has a hypothesis on the diagonal and every pair is required to agree on matrices with self-connections '
           '(clustering_coef_wu/bu and bd/bu since the repair 366dab6 of the defect this check found: inf vs 0 at nodes with fewer than two neighbours '
           'on a closed 3-walk); the per-node clustering coefficients must be finite on every input (C10_cc_visible_quotient)',
           'local efficiencies must be finite (C10_eloc_no_division_by_zero); elsewhere inf == inf and nan == nan count as agreement',
           'f(W) == f(binarize(W)) for findwalks / reachdist / distance_bin / efficiency_bin / jdegree / degrees_*: the Coq statement is about g(binarize(.)); '
           'that the SOURCE has this shape is the fail-closed AST check <routine>:binarizes_first (any other first use of the matrix, a changed default of '
           'ensure_binary, a nested helper reading the raw matrix -> VIOLATION, even if the rewrite were equivalent)',
           'the integer-input models (distance_bin, efficiency_bin, findwalks, reachdist) are fed 8*W for weights k/8',
           'tolerance 1e-9 relative; inf == inf, nan == nan']
TRUSTED = ['cbrt is universally quantified in the theorems (hypothesis cbrt_ok: a cube root of the entries); cbrt_exact meets it on '
           'every 0/1 matrix (C10_cbrt_exact_ok_binary) and on the generated cube weights']

TOL = 1e-9


def same(a, b):
    """deep comparison: tuples/lists elementwise; arrays with inf == inf, nan == nan, finite within TOL"""
    if isinstance(a, (tuple, list)) and isinstance(b, (tuple, list)):
        return len(a) == len(b) and all(same(x, y) for x, y in zip(a, b))
    try:
        a = np.asarray(a, dtype=float); b = np.asarray(b, dtype=float)
    except Exception:
        return False
    if a.shape != b.shape:
        return False
    na, nb = np.isnan(a), np.isnan(b)
    if not np.array_equal(na, nb):
        return False
    ia, ib = np.isinf(a), np.isinf(b)
    if not np.array_equal(ia, ib) or not np.array_equal(a[ia], b[ib]):
        return False
    fa, fb = a[~na & ~ia], b[~nb & ~ib]
    return bool(np.all(np.abs(fa - fb) <= TOL * np.maximum(1.0, np.abs(fa))))


def brief(x):
    if isinstance(x, (tuple, list)):
        return [brief(y) for y in x]
    return np.asarray(x).tolist()


def zrows(A):
    return [[int(x) for x in row] for row in A]


def dec_len_mat(m):
    """matrix of option Q -> float array with inf"""
    return np.array([[np.inf if x is None else float(dec_q(x)) for x in row] for row in m], dtype=float).reshape(len(m), len(m))


def dec_ext(e):
    return np.nan if e[0] == 0 else (np.inf if e[0] == 1 else float(dec_q(e[1])))


def decode_model(kind, m):
    """model output -> the shape of the implementation's return value (floats, inf, nan); None = non-finite scalar"""
    if kind == 'vecq':                      # option (list Q)
        return None if m is None else np.array([float(dec_q(x)) for x in m], dtype=float)
    if kind == 'vec':                       # list Q
        return np.array([float(dec_q(x)) for x in m], dtype=float)
    if kind == 'cco':                       # list (option Q), None = +inf (nonzero cyc3 over a vanishing denominator)
        return np.array([np.inf if x is None else float(dec_q(x)) for x in m], dtype=float)
    if kind == 'optq':                      # option Q (None = nan/inf)
        return None if m is None else float(dec_q(m))
    if kind == 'ext':                       # option ext
        return None if m is None else dec_ext(m)
    if kind == 'dbin':                      # option (matrix of option nat)
        return None if m is None else np.array([[np.inf if x is None else float(x) for x in row] for row in m], dtype=float).reshape(len(m), len(m))
    if kind == 'dwei':                      # option (matrix of option Q, matrix of nat)
        return None if m is None else (dec_len_mat(m[0]), np.array(m[1], dtype=float).reshape(len(m[1]), len(m[1])))
    raise ValueError(kind)


def cmp_ignore_model(kind, m, impl):
    """extracted model of a weight-ignoring routine vs the implementation's return value (exact: counts / small quotients)"""
    if kind == 'density':                   # (option Q, k)  vs  (kden, n, k)
        return m[0] is not None and int(m[1]) == int(impl[2]) and abs(float(dec_q(m[0])) - float(impl[0])) <= 1e-12
    if kind == 'jdegree':                   # (J rows, (J_od, (J_id, J_bl)))  vs  (J, J_od, J_id, J_bl)
        J = np.array([[dec_z(x) for x in row] for row in m[0]], dtype=float)
        Ji = np.asarray(impl[0], dtype=float)
        return (J.shape == Ji.shape and np.array_equal(J, Ji) and dec_z(m[1][0]) == impl[1]
                and dec_z(m[1][1][0]) == impl[2] and dec_z(m[1][1][1]) == impl[3])
    if kind == 'enov':                      # option [((i,j), ec), (degi, degj)]  vs  (EC, ec, degij) or ZeroDivisionError
        if isinstance(impl, ZeroDivisionError):
            return m is None
        if m is None:
            return False
        EC, ec, degij = impl
        n = len(EC); EC2 = np.full((n, n), np.inf)
        if len(m) != len(ec):
            return False
        for e, ((ij, q), (d1, d2)) in enumerate(m):
            if abs(float(dec_q(q)) - ec[e]) > 1e-12 or float(dec_q(d1)) != degij[0, e] or float(dec_q(d2)) != degij[1, e]:
                return False
            EC2[ij[0], ij[1]] = float(dec_q(q))
        return bool(np.all((EC2 == EC) | (np.abs(EC2 - EC) <= 1e-12)))
    if kind == 'reachdist':                 # option (R rows of bool, D rows of option Z)  vs  (R, D)
        if m is None:
            return False
        R = np.array(m[0], dtype=bool).reshape(len(m[0]), len(m[0]))
        D = np.array([[np.inf if x is None else float(dec_z(x)) for x in row] for row in m[1]], dtype=float).reshape(R.shape)
        return np.array_equal(R, np.asarray(impl[0], dtype=bool)) and np.array_equal(D, np.asarray(impl[1], dtype=float))
    if kind == 'findwalks':                 # option ((Wq slices, twalk), wlq)  vs  (Wq[n,n,n], twalk, wlq) or IndexError (n < 2)
        if isinstance(impl, IndexError):
            return m is None
        if m is None:
            return False
        (Wq, tw), wl = m
        Wi = np.asarray(impl[0], dtype=float)
        for q, sl in enumerate(Wq):
            if not np.array_equal(np.array([[dec_z(x) for x in row] for row in sl], dtype=float).reshape(Wi.shape[0], Wi.shape[1]), Wi[:, :, q]):
                return False
        return dec_z(tw) == impl[1] and [dec_z(x) for x in wl] == [int(x) for x in np.asarray(impl[2]).ravel()]
    raise ValueError(kind)


def bfs_dist(adj, nodes):
    """hop distances inside the subgraph induced by `nodes` (list); dict (a, b) -> int, missing = unreachable"""
    d = {}
    for s_ in nodes:
        seen = {s_: 0}; q = [s_]
        while q:
            x = q.pop(0)
            for y in nodes:
                if adj[x][y] and y not in seen:
                    seen[y] = seen[x] + 1; q.append(y)
        for t_, v in seen.items():
            d[(s_, t_)] = v
    return d


def o_eff_global(A):
    """mean over ordered pairs i != j of 1/d(i,j); None (nan) for n < 2"""
    n = len(A)
    if n * n - n == 0:
        return None
    adj = [[A[i][j] != 0 for j in range(n)] for i in range(n)]
    d = bfs_dist(adj, list(range(n)))
    return sum(1.0 / d[(i, j)] for i in range(n) for j in range(n) if i != j and (i, j) in d) / (n * n - n)


def o_eff_local(A, power):
    """E_u = sum_{i != j in N(u)} a_i a_j (d_N(i,j)^-p + d_N(j,i)^-p) / 2 / ((sum a)^2 - sum a^2), a_i = A[u,i] + A[i,u],
    d_N = distances inside the subgraph induced by the neighbours N(u); p = 1 (binary / Wang et al.) or 1/3 ('original')"""
    n = len(A)
    adj = [[A[i][j] != 0 for j in range(n)] for i in range(n)]
    E = []
    for u in range(n):
        N = [v for v in range(n) if adj[u][v] or adj[v][u]]
        a = {v: int(adj[u][v]) + int(adj[v][u]) for v in N}
        d = bfs_dist(adj, N)
        f = lambda i, j: (float(d[(i, j)]) ** (-power)) if (i, j) in d else 0.0
        numer = sum(a[i] * a[j] * (f(i, j) + f(j, i)) for i in N for j in N if i != j) / 2.0
        denom = sum(a.values()) ** 2 - sum(x * x for x in a.values())
        E.append(numer / denom if numer != 0 else 0.0)
    return E


def all_finite(x):
    if isinstance(x, (tuple, list)):
        return all(all_finite(y) for y in x)
    try:
        return bool(np.all(np.isfinite(np.asarray(x, dtype=float))))
    except Exception:
        return False


def with_diag(r, A, p=0.5):
    """copy of A with self-connections of weight 1: each diagonal entry with probability p, at least one"""
    n = len(A)
    B = [[F(x) for x in row] for row in A]
    hit = False
    for i in range(n):
        if r.rand() < p:
            B[i][i] = F(1); hit = True
    if not hit and n:
        i = int(r.randint(0, n)); B[i][i] = F(1)
    return B


def all_diag(gen, n):
    """every matrix of `gen(n)` with every NONEMPTY 0/1 diagonal"""
    for A in gen(n):
        for bits in itertools.product((0, 1), repeat=n):
            if any(bits):
                B = [[F(x) for x in row] for row in A]
                for i, b_ in enumerate(bits):
                    B[i][i] = F(b_)
                yield B


def o_degree_und(W):
    """number of nonzero entries per column (a self-connection counts once)"""
    n = len(W)
    return [sum(1 for i in range(n) if W[i][j] != 0) for j in range(n)]


# routines whose docstring says the weights are ignored / discarded and whose models binarise in their first line
# (+ distance_bin / efficiency_bin, extras of C10_distance_efficiency_bin_ignore_weights): parameter that carries the matrix
BINARIZES_FIRST = [('findwalks', 'CIJ'), ('reachdist', 'CIJ'), ('distance_bin', 'G'), ('efficiency_bin', 'G'), ('jdegree', 'CIJ'),
                   ('degrees_und', 'CIJ'), ('degrees_dir', 'CIJ'), ('findpaths', 'CIJ')]


def binarizes_first(fn_obj, param):
    """fail-closed AST fact about the SOURCE: in the body of the function, the first statement that reads `param` -- float casts
    `param = np.asarray(param, dtype=float)` aside, which keep every value -- rebinds
    `param` to binarize(param[, copy=...]) (optionally .astype(float)), possibly under `if <flag>:` where <flag> is a
    parameter whose default is True; nested function definitions that do not see `param` as a free variable are skipped;
    `binarize` resolves to bct.utils.binarize.  After that statement no statement can read the raw weights, i.e. the
    routine is g(binarize(param)) and C10_binarize_first_suffices applies.  -> (ok, reason)"""
    import ast, inspect, textwrap
    import bct
    fn_obj = inspect.unwrap(fn_obj)                         # (the input-representation layer wraps the public functions)
    try:
        tree = ast.parse(textwrap.dedent(inspect.getsource(fn_obj)))
    except Exception as e:
        return False, 'no source: %r' % (e,)
    fd = tree.body[0]
    if not isinstance(fd, ast.FunctionDef):
        return False, 'not a function definition'
    args = [a.arg for a in fd.args.args]
    if param not in args:
        return False, 'no parameter %s' % param
    defaults = dict(zip(args[len(args) - len(fd.args.defaults):], fd.args.defaults))
    if fn_obj.__globals__.get('binarize') is not bct.utils.binarize:
        return False, '`binarize` in the module of the routine is not bct.utils.binarize'

    def reads(node, name):
        return any(isinstance(x, ast.Name) and x.id == name and isinstance(x.ctx, ast.Load) for x in ast.walk(node))

    def is_rebinding(st):
        if not (isinstance(st, ast.Assign) and len(st.targets) == 1 and isinstance(st.targets[0], ast.Name) and st.targets[0].id == param):
            return False
        v = st.value
        if (isinstance(v, ast.Call) and isinstance(v.func, ast.Attribute) and v.func.attr == 'astype' and len(v.args) == 1
                and isinstance(v.args[0], ast.Name) and v.args[0].id == 'float' and not v.keywords):
            v = v.func.value
        if not (isinstance(v, ast.Call) and isinstance(v.func, ast.Name) and v.func.id == 'binarize'):
            return False
        if not (len(v.args) == 1 and isinstance(v.args[0], ast.Name) and v.args[0].id == param):
            return False
        return all(k.arg == 'copy' and isinstance(k.value, ast.Constant) and isinstance(k.value.value, bool) for k in v.keywords)

    def is_float_cast(st):
        """param = np.asarray(param, dtype=float) / np.array(param, dtype=float) / param.astype(float): the same values in float64
        (zero stays zero, nonzero stays nonzero); the raw weights are still visible afterwards, so the scan goes on"""
        if not (isinstance(st, ast.Assign) and len(st.targets) == 1 and isinstance(st.targets[0], ast.Name) and st.targets[0].id == param):
            return False
        v = st.value
        if not isinstance(v, ast.Call):
            return False
        isf = lambda x: isinstance(x, ast.Name) and x.id == 'float'
        isp = lambda x: isinstance(x, ast.Name) and x.id == param
        if isinstance(v.func, ast.Attribute) and v.func.attr == 'astype' and isp(v.func.value):
            return len(v.args) == 1 and isf(v.args[0]) and not v.keywords
        if (isinstance(v.func, ast.Attribute) and v.func.attr in ('asarray', 'array') and isinstance(v.func.value, ast.Name) and v.func.value.id == 'np'):
            return (len(v.args) == 1 and isp(v.args[0]) and len(v.keywords) == 1 and v.keywords[0].arg == 'dtype' and isf(v.keywords[0].value)
                    and fn_obj.__globals__.get('np') is np)
        return False

    for st in fd.body:
        if isinstance(st, ast.Expr) and isinstance(st.value, ast.Constant):
            continue                                        # docstring
        if is_float_cast(st):
            continue
        if isinstance(st, ast.FunctionDef):
            inner = [a.arg for a in st.args.args]
            if param in inner or not any(isinstance(x, ast.Name) and x.id == param for x in ast.walk(st)):
                continue                                    # the nested helper has its own `param` or never mentions it
            return False, 'nested function %s reads %s of the enclosing routine' % (st.name, param)
        if not any(isinstance(x, ast.Name) and x.id == param for x in ast.walk(st)):
            continue                                        # does not touch the matrix
        if is_rebinding(st):
            return True, 'first use: ' + ast.unparse(st)
        if (isinstance(st, ast.If) and isinstance(st.test, ast.Name) and st.test.id in defaults and not st.orelse
                and isinstance(defaults[st.test.id], ast.Constant) and defaults[st.test.id].value is True
                and len(st.body) == 1 and is_rebinding(st.body[0])):
            return True, 'first use (flag %s, default True): %s' % (st.test.id, ast.unparse(st.body[0]))
        return False, 'the first statement that touches %s is `%s`' % (param, ast.unparse(st).split('\n')[0][:120])
    return False, 'the body never touches %s' % param


class Pairs:
    def __init__(self, ctx, bct):
        self.ctx, self.bct = ctx, bct
        self.lines, self.pend = [], []
        self.nbin = 0

    def pair(self, key, W, f, g, family, finite=False):
        """direct oracle of C10: the two public functions must return the same on W; finite=True: and no entry of either
        result may be inf/nan (C10_eloc_no_division_by_zero: the local efficiencies never divide by zero)"""
        ctx = self.ctx
        case = {'pair': key, 'W': G9.strs(W)}
        ctx.case(case, nontrivial=any(x != 0 for row in W for x in row))
        ctx.count('pair:' + key); ctx.count('family:' + family); ctx.count('n=%d' % len(W))
        A = G9.npm(W)
        ctx.take_variants()                    # input-representation layer: either member of the pair may run on another representation
        try:
            a = call(f, A.copy())
        except Exception as e:
            a = e
        try:
            b = call(g, A.copy())
        except Exception as e:
            b = e
        tie_variants(case, since_take=True)
        self._pv = case.get('_input_variant')           # model() queues the left value of this pair for the model comparison
        if isinstance(a, Exception) or isinstance(b, Exception):
            ctx.fail(key + ':raises', 'left: %r right: %r' % (a if isinstance(a, Exception) else 'ok', b if isinstance(b, Exception) else 'ok'), case)
            return None
        ctx.check(same(a, b), key, 'the two routines differ: %r vs %r' % (brief(a), brief(b)), case)
        if finite:
            ctx.check(all_finite(a) and all_finite(b), key + ':finite', 'non-finite entry: %r vs %r' % (brief(a), brief(b)), case)
        return a

    def pair_big(self, key, case0, A, f, g, family, t=120.0):
        """pair() for a network of 50..140 nodes given as a float array: the case names its construction instead of listing the matrix"""
        ctx = self.ctx
        case = dict(case0, pair=key)
        ctx.case(case, nontrivial=True)
        ctx.count('pair:' + key); ctx.count('family:' + family); ctx.count('stress:n=%d' % len(A))
        ctx.take_variants()
        out = []
        for h in (f, g):
            try:
                with np.errstate(all='ignore'):
                    out.append(call(h, A.copy(), _t=t))
            except Exception as e:
                out.append(e)
        a, b = out
        tie_variants(case, since_take=True)
        if isinstance(a, Exception) or isinstance(b, Exception):
            ctx.fail(key + ':raises', 'left: %r right: %r' % (a if isinstance(a, Exception) else 'ok', b if isinstance(b, Exception) else 'ok'), case)
            return None
        if not same(a, b):
            xa, xb = [np.asarray(x[0] if isinstance(x, tuple) else x, dtype=float) for x in (a, b)]
            bad = np.argwhere(~((xa == xb) | (np.isnan(xa) & np.isnan(xb)) | (np.abs(xa - xb) <= TOL * np.maximum(1.0, np.abs(xa)))))
            where = tuple(int(x) for x in bad[0]) if len(bad) else ()
            ctx.fail(key, 'the two routines differ in %d entries, first at %s: %r vs %r' % (len(bad), where, xa[where].tolist() if len(bad) else None, xb[where].tolist() if len(bad) else None), case)
        return a

    def ignores(self, fn, W, f, family, tolerate=()):
        """documented to ignore weights: f(W) == f(binarize(W))"""
        ctx = self.ctx
        key = fn + ':ignores_weights'
        case = {'pair': key, 'W': G9.strs(W)}
        ctx.case(case, nontrivial=any(x not in (0, 1) for row in W for x in row))
        ctx.count('ignores:' + fn); ctx.count('family:' + family)
        A = G9.npm(W); Bn = (A != 0).astype(float)
        ctx.take_variants()
        try:
            a = call(f, A.copy())
        except Exception as e:
            a = e
        try:
            b = call(f, Bn.copy())
        except Exception as e:
            b = e
        tie_variants(case, since_take=True)
        if isinstance(a, Exception) or isinstance(b, Exception):
            if isinstance(a, tolerate) and isinstance(b, tolerate) and type(a) is type(b):
                ctx.count('both_raise:%s:%s' % (fn, type(a).__name__))     # same (documented-domain) failure on both sides
                return
            ctx.fail(fn + ':raises', 'weighted: %r binarised: %r' % (a if isinstance(a, Exception) else 'ok', b if isinstance(b, Exception) else 'ok'), case)
            return
        ctx.check(same(a, b), key, 'result depends on the weights: %r vs %r' % (brief(a), brief(b)), case)

    def model(self, fn, line, case, impl):
        if getattr(self, '_pv', None):
            case = dict(case, _input_variant=self._pv)
        self.lines.append(line); self.pend.append((fn, case, impl))

    def corr(self, fn, kind, line, W, f):
        """correspondence for the routines modelled in Model/Distance.v, EfficiencyLocal.v, Assortativity.v:
        run the implementation now, queue the extracted model on the same input"""
        A = G9.npm(W)
        self.ctx.take_variants()
        try:
            with np.errstate(all='ignore'):
                impl = call(f, A.copy())
        except Exception as e:
            return                           # raising inputs are reported by pair()/ignores()
        self.ctx.count('model:' + fn)
        self.lines.append(line); self.pend.append(('corr:' + kind + ':' + fn, tie_variants({'fn': fn, 'W': G9.strs(W)}, since_take=True), impl))

    def corr_binary(self, A, directed):
        """0/1 input: both members of every proved pair are run against their models"""
        bct = self.bct
        Z = enc_mat(zrows(A)); Q = enc_mat(A, enc_q)
        self.corr('distance_bin', 'dbin', 'dbin ' + Z, A, bct.distance_bin)
        self.corr('distance_wei', 'dwei', 'dwei ' + Q, A, lambda M: tuple(bct.distance_wei(M)))
        self.corr('efficiency_bin', 'ext', 'effbin ' + Z, A, bct.efficiency_bin)
        self.corr('efficiency_wei', 'ext', 'effwei ' + Q, A, bct.efficiency_wei)
        self.corr('efficiency_bin_local', 'vecq', 'eloc_bin ' + Z, A, lambda M: bct.efficiency_bin(M, True))
        self.corr('efficiency_wei_local', 'vecq', 'eloc_wei ' + Q, A, lambda M: bct.efficiency_wei(M, True))
        for fl in ((1, 2, 3, 4) if directed else (0,)):
            self.corr('assortativity_bin', 'optq', 'assort %s 0 %d' % (Q, fl), A, lambda M, fl=fl: bct.assortativity_bin(M, fl))
            self.corr('assortativity_wei', 'optq', 'assort %s 1 %d' % (Q, fl), A, lambda M, fl=fl: bct.assortativity_wei(M, fl))

    def corr_ignore(self, W, directed):
        """the routines documented to ignore weights, run on the WEIGHTED matrix against their models (which, by the
        C10_*_ignore(s)_weights theorems, return the same on the binarised matrix)"""
        bct = self.bct
        Q = enc_mat(W, enc_q)
        Z8 = enc_mat([[int(8 * x) for x in row] for row in W])        # the same matrix with integer weights 8*w
        A = G9.npm(W)

        def add(fn, kind, line, f, tolerate=()):
            self.ctx.take_variants()
            try:
                impl = call(f, A.copy())
            except tolerate as e:
                impl = e
            except Exception:
                return
            self.ctx.count('model:' + fn)
            self.lines.append(line); self.pend.append(('ign:' + kind + ':' + fn, tie_variants({'fn': fn, 'W': G9.strs(W)}, since_take=True), impl))
        add('jdegree', 'jdegree', 'jdegree ' + Q, lambda M: tuple(bct.jdegree(M)))
        add('reachdist', 'reachdist', 'reachdist ' + Z8, lambda M: tuple(bct.reachdist(M)))
        add('findwalks', 'findwalks', 'findwalks ' + Z8, lambda M: tuple(bct.findwalks(M)), (IndexError,))
        if directed:
            add('density_dir', 'density', 'density %s 0' % Q, lambda M: tuple(bct.density_dir(M)))
            add('edge_nei_overlap_bd', 'enov', 'enov %s 0' % Q, lambda M: tuple(bct.edge_nei_overlap_bd(M)), (ZeroDivisionError,))
        else:
            add('density_und', 'density', 'density %s 1' % Q, lambda M: tuple(bct.density_und(M)))
            add('edge_nei_overlap_bu', 'enov', 'enov %s 1' % Q, lambda M: tuple(bct.edge_nei_overlap_bu(M)), (ZeroDivisionError,))

    def ignore_negative(self, W, directed, family):
        """assortativity_bin on a matrix with NEGATIVE weights: all weights are ignored (C10_assortativity_bin_ignores_weights;
        the code selected edges by `CIJ > 0` before the repair found by this stream)"""
        bct = self.bct
        ctx = self.ctx
        A = G9.npm(W); Bn = (A != 0).astype(float)
        for fl in ((1, 2, 3, 4) if directed else (0,)):
            case = {'pair': 'assortativity_bin:ignores_weights_negative', 'flag': fl, 'W': G9.strs(W)}
            ctx.case(case, nontrivial=any(x < 0 for row in W for x in row)); ctx.count('ignores_negative:assortativity_bin'); ctx.count('family:' + family)
            ctx.take_variants()
            try:
                with np.errstate(all='ignore'):
                    a = call(bct.assortativity_bin, A.copy(), fl); b = call(bct.assortativity_bin, Bn.copy(), fl)
                tie_variants(case, since_take=True)
            except Exception as e:
                ctx.fail('assortativity_bin:raises', repr(e), case); continue
            ctx.check(same(a, b), 'assortativity_bin:ignores_weights_negative',
                      'result depends on the (negative) weights: %r on W, %r on binarize(W)' % (float(a), float(b)), case)
            Q = enc_mat(W, enc_q)
            self.corr('assortativity_bin', 'optq', 'assort %s 0 %d' % (Q, fl), W, lambda M, fl=fl: bct.assortativity_bin(M, fl))
            self.corr('assortativity_wei', 'optq', 'assort %s 1 %d' % (Q, fl), W, lambda M, fl=fl: bct.assortativity_wei(M, fl))

    def corr_weighted(self, W, directed, cubes):
        """weighted input (cube weights m^3/512 when the cube root is involved): the weighted models and the
        weight-ignoring assortativity_bin"""
        bct = self.bct
        Q = enc_mat(W, enc_q)
        if cubes:
            self.corr('efficiency_wei_local', 'vecq', 'eloc_wei ' + Q, W, lambda M: bct.efficiency_wei(M, True))
        for fl in ((1, 2, 3, 4) if directed else (0,)):
            self.corr('assortativity_bin', 'optq', 'assort %s 0 %d' % (Q, fl), W, lambda M, fl=fl: bct.assortativity_bin(M, fl))
            self.corr('assortativity_wei', 'optq', 'assort %s 1 %d' % (Q, fl), W, lambda M, fl=fl: bct.assortativity_wei(M, fl))

    # ---------------------------------------------------------------- 0/1 input: weighted routine = binary routine
    def binary_any(self, A, family):
        bct = self.bct
        self.pair('clustering_coef_wd/clustering_coef_bd', A, bct.clustering_coef_wd, bct.clustering_coef_bd, family, finite=True)
        self.pair('transitivity_wd/transitivity_bd', A, bct.transitivity_wd, bct.transitivity_bd, family)
        self.pair('distance_wei/distance_bin', A, lambda M: bct.distance_wei(M)[0], bct.distance_bin, family)
        # the hop-count matrix of distance_wei equals the distance wherever a path exists
        self.pair('distance_wei_hops/distance_bin', A,
                  lambda M: (lambda DB: np.where(np.isinf(DB[0]), np.inf, DB[1]))(bct.distance_wei(M)), bct.distance_bin, family)
        self.pair('betweenness_wei/betweenness_bin', A, bct.betweenness_wei, bct.betweenness_bin, family)
        self.pair('edge_betweenness_wei/edge_betweenness_bin', A, lambda M: tuple(bct.edge_betweenness_wei(M)),
                  lambda M: tuple(bct.edge_betweenness_bin(M)), family)
        self.pair('efficiency_wei/efficiency_bin:global', A, bct.efficiency_wei, bct.efficiency_bin, family)
        self.pair('efficiency_wei/efficiency_bin:local', A, lambda M: bct.efficiency_wei(M, True), lambda M: bct.efficiency_bin(M, True), family, finite=True)
        self.pair("efficiency_wei['global']/efficiency_bin:global", A, lambda M: bct.efficiency_wei(M, 'global'), lambda M: bct.efficiency_bin(M, False), family)
        self.pair("efficiency_wei['local']/efficiency_bin:local", A, lambda M: bct.efficiency_wei(M, 'local'), lambda M: bct.efficiency_bin(M, True), family, finite=True)
        self.efficiency_spellings(A, family)
        self.assort_flags(A, family)
        s = self.pair('strengths_dir/degrees_dir', A, bct.strengths_dir, lambda M: bct.degrees_dir(M)[2], family)
        if s is not None:
            self.model('strengths_dir', 'deg ' + enc_mat(A, enc_q) + ' 5', {'fn': 'strengths_dir', 'W': G9.strs(A)}, s)
        self.nbin += 1
        if self.nbin % 3 != 0:
            und = all(A[i][j] == A[j][i] for i in range(len(A)) for j in range(len(A)))
            self.corr_binary(A, not und)
            if und and self.nbin % 4 == 0:
                self.corr_binary(A, True)          # the directed flags on a symmetric matrix as well

    def assort_flags(self, A, family):
        """assortativity_wei / assortativity_bin, the directed flags 1-4, as DIRECT pairs on the implementation
        (C10_assortativity_wei_bin_eq_bin covers every flag; the text names flag 0, compared in binary_und)"""
        bct = self.bct
        for fl in (1, 2, 3, 4):
            self.pair('assortativity_wei/assortativity_bin[flag=%d]' % fl, A,
                      lambda M, fl=fl: bct.assortativity_wei(M, fl), lambda M, fl=fl: bct.assortativity_bin(M, fl), family)

    def corr_diag(self, A, sym):
        """0/1 input WITH self-connections: the clustering / transitivity / degree models (Model/Clustering.v; the per-node
        routines through Model/ClusteringInf.v, None = inf) against the implementation -- C09's correspondence stays on the
        empty diagonal -- and the distance / efficiency / assortativity models"""
        bct = self.bct
        Q = enc_mat(A, enc_q)
        self.corr('clustering_coef_bd', 'cco', 'cc_o %s 0' % Q, A, bct.clustering_coef_bd)
        self.corr('clustering_coef_wd', 'cco', 'cc_o %s 1' % Q, A, bct.clustering_coef_wd)
        self.corr('transitivity_bd', 'optq', 'trans %s 1' % Q, A, bct.transitivity_bd)
        self.corr('transitivity_wd', 'optq', 'trans %s 3' % Q, A, bct.transitivity_wd)
        self.corr('degrees_dir', 'vec', 'deg %s 3' % Q, A, lambda M: bct.degrees_dir(M)[2])
        self.corr('strengths_dir', 'vec', 'deg %s 5' % Q, A, bct.strengths_dir)
        if sym:
            self.corr('clustering_coef_wu', 'cco', 'cc_o %s 2' % Q, A, bct.clustering_coef_wu)
            self.corr('clustering_coef_bu', 'vec', 'cc_bu ' + Q, A, bct.clustering_coef_bu)
            self.corr('transitivity_bu', 'optq', 'trans %s 0' % Q, A, bct.transitivity_bu)
            self.corr('transitivity_wu', 'optq', 'trans %s 2' % Q, A, bct.transitivity_wu)
            self.corr('degrees_und', 'vec', 'deg %s 0' % Q, A, bct.degrees_und)
            self.corr('strengths_und', 'vec', 'deg %s 4' % Q, A, bct.strengths_und)
        self.corr_binary(A, not sym)
        if sym:
            self.corr_binary(A, True)

    def cheap(self, A, sym, diag, family):
        """the inexpensive pairs on larger matrices (n up to 16), no model line; degrees against a brute-force count"""
        bct, ctx = self.bct, self.ctx
        self.pair('clustering_coef_wd/clustering_coef_bd', A, bct.clustering_coef_wd, bct.clustering_coef_bd, family, finite=True)
        self.pair('transitivity_wd/transitivity_bd', A, bct.transitivity_wd, bct.transitivity_bd, family)
        self.pair('strengths_dir/degrees_dir', A, bct.strengths_dir, lambda M: bct.degrees_dir(M)[2], family)
        self.pair('distance_wei/distance_bin', A, lambda M: bct.distance_wei(M)[0], bct.distance_bin, family)
        self.pair('efficiency_wei/efficiency_bin:global', A, bct.efficiency_wei, bct.efficiency_bin, family)
        self.assort_flags(A, family)
        if sym:
            self.binary_und(A, family, diag=diag)
            self.symmetric(A, family, diag=diag)
            case = {'pair': 'degrees_und:count', 'W': G9.strs(A)}
            ctx.case(case, nontrivial=True)
            try:
                d = call(bct.degrees_und, G9.npm(A)); tie_variants(case)
                ctx.check(same(d, o_degree_und(A)), 'degrees_und:count', 'degree is the number of nonzero entries of the column: %r vs %r' % (brief(d), o_degree_und(A)), case)
            except Exception as e:
                ctx.fail('degrees_und:raises', repr(e), case)

    def efficiency_spellings(self, A, family):
        """0/1 input: every documented spelling of `local` (efficiency_wei: False, 'global', True, 'local', 'original';
        efficiency_bin: False, True) -- shape (scalar / vector of length n) and value against the brute-force definition,
        hence wei == bin for each pair of corresponding spellings"""
        ctx, bct = self.ctx, self.bct
        n = len(A); M = G9.npm(A)
        og, ol = o_eff_global(A), o_eff_local(A, 1.0)
        calls = [('efficiency_wei', bct.efficiency_wei, False, 'g'), ('efficiency_wei', bct.efficiency_wei, 'global', 'g'),
                 ('efficiency_wei', bct.efficiency_wei, True, 'l'), ('efficiency_wei', bct.efficiency_wei, 'local', 'l'),
                 ('efficiency_bin', bct.efficiency_bin, False, 'g'), ('efficiency_bin', bct.efficiency_bin, True, 'l')]
        if ctx.evaluations % 3 == 0:
            calls.append(('efficiency_wei', bct.efficiency_wei, 'original', 'o'))
        for fn, f, sp, kind in calls:
            key = '%s[local=%r]' % (fn, sp)
            case = {'pair': key, 'W': G9.strs(A)}
            ctx.case(case, nontrivial=any(x != 0 for row in A for x in row)); ctx.count('spelling:' + key); ctx.count('family:' + family)
            try:
                with np.errstate(all='ignore'):
                    r = call(f, M.copy(), sp); tie_variants(case)
            except Exception as e:
                ctx.fail(key + ':raises', repr(e), case); continue
            r = np.asarray(r, dtype=float)
            if kind == 'g':
                ok = r.ndim == 0 and ((og is None and np.isnan(r)) or (og is not None and np.isfinite(r) and abs(float(r) - og) <= TOL * max(1.0, abs(og))))
                ctx.check(ok, key + ':global_value', 'expected the global efficiency (scalar) %r, got %r' % (og, r.tolist()), case)
            else:
                want = ol if kind == 'l' else o_eff_local(A, 1.0 / 3.0)
                ok = r.shape == (n,) and all(np.isfinite(g) and abs(g - e) <= TOL * max(1.0, abs(e)) for e, g in zip(want, r))
                ctx.check(ok, key + ':local_value', 'expected the local efficiency vector %r, got %r' % (want, r.tolist()), case)

    def binary_und(self, A, family, diag=False):
        """symmetric 0/1 input; diag=True: the matrix carries self-connections -- the same pairs (no theorem has a hypothesis
        on the diagonal since the repair 366dab6; before it clustering_coef_wu / _bd returned inf where clustering_coef_bu
        returns 0), without the C09-style model lines of the empty-diagonal stream (corr_diag runs the models there).
        The per-node clustering values must be finite on every input (C10_cc_visible_quotient)"""
        bct = self.bct
        if diag:
            self.pair('clustering_coef_wu/clustering_coef_bu', A, bct.clustering_coef_wu, bct.clustering_coef_bu, family, finite=True)
            self.pair('clustering_coef_bd/clustering_coef_bu', A, bct.clustering_coef_bd, bct.clustering_coef_bu, family, finite=True)
            self.pair('transitivity_wu/transitivity_bu', A, bct.transitivity_wu, bct.transitivity_bu, family)
            self.pair('strengths_und/degrees_und', A, bct.strengths_und, bct.degrees_und, family)
            self.pair('assortativity_wei/assortativity_bin', A, lambda M: bct.assortativity_wei(M, 0), lambda M: bct.assortativity_bin(M, 0), family)
            self.pair('transitivity_bd/transitivity_bu', A, bct.transitivity_bd, bct.transitivity_bu, family)
            return
        self.pair('clustering_coef_wu/clustering_coef_bu', A, bct.clustering_coef_wu, bct.clustering_coef_bu, family, finite=True)
        self.pair('transitivity_wu/transitivity_bu', A, bct.transitivity_wu, bct.transitivity_bu, family)
        s = self.pair('strengths_und/degrees_und', A, bct.strengths_und, bct.degrees_und, family)
        if s is not None:
            self.model('degrees_und', 'deg ' + enc_mat(A, enc_q) + ' 0', {'fn': 'degrees_und', 'W': G9.strs(A)}, s)
        self.pair('assortativity_wei/assortativity_bin', A, lambda M: bct.assortativity_wei(M, 0), lambda M: bct.assortativity_bin(M, 0), family)
        # symmetric 0/1 input: directed = undirected
        c = self.pair('clustering_coef_bd/clustering_coef_bu', A, bct.clustering_coef_bd, bct.clustering_coef_bu, family, finite=True)
        if c is not None and self.ctx.evaluations % 3 == 0:
            self.model('clustering_coef_bd', 'cc_bd ' + enc_mat(A, enc_q), {'fn': 'clustering_coef_bd', 'W': G9.strs(A)}, c)
        t = self.pair('transitivity_bd/transitivity_bu', A, bct.transitivity_bd, bct.transitivity_bu, family)
        if t is not None and self.ctx.evaluations % 3 == 0:
            self.model('transitivity_bd', 'trans ' + enc_mat(A, enc_q) + ' 1', {'fn': 'transitivity_bd', 'W': G9.strs(A)}, t)

    # ---------------------------------------------------------------- symmetric (weighted) input: directed = undirected
    def symmetric(self, W, family, diag=False):
        """diag=True: W carries self-connections (no theorem of this group has a hypothesis on the diagonal); the per-node
        model is then the one with the visible quotient (Model/ClusteringInf.v, inf = inf)"""
        bct = self.bct
        c = self.pair('clustering_coef_wd/clustering_coef_wu', W, bct.clustering_coef_wd, bct.clustering_coef_wu, family, finite=True)
        if c is not None and diag:
            case = {'fn': 'clustering_coef_wd', 'W': G9.strs(W)}
            if getattr(self, '_pv', None):
                case['_input_variant'] = self._pv
            self.lines.append('cc_o %s 1' % enc_mat(W, enc_q)); self.pend.append(('corr:cco:clustering_coef_wd', case, c))
        elif c is not None:
            self.model('clustering_coef_wd', 'cc_wd ' + enc_mat(W, enc_q), {'fn': 'clustering_coef_wd', 'W': G9.strs(W)}, c)
        t = self.pair('transitivity_wd/transitivity_wu', W, bct.transitivity_wd, bct.transitivity_wu, family)
        if t is not None:
            self.model('transitivity_wd', 'trans ' + enc_mat(W, enc_q) + ' 3', {'fn': 'transitivity_wd', 'W': G9.strs(W)}, t)
        d = self.pair('degrees_dir_in/degrees_und', W, lambda M: bct.degrees_dir(M)[0], bct.degrees_und, family)
        if d is not None:
            self.model('degrees_dir_in', 'deg ' + enc_mat(W, enc_q) + ' 1', {'fn': 'degrees_dir[0]', 'W': G9.strs(W)}, d)
        d = self.pair('degrees_dir_out/degrees_und', W, lambda M: bct.degrees_dir(M)[1], bct.degrees_und, family)
        if d is not None:
            self.model('degrees_dir_out', 'deg ' + enc_mat(W, enc_q) + ' 2', {'fn': 'degrees_dir[1]', 'W': G9.strs(W)}, d)
        self.pair('strengths_dir/2*strengths_und', W, bct.strengths_dir, lambda M: 2 * bct.strengths_und(M), family)

    # ---------------------------------------------------------------- documented to ignore weights
    def ignore_weights(self, W, directed, family):
        bct = self.bct
        n = len(W)
        self.ignores('degrees_dir', W, lambda M: tuple(bct.degrees_dir(M)), family)
        self.ignores('jdegree', W, lambda M: tuple(bct.jdegree(M)), family)
        self.ignores('density_dir', W, lambda M: tuple(bct.density_dir(M)), family)
        self.ignores('findwalks', W, lambda M: tuple(bct.findwalks(M)), family)
        self.ignores('reachdist', W, lambda M: tuple(bct.reachdist(M)), family)
        if n <= 4 and self.ctx.evaluations % 5 == 0:
            self.ignores('findpaths', W, lambda M: tuple(x for x in bct.findpaths(M, max(1, n - 1), np.arange(n)) if not isinstance(x, list)), family)
        if directed:
            for fl in (1, 2, 3, 4):
                self.ignores('assortativity_bin', W, lambda M, fl=fl: bct.assortativity_bin(M, fl), family)
            self.ignores('edge_nei_overlap_bd', W, lambda M: tuple(bct.edge_nei_overlap_bd(M)), family, tolerate=(ZeroDivisionError,))
        else:
            self.ignores('degrees_und', W, bct.degrees_und, family)
            self.ignores('density_und', W, lambda M: tuple(bct.density_und(M)), family)
            self.ignores('assortativity_bin', W, lambda M: bct.assortativity_bin(M, 0), family)
            self.ignores('edge_nei_overlap_bu', W, lambda M: tuple(bct.edge_nei_overlap_bu(M)), family, tolerate=(ZeroDivisionError,))


# ---------------------------------------------------------------- stress families: numeric range of walk / path counts (pairs only)
def stress_rng(ctx, salt=1):
    """a random state of its own for the stress families (derived from VERIF_SEED like ctx.nprng; the streams of the other
    generators stay what they were)"""
    return np.random.RandomState((ctx.seed * 7919 + int(ctx.pid[1:]) + 1000003 * salt + (500009 if ctx.escalated else 0)) % (2 ** 31))


def g_clique_chain(r, k, c, extra, one_way):
    """K_k, a chain of c nodes hanging off one of its nodes (one_way: pointing away from the block only), `extra` nodes forming a
    path of their own; labels permuted.  Walk counts inside the block grow like (k-1)^round while the end of the chain is only
    reached in round c+1."""
    n = k + c + extra
    A = np.zeros((n, n))
    A[:k, :k] = 1
    np.fill_diagonal(A, 0)
    prev = 0
    for i in range(k, k + c):
        A[prev, i] = 1
        if not one_way:
            A[i, prev] = 1
        prev = i
    for i in range(k + c, n - 1):
        A[i, i + 1] = A[i + 1, i] = 1
    p = [int(x) for x in r.permutation(n)]
    return A[np.ix_(p, p)], p


def g_braid(r, width, layers, directed):
    """end node - `layers` layers of `width` nodes, consecutive layers completely connected - end node; width**layers shortest
    routes between the two ends; labels permuted"""
    L_, n = [], 0
    for wd in [1] + [width] * layers + [1]:
        L_.append(list(range(n, n + wd)))
        n += wd
    A = np.zeros((n, n))
    for la, lb in zip(L_, L_[1:]):
        for a in la:
            for b in lb:
                A[a, b] = 1
                if not directed:
                    A[b, a] = 1
    p = [int(x) for x in r.permutation(n)]
    return A[np.ix_(p, p)], p


def stress_families(ctx, P):
    """0/1 matrices on which a weighted routine and its binary counterpart carry very different NUMBERS for the same answer:
    dense block + long tail (walk counts (k-1)^c > 3.4e38 in the matrix-power routines, none in Dijkstra) for distance_wei /
    distance_bin and the global efficiencies; braids with width^layers >= 2^63 shortest routes for the betweenness pairs.
    One of each per quick run; the size grid in the thorough tier (= the escalated pass on a changed tree, where this block
    runs first)."""
    bct = P.bct
    r = stress_rng(ctx)
    grid = [(8, 48), (8, 70), (10, 45), (12, 40), (12, 44), (14, 60), (16, 36), (20, 33)]
    if ctx.thorough:
        cc = [(k, c, (0, 2)[i % 2], bool(i % 3 == 1)) for i, (k, c) in enumerate(grid)]
        br = [(3, 41, False), (3, int(r.randint(42, 48)), True), (2, 63, True), (2, int(r.randint(64, 70)), False), (3, 20, False), (2, 33, True)]
    else:
        k, c = grid[int(r.randint(len(grid)))]
        cc = [(k, c, int(r.randint(0, 3)), bool(r.rand() < 0.4))]
        br = [[(3, int(r.randint(41, 45)), bool(r.rand() < 0.5)), (2, int(r.randint(63, 67)), bool(r.rand() < 0.5))][int(r.randint(2))]]
    for k, c, extra, one_way in cc:
        A, p = g_clique_chain(r, k, c, extra, one_way)
        case = {'family': 'clique+chain', 'k': k, 'c': c, 'extra': extra, 'one_way': one_way, 'perm': p,
                'construction': 'K_k on nodes 0..k-1, chain 0 - k - ... - k+c-1 (one_way: away from the block only), path k+c - ... - n-1; A = A[ix_(perm, perm)]'}
        P.pair_big('distance_wei/distance_bin', case, A, lambda M: bct.distance_wei(M)[0], bct.distance_bin, 'stress_clique_chain')
        P.pair_big('distance_wei_hops/distance_bin', case, A,
                   lambda M: (lambda DB: np.where(np.isinf(DB[0]), np.inf, DB[1]))(bct.distance_wei(M)), bct.distance_bin, 'stress_clique_chain')
        P.pair_big('efficiency_wei/efficiency_bin:global', case, A, bct.efficiency_wei, bct.efficiency_bin, 'stress_clique_chain')
    for w, l, directed in br:
        A, p = g_braid(r, w, l, directed)
        case = {'family': 'braid', 'width': w, 'layers': l, 'directed': directed, 'perm': p,
                'construction': 'layers of [1] + [width]*layers + [1] nodes numbered consecutively, consecutive layers completely connected (both directions unless directed); A = A[ix_(perm, perm)]'}
        P.pair_big('betweenness_wei/betweenness_bin', case, A, bct.betweenness_wei, bct.betweenness_bin, 'stress_braid')
        P.pair_big('edge_betweenness_wei/edge_betweenness_bin', case, A, lambda M: tuple(bct.edge_betweenness_wei(M)),
                   lambda M: tuple(bct.edge_betweenness_bin(M)), 'stress_braid')


def stress_only(ctx, bct):
    """development aid: the stress families alone"""
    stress_families(ctx, Pairs(ctx, bct))


def any_w(r):
    return F(int(r.choice([1, 2, 3, 5, 8, 12, 20])), 8)


def run(ctx):
    import bct
    import contextlib, io
    r = ctx.nprng
    P = Pairs(ctx, bct)
    sink = io.StringIO()
    # stress families (numeric range; pairs only): FIRST in the escalated pass of a changed tree (its time cap must not cut them
    # off), LAST otherwise (the first calls of every routine stay the small inputs of the main stream)
    if ctx.escalated:
        stress_families(ctx, P)
    # ---- the SOURCE binarises first (fail-closed AST fact; C10_binarize_first_suffices turns it into f(W) = f(binarize(W)))
    facts = {}
    for fn, param in BINARIZES_FIRST:
        ok, why = binarizes_first(getattr(bct, fn), param)
        facts[fn] = why
        case = {'pair': fn + ':binarizes_first', 'parameter': param}
        ctx.case(case, nontrivial=True); ctx.count('ast:binarizes_first')
        ctx.check(ok, fn + ':binarizes_first', 'the first statement of %s that reads %s is not `%s = binarize(%s...)`: %s' % (fn, param, param, param, why), case)
    ctx.extra['binarizes_first'] = facts
    with contextlib.redirect_stdout(sink):        # findpaths prints progress
        # ---- exhaustive small 0/1 graphs
        for n in range(1, ctx.scale(4, 5) + 1):
            for A in G9.all_und(n):
                A = [[F(x) for x in row] for row in A]
                P.binary_und(A, 'exhaustive_und'); P.binary_any(A, 'exhaustive_und')
        for n in range(1, ctx.scale(3, 4) + 1):
            for A in G9.all_dir(n):
                A = [[F(x) for x in row] for row in A]
                P.binary_any(A, 'exhaustive_dir')
        if not ctx.thorough:
            for A in itertools.islice(G9.all_und(5), 3, 1024, 29):
                A = [[F(x) for x in row] for row in A]
                P.binary_und(A, 'slice_und5'); P.binary_any(A, 'slice_und5')
            for A in itertools.islice(G9.all_dir(4), 5, 4096, 67):
                A = [[F(x) for x in row] for row in A]
                P.binary_any(A, 'slice_dir4')
        # ---- self-connections: every NONEMPTY 0/1 diagonal on the small graphs
        for n in range(1, ctx.scale(3, 4) + 1):
            for A in all_diag(G9.all_und, n):
                P.binary_und(A, 'exhaustive_und_diag', diag=True); P.binary_any(A, 'exhaustive_und_diag'); P.corr_diag(A, True)
        for n in range(1, ctx.scale(2, 3) + 1):
            for A in all_diag(G9.all_dir, n):
                P.binary_any(A, 'exhaustive_dir_diag'); P.corr_diag(A, False)
        if not ctx.thorough:
            for A in itertools.islice(all_diag(G9.all_und, 4), 7, 960, 41):
                P.binary_und(A, 'slice_und4_diag', diag=True); P.binary_any(A, 'slice_und4_diag'); P.corr_diag(A, True)
            for A in itertools.islice(all_diag(G9.all_dir, 3), 3, 448, 19):
                P.binary_any(A, 'slice_dir3_diag'); P.corr_diag(A, False)
        # the input that exposed inf vs 0 in clustering_coef_wu / _bd before 366dab6 (C10_selfloop_nonvacuous), and the audit's 6-node graph
        for A in ([[1, 1], [1, 0]], [[1]],
                  [[1, 1, 0, 0, 0, 0], [1, 0, 0, 0, 0, 1], [0, 0, 1, 1, 0, 1], [0, 0, 1, 1, 0, 0], [0, 0, 0, 0, 0, 1], [0, 1, 1, 0, 1, 1]]):
            A = [[F(x) for x in row] for row in A]
            P.binary_und(A, 'coq_witness_selfloop', diag=True); P.corr_diag(A, True)
        # ---- the inexpensive pairs on larger matrices, with and without self-connections
        for t in range(ctx.scale(8, 60)):
            n = int(r.randint(9, 17)); dens = float(r.choice([0.1, 0.25, 0.5]))
            A = G9.rand_und(r, n, dens)
            if t % 2:
                A = with_diag(r, A, 0.3)
            P.cheap(A, True, bool(t % 2), 'large_und' + ('_diag' if t % 2 else ''))
            D = G9.rand_dir(r, n, dens * 0.7)
            if not t % 2:
                D = with_diag(r, D, 0.3)
            P.cheap(D, False, not t % 2, 'large_dir' + ('' if t % 2 else '_diag'))
        # ---- random
        for t in range(ctx.scale(40, 400)):
            n = int(r.randint(2, 9)); dens = float(r.choice([0.2, 0.4, 0.7, 1.0]))
            A = G9.rand_und(r, n, dens)
            if t % 4 == 0:
                G9.isolate(r, A)
            P.binary_und(A, 'random_und'); P.binary_any(A, 'random_und')
            D = G9.rand_dir(r, n, dens * 0.7)
            P.binary_any(D, 'random_dir')
            # the same graphs with self-connections
            Ad = with_diag(r, A, float(r.choice([0.2, 0.6])))
            P.binary_und(Ad, 'random_und_diag', diag=True); P.binary_any(Ad, 'random_und_diag'); P.symmetric(Ad, 'binary_sym_diag', diag=True)
            Dd = with_diag(r, D, float(r.choice([0.2, 0.6])))
            P.binary_any(Dd, 'random_dir_diag')
            if t % 3 == 0:
                P.corr_diag(Ad, True); P.corr_diag(Dd, False)
            W = G9.rand_und(r, n, dens, G9.cube_w)
            if t % 4 == 1:
                G9.isolate(r, W)
            P.symmetric(W, 'weighted_sym'); P.symmetric(A, 'binary_sym')
            if t % 2 == 0:      # symmetric WEIGHTED input with weighted self-connections
                Wdg = [row[:] for row in W]
                for i in range(n):
                    if r.rand() < 0.4:
                        Wdg[i][i] = G9.cube_w(r)
                P.symmetric(Wdg, 'weighted_sym_diag', diag=True)
            # symmetric weights of BOTH signs (cuberoot keeps the sign; degrees count every nonzero entry)
            Wsg = [[(-x if (min(i, j) * 5 + max(i, j) * 3 + t) % 3 == 0 else x) for j, x in enumerate(row)] for i, row in enumerate(W)]
            P.symmetric(Wsg, 'signed_sym')
            if t % 2 == 0:      # links weaker than 1e-8 next to ordinary ones: still links, in both the directed and the undirected routine
                P.symmetric(G9.rand_und(r, n, dens, G9.mixed_cube_w), 'mixed_magnitude_sym')
            Tf, kind = G9.triangle_free(r, n, G9.cube_w if t % 2 else None)
            P.symmetric(Tf, 'trianglefree_' + kind)
            if not t % 2:
                P.binary_und(Tf, 'trianglefree_' + kind); P.binary_any(Tf, 'trianglefree_' + kind)
            # weights ignored
            Wu = G9.rand_und(r, n, dens, any_w)
            Wd = G9.rand_dir(r, n, dens * 0.7, any_w)
            P.ignore_weights(Wu, False, 'weighted_und'); P.ignore_weights(Wd, True, 'weighted_dir')
            if t % 3 == 1:      # weighted self-connections are ignored as well
                Wud = [row[:] for row in Wu]; Wdd = [row[:] for row in Wd]
                for i in range(n):
                    if r.rand() < 0.5:
                        Wud[i][i] = any_w(r)
                    if r.rand() < 0.5:
                        Wdd[i][i] = any_w(r)
                P.ignore_weights(Wud, False, 'weighted_und_diag'); P.ignore_weights(Wdd, True, 'weighted_dir_diag')
                P.corr_ignore(Wud, False); P.corr_ignore(Wdd, True)
            P.corr_weighted(Wu, False, False); P.corr_weighted(Wd, True, False)
            P.corr_ignore(Wu, False); P.corr_ignore(Wd, True)
            if t % 4 == 0:          # negative weights are ignored too
                sg = lambda M, sym: [[(-x if ((i * 7 + j * 3 + t) % 5 == 0 or (sym and (j * 7 + i * 3 + t) % 5 == 0)) else x) for j, x in enumerate(row)] for i, row in enumerate(M)]
                Wn = sg(Wu, True)
                Wn = [[Wn[min(i, j)][max(i, j)] for j in range(n)] for i in range(n)]      # keep it symmetric
                P.ignore_negative(Wn, False, 'negative_weights_und'); P.ignore_negative(sg(Wd, False), True, 'negative_weights_dir')
            P.corr_weighted(W, False, True)
            P.corr_weighted(G9.rand_dir(r, n, dens * 0.7, G9.cube_w), True, True)
        # every sign pattern on a triangle and on K4 minus an edge, two magnitudes: directed = undirected on signed symmetric input
        for n_, edges in ((3, [(0, 1), (1, 2), (0, 2)]), (4, [(0, 1), (1, 2), (0, 2), (2, 3), (1, 3)])):
            for sg in itertools.product((1, -1), repeat=len(edges)):
                for w in (F(1), F(27, 512)):
                    Wx = [[F(0)] * n_ for _ in range(n_)]
                    for (i, j), s_ in zip(edges, sg):
                        Wx[i][j] = Wx[j][i] = s_ * w
                    P.symmetric(Wx, 'signed_sym_exhaustive')
        # the input that exposed the `> 0` edge list of assortativity_bin (repaired)
        P.ignore_negative([[F(0), F(-2), F(1), F(0)], [F(-2), F(0), F(1), F(0)], [F(1), F(1), F(0), F(1)], [F(0), F(0), F(1), F(0)]], False, 'coq_witness')
        # exhaustive tiny weighted for the ignores clause
        vals = [F(0), F(3, 8), F(5, 2)]
        cells3 = [(i, j) for i in range(3) for j in range(3) if i != j]
        for t, ws in enumerate(itertools.product(vals, repeat=6)):
            if t % ctx.scale(9, 1):
                continue
            W = [[F(0)] * 3 for _ in range(3)]
            for (i, j), w in zip(cells3, ws):
                W[i][j] = w
            P.ignore_weights(W, True, 'exhaustive_weighted_dir3')
            if t % 7 == 0:
                P.corr_ignore(W, True)
            if all(W[i][j] == W[j][i] for i in range(3) for j in range(3)):
                P.ignore_weights(W, False, 'exhaustive_weighted_und3')

    if not ctx.escalated:
        stress_families(ctx, P)

    # ---- correspondence for the modelled routines (degree.py here; clustering/transitivity also in C09)
    res = run_model(ID, P.lines)
    ctx.model_cases = len(P.lines)
    for (fn, case, impl), m in zip(P.pend, res):
        if is_err(m):
            ctx.mismatch('model-error', m['error'], case); continue
        if fn.startswith('ign:'):
            _, kind, name = fn.split(':', 2)
            try:
                ok = cmp_ignore_model(kind, m, impl)
            except Exception as e:
                ok = False
            if not ok:
                ctx.mismatch(name, 'model and implementation differ', case, str(m)[:400], brief(impl) if not isinstance(impl, Exception) else repr(impl))
        elif fn.startswith('corr:'):
            _, kind, name = fn.split(':', 2)
            M = decode_model(kind, m)
            if kind == 'optq':
                ok = G9.sc_close(M, impl)
            elif M is None:
                ok = False                     # the fuelled loop of the model did not return
            elif kind == 'dwei':
                ok = same(M[0], impl[0]) and same(M[1], impl[1])
            else:
                ok = same(M, impl)
            if not ok:
                ctx.mismatch(name, 'model and implementation differ', case, brief(M) if M is not None else None, brief(impl))
        elif fn.startswith('transitivity'):
            M = None if m is None else dec_q(m)
            if not G9.sc_close(M, impl):
                ctx.mismatch(fn, 'model and implementation differ', case, str(M), float(impl))
        else:
            M = [dec_q(x) for x in m]
            if not G9.vec_close(M, impl):
                ctx.mismatch(fn, 'model and implementation differ', case, [str(x) for x in M], np.asarray(impl).tolist())
