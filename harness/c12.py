"""C12 — every path the library returns is a real path with the reported length.

Direct oracle: every node sequence returned by retrieve_shortest_path (on distance_wei_floyd output, each
transform) and by navigation_wu is checked edge by edge against the input matrix; lengths are re-summed;
reachability / true minimum come from the independent exact-h oracle of c03.py.  The extracted Coq models
(Model/Paths.v) are run on the same inputs and compared exactly.
"""
import math
from fractions import Fraction as F
import numpy as np
from common import *
import c03 as H3

ID = 'C12'
COQ_FILES = ['Model/Distance.v', 'Model/Paths.v', 'Model/PathsExt.v', 'Proofs/DistanceBase.v', 'Proofs/DistanceFloyd.v', 'Proofs/Paths.v',
             'Proofs/PathsFull.v', 'Proofs/DistanceHopsPath.v', 'Proofs/PathsNav.v', 'Properties/C12.v']
THEOREMS = ['C12_floyd_path_inv', 'C12_retrieve_valid', 'C12_retrieve_empty_iff', 'C12_retrieve_shortest',
            'C12_retrieve_diag', 'C12_retrieve_transforms', 'C12_nav_walk_valid', 'C12_nav_fail_all_inf',
            'C12_nav_one_per_pair', 'C12_nav_returns', 'C12_nav_all_valid', 'C12_nav_success_ratio',
            'C12_nav_step_greedy',
            'C12_retrieve_nodup', 'C12_nav_path_greedy', 'C12_nav_hops_bound', 'C12_nav_returns_und', 'C12_nav_raises_iff_small']
RULE = ('retrieve_shortest_path: all (s,t) on binary graphs (exhaustive all digraphs n<=3 quick / n<=4 thorough, all undirected '
        'n<=4 / n<=5) and on structured/random families n<=8 with tie-heavy lengths {1,2},{1,2,3}, lengths exact in binary64 where tolerance-based '
        'comparisons go wrong ({1..4}*2^-40; near-ties 2^20-1..2^21+3 as integers and scaled by 2^-20; inv on weights 2^28..2^30), inv transform (dyadic exact and '
        '{1,2,3} tolerance), log transform on 2^-k; one relabelled chain of 130-150 nodes (ids beyond int8); navigation_wu: undirected L with max_hops in '
        '{None,0,1,2,n,random}, directed L with max_hops in {0,1,2,n,random} (max_hops=None can loop forever on directed cycles: liveness is outside the '
        'property), L in {0/1, {1,2,3}, with a NONZERO DIAGONAL (self-connections), signed {-2,-1,1,2}, dyadic fractions}, D random symmetric integer nodal '
        'distances with ties (some asymmetric), whole rows of equal values, zeros off the diagonal, dyadic fractions; n = 1 (ZeroDivisionError expected); '
        'the model runs with exactly the PROVEN fuel (2n / max_hops+2); non-trivial = at least one non-empty / successful path; distinct by hash of (kind, matrices, max_hops)')
ASSUMES = ['the theorems are over exact rationals: on lengths that are NOT exact in binary64 (1/3, k*ln 2) rounding can separate exactly tied alternatives — one known finding (hops-pmat-tie) lives exactly there',
           'lengths / nodal distances are small integers or dyadic rationals (exact in binary64); transformed lengths compared with tolerance 1e-9',
           'zero diagonal for distance_wei_floyd inputs; strictly positive weights; log transform on weights in (0,1]',
           'navigation_wu: finite entries in L and D (nan / inf are outside the model: Q); directed input only with finite max_hops (termination for max_hops=None is proved for a symmetric support only)']
TRUSTED = ['-log is abstract in the theorems; the extracted run gets the table of floats NumPy computed']

INF = float('inf')
TIE_KEY = 'retrieve_shortest_path[rounded-lengths]:hops-pmat-tie'


def path_list(p):
    return [int(x) for x in np.ravel(p)]


def check_retrieve(ctx, bct, Wn, Lx, transform, case, exact, B_, tbl='0', trn=0, Wenc=None):
    """Wn: float array given to the library; Lx: exact lengths (0 = no edge, 'z' = zero-length edge for log)"""
    n = len(Lx)
    S, Hh, P = call(bct.distance_wei_floyd, Wn.copy(), transform=transform)
    if transform == 'log':
        E = H3.exact_h_zero(Lx)
        ln2 = math.log(2.0)
        dist = [[(d * ln2 if d != INF else INF) for d in row] for row in H3.dist_from_E(E)]
        def elen(a, b):
            return 0.0 if Lx[a][b] == 'z' else Lx[a][b] * ln2
        def isedge(a, b):
            return Lx[a][b] != 0
    else:
        E = H3.exact_h(Lx)
        dist = H3.dist_from_E(E)
        def elen(a, b):
            return Lx[a][b]
        def isedge(a, b):
            return Lx[a][b] != 0
    fn = 'retrieve_shortest_path' + ('[%s]' % transform if transform else '')
    nonempty = 0
    paths = []
    for s in range(n):
        for t in range(n):
            p = path_list(call(bct.retrieve_shortest_path, s, t, Hh, P))
            paths.append(p)
            if s == t:
                if p:
                    ctx.fail(fn + ':diag-empty', 'source = target = %d: hops is 0 but a path %s was returned' % (s, p), case)
                continue
            what = None
            if not exact and dist[s][t] != INF and H3.tie_signature(Hh, P, s, t, n, isedge, elen, dist[s][t]) is not None:
                q = H3.follow_pmat(P, s, t, n)
                ctx.fail(TIE_KEY, 'pair (%d,%d): returned %s; hops=%r but the route encoded by Pmat %s has %d edges '
                         '(equal-length alternatives separated by rounding), so following Pmat for hops steps %s'
                         % (s, t, p, float(Hh[s, t]), q, len(q) - 1, 'overshoots the target' if Hh[s, t] > len(q) - 1 else 'stops short of the target'), case)
                nonempty += 1
                continue
            if dist[s][t] == INF:
                if p:
                    what = ('empty-iff-unreachable', 'target unreachable but a path %s was returned' % p)
            elif not p:
                what = ('empty-iff-unreachable', 'target reachable (distance %s) but the path is empty' % dist[s][t])
            else:
                nonempty += 1
                if p[0] != s or p[-1] != t:
                    what = ('endpoints', 'path %s does not go from %d to %d' % (p, s, t))
                elif any(not (0 <= a < n) for a in p):
                    what = ('nodes', 'path %s leaves the node set' % p)
                elif any(not isedge(a, b) for a, b in zip(p, p[1:])):
                    what = ('existing-connections', 'path %s uses a missing connection' % p)
                elif len(p) - 1 != Hh[s, t]:
                    what = ('hop-count', 'path %s has %d hops, reported %r' % (p, len(p) - 1, float(Hh[s, t])))
                else:
                    tot = sum(elen(a, b) for a, b in zip(p, p[1:]))
                    if not H3.close(abs(S[s, t]), tot, exact):
                        what = ('total-length', 'path %s has length %s, reported %r' % (p, tot, float(S[s, t])))
                    elif not H3.close(tot, dist[s][t], exact):
                        what = ('is-shortest', 'path %s has length %s, true minimum %s' % (p, tot, dist[s][t]))
            if what:
                ctx.fail(fn + ':' + what[0], 'pair (%d,%d): %s' % (s, t, what[1]), case)
    ctx.case(case, nontrivial=nonempty > 0)
    if B_ is not None:
        B_.add('retrieve %d %s %s' % (trn, Wenc, tbl), 'retrieve', case, (paths, exact))
    return nonempty


def do_retrieve_long(ctx, bct, n):
    """one long chain (n > 127 nodes, randomly relabelled, a few chords): node ids and hop counts beyond the range of a narrow
    integer dtype; sampled (s,t) pairs judged by BFS on the support (unit lengths)"""
    r = ctx.nprng
    perm = [int(x) for x in r.permutation(n)]
    A = np.zeros((n, n))
    for k in range(n - 1):
        A[perm[k], perm[k + 1]] = A[perm[k + 1], perm[k]] = 1
    for _ in range(3):
        a, b = int(r.randint(n)), int(r.randint(n))
        if a != b:
            A[a, b] = A[b, a] = 1
    case = {'kind': 'long-chain', 'n': n, 'edges': [[int(a), int(b)] for a, b in np.argwhere(np.triu(A) != 0)]}
    ctx.count('retrieve:long-chain')
    S, Hh, P = call(bct.distance_wei_floyd, A.copy(), _t=60.0)
    dist = H3.bfs_all_np(A != 0)
    ok = 0
    pairs = [(perm[0], perm[n - 1]), (perm[n - 1], perm[0])] + [(int(r.randint(n)), int(r.randint(n))) for _ in range(40)]
    for s, t in pairs:
        if s == t:
            continue
        try:
            p = path_list(call(bct.retrieve_shortest_path, s, t, Hh, P))
        except Timeout:
            raise
        except Exception as e:
            ctx.fail('retrieve_shortest_path:returns', 'pair (%d,%d) on a %d-node chain: raises %s: %s' % (s, t, n, type(e).__name__, str(e)[:120]), case)
            break
        what = None
        if not p or p[0] != s or p[-1] != t:
            what = ('endpoints', 'path %s... does not go from %d to %d' % (p[:6], s, t))
        elif any(not (0 <= a < n) for a in p):
            what = ('nodes', 'path leaves the node set: %s' % [a for a in p if not (0 <= a < n)][:5])
        elif any(A[a, b] == 0 for a, b in zip(p, p[1:])):
            what = ('existing-connections', 'path uses a missing connection')
        elif len(p) - 1 != Hh[s, t] or len(p) - 1 != dist[s, t] or S[s, t] != dist[s, t]:
            what = ('hop-count', 'path has %d hops, reported hops %r, SPL %r, BFS distance %r' % (len(p) - 1, float(Hh[s, t]), float(S[s, t]), float(dist[s, t])))
        else:
            ok += 1
        if what:
            ctx.fail('retrieve_shortest_path:' + what[0], 'pair (%d,%d) on a %d-node chain: %s' % (s, t, n, what[1]), case)
    ctx.case(case, nontrivial=ok > 0)


def do_lengths(ctx, bct, W, fam, B_, with_model=True):
    case = {'kind': 'lengths', 'L': [[(x if isinstance(x, int) else str(x)) for x in row] for row in W]}
    ctx.count('retrieve:' + fam.split('+')[0]); ctx.count('retrieve:n=%d' % len(W))
    check_retrieve(ctx, bct, H3.npm(W), W, None, case, True, B_ if with_model else None, Wenc=enc_mat(W, enc_q))


def do_inv(ctx, bct, W, exact, B_):
    case = {'kind': 'weights-inv', 'W': [[str(x) for x in row] for row in W]}
    L = [[(F(1) / F(x) if x != 0 else 0) for x in row] for row in W]
    ctx.count('retrieve:inv-' + ('exact' if exact else 'tol'))
    check_retrieve(ctx, bct, H3.npm(W), L, 'inv', case, exact, B_, trn=1, Wenc=enc_mat(W, enc_q))


def do_log(ctx, bct, W, B_):
    case = {'kind': 'weights-log', 'W': [[str(x) for x in row] for row in W]}
    K = [[(0 if x == 0 else ('z' if x == 1 else int(round(-math.log2(float(x)))))) for x in row] for row in W]
    vals = sorted({x for row in W for x in row if x != 0})
    tbl = ' '.join([str(len(vals))] + [enc_q(v) + ' ' + enc_q(F(-math.log(float(v))) if v != 1 else F(0)) for v in vals])
    ctx.count('retrieve:log')
    check_retrieve(ctx, bct, H3.npm(W), K, 'log', case, False, B_, tbl=tbl, trn=2, Wenc=enc_mat(W, enc_q))


# ---------------------------------------------------------------- navigation
def greedy_next(L, D, n, c, j):
    """the step np.argmin takes from c towards j: the neighbour of c with the smallest (D[j][v], v); None at a dead end"""
    nb = [v for v in range(n) if L[c][v] != 0]
    if not nb:
        return None
    return min(nb, key=lambda v: (D[j][v], v))


def do_nav(ctx, bct, L, D, mh, fam, B_):
    n = len(L)
    Ln, Dn = H3.npm(L), H3.npm(D)
    case = {'kind': 'navigation', 'L': L, 'D': D, 'max_hops': mh}
    ctx.count('nav:' + fam.split('+')[0]); ctx.count('nav:max_hops=%s' % mh); ctx.count('nav:n=%d' % n)
    # fuel of the model = the PROVEN bounds: 2n for max_hops=None on a symmetric support (C12_nav_returns_und), max_hops+2 otherwise (C12_nav_returns)
    fuel = 2 * n if mh is None else mh + 2
    line = 'navx %d %s %s %s' % (fuel, enc_mat(L, enc_q), enc_mat(D, enc_q), ('1 %d' % mh) if mh is not None else '0')
    try:
        sr, PLb, PLw, PLd, paths = call(bct.navigation_wu, Ln.copy(), Dn.copy(), max_hops=mh, _t=5.0)
    except Timeout:
        ctx.count('nav:timeout')
        ctx.fail('navigation_wu:terminates', 'no result within 5 s on an input where termination is guaranteed (undirected or finite max_hops)', case)
        ctx.case(case, nontrivial=False)
        return
    except ZeroDivisionError:
        # n <= 1: `(len(inf_ixes) - n)/(n**2 - n)` on Python ints; the model's outcome must be NavRaises (C12_nav_raises_iff_small)
        ctx.case(case, nontrivial=False)
        ctx.count('nav:raises-ZeroDivisionError')
        ctx.check(n <= 1, 'navigation_wu:returns', 'ZeroDivisionError with n=%d >= 2 nodes' % n, case)
        B_.add(line, 'nav', case, 'ZeroDivisionError')
        return
    succ = 0
    fn = 'navigation_wu'
    ctx.check(n >= 2, fn + ':small-n', 'n=%d: returned sr=%r where n**2-n = 0 (expected the ZeroDivisionError of the int division)' % (n, sr), case)
    for i in range(n):
        for j in range(n):
            if i == j:
                if not (np.isinf(PLb[i, i]) and np.isinf(PLw[i, i]) and np.isinf(PLd[i, i])):
                    ctx.fail(fn + ':diagonal', 'diagonal entry (%d,%d) not infinite' % (i, i), case)
                continue
            what = None
            p = paths.get((i, j))
            if p is None:
                ctx.fail(fn + ':paths-complete', 'no path recorded for pair (%d,%d)' % (i, j), case)
                continue
            p = [int(x) for x in p]
            infs = [bool(np.isinf(PLb[i, j])), bool(np.isinf(PLw[i, j])), bool(np.isinf(PLd[i, j]))]
            if not p or p[0] != i:
                what = ('starts-at-source', 'path %s does not start at %d' % (p, i))
            elif any(not (0 <= a < n) for a in p):
                what = ('nodes', 'path %s leaves the node set' % p)
            elif any(L[a][b] == 0 for a, b in zip(p, p[1:])):
                what = ('existing-connections', 'path %s uses a missing connection' % p)
            elif any(infs) != all(infs):
                what = ('failure-all-infinite', 'reported (%r,%r,%r): infinite in some but not all three' % (float(PLb[i, j]), float(PLw[i, j]), float(PLd[i, j])))
            elif (p[-1] == j) != (not infs[0]):
                what = ('failure-all-infinite', 'path %s %s the target but reported hop count is %r' % (p, 'reaches' if p[-1] == j else 'does not reach', float(PLb[i, j])))
            elif any(greedy_next(L, D, n, a, j) != b for a, b in zip(p, p[1:])):
                # C12_nav_path_greedy: every step goes to THE neighbour closest to the target (first minimum)
                a, b = next((a, b) for a, b in zip(p, p[1:]) if greedy_next(L, D, n, a, j) != b)
                what = ('greedy-step', 'path %s: the step %d -> %d is not the greedy one (the neighbour of %d closest to %d, first minimum, is %s)'
                        % (p, a, b, a, j, greedy_next(L, D, n, a, j)))
            elif any(b == (p[k - 1] if k > 0 else p[0]) or (mh is not None and k > mh) for k, (a, b) in enumerate(zip(p, p[1:]))):
                # a recorded step is never one that stops the loop: not a return to the previous node (the source itself at
                # the first step), not beyond max_hops (the k-th step, k from 0, needs k <= max_hops)
                k = next(k for k, (a, b) in enumerate(zip(p, p[1:])) if b == (p[k - 1] if k > 0 else p[0]) or (mh is not None and k > mh))
                what = ('step-admissible', 'path %s: step %d (%d -> %d) should have ended the navigation (return to the previous node%s)'
                        % (p, k, p[k], p[k + 1], '' if mh is None else ' or more than max_hops=%d steps before it' % mh))
            elif not infs[0]:
                succ += 1
                if len(p) - 1 != PLb[i, j]:
                    what = ('hop-count', 'path %s has %d hops, reported %r' % (p, len(p) - 1, float(PLb[i, j])))
                elif sum(L[a][b] for a, b in zip(p, p[1:])) != PLw[i, j]:
                    what = ('connection-length', 'path %s: summed L %s, reported %r' % (p, sum(L[a][b] for a, b in zip(p, p[1:])), float(PLw[i, j])))
                elif sum(D[a][b] for a, b in zip(p, p[1:])) != PLd[i, j]:
                    what = ('nodal-distance', 'path %s: summed D %s, reported %r' % (p, sum(D[a][b] for a, b in zip(p, p[1:])), float(PLd[i, j])))
                elif mh is not None and len(p) - 1 > mh + 1:
                    # C12_nav_hops_bound: `pl_bin > max_hops` is tested before the increment -> at most max_hops + 1 hops
                    what = ('max-hops-bound', 'successful path %s has %d hops with max_hops=%d (at most max_hops+1 can succeed)' % (p, len(p) - 1, mh))
            else:
                # a failed navigation stopped for one of the three reasons: dead end, back-step, beyond max_hops
                c = p[-1]
                nxt = greedy_next(L, D, n, c, j)
                prev = p[-2] if len(p) > 1 else p[0]
                if not (nxt is None or nxt == prev or (mh is not None and len(p) - 1 > mh)):
                    what = ('failure-justified', 'path %s stops at %d although the greedy step to %d is neither a back-step nor beyond max_hops=%s' % (p, c, nxt, mh))
            if what:
                ctx.fail(fn + ':' + what[0], 'pair (%d,%d): %s' % (i, j, what[1]), case)
    if n >= 2:
        want = F(succ, n * n - n)
        ctx.check(abs(float(sr) - float(want)) <= 1e-12, fn + ':success-ratio', 'sr=%r, successes/(n^2-n)=%s' % (float(sr), want), case)
    ctx.case(case, nontrivial=succ > 0)
    B_.add(line, 'nav', case, (float(sr), PLb, PLw, PLd, paths))


def gen_D(ctx, n):
    r = ctx.nprng
    kind = int(r.randint(0, 6))
    if kind == 0:      # many ties
        D = [[0 if i == j else int(r.randint(1, 3)) for j in range(n)] for i in range(n)]
    elif kind == 1:    # positions on a line (metric)
        pos = [int(x) for x in r.permutation(n)]
        D = [[abs(pos[i] - pos[j]) for j in range(n)] for i in range(n)]
        return D, 'line'
    elif kind == 2:    # grid points, squared euclidean (integers)
        pts = [(int(r.randint(0, 4)), int(r.randint(0, 4))) for _ in range(n)]
        D = [[(a[0] - b[0]) ** 2 + (a[1] - b[1]) ** 2 for b in pts] for a in pts]
        return D, 'grid'
    elif kind == 3:    # some rows entirely equal (every neighbour ties: the first index must win), zero distances off the diagonal
        D = [[0 if i == j else int(r.randint(0, 4)) for j in range(n)] for i in range(n)]
        for i in range(n):
            if r.rand() < 0.4:
                c = int(r.randint(0, 3))
                D[i] = [c] * n
        return D, 'equal-rows'
    elif kind == 4:    # dyadic fractions (exact in binary64), near-ties
        D = [[0 if i == j else F(int(r.randint(1, 9)), 8) for j in range(n)] for i in range(n)]
        for i in range(n):
            for j in range(i):
                D[i][j] = D[j][i]
        return D, 'dyadic'
    else:
        D = [[0 if i == j else int(r.randint(1, 7)) for j in range(n)] for i in range(n)]
    if r.rand() < 0.85:
        for i in range(n):
            for j in range(i):
                D[i][j] = D[j][i]
        return D, 'sym'
    return D, 'asym'


def gen_L_variants(ctx, A, und):
    """length matrices on the support of A beyond {0/1, {1,2,3}}: self-connections (a nonzero DIAGONAL: the back-step test
    `next_node == last_node` can fire at the very first step, where last_node = curr_node), signed lengths (`L != 0`, not `> 0`),
    dyadic fractions.  The support stays symmetric when A is."""
    r = ctx.nprng
    n = len(A)
    out = []
    Ls = [row[:] for row in H3.weighted(ctx, A, [1, 2, 3])]
    for i in range(n):
        if r.rand() < 0.5:
            Ls[i][i] = int(r.randint(1, 4))
    out.append(('selfloops', Ls))
    Lg = [row[:] for row in H3.weighted(ctx, A, [-2, -1, 1, 2])]
    if r.rand() < 0.5:
        k = int(r.randint(n)); Lg[k][k] = -1
    out.append(('signed', Lg))
    out.append(('dyadic', H3.weighted(ctx, A, [F(1, 4), F(1, 2), F(3, 4), F(5, 2)])))
    return out


# ---------------------------------------------------------------- correspondence
def compare_models(ctx, B_):
    res = run_model(ID, B_.lines)
    ctx.model_cases = len(B_.lines)
    for (kind, case, impl), m in zip(B_.pend, res):
        if is_err(m):
            ctx.mismatch('model-error:' + kind, m['error'], case); continue
        if kind == 'retrieve':
            paths, exact = impl
            M = [[int(x) for x in p] for p in m]
            if M == paths:
                ctx.count('retrieve:model-identical')
            elif exact:
                ctx.mismatch('retrieve_shortest_path', 'model and implementation return different node sequences', case, M, paths)
            else:
                ctx.count('retrieve:tie-order-differs(rounding)')
        elif kind == 'nav':
            code, m = int(m[0]), m[1]
            if code == 1:
                ctx.mismatch('model-fuel:nav', 'model ran out of the PROVEN fuel (2n for max_hops=None on a symmetric support, max_hops+2 otherwise)', case)
                ctx.count('fuel_exhausted'); continue
            if code == 0 or impl == 'ZeroDivisionError':
                if not (code == 0 and impl == 'ZeroDivisionError'):
                    ctx.mismatch('navigation_wu', 'model outcome %s, implementation %s' % (('NavRaises', '', 'NavDone')[code], 'raised ZeroDivisionError' if impl == 'ZeroDivisionError' else 'returned'), case)
                else:
                    ctx.count('nav:model-raises-too')
                continue
            sr, PLb, PLw, PLd, paths = impl
            n = PLb.shape[0]
            msr = dec_q(m[0])
            ok = abs(float(msr) - sr) <= 1e-12
            pairs = [(i, j) for i in range(n) for j in range(n) if i != j]
            ok = ok and len(m[1]) == len(pairs)
            if ok:
                for (i, j), (mp, ml) in zip(pairs, m[1]):
                    if [int(x) for x in mp] != [int(x) for x in paths[(i, j)]]:
                        ok = False; break
                    # the three reported lengths are compared one by one (None = inf)
                    b, (w, d) = ml
                    mb = INF if b is None else int(b)
                    mw = INF if w is None else float(dec_q(w))
                    md = INF if d is None else float(dec_q(d))
                    if not (mb == PLb[i, j] and mw == PLw[i, j] and md == PLd[i, j]):
                        ok = False; break
            if not ok:
                ctx.mismatch('navigation_wu', 'model and implementation differ (sr, a path, or a reported length)', case,
                             [str(msr), m[1]], [sr, {str(k): v for k, v in paths.items()}, PLb, PLw, PLd])


def run(ctx):
    import bct
    B_ = H3.Batch()
    r = ctx.nprng
    # ---- retrieve_shortest_path: exhaustive binary slice (every pair has many equal-length alternatives)
    nd = ctx.scale(3, 4)
    for n in range(2, nd + 1):
        for A in H3.all_digraphs(n):
            do_lengths(ctx, bct, A, 'exhaustive_dir', B_, with_model=(n <= 3 or ctx.thorough))
    if not ctx.thorough:
        G4 = list(H3.all_digraphs(4))
        for ix in r.choice(len(G4), 250, replace=False):
            do_lengths(ctx, bct, G4[int(ix)], 'exhaustive_dir_sample4', B_)
    nu = ctx.scale(4, 5)
    for n in range(2, nu + 1):
        for A in H3.all_graphs(n):
            do_lengths(ctx, bct, A, 'exhaustive_und', B_)
    # ---- pinned witnesses of the known rounding-tie defect (found by this harness, seeds 1 and 2)
    for Wt in H3.WITNESS_INV:
        do_inv(ctx, bct, [[F(x) for x in row] for row in Wt], False, B_)
    for Wt in H3.WITNESS_LOG:
        do_log(ctx, bct, [[F(x) for x in row] for row in Wt], B_)
    # ---- structured + random, tie-heavy weights, transforms
    for rep in range(ctx.scale(2, 14)):
        for n in range(2, 9):
            for fam, A in H3.families(ctx, n):
                do_lengths(ctx, bct, A, fam, B_)
                for vals in ([1, 2], [1, 2, 3]):
                    do_lengths(ctx, bct, H3.weighted(ctx, A, vals), fam, B_)
                if n >= 3:      # tiny dyadic scale / large near-ties (exact in binary64; tolerance-based comparisons go wrong there)
                    sf, vals = H3.SCALE_FAMS[(rep + n + len(fam)) % 3]
                    do_lengths(ctx, bct, H3.weighted(ctx, A, vals), sf, B_)
                if n <= 7:
                    do_inv(ctx, bct, H3.weighted(ctx, A, [F(1), F(1, 2), F(1, 4)]), True, B_)
                    do_inv(ctx, bct, H3.weighted(ctx, A, [F(1), F(2), F(3)]), False, B_)
                    if n >= 3 and (rep + n) % 2 == 0:      # lengths 1/w = 2^-30, 2^-29, 2^-28 (exact)
                        do_inv(ctx, bct, H3.weighted(ctx, A, [F(2 ** 30), F(2 ** 29), F(2 ** 28)]), True, B_)
                    do_log(ctx, bct, H3.weighted(ctx, A, [F(1), F(1, 2), F(1, 4), F(1, 8)]), B_)
                # ---- navigation
                und = all(A[i][j] == A[j][i] for i in range(n) for j in range(n))
                Lw = H3.weighted(ctx, A, [1, 2, 3]) if r.rand() < 0.6 else A
                D, dk = gen_D(ctx, n)
                ctx.count('nav:D-' + dk)
                for mh in ((None, 1, 2, n) if und else (1, 2, n)):
                    do_nav(ctx, bct, Lw, D, mh, fam, B_)
                # self-connections / signed / fractional lengths, max_hops = 0, further nodal-distance kinds
                for lk, Lv in gen_L_variants(ctx, A, und):
                    D2, dk2 = gen_D(ctx, n)
                    ctx.count('nav:L-' + lk); ctx.count('nav:D-' + dk2)
                    mhs = [0, int(r.randint(1, n + 2))] + ([None] if und else [])
                    for mh in mhs:
                        do_nav(ctx, bct, Lv, D2, mh, fam, B_)
    # ---- navigation: all undirected graphs n<=4 x two nodal distance matrices
    for n in range(2, ctx.scale(4, 5) + 1):
        for A in H3.all_graphs(n):
            for _ in range(ctx.scale(1, 2)):
                D, dk = gen_D(ctx, n)
                do_nav(ctx, bct, A, D, None if r.rand() < 0.7 else int(r.randint(1, n + 1)), 'exhaustive_und', B_)
    # ---- one chain of more than 127 nodes (ids / hop counts beyond int8)
    do_retrieve_long(ctx, bct, int(r.randint(130, 150)))
    # ---- n = 1: the success ratio divides by n**2 - n = 0 on Python ints (ZeroDivisionError; model outcome NavRaises)
    for L1 in ([[0]], [[2]]):
        for mh in (None, 0, 3):
            do_nav(ctx, bct, L1, [[0]], mh, 'single-node', B_)
    compare_models(ctx, B_)
